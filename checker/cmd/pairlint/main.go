// pairlint: exploratory listing for the counterpart rule (see rules/counterpart.go); not a registered check.
package main

import (
	"fmt"
	"os"

	"lalverif/internal/model"
	"lalverif/internal/rules"
)

func main() {
	repo := "/repo"
	if len(os.Args) > 1 {
		repo = os.Args[1]
	}
	p := model.Load(repo)
	for _, h := range rules.CounterpartHits(p) {
		fmt.Println(h)
	}
}
