// lalcheck decides the structural clauses of properties C01..C20 of /verif/properties.jsonl
// on /repo's current working tree by static analysis only (go/types + go/ssa + call graph).
package main

import (
	"flag"
	"fmt"
	"os"
	"path/filepath"
	"runtime/debug"
	"strconv"
	"strings"

	"golang.org/x/tools/go/ssa"

	"lalverif/internal/model"
	"lalverif/internal/report"
	"lalverif/internal/rules"
)

func main() {
	prop := flag.String("prop", "", "property id (C01..C20)")
	tier := flag.String("tier", "", "quick|thorough (default: $VERIF_TIER or quick)")
	repo := flag.String("repo", "/repo", "path to the lal working tree")
	out := flag.String("out", "/verif/evidence", "evidence directory")
	tables := flag.String("tables", "/verif/tables", "tables directory")
	variants := flag.String("variants", "/verif/selftest/variants", "one-hunk variants used by the thorough tier's mutation audit")
	seed := flag.Int("seed", -1, "recorded in the evidence; no rule makes a random choice")
	list := flag.Bool("list", false, "list implemented properties")
	explain := flag.String("explain", "", "print a violations file")
	dump := flag.String("dump", "", "debug: print SSA of pkg:Type.method or pkg:func (with anonymous functions)")
	genAnchors := flag.Bool("gen-anchors", false, "record the fingerprints of every anchor the property's rules resolve into <tables>/anchors.json (run on the reference tree)")
	flag.Parse()
	model.AnchorsPath = filepath.Join(*tables, "anchors.json")
	model.RecordAnchors = *genAnchors
	if *list {
		for _, id := range rules.IDs() {
			fmt.Println(id)
		}
		return
	}
	if *explain != "" {
		b, err := os.ReadFile(*explain)
		if err != nil {
			fmt.Fprintln(os.Stderr, err)
			os.Exit(2)
		}
		os.Stdout.Write(b)
		return
	}
	if *dump != "" {
		p := model.Load(*repo)
		parts := strings.SplitN(*dump, ":", 2)
		var fn *ssa.Function
		if i := strings.Index(parts[1], "."); i >= 0 {
			fn = p.Method(parts[0], parts[1][:i], parts[1][i+1:])
		} else {
			fn = p.Func(parts[0], parts[1])
		}
		for _, f := range model.WithAnons(fn) {
			f.WriteTo(os.Stdout)
		}
		return
	}
	if *tier == "" {
		*tier = os.Getenv("VERIF_TIER")
	}
	if *tier != "thorough" {
		*tier = "quick"
	}
	if *seed < 0 {
		*seed = 0
		if s, err := strconv.Atoi(os.Getenv("VERIF_SEED")); err == nil {
			*seed = s
		}
	}
	f := rules.Get(*prop)
	if f == nil {
		fmt.Fprintf(os.Stderr, "UNDECIDED: no rules for property %q\n", *prop)
		os.Exit(2)
	}
	code := run(*prop, *tier, *repo, *out, *tables, *variants, *seed, f)
	if *genAnchors {
		if err := model.SaveAnchors(model.AnchorsPath); err != nil {
			fmt.Fprintln(os.Stderr, err)
			os.Exit(2)
		}
	}
	os.Exit(code)
}

func run(prop, tier, repo, out, tables, variants string, seed int, f rules.PropFunc) (code int) {
	defer func() {
		if r := recover(); r != nil {
			if u, ok := r.(model.Undecided); ok {
				fmt.Fprintf(os.Stderr, "UNDECIDED property=%s: %s\n", prop, u.Msg)
			} else {
				fmt.Fprintf(os.Stderr, "UNDECIDED property=%s: internal panic: %v\n%s\n", prop, r, debug.Stack())
			}
			code = 2
		}
	}()
	t, err := report.LoadTables(tables)
	if err != nil {
		fmt.Fprintf(os.Stderr, "UNDECIDED: tables: %v\n", err)
		return 2
	}
	res := report.New(prop, tier, seed)
	p := model.Load(repo)
	res.Count("packages_loaded", len(p.Pkgs))
	res.AllFuncs = map[string]bool{}
	res.StaticCallers = map[string]map[string]bool{}
	var lalNames []string
	for _, fn := range p.AllFuncs() {
		res.AllFuncs[model.FnName(fn)] = true
		if !model.IsLal(fn) {
			continue
		}
		lalNames = append(lalNames, model.FnName(fn))
		for _, ci := range model.AllCalls(fn) {
			if ce := ci.Common().StaticCallee(); ce != nil && model.IsLal(ce) {
				n := model.FnName(ce)
				if res.StaticCallers[n] == nil {
					res.StaticCallers[n] = map[string]bool{}
				}
				top := fn
				for top.Parent() != nil {
					top = top.Parent()
				}
				res.StaticCallers[n][model.FnName(top)] = true
			}
		}
	}
	if model.RecordAnchors {
		model.RecordAllFuncs(lalNames)
	} else {
		res.RefFuncs = model.RefFuncs()
	}
	f(p, res)
	for _, rn := range model.Renamed {
		fmt.Printf("ANCHOR-RENAMED %s\n", rn)
	}
	res.Count("anchors_resolved_by_fingerprint", len(model.Renamed))
	if tier == "thorough" {
		res.Rule("THOROUGH", "the property's rules also hold on the program as built for GOOS=windows and for GOARCH=386 (build-tagged files, other word size)")
		res.Rule("AUDIT", "mutation audit of the checker: each one-hunk variant kept under selftest/variants for this property is applied to a scratch copy of the tree and must be reported; behaviour-preserving ok_ variants must stay silent (informational: it validates the check, it is not a verdict on the tree)")
		nViolBefore := res.Violations(t)
		thoroughConfigs(prop, repo, res)
		if nViolBefore == 0 {
			thoroughAudit(prop, repo, variants, res)
		}
	}
	return res.Finish(t, out)
}
