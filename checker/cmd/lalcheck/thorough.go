package main

import (
	"encoding/json"
	"fmt"
	"os"
	"os/exec"
	"path/filepath"
	"sort"
	"strings"
	"sync"

	"lalverif/internal/report"
)

// The thorough tier adds, to the quick run on /repo's tree:
//  1. the same rules on the program as built for other targets (GOOS=windows, GOARCH=386), so
//     that build-tagged files and the other word size are covered;
//  2. a mutation audit: every one-hunk variant kept for the property under
//     selftest/variants is applied to a scratch copy of the tree (removed afterwards) and the
//     check is re-run on it in a sub-process; a variant that is not reported (or a
//     behaviour-preserving `ok_` variant that is reported) is listed in the evidence.
//
// Everything is still static analysis of source text; nothing of lal is executed.

type subViolations struct {
	Violations []struct {
		Rule   string `json:"rule"`
		Key    string `json:"key"`
		Pos    string `json:"pos"`
		Detail string `json:"detail"`
	} `json:"violations"`
}

func self() string {
	if p, err := os.Executable(); err == nil {
		return p
	}
	return os.Args[0]
}

func runSub(prop, repo, outDir string, env []string) (int, string) {
	cmd := exec.Command(self(), "-prop", prop, "-tier", "quick", "-repo", repo, "-out", outDir)
	cmd.Env = append(os.Environ(), env...)
	b, err := cmd.CombinedOutput()
	code := 0
	if err != nil {
		if ee, ok := err.(*exec.ExitError); ok {
			code = ee.ExitCode()
		} else {
			code = 2
		}
	}
	return code, string(b)
}

func thoroughConfigs(prop, repo string, res *report.Result) {
	for _, cfg := range [][2]string{{"windows", "amd64"}, {"linux", "386"}} {
		tmp, err := os.MkdirTemp("", "lalcheck-cfg-")
		if err != nil {
			res.Note("THOROUGH", "config|"+cfg[0]+"/"+cfg[1], "", "skipped: "+err.Error())
			continue
		}
		code, out := runSub(prop, repo, tmp, []string{"GOOS=" + cfg[0], "GOARCH=" + cfg[1], "CGO_ENABLED=0", "VERIF_TIER=quick"})
		name := cfg[0] + "/" + cfg[1]
		switch code {
		case 0:
			res.Ok("THOROUGH", "config|"+name, "", "same rules hold on the program built for "+name)
		case 1:
			var sv subViolations
			if b, err := os.ReadFile(filepath.Join(tmp, prop+".violations.json")); err == nil {
				_ = json.Unmarshal(b, &sv)
			}
			for _, v := range sv.Violations {
				res.Bad(v.Rule, strings.TrimPrefix(v.Key, v.Rule+"|")+"@"+name, v.Pos, v.Detail+" [build target "+name+"]")
			}
			if len(sv.Violations) == 0 {
				res.Bad("THOROUGH", "config|"+name, "", "the check fails on the program built for "+name)
			}
		default:
			last := strings.TrimSpace(out)
			if i := strings.LastIndex(last, "\n"); i >= 0 {
				last = last[i+1:]
			}
			res.Note("THOROUGH", "config|"+name, "", "not analysed (loader/undecided): "+last)
		}
		res.Count("build_targets_analysed", 1)
		os.RemoveAll(tmp)
	}
}

func thoroughAudit(prop, repo, variantsDir string, res *report.Result) {
	pats, _ := filepath.Glob(filepath.Join(variantsDir, prop+"__*.patch"))
	sort.Strings(pats)
	// the confirmed changes of the independent sub-agents that this property's check is recorded to catch
	seedDirs, _ := filepath.Glob(filepath.Join(filepath.Dir(filepath.Dir(variantsDir)), "seeded", "*_*"))
	sort.Strings(seedDirs)
	for _, d := range seedDirs {
		b, err := os.ReadFile(filepath.Join(d, "meta.json"))
		if err != nil {
			continue
		}
		var meta struct {
			DetectedBy []string `json:"detected_by"`
		}
		if json.Unmarshal(b, &meta) != nil {
			continue
		}
		for _, id := range meta.DetectedBy {
			if id == prop {
				pats = append(pats, filepath.Join(d, "patch.diff"))
			}
		}
	}
	// behaviour-preserving changes written by sub-agents for this property: must stay silent
	benign, _ := filepath.Glob(filepath.Join(filepath.Dir(filepath.Dir(variantsDir)), "benign", prop+"_*", "patch.diff"))
	sort.Strings(benign)
	pats = append(pats, benign...)
	if len(pats) == 0 {
		res.Note("AUDIT", "variants", "", "no variants kept for this property")
		return
	}
	type outcome struct {
		name   string
		status string // killed, silent-ok, survived, false-alarm, skipped
	}
	results := make([]outcome, len(pats))
	sem := make(chan struct{}, 6)
	var wg sync.WaitGroup
	for i, pt := range pats {
		wg.Add(1)
		go func(i int, pt string) {
			defer wg.Done()
			sem <- struct{}{}
			defer func() { <-sem }()
			name := strings.TrimSuffix(filepath.Base(pt), ".patch")
			name = strings.TrimPrefix(name, prop+"__")
			if filepath.Base(pt) == "patch.diff" {
				name = "seed_" + filepath.Base(filepath.Dir(pt))
				if filepath.Base(filepath.Dir(filepath.Dir(pt))) == "benign" {
					name = "ok_benign_" + filepath.Base(filepath.Dir(pt))
				}
			}
			results[i] = outcome{name, "skipped"}
			dir, err := os.MkdirTemp("", "lalcheck-var-")
			if err != nil {
				return
			}
			defer os.RemoveAll(dir)
			if err := exec.Command("rsync", "-a", "--exclude", ".git", strings.TrimSuffix(repo, "/")+"/", dir+"/").Run(); err != nil {
				return
			}
			pc := exec.Command("patch", "-p1", "-s", "--no-backup-if-mismatch", "-i", pt)
			pc.Dir = dir
			if err := pc.Run(); err != nil {
				return // the tree differs from the one the variant was cut for
			}
			code, _ := runSub(prop, dir, filepath.Join(dir, ".ev"), []string{"VERIF_TIER=quick"})
			wantSilent := strings.HasPrefix(name, "ok_")
			switch {
			case code == 1 && !wantSilent:
				results[i].status = "killed"
			case code == 0 && wantSilent:
				results[i].status = "silent-ok"
			case code == 0 && !wantSilent:
				results[i].status = "survived"
			case code == 1 && wantSilent:
				results[i].status = "false-alarm"
			default:
				results[i].status = "undecided"
			}
		}(i, pt)
	}
	wg.Wait()
	counts := map[string]int{}
	var bad []string
	for _, o := range results {
		counts[o.status]++
		if o.status == "survived" || o.status == "false-alarm" || o.status == "undecided" {
			bad = append(bad, o.name+":"+o.status)
		}
	}
	res.Count("audit_variants", len(pats))
	res.Count("audit_killed", counts["killed"])
	res.Count("audit_silent_on_equivalent", counts["silent-ok"])
	res.Count("audit_skipped", counts["skipped"])
	res.Count("audit_survived_or_false_alarm", len(bad))
	detail := fmt.Sprintf("%d variants (one-hunk edits of this property's anchors and the confirmed seeded changes): %d reported, %d behaviour-preserving ones left silent, %d skipped (patch does not apply to this tree)", len(pats), counts["killed"], counts["silent-ok"], counts["skipped"])
	if len(bad) > 0 {
		fmt.Printf("AUDIT-WARNING property=%s variants not handled as expected: %s\n", prop, strings.Join(bad, ", "))
		res.Note("AUDIT", "variants", "", detail+"; NOT as expected: "+strings.Join(bad, ", "))
	} else {
		res.Ok("AUDIT", "variants", "", detail)
	}
}
