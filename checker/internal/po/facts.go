package po

import (
	"fmt"
	"go/constant"
	"go/token"
	"go/types"
	"strings"

	"golang.org/x/tools/go/ssa"

	"lalverif/internal/model"
)

// fnCtx holds per-function caches for the translation of SSA values into linear forms.
type fnCtx struct {
	fn           *ssa.Function
	storedFields map[*types.Var]bool // struct fields stored to anywhere in fn (outside the initial parameter spill)
	linCache     map[ssa.Value]Lin
	repCache     map[ssa.Value]ssa.Value
	lenCache     map[ssa.Value]Lin
	phiLow       map[*ssa.Phi]*int64
	// rawPaths: canonAddr names field paths even for fields the function stores (used only to
	// recognise which loads read a given path)
	rawPaths bool
	success  []successFact
	e        *Engine
	// assumeParams: treat integer parameters of fn as non-negative (used while computing
	// summaries); usedParams records which ones a proof relied on
	assumeParams bool
	usedParams   map[int]bool
}

type successFact struct {
	at    ssa.Instruction
	facts []Ineq
}

func newFnCtx(fn *ssa.Function) *fnCtx {
	c := &fnCtx{fn: fn, storedFields: map[*types.Var]bool{}, linCache: map[ssa.Value]Lin{}, lenCache: map[ssa.Value]Lin{}, phiLow: map[*ssa.Phi]*int64{}}
	for _, b := range fn.Blocks {
		for _, in := range b.Instrs {
			if st, ok := in.(*ssa.Store); ok {
				if fa, ok := st.Addr.(*ssa.FieldAddr); ok {
					if f := fieldOf(fa); f != nil {
						c.storedFields[f] = true
					}
				}
			}
		}
	}
	return c
}

func fieldOf(v ssa.Value) *types.Var {
	switch x := v.(type) {
	case *ssa.FieldAddr:
		if pt, ok := x.X.Type().Underlying().(*types.Pointer); ok {
			if st, ok := pt.Elem().Underlying().(*types.Struct); ok {
				return st.Field(x.Field)
			}
		}
	case *ssa.Field:
		if st, ok := x.X.Type().Underlying().(*types.Struct); ok {
			return st.Field(x.Field)
		}
	}
	return nil
}

// paramOfCell: the parameter a local cell was initialised from (parameter spill), when that is
// the only whole-cell store.
func paramOfCell(a *ssa.Alloc) *ssa.Parameter {
	var p *ssa.Parameter
	n := 0
	if a.Referrers() == nil {
		return nil
	}
	for _, r := range *a.Referrers() {
		if st, ok := r.(*ssa.Store); ok && st.Addr == ssa.Value(a) {
			n++
			if pp, ok := st.Val.(*ssa.Parameter); ok {
				p = pp
			}
		}
	}
	if n == 1 {
		return p
	}
	return nil
}

// canon resolves a value that is a (chain of) field selection(s) to (root, path). The root is a
// parameter, a local cell, or some other SSA value; when a field on the path is assigned
// anywhere in the function the value stays opaque (root = v, path = "").
func (c *fnCtx) canon(v ssa.Value) (ssa.Value, string) {
	root, path, ok := c.canonVal(v, 0)
	if ok && len(path) == 0 {
		// a whole-value load of a spilled parameter is that parameter
		if _, isP := root.(*ssa.Parameter); isP && root != v {
			return root, ""
		}
	}
	if !ok || len(path) == 0 {
		if rep := c.repLoad(v); rep != nil {
			return rep, ""
		}
		if rep := c.repLoadHeap(v); rep != nil {
			return rep, ""
		}
		return v, ""
	}
	return root, strings.Join(path, ".")
}

// repLoadHeap: a load of a field through a pointer, in a function that also stores that field
// (so the field path is no stable atom): an earlier load of the same address expression that
// dominates it reads the same value when nothing in between can write the field - no store to
// a field of that name or through a plain pointer of the field's type, and no call at all
// (calls may write it through an alias). The earliest such load represents v.
func (c *fnCtx) repLoadHeap(v ssa.Value) ssa.Value {
	ld, ok := v.(*ssa.UnOp)
	if !ok || ld.Op != token.MUL {
		return nil
	}
	fa, ok := ld.X.(*ssa.FieldAddr)
	if !ok {
		return nil
	}
	if _, isAlloc := fa.X.(*ssa.Alloc); isAlloc {
		return nil
	}
	if c.repCache == nil {
		c.repCache = map[ssa.Value]ssa.Value{}
	}
	if r, ok := c.repCache[v]; ok {
		return r
	}
	c.repCache[v] = nil
	fld := fieldOf(fa)
	if fld == nil {
		return nil
	}
	barrier := fieldBarrier(fld, ld.Type())
	var best ssa.Value
	for _, b := range c.fn.Blocks {
		for _, in := range b.Instrs {
			l, isL := in.(*ssa.UnOp)
			if !isL || l.Op != token.MUL || l == ld || !sameLoadExpr(l.X, ld.X, 0) || !dominatesInstr(l, ld) {
				continue
			}
			if !cleanBetween(l, ld, barrier) {
				continue
			}
			if best == nil || dominatesInstr(l, best.(ssa.Instruction)) {
				best = l
			}
		}
	}
	c.repCache[v] = best
	return best
}

// loadOfPathAt: the function stores the last field of root.path, so the path is no stable atom
// in it; when a load of exactly that path dominates site and nothing between the two can write
// the field (see repLoadHeap), that load's value is the path's value at site.
func (c *fnCtx) loadOfPathAt(root ssa.Value, path string, site ssa.Instruction) ssa.Value {
	var best ssa.Value
	for _, b := range c.fn.Blocks {
		for _, in := range b.Instrs {
			l, isL := in.(*ssa.UnOp)
			if !isL || l.Op != token.MUL {
				continue
			}
			fa, isFA := l.X.(*ssa.FieldAddr)
			if !isFA {
				continue
			}
			fld := fieldOf(fa)
			if fld == nil || !strings.HasSuffix(path, fld.Name()) || !dominatesInstr(l, site) {
				continue
			}
			c.rawPaths = true
			r, pth, ok := c.canonAddr(l.X, 0)
			c.rawPaths = false
			if !ok || r != root || strings.Join(pth, ".") != path {
				continue
			}
			if !cleanBetween(l, site, fieldBarrier(fld, l.Type())) {
				continue
			}
			if best == nil || dominatesInstr(l, best.(ssa.Instruction)) {
				best = l
			}
		}
	}
	return best
}

// fieldBarrier: instructions that may write field fld (of type t) between two reads.
func fieldBarrier(fld *types.Var, t types.Type) func(ssa.Instruction) bool {
	return func(in ssa.Instruction) bool {
		switch x := in.(type) {
		case *ssa.Store:
			if a, isFA := x.Addr.(*ssa.FieldAddr); isFA {
				return fieldOf(a) == fld
			}
			if _, isIA := x.Addr.(*ssa.IndexAddr); isIA {
				return false
			}
			if _, isAl := x.Addr.(*ssa.Alloc); isAl {
				return false
			}
			return types.Identical(x.Val.Type(), t)
		case ssa.CallInstruction:
			if b, isB := x.Common().Value.(*ssa.Builtin); isB {
				switch b.Name() {
				case "len", "cap", "min", "max":
					return false
				}
			}
			return true
		case *ssa.Send, *ssa.Select:
			return true
		}
		return false
	}
}

// cleanBetween: no instruction satisfying barrier lies on a path from a (exclusive) to b.
func cleanBetween(a, b ssa.Instruction, barrier func(ssa.Instruction) bool) bool {
	type pos struct {
		blk *ssa.BasicBlock
		i   int
	}
	start := 0
	for i, x := range a.Block().Instrs {
		if x == a {
			start = i + 1
		}
	}
	// only blocks from which b can still be reached matter
	reach := map[*ssa.BasicBlock]bool{b.Block(): true}
	back := []*ssa.BasicBlock{b.Block()}
	for len(back) > 0 {
		x := back[len(back)-1]
		back = back[:len(back)-1]
		for _, p := range x.Preds {
			if !reach[p] {
				reach[p] = true
				back = append(back, p)
			}
		}
	}
	seen := map[*ssa.BasicBlock]bool{}
	work := []pos{{a.Block(), start}}
	for len(work) > 0 {
		p := work[len(work)-1]
		work = work[:len(work)-1]
		if !reach[p.blk] {
			continue
		}
		if p.i == 0 {
			if seen[p.blk] {
				continue
			}
			seen[p.blk] = true
		}
		stopped := false
		for i := p.i; i < len(p.blk.Instrs); i++ {
			in := p.blk.Instrs[i]
			if in == b {
				stopped = true
				break
			}
			if barrier(in) {
				return false
			}
		}
		if stopped {
			continue
		}
		for _, s := range p.blk.Succs {
			work = append(work, pos{s, 0})
		}
	}
	return true
}

// repLoad: for a load of a field of a non-escaping local struct that the function also stores
// (so the field path is not a stable atom), the earliest load of the same field that dominates v
// with no store to that field of that cell on any path in between reads the same value: it
// represents v. nil when there is none.
func (c *fnCtx) repLoad(v ssa.Value) ssa.Value {
	ld, ok := v.(*ssa.UnOp)
	if !ok || ld.Op != token.MUL {
		return nil
	}
	fa, ok := ld.X.(*ssa.FieldAddr)
	if !ok {
		return nil
	}
	cell, ok := fa.X.(*ssa.Alloc)
	if !ok || cell.Referrers() == nil {
		return nil
	}
	if c.repCache == nil {
		c.repCache = map[ssa.Value]ssa.Value{}
	}
	if r, ok := c.repCache[v]; ok {
		return r
	}
	c.repCache[v] = nil
	// the cell must not escape: only field addresses (loaded / stored through) and whole loads/stores
	var loads []*ssa.UnOp
	var stores []*ssa.Store
	for _, ref := range *cell.Referrers() {
		switch x := ref.(type) {
		case *ssa.FieldAddr:
			if x.Referrers() == nil {
				continue
			}
			for _, r2 := range *x.Referrers() {
				switch y := r2.(type) {
				case *ssa.UnOp:
					if y.Op == token.MUL && x.Field == fa.Field {
						loads = append(loads, y)
					}
				case *ssa.Store:
					if y.Addr != ssa.Value(x) {
						return nil // the field address is stored somewhere: escapes
					}
					if x.Field == fa.Field {
						stores = append(stores, y)
					}
				case *ssa.FieldAddr, *ssa.IndexAddr, *ssa.DebugRef:
				default:
					return nil // passed to a call etc.
				}
			}
		case *ssa.Store:
			if x.Addr != ssa.Value(cell) {
				return nil
			}
			stores = append(stores, x) // whole-value store also writes the field
		case *ssa.UnOp, *ssa.DebugRef:
		default:
			return nil
		}
	}
	isStore := map[ssa.Instruction]bool{}
	for _, s := range stores {
		isStore[s] = true
	}
	// no store reachable from a and reaching b without passing b: bounded search over blocks
	clean := func(a, b ssa.Instruction) bool {
		type pos struct {
			blk *ssa.BasicBlock
			i   int
		}
		idx := func(in ssa.Instruction) int {
			for i, x := range in.Block().Instrs {
				if x == in {
					return i
				}
			}
			return 0
		}
		seen := map[*ssa.BasicBlock]bool{}
		work := []pos{{a.Block(), idx(a) + 1}}
		for len(work) > 0 {
			p := work[len(work)-1]
			work = work[:len(work)-1]
			if p.i == 0 {
				if seen[p.blk] {
					continue
				}
				seen[p.blk] = true
			}
			stopped := false
			for i := p.i; i < len(p.blk.Instrs); i++ {
				in := p.blk.Instrs[i]
				if in == b {
					stopped = true
					break
				}
				if isStore[in] {
					// a store that can still reach b?
					return false
				}
			}
			if stopped {
				continue
			}
			for _, s := range p.blk.Succs {
				work = append(work, pos{s, 0})
			}
		}
		return true
	}
	var best ssa.Value
	for _, l := range loads {
		if l == ld || !dominatesInstr(l, ld) {
			continue
		}
		if !clean(l, ld) {
			continue
		}
		if best == nil || dominatesInstr(l, best.(ssa.Instruction)) {
			best = l
		}
	}
	c.repCache[v] = best
	return best
}

func (c *fnCtx) canonVal(v ssa.Value, d int) (ssa.Value, []string, bool) {
	if d > 24 {
		return v, nil, false
	}
	switch x := v.(type) {
	case *ssa.UnOp:
		if x.Op == token.MUL {
			return c.canonAddr(x.X, d+1)
		}
	case *ssa.Field:
		f := fieldOf(x)
		if f == nil {
			return v, nil, false
		}
		r, p, ok := c.canonVal(x.X, d+1)
		if !ok {
			return v, nil, false
		}
		return r, append(append([]string{}, p...), f.Name()), true
	}
	return v, nil, true
}

func (c *fnCtx) canonAddr(addr ssa.Value, d int) (ssa.Value, []string, bool) {
	if d > 24 {
		return addr, nil, false
	}
	switch a := addr.(type) {
	case *ssa.Alloc:
		if p := paramOfCell(a); p != nil {
			return p, nil, true
		}
		return a, nil, true
	case *ssa.FieldAddr:
		f := fieldOf(a)
		if f == nil || (c.storedFields[f] && !c.rawPaths) {
			return addr, nil, false
		}
		r, p, ok := c.canonAddr(a.X, d+1)
		if !ok {
			return addr, nil, false
		}
		return r, append(append([]string{}, p...), f.Name()), true
	case *ssa.IndexAddr:
		if k, ok := constInt(a.Index); ok {
			if _, isArr := arrayLen(a.X.Type()); isArr {
				r, p, ok := c.canonAddr(a.X, d+1)
				if ok {
					return r, append(append([]string{}, p...), fmt.Sprintf("[%d]", k)), true
				}
			}
		}
		return addr, nil, false
	case *ssa.UnOp:
		// a loaded pointer (e.g. group.pullProxy) used as the base of further selections
		if a.Op == token.MUL {
			return c.canonAddr(a.X, d+1)
		}
	}
	return addr, nil, true
}

func (c *fnCtx) atom(kind byte, v ssa.Value) Atom {
	root, path := c.canon(v)
	return Atom{Kind: kind, Root: root, Path: path}
}

func constInt(v ssa.Value) (int64, bool) {
	c, ok := v.(*ssa.Const)
	if !ok || c.Value == nil {
		return 0, false
	}
	switch c.Value.Kind() {
	case constant.Int:
		if i, ok := constant.Int64Val(c.Value); ok {
			return i, true
		}
		if _, ok := constant.Uint64Val(c.Value); ok {
			return 1<<62 - 1, true
		}
	}
	return 0, false
}

// lin translates an integer-typed SSA value into a linear form over atoms.
func (c *fnCtx) lin(v ssa.Value) Lin {
	if l, ok := c.linCache[v]; ok {
		return l
	}
	c.linCache[v] = Var(Atom{Kind: 'v', Root: v}) // cycle guard
	l := c.lin0(v)
	c.linCache[v] = l
	return l
}

func (c *fnCtx) lin0(v ssa.Value) Lin {
	if k, ok := constInt(v); ok {
		return Const(k)
	}
	switch x := v.(type) {
	case *ssa.BinOp:
		switch x.Op {
		case token.ADD:
			return c.lin(x.X).Add(c.lin(x.Y))
		case token.SUB:
			// unsigned subtraction may wrap; only treat as linear for signed types
			if !isUnsigned(x.Type()) {
				return c.lin(x.X).Sub(c.lin(x.Y))
			}
		case token.MUL:
			if k, ok := constInt(x.Y); ok && k > -(1<<20) && k < 1<<20 {
				return c.lin(x.X).Scale(k)
			}
			if k, ok := constInt(x.X); ok && k > -(1<<20) && k < 1<<20 {
				return c.lin(x.Y).Scale(k)
			}
		case token.SHL:
			if k, ok := constInt(x.Y); ok && k >= 0 && k < 20 {
				return c.lin(x.X).Scale(1 << uint(k))
			}
		}
	case *ssa.Convert:
		// integer conversions that cannot change the value for the ranges that occur here:
		// widening, and int<->uint of the same width for non-negative values (lengths, offsets)
		if isInteger(x.X.Type()) && isInteger(x.Type()) {
			slo, shi, ok1 := typeRange(x.X.Type())
			dlo, dhi, ok2 := typeRange(x.Type())
			if ok1 && ok2 && dlo <= slo && dhi >= shi {
				return c.lin(x.X)
			}
			if ok1 && ok2 && sizeOf(x.Type()) >= sizeOf(x.X.Type()) {
				// same or larger width, sign change: value preserved when the operand is
				// non-negative / fits; record the identity and let range facts bound it
				inner := c.lin(x.X)
				if lo, ok := c.lowerConst(x.X, 0); ok && lo >= 0 {
					return inner
				}
				if isUnsigned(x.X.Type()) && sizeOf(x.Type()) > sizeOf(x.X.Type()) {
					return inner
				}
				if isUnsigned(x.X.Type()) && sizeOf(x.Type()) == sizeOf(x.X.Type()) && sizeOf(x.Type()) == 8 {
					return inner // uint64->int64: lengths never reach 2^63
				}
			}
		}
	case *ssa.ChangeType:
		return c.lin(x.X)
	case *ssa.UnOp:
		if w := fwdLoad(x); w != nil {
			return c.lin(w)
		}
	case *ssa.Call:
		if b, ok := x.Call.Value.(*ssa.Builtin); ok && len(x.Call.Args) == 1 {
			switch b.Name() {
			case "len":
				return c.seqLen(x.Call.Args[0])
			case "cap":
				return c.seqCap(x.Call.Args[0])
			}
		}
		// a helper with a single integer result that returns the same constant on every path
		// (a header writer returning its size)
		if ce := x.Call.StaticCallee(); ce != nil && ce.Blocks != nil && ce.Signature.Results().Len() == 1 && isInteger(v.Type()) {
			var k0 int64
			n, same := 0, true
			for _, b := range ce.Blocks {
				ret, isRet := b.Instrs[len(b.Instrs)-1].(*ssa.Return)
				if !isRet || len(ret.Results) != 1 {
					continue
				}
				k, isK := constInt(ret.Results[0])
				if !isK || (n > 0 && k != k0) {
					same = false
				}
				k0 = k
				n++
			}
			if n > 0 && same {
				return Const(k0)
			}
		}
	}
	if isInteger(v.Type()) {
		return Var(c.atom('v', v))
	}
	return Var(Atom{Kind: 'v', Root: v})
}

func sizeOf(t types.Type) int {
	b, ok := t.Underlying().(*types.Basic)
	if !ok {
		return 0
	}
	switch b.Kind() {
	case types.Int8, types.Uint8:
		return 1
	case types.Int16, types.Uint16:
		return 2
	case types.Int32, types.Uint32:
		return 4
	case types.Int, types.Uint, types.Int64, types.Uint64, types.Uintptr:
		return 8
	}
	return 0
}

// seqLen is the length of a slice, string, array or *array value as a linear form.
func (c *fnCtx) seqLen(v ssa.Value) Lin {
	if l, ok := c.lenCache[v]; ok {
		return l
	}
	c.lenCache[v] = Var(Atom{Kind: 'l', Root: v})
	l := c.seqLen0(v)
	c.lenCache[v] = l
	return l
}

func arrayLen(t types.Type) (int64, bool) {
	if pt, ok := t.Underlying().(*types.Pointer); ok {
		t = pt.Elem()
	}
	if at, ok := t.Underlying().(*types.Array); ok {
		return at.Len(), true
	}
	return 0, false
}

// invariantLen: constant length of a load of a field / package variable with a length invariant.
func (c *fnCtx) invariantLen(v ssa.Value) (int64, bool) {
	if c.e == nil {
		return 0, false
	}
	u, ok := v.(*ssa.UnOp)
	if !ok || u.Op != token.MUL {
		return 0, false
	}
	switch a := u.X.(type) {
	case *ssa.FieldAddr:
		if f := fieldOf(a); f != nil {
			k, ok := c.e.fieldLen[f]
			return k, ok
		}
	case *ssa.Global:
		k, ok := c.e.globalLen[a]
		return k, ok
	}
	return 0, false
}

func (c *fnCtx) seqLen0(v ssa.Value) Lin {
	if n, ok := arrayLen(v.Type()); ok {
		return Const(n)
	}
	if k, ok := c.invariantLen(v); ok {
		return Const(k)
	}
	if w := fwdLoad(v); w != nil {
		return c.seqLen(w)
	}
	switch x := v.(type) {
	case *ssa.Const:
		if x.Value != nil && x.Value.Kind() == constant.String {
			return Const(int64(len(constant.StringVal(x.Value))))
		}
		if x.Value == nil {
			return Const(0) // nil slice
		}
	case *ssa.Slice:
		lo := Const(0)
		if x.Low != nil {
			lo = c.lin(x.Low)
		}
		if x.High != nil {
			return c.lin(x.High).Sub(lo)
		}
		return c.seqLen(x.X).Sub(lo)
	case *ssa.MakeSlice:
		return c.lin(x.Len)
	case *ssa.Convert:
		// string <-> []byte keep the length
		if _, ok := x.X.Type().Underlying().(*types.Basic); ok {
			if _, isSl := x.Type().Underlying().(*types.Slice); isSl {
				return c.seqLen(x.X)
			}
		}
		if _, ok := x.X.Type().Underlying().(*types.Slice); ok {
			if b, isB := x.Type().Underlying().(*types.Basic); isB && b.Kind() == types.String {
				return c.seqLen(x.X)
			}
		}
	case *ssa.ChangeType:
		return c.seqLen(x.X)
	}
	return Var(c.atom('l', v))
}

func (c *fnCtx) seqCap(v ssa.Value) Lin {
	if n, ok := arrayLen(v.Type()); ok {
		return Const(n)
	}
	if k, ok := c.invariantLen(v); ok {
		// capacity >= length is what the slice bounds need; the length is the safe bound
		return Const(k)
	}
	switch x := v.(type) {
	case *ssa.Slice:
		lo := Const(0)
		if x.Low != nil {
			lo = c.lin(x.Low)
		}
		if x.Max != nil {
			return c.lin(x.Max).Sub(lo)
		}
		return c.seqCap(x.X).Sub(lo)
	case *ssa.MakeSlice:
		if x.Cap != nil {
			return c.lin(x.Cap)
		}
		return c.lin(x.Len)
	case *ssa.ChangeType:
		return c.seqCap(x.X)
	}
	if b, ok := v.Type().Underlying().(*types.Basic); ok && b.Info()&types.IsString != 0 {
		return c.seqLen(v)
	}
	return Var(c.atom('c', v))
}

// lowerConst computes a constant lower bound of an integer value by structural reasoning and
// simple induction over phis.
func (c *fnCtx) lowerConst(v ssa.Value, depth int) (int64, bool) {
	if depth > 12 {
		return 0, false
	}
	if k, ok := constInt(v); ok {
		return k, true
	}
	switch x := v.(type) {
	case *ssa.Phi:
		if p, ok := c.phiLow[x]; ok {
			if p == nil {
				return 0, false
			}
			return *p, true
		}
		// candidate from the edges that do not depend on the phi itself
		c.phiLow[x] = nil
		var cand int64
		have := false
		for _, e := range x.Edges {
			if l, ok := c.lowerConst(e, depth+1); ok {
				if !have || l < cand {
					cand, have = l, true
				}
			}
		}
		delete(c.phiLow, x)
		if !have {
			c.phiLow[x] = nil
			return 0, false
		}
		tries := []int64{cand}
		if cand > 0 {
			tries = append(tries, 0)
		}
		if cand > -1 {
			tries = append(tries, -1)
		}
		for _, b := range tries {
			bb := b
			saved := c.phiLow
			c.phiLow = map[*ssa.Phi]*int64{}
			for k, v := range saved {
				c.phiLow[k] = v
			}
			c.phiLow[x] = &bb
			okAll := true
			for _, e := range x.Edges {
				l, ok := c.lowerConst(e, depth+1)
				if !ok || l < b {
					okAll = false
					break
				}
			}
			c.phiLow = saved
			if okAll {
				c.phiLow[x] = &bb
				return b, true
			}
		}
		c.phiLow[x] = nil
		return 0, false
	case *ssa.BinOp:
		switch x.Op {
		case token.ADD:
			a, ok1 := c.lowerConst(x.X, depth+1)
			b, ok2 := c.lowerConst(x.Y, depth+1)
			if ok1 && ok2 {
				return a + b, true
			}
		case token.MUL:
			a, ok1 := c.lowerConst(x.X, depth+1)
			b, ok2 := c.lowerConst(x.Y, depth+1)
			if ok1 && ok2 && a >= 0 && b >= 0 {
				return a * b, true
			}
		case token.AND, token.SHR, token.REM:
			if isUnsigned(x.Type()) {
				return 0, true
			}
			if x.Op == token.AND {
				if k, ok := constInt(x.Y); ok && k >= 0 {
					return 0, true
				}
			}
			if l, ok := c.lowerConst(x.X, depth+1); ok && l >= 0 && x.Op != token.AND {
				return 0, true
			}
		case token.QUO:
			if l, ok := c.lowerConst(x.X, depth+1); ok && l >= 0 {
				if d, ok := c.lowerConst(x.Y, depth+1); ok && d > 0 {
					return 0, true
				}
			}
		}
	case *ssa.Convert:
		if isUnsigned(x.X.Type()) && sizeOf(x.Type()) >= sizeOf(x.X.Type()) {
			return 0, true
		}
		if sizeOf(x.Type()) >= sizeOf(x.X.Type()) {
			return c.lowerConst(x.X, depth+1)
		}
	case *ssa.Call:
		if b, ok := x.Call.Value.(*ssa.Builtin); ok {
			switch b.Name() {
			case "len", "cap", "copy":
				return 0, true
			}
		}
		if l, ok := c.callLower(x, 0, depth); ok {
			return l, true
		}
	case *ssa.Extract:
		if call, ok := x.Tuple.(*ssa.Call); ok {
			if l, ok := c.callLower(call, x.Index, depth); ok {
				return l, true
			}
		}
	case *ssa.Parameter:
		if c.assumeParams && isInteger(x.Type()) {
			for i, p := range c.fn.Params {
				if p == x {
					if c.usedParams == nil {
						c.usedParams = map[int]bool{}
					}
					c.usedParams[i] = true
				}
			}
			return 0, true
		}
	}
	if isUnsigned(v.Type()) {
		return 0, true
	}
	return 0, false
}

// callLower: constant lower bound (0 or -1) of result idx of the call by the callee's summary,
// given that the integer arguments the summary depends on are non-negative.
func (c *fnCtx) callLower(call *ssa.Call, idx int, depth int) (int64, bool) {
	f := call.Common().StaticCallee()
	if f == nil || c.e == nil {
		return 0, false
	}
	needs, ok := c.e.sumNonNeg[f][idx]
	if !ok {
		return 0, false
	}
	args := call.Common().Args
	for _, pi := range needs {
		if pi >= len(args) {
			return 0, false
		}
		if l, ok := c.lowerConst(args[pi], depth+1); !ok || l < 0 {
			return 0, false
		}
	}
	return c.e.sumLow[f][idx], true
}

// dependsOnPhiIncreasing: e == phi + k with k >= 0 (possibly through several additions).
func dependsOnPhiIncreasing(e ssa.Value, phi *ssa.Phi, depth int) bool {
	if depth > 6 {
		return false
	}
	if e == ssa.Value(phi) {
		return true
	}
	switch b := e.(type) {
	case *ssa.BinOp:
		if b.Op != token.ADD {
			return false
		}
		if k, ok := constInt(b.Y); ok && k >= 0 {
			return dependsOnPhiIncreasing(b.X, phi, depth+1)
		}
		if k, ok := constInt(b.X); ok && k >= 0 {
			return dependsOnPhiIncreasing(b.Y, phi, depth+1)
		}
		// phi + len(...) / phi + unsigned value
		if dependsOnPhiIncreasing(b.X, phi, depth+1) && nonNegativeByType(b.Y) {
			return true
		}
		if dependsOnPhiIncreasing(b.Y, phi, depth+1) && nonNegativeByType(b.X) {
			return true
		}
	case *ssa.Phi:
		// inner phi merging phi-derived values
		for _, ee := range b.Edges {
			if !dependsOnPhiIncreasing(ee, phi, depth+1) {
				return false
			}
		}
		return len(b.Edges) > 0
	}
	return false
}

func nonNegativeByType(v ssa.Value) bool {
	if isUnsigned(v.Type()) {
		return true
	}
	switch x := v.(type) {
	case *ssa.Convert:
		return isUnsigned(x.X.Type()) && sizeOf(x.Type()) > sizeOf(x.X.Type())
	case *ssa.Call:
		if b, ok := x.Call.Value.(*ssa.Builtin); ok {
			return b.Name() == "len" || b.Name() == "cap" || b.Name() == "copy"
		}
	case *ssa.Const:
		k, ok := constInt(v)
		return ok && k >= 0
	}
	return false
}

// defFacts returns the inequalities implied by the definition / type of an atom.
func (c *fnCtx) defFacts(a Atom) []Ineq {
	var out []Ineq
	av := Var(a)
	ge := func(l Lin, why string) { out = append(out, Ineq{l, why}) }
	switch a.Kind {
	case 'l':
		ge(av, "len>=0")
		if a.Path == "" {
			if call, ok := a.Root.(*ssa.Call); ok {
				if f := call.Common().StaticCallee(); f != nil && f.Pkg != nil && (f.Pkg.Pkg.Path() == "strings" || f.Pkg.Pkg.Path() == "bytes") && f.Name() == "Split" {
					if c.seqLenConstPositive(call.Common().Args[1]) {
						ge(av.Sub(Const(1)), "Split with a non-empty separator returns >=1 element")
					}
				}
			}
		}
		return out
	case 'c':
		ge(av, "cap>=0")
		ge(av.Sub(Var(Atom{Kind: 'l', Root: a.Root, Path: a.Path})), "cap>=len")
		return out
	}
	v := a.Root
	if a.Path == "" {
		if lo, ok := c.lowerConst(v, 0); ok && lo > -(1<<40) {
			ge(av.Sub(Const(lo)), fmt.Sprintf("lower bound %d", lo))
		}
		if _, hi, ok := typeRange(v.Type()); ok && hi < 1<<40 {
			ge(Const(hi).Sub(av), "type range")
		}
		switch x := v.(type) {
		case *ssa.BinOp:
			switch x.Op {
			case token.AND:
				if k, ok := constInt(x.Y); ok && k >= 0 {
					ge(Const(k).Sub(av), "x&m<=m")
				}
				if k, ok := constInt(x.X); ok && k >= 0 {
					ge(Const(k).Sub(av), "m&x<=m")
				}
			case token.REM:
				if k, ok := constInt(x.Y); ok && k > 0 {
					ge(Const(k-1).Sub(av), "x%k<=k-1")
					if lo, ok := c.lowerConst(x.X, 0); ok && lo >= 0 {
						ge(av, "x%k>=0")
					}
				}
			case token.SHR:
				if k, ok := constInt(x.Y); ok && k >= 0 && k < 40 {
					if _, hi, ok := typeRange(x.X.Type()); ok && hi < 1<<40 {
						ge(Const(hi>>uint(k)).Sub(av), "x>>k range")
					}
					if lo, ok := c.lowerConst(x.X, 0); ok && lo >= 0 {
						inner := c.lin(x.X)
						// 2^k*v <= x
						ge(inner.Sub(av.Scale(1<<uint(k))), "v<<k<=x")
					}
				}
			case token.QUO:
				if k, ok := constInt(x.Y); ok && k > 0 && k < 1<<20 {
					if lo, ok := c.lowerConst(x.X, 0); ok && lo >= 0 {
						inner := c.lin(x.X)
						ge(inner.Sub(av.Scale(k)), "k*(x/k)<=x")
						ge(av.Scale(k).Add(Const(k-1)).Sub(inner), "x<=k*(x/k)+k-1")
					}
				} else if isUnsigned(x.Type()) {
					// unsigned x/y with a variable divisor: when the division does not panic y >= 1,
					// so 0 <= x/y <= x
					ge(c.lin(x.X).Sub(av), "x/y<=x (unsigned)")
				}
			case token.SUB:
				// unsigned subtraction kept opaque; nothing to add
			}
		case *ssa.Phi:
			// a merge of constants (edges carrying the phi itself around a loop aside): bounded
			// above by the largest, and correlated with the other constant merges of the same
			// block (the same edge selects all of them): p - q lies between the smallest and the
			// largest difference over the edges
			if ks, self, ok := constEdges(x); ok {
				first := true
				var hi int64
				for i, k := range ks {
					if self[i] {
						continue
					}
					if first || k > hi {
						hi = k
					}
					first = false
				}
				ge(Const(hi).Sub(av), "merge of constants")
				for _, in := range x.Block().Instrs {
					q, isPhi := in.(*ssa.Phi)
					if !isPhi {
						break
					}
					if q == x || !isInteger(q.Type()) {
						continue
					}
					qs, qself, ok := constEdges(q)
					if !ok {
						continue
					}
					aligned := true
					var lo, hi int64
					first := true
					for i := range ks {
						if self[i] != qself[i] {
							aligned = false
							break
						}
						if self[i] {
							continue
						}
						d := ks[i] - qs[i]
						if first || d < lo {
							lo = d
						}
						if first || d > hi {
							hi = d
						}
						first = false
					}
					if !aligned || first {
						continue
					}
					qv := Var(Atom{Kind: 'v', Root: q})
					ge(av.Sub(qv).Sub(Const(lo)), "merges of constants chosen by the same edge")
					ge(qv.Sub(av).Add(Const(hi)), "merges of constants chosen by the same edge")
				}
			}
		case *ssa.Convert:
			// truncating conversion: only the type range is known
		case *ssa.Extract:
			// results of known calls
			if call, ok := x.Tuple.(*ssa.Call); ok {
				out = append(out, c.callResultFacts(call, x.Index, av)...)
			}
		case *ssa.Call:
			out = append(out, c.callResultFacts(x, -1, av)...)
		}
	} else if lo, _, ok := typeRange(fieldType(a)); ok && lo >= 0 {
		ge(av, "unsigned field")
	}
	if a.Path != "" {
		if t := fieldType(a); t != nil {
			if _, hi, ok := typeRange(t); ok && hi < 1<<40 {
				ge(Const(hi).Sub(av), "field type range")
			}
		}
		if f := fieldVar(a); f != nil && c.e != nil {
			if k, ok := c.e.fieldMin[f]; ok {
				ge(av.Sub(Const(k)), fmt.Sprintf("every store to %s is a constant >= %d", f.Name(), k))
			}
		}
	}
	return out
}

// constEdges: the operands of a phi when each is an integer constant or the phi itself (a value
// carried unchanged around a loop); self[i] marks the latter.
func constEdges(ph *ssa.Phi) (ks []int64, self []bool, ok bool) {
	n := 0
	for _, e := range ph.Edges {
		if e == ssa.Value(ph) {
			ks, self = append(ks, 0), append(self, true)
			continue
		}
		k, isK := constInt(e)
		if !isK {
			return nil, nil, false
		}
		ks, self = append(ks, k), append(self, false)
		n++
	}
	return ks, self, n > 0
}

// fieldType finds the static type of root.path.
func fieldType(a Atom) types.Type {
	t := a.Root.Type()
	if a.Path == "" {
		return t
	}
	for _, name := range strings.Split(a.Path, ".") {
		if pt, ok := t.Underlying().(*types.Pointer); ok {
			t = pt.Elem()
		}
		st, ok := t.Underlying().(*types.Struct)
		if !ok {
			return nil
		}
		found := false
		for i := 0; i < st.NumFields(); i++ {
			if st.Field(i).Name() == name {
				t = st.Field(i).Type()
				found = true
				break
			}
		}
		if !found {
			return nil
		}
	}
	return t
}

// callResultFacts: post-conditions of a few library calls (result index -1 = single result).
func (c *fnCtx) callResultFacts(call *ssa.Call, idx int, res Lin) []Ineq {
	var out []Ineq
	if b, ok := call.Call.Value.(*ssa.Builtin); ok {
		switch b.Name() {
		case "copy":
			out = append(out, Ineq{c.seqLen(call.Call.Args[0]).Sub(res), "copy<=len(dst)"})
			out = append(out, Ineq{c.seqLen(call.Call.Args[1]).Sub(res), "copy<=len(src)"})
		}
		return out
	}
	f := call.Common().StaticCallee()
	if f == nil {
		return nil
	}
	if c.e != nil {
		ri := idx
		if ri < 0 {
			ri = 0
		}
		for key := range c.e.sumUpper[f] {
			if key[0] == ri && key[1] < len(call.Common().Args) {
				out = append(out, Ineq{c.seqLen(call.Common().Args[key[1]]).Sub(res), "result of " + f.Name() + " <= len(arg)"})
			}
		}
		// affine summary: result = (a form over the parameters) + K with K in [lo, hi]
		if sm := c.e.affineSummary(f, ri); sm != nil {
			args := call.Common().Args
			p := Const(0)
			okSub := true
			for a, coef := range sm.param.C {
				prm := a.Root.(*ssa.Parameter)
				k := -1
				for i, q := range f.Params {
					if q == prm {
						k = i
					}
				}
				if k < 0 || k >= len(args) {
					okSub = false
					break
				}
				var term Lin
				switch a.Kind {
				case 'v':
					term = c.lin(args[k])
				case 'l':
					term = c.seqLen(args[k])
				case 'c':
					term = c.seqCap(args[k])
				}
				p = p.Add(term.Scale(coef))
			}
			if okSub {
				if sm.hasLo {
					out = append(out, Ineq{res.Sub(p).Sub(Const(sm.lo)), "result of " + f.Name() + " (every return)"})
				}
				if sm.hasHi {
					out = append(out, Ineq{p.Add(Const(sm.hi)).Sub(res), "result of " + f.Name() + " (every return)"})
				}
			}
		}
	}
	if f.Pkg == nil {
		return out
	}
	full := f.Pkg.Pkg.Path() + "." + f.Name()
	switch full {
	case "strings.Split", "bytes.Split":
		// with a non-empty separator the result has at least one element: expressed on len(result)
		// by the caller through seqLenFacts (see lenFacts)

	case "bytes.IndexAny", "strings.IndexAny", "bytes.LastIndexAny", "strings.LastIndexAny", "strings.IndexRune", "bytes.IndexRune":
		out = append(out, Ineq{res.Add(Const(1)), "index>=-1"})
		out = append(out, Ineq{c.seqLen(call.Call.Args[0]).Sub(res).Sub(Const(1)), "index<=len-1"})
	case "github.com/q191201771/naza/pkg/bele.BeUint24":
		out = append(out, Ineq{Const(1<<24 - 1).Sub(res), "24-bit value"})
	case "bytes.Index", "bytes.IndexByte", "strings.Index", "strings.IndexByte", "bytes.LastIndex", "strings.LastIndex", "bytes.LastIndexByte", "strings.LastIndexByte":
		// -1 <= r <= len(s)-len(sep)  (sep length >= 0; IndexByte: r <= len(s)-1)
		out = append(out, Ineq{res.Add(Const(1)), "index>=-1"})
		s := c.seqLen(call.Call.Args[0])
		if strings.HasSuffix(f.Name(), "Byte") {
			out = append(out, Ineq{s.Sub(res).Sub(Const(1)), "index<=len-1"})
		} else {
			out = append(out, Ineq{s.Sub(res).Sub(c.seqLen(call.Call.Args[1])), "index<=len(s)-len(sep)"})
		}
	}
	return out
}

// guardIneqs translates a branch condition holding with the given polarity into inequalities.
func (c *fnCtx) guardIneqs(cond ssa.Value, pol bool) []Ineq {
	for {
		u, ok := cond.(*ssa.UnOp)
		if !ok || u.Op != token.NOT {
			break
		}
		cond, pol = u.X, !pol
	}
	b, ok := cond.(*ssa.BinOp)
	if !ok {
		return nil
	}
	if !isInteger(b.X.Type()) || !isInteger(b.Y.Type()) {
		return nil
	}
	op := b.Op
	if !pol {
		switch op {
		case token.LSS:
			op = token.GEQ
		case token.LEQ:
			op = token.GTR
		case token.GTR:
			op = token.LEQ
		case token.GEQ:
			op = token.LSS
		case token.EQL:
			op = token.NEQ
		case token.NEQ:
			op = token.EQL
		default:
			return nil
		}
	}
	// unsigned comparisons over expressions containing a wrapped subtraction are not linear:
	// lin() already refuses unsigned SUB, so the operands are opaque atoms in that case.
	x, y := c.lin(b.X), c.lin(b.Y)
	d := x.Sub(y) // x - y
	why := fmt.Sprintf("guard %s %s %s", x.String(), op.String(), y.String())
	switch op {
	case token.LSS: // x < y  => y - x - 1 >= 0
		return []Ineq{{d.Scale(-1).Add(Const(-1)), why}}
	case token.LEQ:
		return []Ineq{{d.Scale(-1), why}}
	case token.GTR:
		return []Ineq{{d.Add(Const(-1)), why}}
	case token.GEQ:
		return []Ineq{{d, why}}
	case token.EQL:
		return []Ineq{{d, why}, {d.Scale(-1), why}}
	}
	return nil
}

func (c *fnCtx) seqLenConstPositive(v ssa.Value) bool {
	l := c.seqLen(v)
	return l.IsConst() && l.K > 0
}

// guardDiseq returns d for a guard that establishes d != 0 (x != y holding, or x == y failing).
func (c *fnCtx) guardDiseq(cond ssa.Value, pol bool) (Lin, bool) {
	for {
		u, ok := cond.(*ssa.UnOp)
		if !ok || u.Op != token.NOT {
			break
		}
		cond, pol = u.X, !pol
	}
	b, ok := cond.(*ssa.BinOp)
	if !ok || !isInteger(b.X.Type()) || !isInteger(b.Y.Type()) {
		return Lin{}, false
	}
	if (b.Op == token.NEQ && pol) || (b.Op == token.EQL && !pol) {
		return c.lin(b.X).Sub(c.lin(b.Y)), true
	}
	return Lin{}, false
}

// fieldVar finds the field object at the end of root.path.
func fieldVar(a Atom) *types.Var {
	t := a.Root.Type()
	if a.Path == "" {
		return nil
	}
	var last *types.Var
	for _, name := range strings.Split(a.Path, ".") {
		if pt, ok := t.Underlying().(*types.Pointer); ok {
			t = pt.Elem()
		}
		st, ok := t.Underlying().(*types.Struct)
		if !ok {
			return nil
		}
		last = nil
		for i := 0; i < st.NumFields(); i++ {
			if st.Field(i).Name() == name {
				last = st.Field(i)
				t = last.Type()
				break
			}
		}
		if last == nil {
			return nil
		}
	}
	return last
}

// fwdLoad forwards a store to a load inside one basic block: v loads field F of a local cell
// (FieldAddr on an Alloc), and walking backwards from the load the first instruction that can
// write that field is a Store to the same FieldAddr expression. Calls in between are accepted
// only when none of their operands is the cell itself or an address of the same field (other
// fields' addresses cannot reach F).
func fwdLoad(v ssa.Value) ssa.Value {
	ld, ok := v.(*ssa.UnOp)
	if !ok || ld.Op != token.MUL {
		return nil
	}
	fa, ok := ld.X.(*ssa.FieldAddr)
	if !ok {
		return nil
	}
	cell := fa.X
	_, isLocal := cell.(*ssa.Alloc)
	b := ld.Block()
	pos := -1
	for i, in := range b.Instrs {
		if in == ssa.Instruction(ld) {
			pos = i
		}
	}
	sameField := func(a ssa.Value) bool {
		x, ok := a.(*ssa.FieldAddr)
		return ok && x.X == cell && x.Field == fa.Field
	}
	// a store to the same field of the same struct type through another pointer may alias
	mayAlias := func(a ssa.Value) bool {
		x, ok := a.(*ssa.FieldAddr)
		return ok && x.Field == fa.Field && x.X != cell && types.Identical(x.X.Type(), cell.Type())
	}
	for i := pos - 1; i >= 0; i-- {
		switch in := b.Instrs[i].(type) {
		case *ssa.Store:
			if sameField(in.Addr) {
				return in.Val
			}
			if in.Addr == cell || (!isLocal && mayAlias(in.Addr)) {
				return nil // whole-cell store / possible alias
			}
		case ssa.CallInstruction:
			if !isLocal {
				// the struct is reachable from elsewhere: any call that is not a builtin may write it
				if _, isB := in.Common().Value.(*ssa.Builtin); !isB {
					return nil
				}
			}
			for _, op := range in.Operands(nil) {
				if op == nil || *op == nil {
					continue
				}
				if *op == cell || sameField(*op) {
					return nil
				}
			}
		}
	}
	return nil
}

// affineSum: every return of the function yields param + K for one linear form param over the
// function's own parameters (values, lengths, capacities) and a K between lo and hi.
type affineSum struct {
	param        Lin
	lo, hi       int64
	hasLo, hasHi bool
}

// affineSummary computes (and caches for this round) the summary of result ri of fn, nil when
// the returns do not share one parameter form or nothing is bounded. Atoms that are not
// parameters are bounded by the constants their definition facts give (x%k, x&m, merges of
// constants, type ranges); it is a property of the function's code alone.
func (e *Engine) affineSummary(fn *ssa.Function, ri int) *affineSum {
	if fn.Blocks == nil || fn.Signature.Results().Len() <= ri || !isInteger(fn.Signature.Results().At(ri).Type()) {
		return nil
	}
	if !(model.IsLal(fn) || model.IsNaza(fn)) {
		return nil
	}
	key := [2]interface{}{fn, ri}
	if e.affine == nil {
		e.affine = map[[2]interface{}]*affineSum{}
	}
	if s, ok := e.affine[key]; ok {
		return s
	}
	e.affine[key] = nil // in progress / recursion
	cc := e.fc(fn)
	var sum *affineSum
	for _, b := range fn.Blocks {
		ret, ok := b.Instrs[len(b.Instrs)-1].(*ssa.Return)
		if !ok {
			continue
		}
		rvs := model.ReturnValues(ret)
		if ri >= len(rvs) {
			return nil
		}
		l := cc.lin(rvs[ri])
		cur := affineSum{param: Const(0), lo: l.K, hi: l.K, hasLo: true, hasHi: true}
		for a, coef := range l.C {
			if _, isP := a.Root.(*ssa.Parameter); isP && a.Path == "" && (a.Kind == 'v' || a.Kind == 'l' || a.Kind == 'c') {
				cur.param = cur.param.Add(Var(a).Scale(coef))
				continue
			}
			alo, ahi, okLo, okHi := cc.constBounds(a)
			if coef > 0 {
				if okLo {
					cur.lo += coef * alo
				} else {
					cur.hasLo = false
				}
				if okHi {
					cur.hi += coef * ahi
				} else {
					cur.hasHi = false
				}
			} else {
				if okHi {
					cur.lo += coef * ahi
				} else {
					cur.hasLo = false
				}
				if okLo {
					cur.hi += coef * alo
				} else {
					cur.hasHi = false
				}
			}
		}
		if sum == nil {
			c2 := cur
			sum = &c2
			continue
		}
		if sum.param.String() != cur.param.String() {
			return nil
		}
		if cur.hasLo && sum.hasLo {
			if cur.lo < sum.lo {
				sum.lo = cur.lo
			}
		} else {
			sum.hasLo = false
		}
		if cur.hasHi && sum.hasHi {
			if cur.hi > sum.hi {
				sum.hi = cur.hi
			}
		} else {
			sum.hasHi = false
		}
	}
	if sum == nil || (!sum.hasLo && !sum.hasHi) {
		return nil
	}
	if len(sum.param.C) == 0 && sum.hasLo && sum.hasHi && sum.lo == sum.hi {
		// a constant: lin0 already handles it
	}
	e.affine[key] = sum
	return sum
}

// constBounds: constant bounds of an atom from its definition facts (facts of the shape
// atom - k >= 0 and k - atom >= 0).
func (c *fnCtx) constBounds(a Atom) (lo, hi int64, okLo, okHi bool) {
	for _, f := range c.defFacts(a) {
		if len(f.L.C) != 1 {
			continue
		}
		coef, has := f.L.C[a]
		if !has {
			continue
		}
		switch coef {
		case 1: // a + K >= 0  ->  a >= -K
			if !okLo || -f.L.K > lo {
				lo, okLo = -f.L.K, true
			}
		case -1: // -a + K >= 0 -> a <= K
			if !okHi || f.L.K < hi {
				hi, okHi = f.L.K, true
			}
		}
	}
	return
}
