// Package po is engine B: panic obligations and a linear-inequality prover over go/ssa.
package po

import (
	"fmt"
	"go/types"
	"sort"
	"strings"

	"golang.org/x/tools/go/ssa"
)

// Atom is an opaque integer quantity: the value of an integer SSA value, or the length /
// capacity of a slice, string or array value. Values reached from a canonical root through a
// path of field selections are identified by (root, path) so that two loads of the same field
// denote the same atom.
type Atom struct {
	Kind byte // 'v' value, 'l' len, 'c' cap
	Root ssa.Value
	Path string // "." separated field indices / names from Root ("" = the root itself)
}

func (a Atom) String() string {
	n := valueName(a.Root)
	if a.Path != "" {
		n += "." + a.Path
	}
	switch a.Kind {
	case 'l':
		return "len(" + n + ")"
	case 'c':
		return "cap(" + n + ")"
	}
	return n
}

func valueName(v ssa.Value) string { return valueNameD(v, 0) }

// valueNameD renders a value structurally (no SSA register numbers), so that obligation keys
// survive unrelated edits of the same function.
func valueNameD(v ssa.Value, d int) string {
	if v == nil {
		return "?"
	}
	if d > 4 {
		return "_"
	}
	switch x := v.(type) {
	case *ssa.Parameter:
		return x.Name()
	case *ssa.Const:
		if x.Value == nil {
			return "nil"
		}
		return x.Value.ExactString()
	case *ssa.Global:
		return x.Name()
	case *ssa.Phi:
		if x.Comment != "" {
			return x.Comment
		}
		return "phi"
	case *ssa.Call:
		var args []string
		for _, a := range x.Common().Args {
			args = append(args, valueNameD(a, d+2))
		}
		name := "call"
		if f := x.Common().StaticCallee(); f != nil {
			name = f.Name()
		} else if x.Common().IsInvoke() {
			name = x.Common().Method.Name()
			args = append([]string{valueNameD(x.Common().Value, d+2)}, args...)
		} else if b, ok := x.Common().Value.(*ssa.Builtin); ok {
			name = b.Name()
		}
		return name + "(" + strings.Join(args, ",") + ")"
	case *ssa.Extract:
		return valueNameD(x.Tuple, d) + "#" + fmt.Sprint(x.Index)
	case *ssa.BinOp:
		return "(" + valueNameD(x.X, d+1) + x.Op.String() + valueNameD(x.Y, d+1) + ")"
	case *ssa.UnOp:
		if x.Op.String() == "*" {
			return valueNameD(x.X, d)
		}
		return x.Op.String() + valueNameD(x.X, d+1)
	case *ssa.FieldAddr:
		name := "?"
		if f := fieldOf(x); f != nil {
			name = f.Name()
		}
		return valueNameD(x.X, d) + "." + name
	case *ssa.Field:
		name := "?"
		if f := fieldOf(x); f != nil {
			name = f.Name()
		}
		return valueNameD(x.X, d) + "." + name
	case *ssa.IndexAddr:
		return valueNameD(x.X, d+1) + "[" + valueNameD(x.Index, d+1) + "]"
	case *ssa.Index:
		return valueNameD(x.X, d+1) + "[" + valueNameD(x.Index, d+1) + "]"
	case *ssa.Slice:
		lo, hi := "", ""
		if x.Low != nil {
			lo = valueNameD(x.Low, d+1)
		}
		if x.High != nil {
			hi = valueNameD(x.High, d+1)
		}
		return valueNameD(x.X, d+1) + "[" + lo + ":" + hi + "]"
	case *ssa.Convert:
		return valueNameD(x.X, d)
	case *ssa.ChangeType:
		return valueNameD(x.X, d)
	case *ssa.Alloc:
		if x.Comment != "" {
			return x.Comment
		}
		return "local"
	case *ssa.MakeSlice:
		return "make(" + valueNameD(x.Len, d+1) + ")"
	case *ssa.Lookup:
		return valueNameD(x.X, d+1) + "[" + valueNameD(x.Index, d+1) + "]"
	case *ssa.Next:
		return "next"
	case *ssa.TypeAssert:
		return valueNameD(x.X, d+1) + ".(T)"
	case *ssa.MakeInterface:
		return valueNameD(x.X, d)
	}
	return "v"
}

// Lin is a linear form sum(coef[a]*a) + K.
type Lin struct {
	C map[Atom]int64
	K int64
}

func Const(k int64) Lin { return Lin{C: map[Atom]int64{}, K: k} }
func Var(a Atom) Lin    { return Lin{C: map[Atom]int64{a: 1}} }

func (l Lin) Clone() Lin {
	o := Lin{C: make(map[Atom]int64, len(l.C)), K: l.K}
	for a, c := range l.C {
		o.C[a] = c
	}
	return o
}

func (l Lin) Add(m Lin) Lin {
	o := l.Clone()
	for a, c := range m.C {
		o.C[a] += c
		if o.C[a] == 0 {
			delete(o.C, a)
		}
	}
	o.K += m.K
	return o
}

func (l Lin) Scale(k int64) Lin {
	o := Lin{C: make(map[Atom]int64, len(l.C)), K: l.K * k}
	if k == 0 {
		return o
	}
	for a, c := range l.C {
		o.C[a] = c * k
	}
	return o
}

func (l Lin) Sub(m Lin) Lin { return l.Add(m.Scale(-1)) }

func (l Lin) IsConst() bool { return len(l.C) == 0 }

func (l Lin) String() string {
	var parts []string
	var atoms []Atom
	for a := range l.C {
		atoms = append(atoms, a)
	}
	sort.Slice(atoms, func(i, j int) bool { return atoms[i].String() < atoms[j].String() })
	for _, a := range atoms {
		c := l.C[a]
		switch c {
		case 1:
			parts = append(parts, "+"+a.String())
		case -1:
			parts = append(parts, "-"+a.String())
		default:
			parts = append(parts, fmt.Sprintf("%+d*%s", c, a.String()))
		}
	}
	if l.K != 0 || len(parts) == 0 {
		parts = append(parts, fmt.Sprintf("%+d", l.K))
	}
	return strings.TrimPrefix(strings.Join(parts, ""), "+")
}

// Ineq means L >= 0.
type Ineq struct {
	L   Lin
	Why string
}

// infeasible decides by Fourier-Motzkin elimination over the rationals whether the conjunction
// of the inequalities has no solution. Returning true is sound for the integers as well.
// The search is bounded; on overflow of the bound it returns false (not proved).
func infeasible(cs []Ineq) bool {
	type row struct {
		c map[Atom]int64
		k int64
	}
	var rows []row
	for _, in := range cs {
		r := row{c: map[Atom]int64{}, k: in.L.K}
		for a, c := range in.L.C {
			if c != 0 {
				r.c[a] = c
			}
		}
		rows = append(rows, r)
	}
	norm := func(r row) row {
		// divide by gcd of coefficients (keeps integrality; floor the constant: sound because
		// sum c_i x_i >= -k with integer lhs implies sum (c_i/g) x_i >= ceil(-k/g))
		var g int64
		for _, c := range r.c {
			if c < 0 {
				c = -c
			}
			g = gcd(g, c)
		}
		if g > 1 {
			for a := range r.c {
				r.c[a] /= g
			}
			r.k = floorDiv(r.k, g)
		}
		return r
	}
	for i := range rows {
		rows[i] = norm(rows[i])
	}
	for iter := 0; iter < 64; iter++ {
		// contradiction?
		for _, r := range rows {
			if len(r.c) == 0 && r.k < 0 {
				return true
			}
		}
		// pick the variable minimising pos*neg
		count := map[Atom][2]int{}
		for _, r := range rows {
			for a, c := range r.c {
				x := count[a]
				if c > 0 {
					x[0]++
				} else {
					x[1]++
				}
				count[a] = x
			}
		}
		if len(count) == 0 {
			return false
		}
		var best Atom
		bestCost := -1
		var atoms []Atom
		for a := range count {
			atoms = append(atoms, a)
		}
		sort.Slice(atoms, func(i, j int) bool { return atoms[i].String() < atoms[j].String() })
		for _, a := range atoms {
			x := count[a]
			cost := x[0] * x[1]
			if bestCost < 0 || cost < bestCost {
				best, bestCost = a, cost
			}
		}
		var pos, neg, rest []row
		for _, r := range rows {
			c := r.c[best]
			switch {
			case c > 0:
				pos = append(pos, r)
			case c < 0:
				neg = append(neg, r)
			default:
				rest = append(rest, r)
			}
		}
		if len(pos)*len(neg)+len(rest) > 3000 {
			return false
		}
		for _, p := range pos {
			for _, n := range neg {
				cp, cn := p.c[best], -n.c[best]
				// cn*p + cp*n eliminates best
				nr := row{c: map[Atom]int64{}}
				overflow := false
				for a, c := range p.c {
					if a != best {
						nr.c[a] += c * cn
					}
				}
				for a, c := range n.c {
					if a != best {
						nr.c[a] += c * cp
					}
				}
				nr.k = p.k*cn + n.k*cp
				for a, c := range nr.c {
					if c == 0 {
						delete(nr.c, a)
					}
					if c > 1<<50 || c < -(1<<50) {
						overflow = true
					}
				}
				if overflow || nr.k > 1<<60 || nr.k < -(1<<60) {
					continue // dropping a derived row is sound (weaker system)
				}
				rest = append(rest, norm(nr))
			}
		}
		rows = dedup(rest)
	}
	for _, r := range rows {
		if len(r.c) == 0 && r.k < 0 {
			return true
		}
	}
	return false
}

func dedup[T any](rows []T) []T {
	seen := map[string]bool{}
	var out []T
	for _, r := range rows {
		s := fmt.Sprint(r)
		if !seen[s] {
			seen[s] = true
			out = append(out, r)
		}
	}
	return out
}

func gcd(a, b int64) int64 {
	for b != 0 {
		a, b = b, a%b
	}
	if a < 0 {
		return -a
	}
	return a
}

func floorDiv(a, b int64) int64 {
	q := a / b
	if (a%b != 0) && ((a < 0) != (b < 0)) {
		q--
	}
	return q
}

// typeRange returns the value range of a basic integer type.
func typeRange(t types.Type) (lo, hi int64, ok bool) {
	if t == nil {
		return 0, 0, false
	}
	b, isB := t.Underlying().(*types.Basic)
	if !isB {
		return 0, 0, false
	}
	switch b.Kind() {
	case types.Uint8:
		return 0, 255, true
	case types.Uint16:
		return 0, 65535, true
	case types.Uint32:
		return 0, 1<<32 - 1, true
	case types.Uint, types.Uint64, types.Uintptr:
		return 0, 1<<62 - 1, true // upper bound clipped; only the lower bound matters
	case types.Int8:
		return -128, 127, true
	case types.Int16:
		return -32768, 32767, true
	case types.Int32:
		return -(1 << 31), 1<<31 - 1, true
	case types.Int, types.Int64:
		return -(1 << 62), 1<<62 - 1, true
	}
	return 0, 0, false
}

func isUnsigned(t types.Type) bool {
	b, ok := t.Underlying().(*types.Basic)
	return ok && b.Info()&types.IsUnsigned != 0
}

func isInteger(t types.Type) bool {
	b, ok := t.Underlying().(*types.Basic)
	return ok && b.Info()&types.IsInteger != 0
}
