package po

import (
	"fmt"
	"go/token"
	"go/types"
	"os"
	"sort"
	"strings"

	"golang.org/x/tools/go/ssa"

	"lalverif/internal/model"
)

type Status int

const (
	Proved   Status = iota // discharged in its own function
	Lifted                 // became a precondition and was discharged at every call path
	Unproved               // fails: at its own site or at some caller (Chain names it)
)

// Obligation is one potential process-terminating operation.
type Obligation struct {
	Fn     *ssa.Function
	Instr  ssa.Instruction
	Kind   string // index, slice, div, make, typeassert, terminator
	Expr   string
	Goals  []Ineq // all must hold (each is L>=0)
	Status Status
	Proof  string
	// for Unproved: where the requirement could not be established
	FailAt  ssa.Instruction
	FailFn  *ssa.Function
	Chain   []string
	Trivial bool
	// every caller at which a lifted requirement of this obligation fails (the first one is
	// also in FailAt/FailFn/Proof)
	Fails []Failure
}

// ExtraOb is a rule-specific obligation produced by Engine.Extra.
type ExtraOb struct {
	Kind, Expr string
	Goals      []Ineq
}

// Failure is one call site that cannot establish a lifted requirement.
type Failure struct {
	At    ssa.Instruction
	Fn    *ssa.Function
	Proof string
	// Form + K >= 0 is what the caller cannot establish
	Form string
	K    int64
}

// Req is a precondition of a function over its parameter-rooted atoms.
type Req struct {
	G      Ineq
	Origin *Obligation
	Chain  []string
	// Sites: where in the function the requirement arises (the obligation itself, or the call
	// sites of the callee it comes from) with the goal to establish there
	Sites []reqSite
}

type reqSite struct {
	At   ssa.Instruction
	Goal Ineq
}

type Engine struct {
	P *model.Prog
	// Scope: functions whose obligations are enumerated
	Scope map[*ssa.Function]bool
	// Roots: entry points; a requirement that reaches a root fails there
	ctx   map[*ssa.Function]*fnCtx
	reqs  map[*ssa.Function][]Req
	Obs   []*Obligation
	Depth int
	// MaxMake is the largest allocation size accepted for a non-constant make().
	MaxMake int64
	seenReq map[string]bool
	// sumNonNeg[f][j] = parameter indices that must be >= 0 for result j to be >= sumLow[f][j] (0 or -1)
	sumNonNeg map[*ssa.Function]map[int][]int
	sumLow    map[*ssa.Function]map[int]int64
	// sumUpper[f][{j,k}]: result j <= len(parameter k)
	sumUpper map[*ssa.Function]map[[2]int]bool
	// fieldLen / globalLen: slice-typed struct fields and package variables whose every
	// assignment in the program stores a value of the same constant length
	// Extra, when set, contributes further obligations for an instruction (rule-specific
	// assertions such as "the slice handed to this callback is non-empty"); lin/seqLen give the
	// linear forms of a value / of a sequence's length in the function's context.
	Extra func(fn *ssa.Function, in ssa.Instruction, lin func(ssa.Value) Lin, seqLen func(ssa.Value) Lin) []ExtraOb

	fieldLen map[*types.Var]int64
	// fieldMin: integer struct fields whose every store (program-wide) is a constant; the value
	// is the smallest constant stored, with 0 added when some function allocates the owning
	// struct without assigning the field
	fieldMin  map[*types.Var]int64
	globalLen map[*ssa.Global]int64

	// entry: requirements of a function that its callers are held to (each call site either
	// establishes them or is reported) and that therefore hold on entry; only requirements over
	// the parameters' own values and lengths (nothing loaded from memory)
	entry map[*ssa.Function][]Ineq
	// paramSets: constants a parameter receives at every call site (see constParamSet)
	paramSets map[*ssa.Parameter][]int64
	// affine: result summaries (see affineSummary)
	affine map[[2]interface{}]*affineSum
}

func New(p *model.Prog) *Engine {
	return &Engine{P: p, Scope: map[*ssa.Function]bool{}, ctx: map[*ssa.Function]*fnCtx{}, reqs: map[*ssa.Function][]Req{}, Depth: 6, MaxMake: 1 << 26, seenReq: map[string]bool{}}
}

func (e *Engine) fc(fn *ssa.Function) *fnCtx {
	c := e.ctx[fn]
	if c == nil {
		c = newFnCtx(fn)
		c.e = e
		e.ctx[fn] = c
		e.collectSuccess(c)
	}
	return c
}

// ---------------------------------------------------------------------------------------------
// facts available at an instruction

func idxOf(in ssa.Instruction) int {
	for i, x := range in.Block().Instrs {
		if x == in {
			return i
		}
	}
	return -1
}

func dominatesInstr(a, b ssa.Instruction) bool {
	if a.Block() == b.Block() {
		return idxOf(a) < idxOf(b)
	}
	return a.Block().Dominates(b.Block())
}

// collectSuccess records, per function, the facts implied by operations that must have
// succeeded for execution to continue (an index that did not panic was in range).
func (e *Engine) collectSuccess(c *fnCtx) {
	for _, b := range c.fn.Blocks {
		for _, in := range b.Instrs {
			var facts []Ineq
			switch x := in.(type) {
			case *ssa.IndexAddr:
				if _, isK := constInt(x.Index); !isK || true {
					i := c.lin(x.Index)
					facts = append(facts, Ineq{c.seqLen(x.X).Sub(i).Sub(Const(1)), "earlier index succeeded"})
				}
			case *ssa.Index:
				i := c.lin(x.Index)
				facts = append(facts, Ineq{c.seqLen(x.X).Sub(i).Sub(Const(1)), "earlier index succeeded"})
			case *ssa.Slice:
				lim := c.seqCap(x.X)
				if _, isStr := x.X.Type().Underlying().(*types.Basic); isStr {
					lim = c.seqLen(x.X)
				}
				if x.High != nil {
					facts = append(facts, Ineq{lim.Sub(c.lin(x.High)), "earlier slice succeeded"})
					if x.Low != nil {
						facts = append(facts, Ineq{c.lin(x.High).Sub(c.lin(x.Low)), "earlier slice succeeded"})
					}
				} else if x.Low != nil {
					facts = append(facts, Ineq{c.seqLen(x.X).Sub(c.lin(x.Low)), "earlier slice succeeded"})
				}
			case *ssa.Call:
				// a call that returned satisfied the callee's requirements
				if callee := x.Common().StaticCallee(); callee != nil {
					for _, rq := range e.reqs[callee] {
						if g, ok := e.substitute(c, rq.G, callee, x); ok {
							facts = append(facts, Ineq{g.L, "earlier call to " + model.FnName(callee) + " returned"})
						}
					}
					facts = append(facts, libraryRequires(c, x)...)
				}
			}
			if len(facts) > 0 {
				c.success = append(c.success, successFact{at: in, facts: facts})
			}
		}
	}
}

// factsAt gathers guard facts, success facts and definition facts relevant to goal.
func (e *Engine) factsAt(c *fnCtx, at ssa.Instruction, goal Lin, hyp []Ineq) []Ineq {
	var facts []Ineq
	var diseq []Lin
	for _, g := range model.Guards(at.Block()) {
		facts = append(facts, c.guardIneqs(g.Cond, g.Polarity)...)
		if d, ok := c.guardDiseq(g.Cond, g.Polarity); ok {
			diseq = append(diseq, d)
		}
	}
	facts = append(facts, e.entry[c.fn]...)
	for _, sf := range c.success {
		if sf.at != at && dominatesInstr(sf.at, at) {
			facts = append(facts, sf.facts...)
		}
	}
	// restrict to facts connected to the goal's atoms, then add definition facts of all atoms
	rel := map[Atom]bool{}
	for a := range goal.C {
		rel[a] = true
	}
	for _, h := range hyp {
		for a := range h.L.C {
			rel[a] = true
		}
	}
	var used []Ineq
	taken := make([]bool, len(facts))
	seenDef := map[Atom]bool{}
	// alternate between selecting the guard/success facts connected to the relevant atoms and
	// adding the definition facts of those atoms (which can connect further atoms: cap >= len
	// brings the guards on len into play for a goal about cap)
	for outer := 0; outer < 4; outer++ {
		progress := false
		changed := true
		for changed {
			changed = false
			for i, f := range facts {
				if taken[i] {
					continue
				}
				touch := false
				for a := range f.L.C {
					if rel[a] {
						touch = true
					}
				}
				if touch || len(f.L.C) == 0 {
					taken[i] = true
					progress = true
					used = append(used, f)
					for a := range f.L.C {
						if !rel[a] {
							rel[a] = true
							changed = true
						}
					}
				}
			}
		}
		for round := 0; round < 3; round++ {
			var atoms []Atom
			for a := range rel {
				if !seenDef[a] {
					atoms = append(atoms, a)
				}
			}
			if len(atoms) == 0 {
				break
			}
			sort.Slice(atoms, func(i, j int) bool { return atoms[i].String() < atoms[j].String() })
			for _, a := range atoms {
				seenDef[a] = true
				progress = true
				for _, d := range c.defFacts(a) {
					used = append(used, d)
					for b := range d.L.C {
						rel[b] = true
					}
				}
			}
		}
		if !progress {
			break
		}
	}
	// x != k together with x >= k (or x <= k) tightens to x >= k+1 (x <= k-1)
	for _, d := range diseq {
		touch := false
		for a := range d.C {
			if rel[a] {
				touch = true
			}
		}
		if !touch {
			continue
		}
		for _, a := range atomsOf(d) {
			if !seenDef[a] {
				seenDef[a] = true
				used = append(used, c.defFacts(a)...)
			}
		}
		withHyp := append(append([]Ineq{}, used...), hyp...)
		if infeasible(append(append([]Ineq{}, withHyp...), Ineq{d.Scale(-1).Add(Const(-1)), "d<=-1"})) {
			used = append(used, Ineq{d.Add(Const(-1)), "guard != with lower bound"})
		} else if infeasible(append(append([]Ineq{}, withHyp...), Ineq{d.Add(Const(-1)), "d>=1"})) {
			used = append(used, Ineq{d.Scale(-1).Add(Const(-1)), "guard != with upper bound"})
		}
	}
	return used
}

func atomsOf(l Lin) []Atom {
	var out []Atom
	for a := range l.C {
		out = append(out, a)
	}
	return out
}

// prove tries to establish goal (L>=0) at instruction at.
func (e *Engine) prove(c *fnCtx, at ssa.Instruction, goal Ineq) (bool, string) {
	return e.proveH(c, at, goal, nil, 0)
}

// proveH: direct Fourier-Motzkin refutation from the facts at `at` plus hypotheses; when that
// fails and the goal mentions a phi, the goal is proved per incoming edge (acyclic phis) or by
// induction (loop phis: initial edges outright, back edges under the hypothesis that the goal
// holds for the phi).
func (e *Engine) proveH(c *fnCtx, at ssa.Instruction, goal Ineq, hyp []Ineq, depth int) (bool, string) {
	if goal.L.IsConst() {
		if goal.L.K >= 0 {
			return true, "constant"
		}
		// an unreachability goal: proved when the facts that hold at this point contradict
		// each other (the guards leading here cannot all be true)
		pseudo := Const(0)
		for _, g := range model.Guards(at.Block()) {
			for _, in := range c.guardIneqs(g.Cond, g.Polarity) {
				for a := range in.L.C {
					pseudo.C[a] = 1
				}
			}
		}
		if len(pseudo.C) == 0 && len(hyp) == 0 {
			return false, ""
		}
		facts := e.factsAt(c, at, pseudo, hyp)
		if infeasible(append(facts, hyp...)) {
			return true, "unreachable: the guards leading here contradict the facts"
		}
		return false, ""
	}
	facts := e.factsAt(c, at, goal.L, hyp)
	neg := Ineq{goal.L.Scale(-1).Add(Const(-1)), "negated goal"}
	if infeasible(append(append(facts, hyp...), neg)) {
		var why []string
		for _, f := range append(facts, hyp...) {
			if strings.HasPrefix(f.Why, "guard") || strings.HasPrefix(f.Why, "earlier") || strings.HasPrefix(f.Why, "result of") || strings.HasPrefix(f.Why, "induction") {
				why = append(why, f.Why)
			}
		}
		if len(why) > 4 {
			why = why[:4]
		}
		return true, strings.Join(why, "; ")
	}
	if depth >= 3 {
		return false, ""
	}
	// phi splitting / induction
	var phis []*ssa.Phi
	for a := range goal.L.C {
		if a.Kind == 'v' && a.Path == "" {
			if ph, ok := a.Root.(*ssa.Phi); ok && ph.Parent() == c.fn {
				phis = append(phis, ph)
			}
		}
	}
	sort.Slice(phis, func(i, j int) bool { return phis[i].Name() < phis[j].Name() })
	for _, ph := range phis {
		if !(ph.Block() == at.Block() || ph.Block().Dominates(at.Block())) {
			continue
		}
		okAll := true
		for i := range ph.Edges {
			pred := ph.Block().Preds[i]
			back := ph.Block() == pred || ph.Block().Dominates(pred)
			// all phis of this block are replaced together by their operands on this edge; over a
			// back edge every other atom must mean the same thing in the next iteration
			sub, okSub := substPhisOnEdge(c, goal.L, ph.Block(), i, back)
			if !okSub {
				okAll = false
				break
			}
			var h []Ineq
			if back {
				h = append(h, Ineq{goal.L, "induction hypothesis"})
			}
			term := pred.Instrs[len(pred.Instrs)-1]
			// the other atoms of the goal must be defined outside the loop for the
			// substituted goal to mean the same thing at the predecessor
			ok, _ := e.proveAtEdge(c, term, pred, ph.Block(), Ineq{sub, goal.Why}, append(append([]Ineq{}, hyp...), h...), depth+1)
			if !ok {
				okAll = false
				break
			}
		}
		if okAll {
			return true, "per-edge/induction over " + valueName(ph)
		}
	}
	// a parameter that every call site gives one of a few constants (an unexported helper
	// parameterised by a size): the goal is proved for each value the guards leave possible
	if depth == 0 {
		for _, prm := range c.fn.Params {
			set := e.constParamSet(prm)
			if len(set) < 2 {
				continue
			}
			atom := Atom{Kind: 'v', Root: prm}
			okAll, any := true, false
			for _, k := range set {
				hs := append(append([]Ineq{}, hyp...), Ineq{Var(atom).Sub(Const(k)), "guard: parameter value at every call site"}, Ineq{Const(k).Sub(Var(atom)), "guard: parameter value at every call site"})
				pseudo := goal.L.Clone()
				pseudo.C[atom] = 1
				fs := e.factsAt(c, at, pseudo, hs)
				if infeasible(append(append([]Ineq{}, fs...), hs...)) {
					continue // the guards leading here exclude this value
				}
				any = true
				if !infeasible(append(append(append([]Ineq{}, fs...), hs...), neg)) {
					okAll = false
					break
				}
			}
			if okAll && any {
				return true, "for each value every call site passes for " + prm.Name()
			}
		}
	}
	// auxiliary invariants: a goal that also mentions values recomputed in the loop cannot be
	// carried over a back edge itself, but "phi >= 0" for the phis it adds can; with those as
	// hypotheses the goal may follow directly
	if depth == 0 {
		var aux []Ineq
		for _, ph := range phis {
			if !(ph.Block() == at.Block() || ph.Block().Dominates(at.Block())) {
				continue
			}
			atom := Atom{Kind: 'v', Root: ph}
			if goal.L.C[atom] <= 0 || len(goal.L.C) < 2 {
				continue
			}
			if ok, _ := e.proveH(c, at, Ineq{Var(atom), "loop invariant"}, hyp, depth+1); ok {
				aux = append(aux, Ineq{Var(atom), "induction: " + valueName(ph) + " >= 0 around the loop"})
			}
		}
		if len(aux) > 0 {
			facts := e.factsAt(c, at, goal.L, append(append([]Ineq{}, hyp...), aux...))
			if infeasible(append(append(append([]Ineq{}, facts...), hyp...), append(aux, neg)...)) {
				return true, aux[0].Why
			}
		}
	}
	return false, ""
}

// substPhisOnEdge rewrites l for the k-th incoming edge of block b: every atom that is the value
// of a phi of b becomes that phi's k-th operand. Over a back edge (strict) the other atoms must
// denote the same thing in the next iteration: parameters, constants, globals, or values
// defined in a block that strictly dominates b; otherwise the rewrite is refused.
func substPhisOnEdge(c *fnCtx, l Lin, b *ssa.BasicBlock, k int, strict bool) (Lin, bool) {
	out := Const(l.K)
	for a, coef := range l.C {
		if ph, ok := a.Root.(*ssa.Phi); ok && ph.Block() == b {
			if a.Kind == 'v' && a.Path == "" {
				out = out.Add(c.lin(ph.Edges[k]).Scale(coef))
				continue
			}
			if strict {
				return l, false
			}
		} else if strict {
			if in, isInstr := a.Root.(ssa.Instruction); isInstr {
				rb := in.Block()
				if rb == nil || rb == b || !rb.Dominates(b) {
					return l, false
				}
			}
		}
		out = out.Add(Var(a).Scale(coef))
	}
	return out, true
}

// proveAtEdge proves a goal at the end of block pred on the edge pred->succ: the facts are
// those at pred's terminator plus the branch condition of that edge.
func (e *Engine) proveAtEdge(c *fnCtx, term ssa.Instruction, pred, succ *ssa.BasicBlock, goal Ineq, hyp []Ineq, depth int) (bool, string) {
	if iff, ok := term.(*ssa.If); ok && pred.Succs[0] != pred.Succs[1] {
		for k, s := range pred.Succs {
			if s == succ {
				hyp = append(hyp, c.guardIneqs(iff.Cond, k == 0)...)
			}
		}
	}
	return e.proveH(c, term, goal, hyp, depth)
}

// ---------------------------------------------------------------------------------------------
// obligations

func (e *Engine) describeSeq(c *fnCtx, v ssa.Value) string {
	root, path := c.canon(v)
	n := valueName(root)
	if path != "" {
		n += "." + path
	}
	if sl, ok := v.(*ssa.Slice); ok {
		lo, hi := "", ""
		if sl.Low != nil {
			lo = c.lin(sl.Low).String()
		}
		if sl.High != nil {
			hi = c.lin(sl.High).String()
		}
		return e.describeSeq(c, sl.X) + "[" + lo + ":" + hi + "]"
	}
	return n
}

// Enumerate creates the obligations of fn.
func (e *Engine) Enumerate(fn *ssa.Function) []*Obligation {
	c := e.fc(fn)
	var out []*Obligation
	add := func(in ssa.Instruction, kind, expr string, goals ...Ineq) {
		out = append(out, &Obligation{Fn: fn, Instr: in, Kind: kind, Expr: expr, Goals: goals})
	}
	for _, b := range fn.Blocks {
		for _, in := range b.Instrs {
			if e.Extra != nil {
				for _, xo := range e.Extra(fn, in, c.lin, c.seqLen) {
					add(in, xo.Kind, xo.Expr, xo.Goals...)
				}
			}
			switch x := in.(type) {
			case *ssa.IndexAddr:
				e.indexOb(c, in, x.X, x.Index, add)
			case *ssa.Index:
				e.indexOb(c, in, x.X, x.Index, add)
			case *ssa.Slice:
				lim := c.seqCap(x.X)
				if bt, isB := x.X.Type().Underlying().(*types.Basic); isB && bt.Info()&types.IsString != 0 {
					lim = c.seqLen(x.X)
				}
				lo := Const(0)
				if x.Low != nil {
					lo = c.lin(x.Low)
				}
				var goals []Ineq
				expr := e.describeSeq(c, x)
				if x.High != nil {
					hi := c.lin(x.High)
					if x.Max != nil {
						mx := c.lin(x.Max)
						goals = append(goals, Ineq{lim.Sub(mx), "max<=cap"}, Ineq{mx.Sub(hi), "high<=max"})
					} else {
						goals = append(goals, Ineq{lim.Sub(hi), "high<=cap"})
					}
					goals = append(goals, Ineq{hi.Sub(lo), "low<=high"})
				} else {
					goals = append(goals, Ineq{c.seqLen(x.X).Sub(lo), "low<=len"})
				}
				goals = append(goals, Ineq{lo, "low>=0"})
				triv := true
				for _, g := range goals {
					if !g.L.IsConst() || g.L.K < 0 {
						triv = false
					}
				}
				ob := &Obligation{Fn: fn, Instr: in, Kind: "slice", Expr: expr, Goals: goals, Trivial: triv}
				out = append(out, ob)
			case *ssa.BinOp:
				// an unsigned difference that sizes a read, an allocation or a slice must not wrap
				if x.Op == token.SUB && isUnsigned(x.Type()) && sizeOf(x.Type()) >= 4 {
					_, kx := constInt(x.X)
					_, ky := constInt(x.Y)
					if !(kx && ky) && e.reachesSizeSink(x, 0, map[ssa.Value]bool{}) {
						a, b := c.lin(x.X), c.lin(x.Y)
						add(in, "usub", "difference "+a.String()+" - ("+b.String()+")", Ineq{a.Sub(b), "unsigned difference does not wrap"})
					}
				}
				if (x.Op == token.QUO || x.Op == token.REM) && isInteger(x.Type()) {
					if _, isK := constInt(x.Y); !isK {
						dv := x.Y
						// uint64(n) of a signed n is >= 1 when n >= 1: state the goal on n, whose
						// guards are visible (the conversion itself is opaque to the linear forms)
						if cv, ok := dv.(*ssa.Convert); ok && isInteger(cv.X.Type()) && !isUnsigned(cv.X.Type()) && isUnsigned(cv.Type()) && sizeOf(cv.Type()) >= sizeOf(cv.X.Type()) {
							dv = cv.X
						}
						d := c.lin(dv)
						add(in, "div", "divisor "+d.String(), Ineq{d.Sub(Const(1)), "divisor>=1"})
					}
				}
			case *ssa.MakeSlice:
				if _, isK := constInt(x.Len); !isK {
					n := c.lin(x.Len)
					goals := []Ineq{{n, "len>=0"}}
					// a size proportional to data already held in memory is bounded by that data
					prop := proportional(c, n, e.MaxMake, 0)
					if !prop {
						goals = append(goals, Ineq{Const(e.MaxMake).Sub(n), fmt.Sprintf("len<=%d", e.MaxMake)})
					}
					add(in, "make", "make len "+n.String(), goals...)
				}
				if x.Cap != x.Len {
					if _, isK := constInt(x.Cap); !isK {
						cp := c.lin(x.Cap)
						goals := []Ineq{{cp.Sub(c.lin(x.Len)), "cap>=len"}}
						prop := len(cp.C) > 0 && cp.K <= e.MaxMake
						for a, k := range cp.C {
							if !(a.Kind == 'l' || a.Kind == 'c') || k <= 0 || k > 16 {
								prop = false
							}
						}
						if !prop {
							goals = append(goals, Ineq{Const(e.MaxMake).Sub(cp), fmt.Sprintf("cap<=%d", e.MaxMake)})
						}
						add(in, "make", "make cap "+cp.String(), goals...)
					}
				}
			case *ssa.Convert:
				// unsigned -> signed of the same width: the linear forms identify the two values, which
				// is only right while the operand stays below the sign bit; that is an obligation
				if isInteger(x.X.Type()) && isInteger(x.Type()) && isUnsigned(x.X.Type()) && !isUnsigned(x.Type()) && sizeOf(x.Type()) == sizeOf(x.X.Type()) && sizeOf(x.Type()) >= 4 {
					if _, isK := constInt(x.X); !isK {
						v := c.lin(x.X)
						bound := int64(1) << 44
						if sizeOf(x.Type()) == 4 {
							bound = 1<<31 - 1
						}
						add(in, "conv", "sign of "+v.String(), Ineq{Const(bound).Sub(v), "operand below the sign bit"})
					}
				}
			case *ssa.TypeAssert:
				if !x.CommaOk && types.Identical(x.AssertedType, x.X.Type()) {
					// the nil check go/ssa emits when a method value is taken from an interface
					// (i.M as a value): it fails exactly when calling i.M() would - a nil
					// interface, which like every nil dereference is outside the PO kinds
					continue
				}
				if !x.CommaOk {
					if typeGuarded(fn, x) {
						out = append(out, &Obligation{Fn: fn, Instr: in, Kind: "typeassert", Expr: x.AssertedType.String(), Goals: []Ineq{{Const(0), "dominated by the ok edge of a checked assertion of the same value to the same type"}}})
					} else {
						add(in, "typeassert", x.AssertedType.String(), Ineq{Const(-1), "unchecked type assertion"})
					}
				}
			case *ssa.Panic:
				// the panic go/ssa emits for a blocking select that matched no case is unreachable by construction
				if mi, ok := x.X.(*ssa.MakeInterface); ok {
					if k, isK := mi.X.(*ssa.Const); isK && k.Value != nil && strings.Contains(k.Value.ExactString(), "blocking select matched no case") {
						continue
					}
				}
				add(in, "terminator", "panic", Ineq{Const(-1), "explicit panic"})
			case ssa.CallInstruction:
				if name, ok := terminatorCall(x); ok {
					add(in, "terminator", name, Ineq{Const(-1), "process terminator"})
				}
				for _, g := range libraryRequires(c, x) {
					add(in, "libcall", g.Why, g)
				}
			}
		}
	}
	return out
}

func (e *Engine) indexOb(c *fnCtx, in ssa.Instruction, seq, index ssa.Value, add func(ssa.Instruction, string, string, ...Ineq)) {
	// maps are not sequences
	if _, isMap := seq.Type().Underlying().(*types.Map); isMap {
		return
	}
	n := c.seqLen(seq)
	i := c.lin(index)
	hi := Ineq{n.Sub(i).Sub(Const(1)), "index<len"}
	lo := Ineq{i, "index>=0"}
	expr := e.describeSeq(c, seq) + "[" + i.String() + "]"
	if hi.L.IsConst() && hi.L.K >= 0 && lo.L.IsConst() && lo.L.K >= 0 {
		return // constant index into a fixed-size array (variadic packing, literals): by construction
	}
	add(in, "index", expr, hi, lo)
}

// terminatorCall recognises calls that end the process.
func terminatorCall(ci ssa.CallInstruction) (string, bool) {
	c := ci.Common()
	if _, isGo := ci.(*ssa.Go); isGo {
		return "", false
	}
	name := ""
	pkg := ""
	if c.IsInvoke() {
		name = c.Method.Name()
		if c.Method.Pkg() != nil {
			pkg = c.Method.Pkg().Path()
		}
	} else if f := c.StaticCallee(); f != nil {
		name = f.Name()
		if f.Pkg != nil {
			pkg = f.Pkg.Pkg.Path()
		} else if o := f.Object(); o != nil && o.Pkg() != nil {
			pkg = o.Pkg().Path()
		}
	} else {
		return "", false
	}
	switch {
	case pkg == "os" && name == "Exit":
		return "os.Exit", true
	case strings.HasSuffix(pkg, "naza/pkg/nazalog") && (strings.HasPrefix(name, "Panic") || strings.HasPrefix(name, "Fatal")):
		return "nazalog." + name, true
	case pkg == "log" && (strings.HasPrefix(name, "Panic") || strings.HasPrefix(name, "Fatal")):
		return "log." + name, true
	case strings.HasSuffix(pkg, "lal/pkg/base") && name == "OsExitAndWaitPressIfWindows":
		return "base.OsExitAndWaitPressIfWindows", true
	}
	return "", false
}

// libraryRequires: preconditions of standard-library leaf functions.
func libraryRequires(c *fnCtx, ci ssa.CallInstruction) []Ineq {
	com := ci.Common()
	f := com.StaticCallee()
	if f == nil {
		return nil
	}
	recv := ""
	if f.Signature.Recv() != nil {
		recv = f.Signature.Recv().Type().String()
	}
	need := func(arg int, n int64) []Ineq {
		if arg >= len(com.Args) {
			return nil
		}
		return []Ineq{{c.seqLen(com.Args[arg]).Sub(Const(n)), fmt.Sprintf("%s needs len>=%d", f.Name(), n)}}
	}
	if recv == "encoding/binary.bigEndian" || recv == "encoding/binary.littleEndian" {
		switch f.Name() {
		case "Uint16", "PutUint16":
			return need(1, 2)
		case "Uint32", "PutUint32":
			return need(1, 4)
		case "Uint64", "PutUint64":
			return need(1, 8)
		}
	}
	if f.Pkg != nil && f.Pkg.Pkg.Path() == "strings" && f.Name() == "Repeat" {
		return []Ineq{{c.lin(com.Args[1]), "strings.Repeat needs count>=0"}}
	}
	// naza's growable buffer: ReserveBytes(n) slices [:n] and Grow(n) sizes an allocation
	if strings.HasSuffix(recv, "naza/pkg/nazabytes.Buffer") && len(com.Args) == 2 {
		switch f.Name() {
		case "ReserveBytes", "Grow":
			if _, isK := constInt(com.Args[1]); !isK {
				return []Ineq{{c.lin(com.Args[1]), f.Name() + " needs n>=0"}}
			}
		}
	}
	return nil
}

// ---------------------------------------------------------------------------------------------
// preconditions

// paramRooted: every atom of l is rooted at a parameter of fn (or a free variable of a closure).
func paramRooted(fn *ssa.Function, l Lin) bool {
	for a := range l.C {
		switch r := a.Root.(type) {
		case *ssa.Parameter:
			if r.Parent() != fn {
				return false
			}
		default:
			return false
		}
	}
	return len(l.C) > 0
}

// substitute rewrites a requirement of callee (over its parameters) into the caller's terms at
// a call site.
func (e *Engine) substitute(c *fnCtx, g Ineq, callee *ssa.Function, site ssa.CallInstruction) (Ineq, bool) {
	args := site.Common().Args
	if site.Common().IsInvoke() {
		args = append([]ssa.Value{site.Common().Value}, args...)
	}
	out := Const(g.L.K)
	for a, coef := range g.L.C {
		p, ok := a.Root.(*ssa.Parameter)
		if !ok {
			return Ineq{}, false
		}
		idx := -1
		for i, pp := range callee.Params {
			if pp == p {
				idx = i
			}
		}
		if idx < 0 || idx >= len(args) {
			return Ineq{}, false
		}
		arg := args[idx]
		var term Lin
		if a.Path == "" {
			switch a.Kind {
			case 'v':
				term = c.lin(arg)
			case 'l':
				term = c.seqLen(arg)
			case 'c':
				term = c.seqCap(arg)
			}
		} else {
			// field path below the argument
			root, path := c.canon(arg)
			full := a.Path
			if path != "" {
				full = path + "." + a.Path
			}
			// interface receivers (invoke) carry the concrete pointer: keep the value as root
			term = Var(Atom{Kind: a.Kind, Root: root, Path: full})
			// the caller itself stores that field: the path is no atom here, but a load of it that
			// reaches the call unchanged stands for it
			if a.Kind == 'v' {
				if siteIn, isIn := site.(ssa.Instruction); isIn {
					if l := c.loadOfPathAt(root, full, siteIn); l != nil {
						term = c.lin(l)
					}
				}
			}
		}
		out = out.Add(term.Scale(coef))
	}
	return Ineq{out, g.Why}, true
}

// liftable turns an unproved goal into a requirement over fn's parameters when possible: the
// goal itself, its strengthening, or (for unreachability goals) the negation of the nearest
// dominating guard that is a single inequality over the parameters.
func (e *Engine) liftable(c *fnCtx, at ssa.Instruction, g Ineq) (Ineq, bool) {
	if g.L.IsConst() {
		if g.L.K >= 0 {
			return g, false
		}
		// only the nearest guard: an outer guard (a loop condition, say) is not what makes the
		// point unreachable
		gds := model.Guards(at.Block())
		if len(gds) == 0 {
			return g, false
		}
		ins := c.guardIneqs(gds[0].Cond, gds[0].Polarity)
		if len(ins) != 1 {
			return g, false
		}
		l := ins[0].L
		if !paramRooted(c.fn, l) {
			if sg, ok := e.strengthenToParams(c, Ineq{l.Scale(-1).Sub(Const(1)), ""}); ok && paramRooted(c.fn, sg.L) {
				return Ineq{sg.L, "guard of " + g.Why + " is false"}, true
			}
			return g, false
		}
		return Ineq{l.Scale(-1).Sub(Const(1)), "guard of " + g.Why + " is false"}, true
	}
	if paramRooted(c.fn, g.L) {
		return g, true
	}
	if sg, ok := e.strengthenToParams(c, g); ok && paramRooted(c.fn, sg.L) {
		return sg, true
	}
	// a goal over one loop phi: when the goal is inductive over the back edges, it holds as soon
	// as it holds for the value the loop is entered with; that entry goal may be liftable
	for a, coef := range g.L.C {
		ph, ok := a.Root.(*ssa.Phi)
		if !ok || a.Kind != 'v' || a.Path != "" || ph.Parent() != c.fn {
			continue
		}
		if !(ph.Block() == at.Block() || ph.Block().Dominates(at.Block())) {
			continue
		}
		var entry ssa.Value
		nEntry := 0
		inductive := true
		for i, edge := range ph.Edges {
			pred := ph.Block().Preds[i]
			back := ph.Block() == pred || ph.Block().Dominates(pred)
			if !back {
				entry = edge
				nEntry++
				continue
			}
			sub, okSub := substPhisOnEdge(c, g.L, ph.Block(), i, true)
			if !okSub {
				inductive = false
				break
			}
			term := pred.Instrs[len(pred.Instrs)-1]
			if ok, _ := e.proveAtEdge(c, term, pred, ph.Block(), Ineq{sub, g.Why}, []Ineq{{g.L, "induction hypothesis"}}, 1); !ok {
				inductive = false
				break
			}
		}
		if !inductive || nEntry != 1 {
			continue
		}
		sub := g.L.Clone()
		delete(sub.C, a)
		sub = sub.Add(c.lin(entry).Scale(coef))
		eg := Ineq{sub, g.Why + " (at loop entry)"}
		if paramRooted(c.fn, eg.L) {
			return eg, true
		}
		if sg, ok := e.strengthenToParams(c, eg); ok && paramRooted(c.fn, sg.L) {
			return sg, true
		}
	}
	return g, false
}

// Run enumerates and decides all obligations of the scope.
func (e *Engine) Run(roots map[*ssa.Function]bool) {
	var fns []*ssa.Function
	for f := range e.Scope {
		fns = append(fns, f)
	}
	sort.Slice(fns, func(i, j int) bool { return model.FnName(fns[i]) < model.FnName(fns[j]) })
	e.computeLenInvariants()
	e.computeNonNeg(fns)
	if os.Getenv("LALCHECK_PO_DEBUG") != "" {
		for _, fn := range fns {
			if len(e.sumNonNeg[fn]) > 0 || len(e.sumUpper[fn]) > 0 {
				fmt.Printf("SUMMARY %s nonneg=%v low=%v upper=%v\n", model.FnName(fn), e.sumNonNeg[fn], e.sumLow[fn], e.sumUpper[fn])
			}
		}
	}
	// pass 1: infer requirements bottom-up (a few rounds so that success facts of calls exist)
	// Requirements climb one call level per round: iterate until the set of requirements is
	// stable (a chain is at most Depth long), so that a requirement lifted over several levels
	// is present at the level where it is finally decided.
	prevSig := ""
	for round := 0; round < e.Depth+3; round++ {
		e.ctx = map[*ssa.Function]*fnCtx{}
		e.entry = nil
		newReqs := map[*ssa.Function][]Req{}
		for _, fn := range fns {
			c := e.fc(fn)
			for _, ob := range e.Enumerate(fn) {
				for _, g := range ob.Goals {
					if ok, _ := e.prove(c, ob.Instr, g); ok {
						continue
					}
					if lg, ok := e.liftable(c, ob.Instr, g); ok {
						newReqs[fn] = append(newReqs[fn], Req{G: lg, Origin: ob, Sites: []reqSite{{ob.Instr, g}}})
					}
				}
			}
			// requirements of callees that this function cannot establish and that are
			// expressible over its own parameters propagate upwards
			for _, b := range fn.Blocks {
				for _, in := range b.Instrs {
					ci, ok := in.(ssa.CallInstruction)
					if !ok {
						continue
					}
					for _, callee := range e.calleesOf(ci) {
						for _, rq := range e.reqs[callee] {
							g, ok := e.substitute(c, rq.G, callee, ci)
							if !ok {
								continue
							}
							if ok2, _ := e.prove(c, in, g); ok2 {
								continue
							}
							g0 := g
							if !paramRooted(fn, g.L) {
								if sg, ok := e.strengthenToParams(c, g); ok {
									g = sg
								}
							}
							if paramRooted(fn, g.L) && len(rq.Chain) < e.Depth {
								newReqs[fn] = append(newReqs[fn], Req{G: g, Origin: rq.Origin, Chain: append(append([]string{}, rq.Chain...), model.FnName(callee)), Sites: []reqSite{{in, g0}}})
							}
						}
					}
				}
			}
		}
		// dedup
		for fn, rs := range newReqs {
			seen := map[string]int{}
			var out []Req
			for _, r := range rs {
				k := r.G.L.String() + "|" + r.Origin.Expr + "|" + model.FnName(r.Origin.Fn)
				if i, dup := seen[k]; dup {
					out[i].Sites = append(out[i].Sites, r.Sites...)
				} else {
					seen[k] = len(out)
					out = append(out, r)
				}
			}
			newReqs[fn] = out
		}
		for _, fn := range fns {
			if len(newReqs[fn]) > 1 && !roots[fn] && e.hasScopedCaller(fn) {
				newReqs[fn] = e.pruneReqs(fn, newReqs[fn])
			}
		}
		e.entry = nil
		e.reqs = newReqs
		var sig []string
		for fn, rs := range newReqs {
			for _, r := range rs {
				sig = append(sig, model.FnName(fn)+"|"+r.G.L.String()+"|"+r.Origin.Expr+"|"+model.FnName(r.Origin.Fn))
			}
		}
		sort.Strings(sig)
		cur := strings.Join(sig, "\n")
		if cur == prevSig {
			break
		}
		prevSig = cur
	}
	// pass 2: final verdicts
	e.ctx = map[*ssa.Function]*fnCtx{}
	entryAll := map[*ssa.Function][]Ineq{}
	for _, fn := range fns {
		if roots[fn] || !e.hasScopedCaller(fn) {
			continue
		}
		for _, r := range e.reqs[fn] {
			if pureParam(r.G.L) {
				entryAll[fn] = append(entryAll[fn], Ineq{r.G.L, "guard: required of every caller"})
			}
		}
	}
	byOb := map[*Obligation]bool{}
	var all []*Obligation
	for _, fn := range fns {
		c := e.fc(fn)
		for _, ob := range e.Enumerate(fn) {
			ob.Status = Proved
			var proofs []string
			for _, g := range ob.Goals {
				ok, why := e.prove(c, ob.Instr, g)
				if ok {
					if why != "" {
						proofs = append(proofs, why)
					}
					continue
				}
				lg, canLift := e.liftable(c, ob.Instr, g)
				if canLift && !roots[fn] && e.hasScopedCaller(fn) {
					if ob.Status == Proved {
						ob.Status = Lifted
					}
					proofs = append(proofs, "requires "+lg.L.String()+">=0 of callers")
					continue
				}
				if len(entryAll[fn]) > 0 {
					e.entry = entryAll
					ok, why = e.prove(c, ob.Instr, g)
					e.entry = nil
					if ok {
						proofs = append(proofs, "given what every caller is required to establish: "+why)
						continue
					}
				}
				ob.Status = Unproved
				ob.FailAt, ob.FailFn = ob.Instr, fn
				ob.Proof = "cannot establish " + g.Why + ": " + g.L.String() + " >= 0"
			}
			if ob.Status != Unproved {
				ob.Proof = strings.Join(proofs, " | ")
			}
			all = append(all, ob)
			byOb[ob] = true
		}
	}
	// requirements at call sites: failures are attributed to the originating obligation
	origIndex := map[string]*Obligation{}
	for _, ob := range all {
		origIndex[obKey(ob)] = ob
	}
	for _, fn := range fns {
		c := e.fc(fn)
		isRoot := roots[fn]
		for _, b := range fn.Blocks {
			for _, in := range b.Instrs {
				ci, ok := in.(ssa.CallInstruction)
				if !ok {
					continue
				}
				for _, callee := range e.calleesOf(ci) {
					for _, rq := range e.reqs[callee] {
						g, ok := e.substitute(c, rq.G, callee, ci)
						if !ok {
							continue
						}
						if ok2, _ := e.prove(c, in, g); ok2 {
							continue
						}
						if len(entryAll[fn]) > 0 {
							e.entry = entryAll
							ok2, _ := e.prove(c, in, g)
							e.entry = nil
							if ok2 {
								continue
							}
						}
						lg := g
						if !paramRooted(fn, lg.L) {
							if sg, ok := e.strengthenToParams(c, g); ok {
								lg = sg
							}
						}
						if paramRooted(fn, lg.L) && !isRoot && len(rq.Chain) < e.Depth && e.hasScopedCaller(fn) {
							continue // lifted further; decided at fn's callers
						}
						orig := origIndex[obKey(rq.Origin)]
						if orig == nil {
							continue
						}
						chain := append(append([]string{}, rq.Chain...), model.FnName(callee))
						// reverse: outermost first
						for i, j := 0, len(chain)-1; i < j; i, j = i+1, j-1 {
							chain[i], chain[j] = chain[j], chain[i]
						}
						chain = append([]string{model.FnName(fn)}, chain...)
						proof := "caller " + model.FnName(fn) + " cannot establish " + g.L.String() + " >= 0 (" + g.Why + ") for " + strings.Join(chain, " -> ")
						dup := false
						for _, f := range orig.Fails {
							if f.Fn == fn {
								dup = true
							}
						}
						if !dup && !(orig.Status == Unproved && len(orig.Fails) == 0) {
							orig.Fails = append(orig.Fails, Failure{At: in, Fn: fn, Proof: proof, Form: g.L.Sub(Const(g.L.K)).String(), K: g.L.K})
						}
						if orig.Status != Unproved {
							orig.Status = Unproved
							orig.FailAt, orig.FailFn = in, fn
							orig.Chain = chain
							orig.Proof = proof
						}
					}
				}
			}
		}
	}
	e.Obs = all
}

// reachesSizeSink: v (an integer) is used, possibly through conversions, merges and a
// min/max-style clamp, as the length of an allocation, a slice bound, an index, or the size
// argument of a buffer-growing call (nazabytes.Buffer / rtmp.Buffer Grow, ReserveBytes, Flush,
// Skip), directly, as the parameter of a lal function that uses it so, or as the single result
// of its function used so by a caller.
func (e *Engine) reachesSizeSink(v ssa.Value, depth int, seen map[ssa.Value]bool) bool {
	if seen[v] || depth > 6 || v.Referrers() == nil {
		return false
	}
	seen[v] = true
	for _, ref := range *v.Referrers() {
		switch r := ref.(type) {
		case *ssa.MakeSlice:
			if r.Len == v || r.Cap == v {
				return true
			}
		case *ssa.Slice:
			if r.Low == v || r.High == v || r.Max == v {
				return true
			}
		case *ssa.IndexAddr:
			if r.Index == v {
				return true
			}
		case *ssa.Index:
			if r.Index == v {
				return true
			}
		case *ssa.Convert:
			if isInteger(r.Type()) && e.reachesSizeSink(r, depth+1, seen) {
				return true
			}
		case *ssa.ChangeType:
			if e.reachesSizeSink(r, depth+1, seen) {
				return true
			}
		case *ssa.Phi:
			if e.reachesSizeSink(r, depth+1, seen) {
				return true
			}
		case *ssa.Return:
			// the value is a result: continue in the callers with the call's value
			if depth >= 4 || len(r.Results) != 1 {
				continue
			}
			for _, ed := range e.P.Callers(r.Parent()) {
				if ed.Site == nil || ed.Site.Value() == nil {
					continue
				}
				if e.reachesSizeSink(ed.Site.Value(), depth+3, seen) {
					return true
				}
			}
		case ssa.CallInstruction:
			ce := r.Common().StaticCallee()
			if ce == nil {
				continue
			}
			args := r.Common().Args
			for k, a := range args {
				if a != v {
					continue
				}
				switch ce.Name() {
				case "Grow", "ReserveBytes", "Flush", "Skip", "Truncate":
					if ce.Signature.Recv() != nil && strings.HasSuffix(ce.Signature.Recv().Type().String(), "Buffer") {
						return true
					}
				}
				if ce.Blocks != nil && k < len(ce.Params) && depth < 2 && (model.IsLal(ce) || model.IsNaza(ce)) {
					if e.reachesSizeSink(ce.Params[k], depth+4, seen) {
						return true
					}
				}
			}
		}
	}
	return false
}

// proportional: the size is a small multiple of lengths of data already held in memory (or a
// quotient / right shift of such a size), plus a constant below the allocation limit.
func proportional(c *fnCtx, n Lin, max int64, depth int) bool {
	if len(n.C) == 0 || n.K > max || depth > 3 {
		return false
	}
	for a, k := range n.C {
		if k <= 0 || k > 16 {
			return false
		}
		if a.Kind == 'l' || a.Kind == 'c' {
			continue
		}
		if a.Kind != 'v' || a.Path != "" {
			return false
		}
		bo, ok := a.Root.(*ssa.BinOp)
		if !ok || (bo.Op != token.QUO && bo.Op != token.SHR) {
			return false
		}
		if d, isK := constInt(bo.Y); !isK || d < 0 || (bo.Op == token.QUO && d < 1) {
			return false
		}
		if !proportional(c, c.lin(bo.X), max, depth+1) {
			return false
		}
	}
	return true
}

// constParamSet: the constants an integer parameter of an unexported function receives, when
// every call site in the program passes a constant (at most 4 different ones); nil otherwise.
func (e *Engine) constParamSet(prm *ssa.Parameter) []int64 {
	if e.paramSets == nil {
		e.paramSets = map[*ssa.Parameter][]int64{}
	}
	if s, ok := e.paramSets[prm]; ok {
		return s
	}
	e.paramSets[prm] = nil
	fn := prm.Parent()
	if fn == nil || !isInteger(prm.Type()) || fn.Object() == nil || fn.Object().Exported() || fn.Parent() != nil {
		return nil
	}
	k := -1
	for i, q := range fn.Params {
		if q == prm {
			k = i
		}
	}
	seen := map[int64]bool{}
	n := 0
	for _, ed := range e.P.Callers(fn) {
		if ed.Site == nil {
			return nil
		}
		args := ed.Site.Common().Args
		if ed.Site.Common().StaticCallee() != fn || k < 0 || k >= len(args) {
			return nil
		}
		v, isK := constInt(args[k])
		if !isK {
			return nil
		}
		seen[v] = true
		n++
	}
	if n == 0 || len(seen) > 4 {
		return nil
	}
	var out []int64
	for v := range seen {
		out = append(out, v)
	}
	sort.Slice(out, func(i, j int) bool { return out[i] < out[j] })
	e.paramSets[prm] = out
	return out
}

// pureParam: the form mentions only the values, lengths and capacities of parameters (nothing
// reached through a pointer, which a store in the function could change after entry).
func pureParam(l Lin) bool {
	for a := range l.C {
		if _, ok := a.Root.(*ssa.Parameter); !ok || a.Path != "" {
			return false
		}
	}
	return len(l.C) > 0
}

// pruneReqs drops the requirements of fn that follow from its other requirements. Every
// requirement kept is demanded at every call site, hence holds on entry; a requirement is
// dropped only when, at each of its sites, it is provable from the facts there plus the
// essential requirements E = those not provable even from all the others. The dropped ones are
// thus implied by a subset of what is kept, whatever the order of consideration.
func (e *Engine) pruneReqs(fn *ssa.Function, rs []Req) []Req {
	c := e.fc(fn)
	provable := func(r Req, facts []Ineq) bool {
		if len(r.Sites) == 0 {
			return false
		}
		e.entry = map[*ssa.Function][]Ineq{fn: facts}
		defer func() { e.entry = nil }()
		for _, s := range r.Sites {
			if ok, _ := e.prove(c, s.At, s.Goal); !ok {
				return false
			}
		}
		return true
	}
	factsOf := func(keep func(i int) bool) []Ineq {
		var out []Ineq
		for i, r := range rs {
			if keep(i) && pureParam(r.G.L) {
				out = append(out, Ineq{r.G.L, "guard: required of every caller"})
			}
		}
		return out
	}
	essential := make([]bool, len(rs))
	for i, r := range rs {
		key := r.G.L.String()
		others := factsOf(func(j int) bool { return rs[j].G.L.String() != key })
		essential[i] = len(others) == 0 || !provable(r, others)
	}
	ess := factsOf(func(j int) bool { return essential[j] })
	var out []Req
	for i, r := range rs {
		if !essential[i] && len(ess) > 0 && provable(r, ess) {
			if os.Getenv("LALCHECK_PO_DEBUG") != "" {
				fmt.Printf("PRUNED %s: %s >= 0 (%s) given %v\n", model.FnName(fn), r.G.L.String(), r.Origin.Expr, ess)
			}
			continue
		}
		out = append(out, r)
	}
	return out
}

func obKey(ob *Obligation) string {
	return fmt.Sprintf("%p|%s|%s|%d", ob.Fn, ob.Kind, ob.Expr, ob.Instr.Pos())
}

func (e *Engine) hasScopedCaller(fn *ssa.Function) bool {
	for _, ed := range e.P.Callers(fn) {
		if e.Scope[ed.Caller.Func] {
			return true
		}
	}
	return false
}

func (e *Engine) calleesOf(ci ssa.CallInstruction) []*ssa.Function {
	if f := ci.Common().StaticCallee(); f != nil {
		if e.Scope[f] {
			return []*ssa.Function{f}
		}
		return nil
	}
	var out []*ssa.Function
	for _, f := range e.P.Callees(ci) {
		if e.Scope[f] {
			out = append(out, f)
		}
	}
	return out
}

// computeNonNeg computes, as a greatest fixpoint, which integer results of which functions are
// non-negative (given non-negative values for the integer parameters the proof uses), and
// which are bounded by the length of a slice/string parameter: start by assuming every
// candidate and drop one when some return statement cannot be shown to satisfy it.
func (e *Engine) computeNonNeg(fns []*ssa.Function) {
	e.sumNonNeg = map[*ssa.Function]map[int][]int{}
	e.sumLow = map[*ssa.Function]map[int]int64{}
	e.sumUpper = map[*ssa.Function]map[[2]int]bool{}
	for _, fn := range fns {
		res := fn.Signature.Results()
		nn := map[int][]int{}
		up := map[[2]int]bool{}
		for i := 0; i < res.Len(); i++ {
			if !isInteger(res.At(i).Type()) {
				continue
			}
			nn[i] = []int{}
			for pi, p := range fn.Params {
				switch t := p.Type().Underlying().(type) {
				case *types.Slice:
					up[[2]int{i, pi}] = true
				case *types.Basic:
					if t.Info()&types.IsString != 0 {
						up[[2]int{i, pi}] = true
					}
				}
			}
		}
		e.sumNonNeg[fn] = nn
		e.sumLow[fn] = map[int]int64{}
		e.sumUpper[fn] = up
	}
	for iter := 0; iter < 40; iter++ {
		changed := false
		for _, fn := range fns {
			nn, up := e.sumNonNeg[fn], e.sumUpper[fn]
			if len(nn) == 0 && len(up) == 0 {
				continue
			}
			c := newFnCtx(fn)
			c.e = e
			c.assumeParams = true
			e.collectSuccess(c)
			used := map[int]map[int]bool{}
			for _, blk := range fn.Blocks {
				ret, ok := blk.Instrs[len(blk.Instrs)-1].(*ssa.Return)
				if !ok {
					continue
				}
				vals := model.ReturnValues(ret)
				for i := range nn {
					if i >= len(vals) {
						delete(nn, i)
						changed = true
						continue
					}
					c.usedParams = map[int]bool{}
					if l, ok := c.lowerConst(vals[i], 0); !ok || l < e.sumLow[fn][i] {
						if ok && l == -1 && e.sumLow[fn][i] == 0 {
							e.sumLow[fn][i] = -1 // "index or -1" results
							changed = true
						} else {
							delete(nn, i)
							changed = true
							continue
						}
					}
					if used[i] == nil {
						used[i] = map[int]bool{}
					}
					for pi := range c.usedParams {
						used[i][pi] = true
					}
				}
				for key := range up {
					if key[0] >= len(vals) {
						delete(up, key)
						changed = true
						continue
					}
					goal := Ineq{c.seqLen(fn.Params[key[1]]).Sub(c.lin(vals[key[0]])), "result<=len(param)"}
					if ok, _ := e.prove(c, ret, goal); !ok {
						delete(up, key)
						changed = true
					}
				}
			}
			for i := range nn {
				var ps []int
				for pi := range used[i] {
					ps = append(ps, pi)
				}
				sort.Ints(ps)
				if fmt.Sprint(ps) != fmt.Sprint(nn[i]) {
					nn[i] = ps
					changed = true
				}
			}
		}
		if !changed {
			break
		}
	}
}

// computeLenInvariants finds slice-typed struct fields and package-level variables that only
// ever hold values of one constant length: every store in lal+naza assigns a value whose
// length is that constant, and (for fields) every function that allocates the owning struct
// also assigns the field, so the zero value never escapes a constructor.
func (e *Engine) computeLenInvariants() {
	e.fieldLen = map[*types.Var]int64{}
	e.globalLen = map[*ssa.Global]int64{}
	e.fieldMin = map[*types.Var]int64{}
	type minfo struct {
		k        int64
		ok, seen bool
	}
	ints := map[*types.Var]*minfo{}
	// integer package variables whose every store is a constant (pre-pass)
	gmin := map[*ssa.Global]*minfo{}
	for _, fn := range e.P.AllFuncs() {
		for _, b := range fn.Blocks {
			for _, in := range b.Instrs {
				st, ok := in.(*ssa.Store)
				if !ok || !isInteger(st.Val.Type()) {
					continue
				}
				g, ok := st.Addr.(*ssa.Global)
				if !ok {
					continue
				}
				mi := gmin[g]
				if mi == nil {
					mi = &minfo{ok: true}
					gmin[g] = mi
				}
				if k, isK := constInt(st.Val); isK {
					if !mi.seen || k < mi.k {
						mi.k = k
					}
					mi.seen = true
				} else {
					mi.ok = false
				}
			}
		}
	}
	constOrGlobal := func(v ssa.Value) (int64, bool) {
		if k, isK := constInt(v); isK {
			return k, true
		}
		if u, ok := v.(*ssa.UnOp); ok && u.Op == token.MUL {
			if g, ok := u.X.(*ssa.Global); ok {
				if mi := gmin[g]; mi != nil && mi.ok && mi.seen {
					return mi.k, true
				}
			}
		}
		return 0, false
	}
	type info struct {
		k     int64
		ok    bool
		seen  bool
		owner *types.Named
	}
	fields := map[*types.Var]*info{}
	globals := map[*ssa.Global]*info{}
	allocs := map[*types.Named][]*ssa.Function{}
	storesIn := map[*ssa.Function]map[*types.Var]bool{}
	note := func(i *info, c *fnCtx, val ssa.Value) {
		l := c.seqLen(val)
		if !l.IsConst() {
			i.ok = false
			return
		}
		if !i.seen {
			i.seen, i.k, i.ok = true, l.K, true
			return
		}
		if i.k != l.K {
			i.ok = false
		}
	}
	for _, fn := range e.P.AllFuncs() {
		if len(fn.Blocks) == 0 {
			continue
		}
		c := newFnCtx(fn)
		for _, b := range fn.Blocks {
			for _, in := range b.Instrs {
				switch x := in.(type) {
				case *ssa.Alloc:
					if pt, ok := x.Type().(*types.Pointer); ok {
						if n, ok := pt.Elem().(*types.Named); ok {
							if _, isS := n.Underlying().(*types.Struct); isS {
								allocs[n] = append(allocs[n], fn)
							}
						}
					}
				case *ssa.Store:
					if isInteger(x.Val.Type()) {
						if fa, ok := x.Addr.(*ssa.FieldAddr); ok {
							if f := fieldOf(fa); f != nil {
								mi := ints[f]
								if mi == nil {
									mi = &minfo{ok: true}
									ints[f] = mi
								}
								if k, isK := constOrGlobal(x.Val); isK {
									if !mi.seen || k < mi.k {
										mi.k = k
									}
									mi.seen = true
								} else {
									mi.ok = false
								}
								if storesIn[fn] == nil {
									storesIn[fn] = map[*types.Var]bool{}
								}
								storesIn[fn][f] = true
							}
						}
						continue
					}
					if _, isSl := x.Val.Type().Underlying().(*types.Slice); !isSl {
						continue
					}
					switch a := x.Addr.(type) {
					case *ssa.FieldAddr:
						f := fieldOf(a)
						if f == nil {
							continue
						}
						i := fields[f]
						if i == nil {
							i = &info{}
							fields[f] = i
						}
						note(i, c, x.Val)
						if storesIn[fn] == nil {
							storesIn[fn] = map[*types.Var]bool{}
						}
						storesIn[fn][f] = true
					case *ssa.Global:
						i := globals[a]
						if i == nil {
							i = &info{}
							globals[a] = i
						}
						note(i, c, x.Val)
					}
				}
			}
		}
	}
	ownerOf := func(f *types.Var) *types.Named {
		if f.Pkg() == nil {
			return nil
		}
		sc := f.Pkg().Scope()
		for _, n := range sc.Names() {
			if tn, ok := sc.Lookup(n).(*types.TypeName); ok {
				if named, ok := tn.Type().(*types.Named); ok {
					if st, ok := named.Underlying().(*types.Struct); ok {
						for i := 0; i < st.NumFields(); i++ {
							if st.Field(i) == f {
								return named
							}
						}
					}
				}
			}
		}
		return nil
	}
	for f, i := range fields {
		if !i.ok || !i.seen {
			continue
		}
		owner := ownerOf(f)
		if owner == nil {
			continue
		}
		good := true
		for _, fn := range allocs[owner] {
			if !storesIn[fn][f] {
				good = false
			}
		}
		if good {
			e.fieldLen[f] = i.k
		}
	}
	for g, i := range globals {
		if i.ok && i.seen {
			e.globalLen[g] = i.k
		}
	}
	// zero values of a struct type that no constructor touches: package variables without an
	// initialiser, by-value fields / elements of other types, make() of slices and maps
	zeroRisk := map[*types.Named]bool{}
	why := ""
	var markElem func(t types.Type, d int)
	markElem = func(t types.Type, d int) {
		if d > 4 || t == nil {
			return
		}
		switch u := t.(type) {
		case *types.Named:
			if _, isS := u.Underlying().(*types.Struct); isS {
				if os.Getenv("LALCHECK_PO_DEBUG") != "" && !zeroRisk[u] {
					fmt.Println("ZERORISK", u.String(), why)
				}
				zeroRisk[u] = true
			}
		case *types.Slice:
			markElem(u.Elem(), d+1)
		case *types.Array:
			markElem(u.Elem(), d+1)
		case *types.Map:
			markElem(u.Elem(), d+1)
		}
	}
	wholeStored := map[*ssa.Global]bool{}
	globalFieldStored := map[*ssa.Global]map[*types.Var]bool{}
	structGlobals := map[*types.Named][]*ssa.Global{}
	for _, fn := range e.P.AllFuncs() {
		for _, b := range fn.Blocks {
			for _, in := range b.Instrs {
				switch x := in.(type) {
				case *ssa.Store:
					if g, ok := x.Addr.(*ssa.Global); ok {
						wholeStored[g] = true
					}
					if fa, ok := x.Addr.(*ssa.FieldAddr); ok {
						if g, ok := fa.X.(*ssa.Global); ok {
							if f := fieldOf(fa); f != nil {
								if globalFieldStored[g] == nil {
									globalFieldStored[g] = map[*types.Var]bool{}
								}
								globalFieldStored[g][f] = true
							}
						}
					}
				case *ssa.MakeSlice:
					why = "make in " + fn.String()
					markElem(x.Type(), 0)
				case *ssa.MakeMap:
					markElem(x.Type(), 0)
				case *ssa.Alloc:
					// arrays / structs containing the type by value
					if pt, ok := x.Type().(*types.Pointer); ok {
						if _, isNamed := pt.Elem().(*types.Named); !isNamed {
							markElem(pt.Elem(), 0)
						}
					}
				}
			}
		}
	}
	for _, pk := range e.P.SSA.AllPackages() {
		for _, m := range pk.Members {
			switch x := m.(type) {
			case *ssa.Global:
				if pt, ok := x.Type().(*types.Pointer); ok && !wholeStored[x] {
					if n, isN := pt.Elem().(*types.Named); isN {
						if _, isS := n.Underlying().(*types.Struct); isS {
							structGlobals[n] = append(structGlobals[n], x) // decided per field below
							continue
						}
					}
					why = "global " + x.String()
					markElem(pt.Elem(), 0)
				}
			case *ssa.Type:
				if st, ok := x.Type().Underlying().(*types.Struct); ok {
					for i := 0; i < st.NumFields(); i++ {
						why = "field of " + x.String()
						markElem(st.Field(i).Type(), 0)
					}
				}
			}
		}
	}
	for f, mi := range ints {
		if !mi.ok || !mi.seen {
			continue
		}
		owner := ownerOf(f)
		if owner == nil {
			continue
		}
		k := mi.k
		if zeroRisk[owner] && k > 0 {
			k = 0
		}
		for _, g := range structGlobals[owner] {
			if !globalFieldStored[g][f] && k > 0 {
				k = 0
			}
		}
		for _, fn := range allocs[owner] {
			if !storesIn[fn][f] && k > 0 {
				k = 0
			}
		}
		e.fieldMin[f] = k
	}
}

// strengthenToParams replaces every atom of g that is not rooted at a parameter of fn by a
// constant bound taken from its definition facts (upper bound for negative coefficients, lower
// bound for positive ones). The result implies g; ok=false when some atom has no such bound.
func (e *Engine) strengthenToParams(c *fnCtx, g Ineq) (Ineq, bool) {
	out := Const(g.L.K)
	changed := false
	for a, coef := range g.L.C {
		if p, ok := a.Root.(*ssa.Parameter); ok && p.Parent() == c.fn {
			out = out.Add(Var(a).Scale(coef))
			continue
		}
		var lo, hi *int64
		for _, d := range c.defFacts(a) {
			if len(d.L.C) != 1 {
				continue
			}
			k, isA := d.L.C[a]
			if !isA {
				continue
			}
			// k*a + K >= 0
			if k == 1 {
				v := -d.L.K
				if lo == nil || v > *lo {
					lo = &v
				}
			} else if k == -1 {
				v := d.L.K
				if hi == nil || v < *hi {
					hi = &v
				}
			}
		}
		switch {
		case coef > 0 && lo != nil:
			out = out.Add(Const(coef * *lo))
		case coef < 0 && hi != nil:
			out = out.Add(Const(coef * *hi))
		default:
			// a bound that is itself a form over the parameters (the result of a helper that
			// adds a bounded amount to one of its arguments)
			var form *Lin
			for _, d := range c.defFacts(a) {
				k, isA := d.L.C[a]
				if !isA || len(d.L.C) < 2 || (k != 1 && k != -1) || !strings.HasSuffix(d.Why, "(every return)") {
					continue
				}
				other := d.L.Clone()
				delete(other.C, a)
				if !paramRooted(c.fn, other) {
					continue
				}
				if coef > 0 && k == 1 { // a >= -other
					f := other.Scale(-1)
					form = &f
				} else if coef < 0 && k == -1 { // a <= other
					f := other
					form = &f
				}
				if form != nil {
					break
				}
			}
			if form == nil {
				return Ineq{}, false
			}
			out = out.Add(form.Scale(coef))
		}
		changed = true
	}
	if !changed {
		return g, true
	}
	return Ineq{out, g.Why + " (internal values replaced by their bounds)"}, len(out.C) > 0
}

// sameLoadExpr: two values that are loads through structurally identical address expressions
// (same parameter / same SSA value at the root, same fields, same index values).
func sameLoadExpr(a, b ssa.Value, d int) bool {
	if a == b {
		return true
	}
	if d > 8 {
		return false
	}
	switch x := a.(type) {
	case *ssa.UnOp:
		y, ok := b.(*ssa.UnOp)
		return ok && x.Op == y.Op && sameLoadExpr(x.X, y.X, d+1)
	case *ssa.FieldAddr:
		y, ok := b.(*ssa.FieldAddr)
		return ok && x.Field == y.Field && sameLoadExpr(x.X, y.X, d+1)
	case *ssa.Field:
		y, ok := b.(*ssa.Field)
		return ok && x.Field == y.Field && sameLoadExpr(x.X, y.X, d+1)
	case *ssa.IndexAddr:
		y, ok := b.(*ssa.IndexAddr)
		if !ok || !sameLoadExpr(x.X, y.X, d+1) {
			return false
		}
		if x.Index == y.Index {
			return true
		}
		kx, okx := constInt(x.Index)
		ky, oky := constInt(y.Index)
		return okx && oky && kx == ky
	case *ssa.Const:
		y, ok := b.(*ssa.Const)
		return ok && x.Value != nil && y.Value != nil && x.Value.ExactString() == y.Value.ExactString()
	}
	return false
}

// typeGuarded: the unchecked assertion x is dominated by the ok edge of a comma-ok assertion
// of the same value expression to the same type, and the function stores nothing through an
// address of the operand's element type in between (no store to the loaded field/element).
func typeGuarded(fn *ssa.Function, x *ssa.TypeAssert) bool {
	for _, g := range model.Guards(x.Block()) {
		c, pol := model.StripNot(g.Cond, g.Polarity)
		ex, ok := c.(*ssa.Extract)
		if !ok || !pol || ex.Index != 1 {
			continue
		}
		ta, ok := ex.Tuple.(*ssa.TypeAssert)
		if !ok || !ta.CommaOk || !types.Identical(ta.AssertedType, x.AssertedType) {
			continue
		}
		if !sameLoadExpr(ta.X, x.X, 0) {
			continue
		}
		if ta.X == x.X {
			return true
		}
		// re-loaded operand: no store of an interface of that type anywhere in the function
		clean := true
		for _, b := range fn.Blocks {
			for _, in := range b.Instrs {
				if st, isSt := in.(*ssa.Store); isSt && types.Identical(st.Val.Type(), x.X.Type()) {
					// stores into a fresh local (the varargs array of a call) cannot alias the operand
					root := st.Addr
					for {
						if fa, ok := root.(*ssa.FieldAddr); ok {
							root = fa.X
						} else if ia, ok := root.(*ssa.IndexAddr); ok {
							root = ia.X
						} else {
							break
						}
					}
					if _, isLocal := root.(*ssa.Alloc); !isLocal {
						clean = false
					}
				}
			}
		}
		if clean {
			return true
		}
	}
	return false
}
