package rules

// Engine E: recursion. Tarjan SCCs on the VTA call graph restricted to lal+naza functions,
// `go` edges cut, synthetic wrappers ($bound, $thunk) folded as transparent edges.

import (
	"sort"
	"strings"

	"golang.org/x/tools/go/callgraph"
	"golang.org/x/tools/go/ssa"

	"lalverif/internal/model"
)

type recEdge struct {
	From, To *ssa.Function
	Site     ssa.CallInstruction
}

type recSCC struct {
	Funcs []*ssa.Function
	Edges []recEdge // edges inside the SCC
}

func (s *recSCC) Name() string {
	var n []string
	for _, f := range s.Funcs {
		n = append(n, model.FnName(f))
	}
	sort.Strings(n)
	return strings.Join(n, ",")
}

func inScopeFn(f *ssa.Function) bool {
	return f != nil && (model.IsLal(f) || model.IsNaza(f))
}

// succsOf returns in-scope callees of fn (no go edges); synthetic functions are in scope when
// their package resolves to lal/naza (FnPkg follows the wrapped object).
func succsOf(cg *callgraph.Graph, fn *ssa.Function) []*callgraph.Edge {
	n := cg.Nodes[fn]
	if n == nil {
		return nil
	}
	var out []*callgraph.Edge
	for _, e := range n.Out {
		if _, isGo := e.Site.(*ssa.Go); isGo {
			continue
		}
		if inScopeFn(e.Callee.Func) {
			out = append(out, e)
		}
	}
	return out
}

// recursiveSCCs returns the non-trivial SCCs (size>1 or self loop) among functions reachable
// from roots.
func recursiveSCCs(p *model.Prog, roots []*ssa.Function) []*recSCC {
	cg := p.CG()
	reach := map[*ssa.Function]bool{}
	var stack []*ssa.Function
	for _, r := range roots {
		if !reach[r] {
			reach[r] = true
			stack = append(stack, r)
		}
	}
	for len(stack) > 0 {
		f := stack[len(stack)-1]
		stack = stack[:len(stack)-1]
		for _, e := range succsOf(cg, f) {
			if !reach[e.Callee.Func] {
				reach[e.Callee.Func] = true
				stack = append(stack, e.Callee.Func)
			}
		}
	}
	var fns []*ssa.Function
	for f := range reach {
		fns = append(fns, f)
	}
	sort.Slice(fns, func(i, j int) bool { return model.FnName(fns[i]) < model.FnName(fns[j]) })
	// Tarjan
	index := map[*ssa.Function]int{}
	low := map[*ssa.Function]int{}
	on := map[*ssa.Function]bool{}
	var st []*ssa.Function
	var sccs []*recSCC
	next := 0
	var strong func(v *ssa.Function)
	strong = func(v *ssa.Function) {
		index[v] = next
		low[v] = next
		next++
		st = append(st, v)
		on[v] = true
		for _, e := range succsOf(cg, v) {
			w := e.Callee.Func
			if _, seen := index[w]; !seen {
				strong(w)
				if low[w] < low[v] {
					low[v] = low[w]
				}
			} else if on[w] && index[w] < low[v] {
				low[v] = index[w]
			}
		}
		if low[v] == index[v] {
			var comp []*ssa.Function
			for {
				w := st[len(st)-1]
				st = st[:len(st)-1]
				on[w] = false
				comp = append(comp, w)
				if w == v {
					break
				}
			}
			in := map[*ssa.Function]bool{}
			for _, f := range comp {
				in[f] = true
			}
			var edges []recEdge
			for _, f := range comp {
				for _, e := range succsOf(cg, f) {
					if in[e.Callee.Func] {
						edges = append(edges, recEdge{f, e.Callee.Func, e.Site})
					}
				}
			}
			if len(comp) > 1 || len(edges) > 0 {
				sort.Slice(comp, func(i, j int) bool { return model.FnName(comp[i]) < model.FnName(comp[j]) })
				sccs = append(sccs, &recSCC{Funcs: comp, Edges: edges})
			}
		}
	}
	for _, f := range fns {
		if _, seen := index[f]; !seen {
			strong(f)
		}
	}
	sort.Slice(sccs, func(i, j int) bool { return sccs[i].Name() < sccs[j].Name() })
	return sccs
}

// acyclicWithout reports whether the SCC's internal graph is acyclic once the edges for which
// drop returns true are removed.
func (s *recSCC) acyclicWithout(drop func(recEdge) bool) bool {
	adj := map[*ssa.Function][]*ssa.Function{}
	for _, e := range s.Edges {
		if !drop(e) {
			adj[e.From] = append(adj[e.From], e.To)
		}
	}
	state := map[*ssa.Function]int{}
	var dfs func(f *ssa.Function) bool
	dfs = func(f *ssa.Function) bool {
		state[f] = 1
		for _, g := range adj[f] {
			if state[g] == 1 {
				return false
			}
			if state[g] == 0 && !dfs(g) {
				return false
			}
		}
		state[f] = 2
		return true
	}
	for _, f := range s.Funcs {
		if state[f] == 0 && !dfs(f) {
			return false
		}
	}
	return true
}

// depthGuarded checks the depth-parameter idiom on an SCC:
//   - every function of the SCC that makes an in-SCC call has an int parameter named like a
//     depth counter, and every in-SCC call passes callerDepth+k (k>=0) in the callee's depth slot;
//   - some function G tests depth against a constant and returns on the exceeding edge without
//     reaching an in-SCC call;
//   - removing G makes the SCC acyclic (every cycle passes the guard) and removing the edges
//     with k>=1 makes it acyclic (depth strictly grows round every cycle).
//
// It returns a description of the proof or the reason it fails.
func (s *recSCC) depthGuarded() (bool, string) {
	depthParam := func(f *ssa.Function) *ssa.Parameter {
		for _, prm := range f.Params {
			n := strings.ToLower(prm.Name())
			if strings.Contains(n, "depth") || strings.Contains(n, "level") {
				return prm
			}
		}
		return nil
	}
	inc := map[ssa.CallInstruction]int64{}
	for _, e := range s.Edges {
		dp := depthParam(e.From)
		dq := depthParam(e.To)
		if dq == nil {
			return false, model.FnName(e.To) + " has no depth parameter"
		}
		// position of dq among To's params
		pos := -1
		for i, prm := range e.To.Params {
			if prm == dq {
				pos = i
			}
		}
		args := e.Site.Common().Args
		if e.Site.Common().IsInvoke() || pos < 0 || pos >= len(args) {
			return false, "call " + model.FnName(e.From) + " -> " + model.FnName(e.To) + " is not a direct call with a depth argument"
		}
		base, k := linear(args[pos])
		if dp == nil || base != ssa.Value(dp) || k < 0 {
			return false, "call " + model.FnName(e.From) + " -> " + model.FnName(e.To) + " does not pass the caller's depth (+k)"
		}
		inc[e.Site] = k
	}
	// guard function
	var guard *ssa.Function
	for _, f := range s.Funcs {
		dp := depthParam(f)
		if dp == nil {
			continue
		}
		for _, b := range f.Blocks {
			iff, ok := b.Instrs[len(b.Instrs)-1].(*ssa.If)
			if !ok {
				continue
			}
			x, kk, op, right, ok := constCmp(iff.Cond)
			if !ok || x != ssa.Value(dp) {
				continue
			}
			// the edge taken for large depth
			big := int64(1) << 40
			var exceed *ssa.BasicBlock
			if cmpAt(op, big, kk, right) {
				exceed = b.Succs[0]
			} else {
				exceed = b.Succs[1]
			}
			reaches := model.PathQuery{FromBlock: exceed, Target: func(in ssa.Instruction) bool {
				for _, e := range s.Edges {
					if e.Site == in {
						return true
					}
				}
				return false
			}}.Find(f)
			if reaches == nil {
				// the test must be passed by every path to an in-SCC call of f
				bypass := model.PathQuery{Stop: func(in ssa.Instruction) bool { return in == ssa.Instruction(iff) }, Target: func(in ssa.Instruction) bool {
					for _, e := range s.Edges {
						if e.Site == in && e.From == f {
							return true
						}
					}
					return false
				}}.Find(f)
				if bypass == nil {
					guard = f
				}
			}
		}
	}
	if guard == nil {
		return false, "no function of the cycle returns early when its depth parameter exceeds a constant"
	}
	if !s.acyclicWithout(func(e recEdge) bool { return e.From == guard || e.To == guard }) {
		return false, "a cycle avoids the guard in " + model.FnName(guard)
	}
	if !s.acyclicWithout(func(e recEdge) bool { return inc[e.Site] >= 1 }) {
		return false, "a cycle does not increase the depth"
	}
	return true, "depth tested in " + model.FnName(guard) + "; every cycle passes it and increases depth"
}
