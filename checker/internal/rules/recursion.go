package rules

// Engine E: recursion. Tarjan SCCs on the VTA call graph restricted to lal+naza functions,
// `go` edges cut, synthetic wrappers ($bound, $thunk) folded as transparent edges.

import (
	"fmt"
	"go/token"
	"go/types"
	"sort"
	"strings"

	"golang.org/x/tools/go/callgraph"
	"golang.org/x/tools/go/ssa"

	"lalverif/internal/model"
)

type recEdge struct {
	From, To *ssa.Function
	Site     ssa.CallInstruction
}

type recSCC struct {
	Funcs []*ssa.Function
	Edges []recEdge // edges inside the SCC
}

func (s *recSCC) Name() string {
	var n []string
	for _, f := range s.Funcs {
		n = append(n, model.FnName(f))
	}
	sort.Strings(n)
	return strings.Join(n, ",")
}

func inScopeFn(f *ssa.Function) bool {
	return f != nil && (model.IsLal(f) || model.IsNaza(f))
}

// succsOf returns in-scope callees of fn (no go edges); synthetic functions are in scope when
// their package resolves to lal/naza (FnPkg follows the wrapped object).
func succsOf(cg *callgraph.Graph, fn *ssa.Function) []*callgraph.Edge {
	n := cg.Nodes[fn]
	if n == nil {
		return nil
	}
	var out []*callgraph.Edge
	for _, e := range n.Out {
		if _, isGo := e.Site.(*ssa.Go); isGo {
			continue
		}
		if inScopeFn(e.Callee.Func) {
			out = append(out, e)
		}
	}
	return out
}

// recursiveSCCs returns the non-trivial SCCs (size>1 or self loop) among functions reachable
// from roots.
func recursiveSCCs(p *model.Prog, roots []*ssa.Function) []*recSCC {
	cg := p.CG()
	reach := map[*ssa.Function]bool{}
	var stack []*ssa.Function
	for _, r := range roots {
		if !reach[r] {
			reach[r] = true
			stack = append(stack, r)
		}
	}
	for len(stack) > 0 {
		f := stack[len(stack)-1]
		stack = stack[:len(stack)-1]
		for _, e := range succsOf(cg, f) {
			if !reach[e.Callee.Func] {
				reach[e.Callee.Func] = true
				stack = append(stack, e.Callee.Func)
			}
		}
	}
	var fns []*ssa.Function
	for f := range reach {
		fns = append(fns, f)
	}
	sort.Slice(fns, func(i, j int) bool { return model.FnName(fns[i]) < model.FnName(fns[j]) })
	// Tarjan
	index := map[*ssa.Function]int{}
	low := map[*ssa.Function]int{}
	on := map[*ssa.Function]bool{}
	var st []*ssa.Function
	var sccs []*recSCC
	next := 0
	var strong func(v *ssa.Function)
	strong = func(v *ssa.Function) {
		index[v] = next
		low[v] = next
		next++
		st = append(st, v)
		on[v] = true
		for _, e := range succsOf(cg, v) {
			w := e.Callee.Func
			if _, seen := index[w]; !seen {
				strong(w)
				if low[w] < low[v] {
					low[v] = low[w]
				}
			} else if on[w] && index[w] < low[v] {
				low[v] = index[w]
			}
		}
		if low[v] == index[v] {
			var comp []*ssa.Function
			for {
				w := st[len(st)-1]
				st = st[:len(st)-1]
				on[w] = false
				comp = append(comp, w)
				if w == v {
					break
				}
			}
			in := map[*ssa.Function]bool{}
			for _, f := range comp {
				in[f] = true
			}
			var edges []recEdge
			for _, f := range comp {
				for _, e := range succsOf(cg, f) {
					if in[e.Callee.Func] {
						edges = append(edges, recEdge{f, e.Callee.Func, e.Site})
					}
				}
			}
			if len(comp) > 1 || len(edges) > 0 {
				sort.Slice(comp, func(i, j int) bool { return model.FnName(comp[i]) < model.FnName(comp[j]) })
				sccs = append(sccs, &recSCC{Funcs: comp, Edges: edges})
			}
		}
	}
	for _, f := range fns {
		if _, seen := index[f]; !seen {
			strong(f)
		}
	}
	sort.Slice(sccs, func(i, j int) bool { return sccs[i].Name() < sccs[j].Name() })
	return sccs
}

// acyclicWithout reports whether the SCC's internal graph is acyclic once the edges for which
// drop returns true are removed.
func (s *recSCC) acyclicWithout(drop func(recEdge) bool) bool {
	adj := map[*ssa.Function][]*ssa.Function{}
	for _, e := range s.Edges {
		if !drop(e) {
			adj[e.From] = append(adj[e.From], e.To)
		}
	}
	state := map[*ssa.Function]int{}
	var dfs func(f *ssa.Function) bool
	dfs = func(f *ssa.Function) bool {
		state[f] = 1
		for _, g := range adj[f] {
			if state[g] == 1 {
				return false
			}
			if state[g] == 0 && !dfs(g) {
				return false
			}
		}
		state[f] = 2
		return true
	}
	for _, f := range s.Funcs {
		if state[f] == 0 && !dfs(f) {
			return false
		}
	}
	return true
}

// depthGuarded checks the depth-parameter idiom on an SCC:
//   - every function of the SCC that makes an in-SCC call has an int parameter named like a
//     depth counter, and every in-SCC call passes callerDepth+k (k>=0) in the callee's depth slot;
//   - some function G tests depth against a constant and returns on the exceeding edge without
//     reaching an in-SCC call;
//   - removing G makes the SCC acyclic (every cycle passes the guard) and removing the edges
//     with k>=1 makes it acyclic (depth strictly grows round every cycle).
//
// It returns a description of the proof or the reason it fails.
func (s *recSCC) depthGuarded() (bool, string) {
	depthParam := func(f *ssa.Function) *ssa.Parameter {
		for _, prm := range f.Params {
			n := strings.ToLower(prm.Name())
			if strings.Contains(n, "depth") || strings.Contains(n, "level") {
				return prm
			}
		}
		return nil
	}
	inc := map[ssa.CallInstruction]int64{}
	for _, e := range s.Edges {
		dp := depthParam(e.From)
		dq := depthParam(e.To)
		if dq == nil {
			return false, model.FnName(e.To) + " has no depth parameter"
		}
		// position of dq among To's params
		pos := -1
		for i, prm := range e.To.Params {
			if prm == dq {
				pos = i
			}
		}
		args := e.Site.Common().Args
		if e.Site.Common().IsInvoke() || pos < 0 || pos >= len(args) {
			return false, "call " + model.FnName(e.From) + " -> " + model.FnName(e.To) + " is not a direct call with a depth argument"
		}
		base, k := linear(args[pos])
		if dp == nil || base != ssa.Value(dp) || k < 0 {
			return false, "call " + model.FnName(e.From) + " -> " + model.FnName(e.To) + " does not pass the caller's depth (+k)"
		}
		inc[e.Site] = k
	}
	// guard function
	var guard *ssa.Function
	for _, f := range s.Funcs {
		dp := depthParam(f)
		if dp == nil {
			continue
		}
		for _, b := range f.Blocks {
			iff, ok := b.Instrs[len(b.Instrs)-1].(*ssa.If)
			if !ok {
				continue
			}
			x, kk, op, right, ok := constCmp(iff.Cond)
			if !ok || x != ssa.Value(dp) {
				continue
			}
			// the edge taken for large depth
			big := int64(1) << 40
			var exceed *ssa.BasicBlock
			if cmpAt(op, big, kk, right) {
				exceed = b.Succs[0]
			} else {
				exceed = b.Succs[1]
			}
			reaches := model.PathQuery{FromBlock: exceed, Target: func(in ssa.Instruction) bool {
				for _, e := range s.Edges {
					if e.Site == in {
						return true
					}
				}
				return false
			}}.Find(f)
			if reaches == nil {
				// the test must be passed by every path to an in-SCC call of f
				bypass := model.PathQuery{Stop: func(in ssa.Instruction) bool { return in == ssa.Instruction(iff) }, Target: func(in ssa.Instruction) bool {
					for _, e := range s.Edges {
						if e.Site == in && e.From == f {
							return true
						}
					}
					return false
				}}.Find(f)
				if bypass == nil {
					guard = f
				}
			}
		}
	}
	if guard == nil {
		return false, "no function of the cycle returns early when its depth parameter exceeds a constant"
	}
	if !s.acyclicWithout(func(e recEdge) bool { return e.From == guard || e.To == guard }) {
		return false, "a cycle avoids the guard in " + model.FnName(guard)
	}
	if !s.acyclicWithout(func(e recEdge) bool { return inc[e.Site] >= 1 }) {
		return false, "a cycle does not increase the depth"
	}
	return true, "depth tested in " + model.FnName(guard) + "; every cycle passes it and increases depth"
}

// stateGuarded checks the "consume before re-entering" idiom on an SCC:
//   - a function G of the SCC starts with `if recv.empty() { return }` where empty() (or an
//     inline test) returns F == nil / len(F) == 0 for a field F of G's receiver;
//   - every in-SCC call made by G is dominated by a store F = nil (directly or in a receiver
//     method called by G), with no store to F between that point and the call;
//   - no function reachable from the SCC's functions stores anything else to F;
//   - removing G makes the SCC acyclic.
//
// Then a re-entry of G from inside its own callback finds F empty and returns: the recursion
// depth through the cycle is at most 2.
func (s *recSCC) stateGuarded(p *model.Prog) (bool, string) {
	why := "no function of the cycle has the test-empty / clear-before-callback shape"
	for _, g := range s.Funcs {
		if len(g.Params) == 0 || len(g.Blocks) == 0 {
			continue
		}
		if !s.acyclicWithout(func(e recEdge) bool { return e.From == g || e.To == g }) {
			continue
		}
		recv := g.Params[0]
		iff, ok := g.Blocks[0].Instrs[len(g.Blocks[0].Instrs)-1].(*ssa.If)
		if !ok {
			continue
		}
		// the emptiness predicate: direct field test or a receiver method returning one
		emptyField := func(cond ssa.Value, pol bool) *types.Var {
			c, pl := model.StripNot(cond, pol)
			fieldOfTest := func(fn *ssa.Function, v ssa.Value, rc ssa.Value) *types.Var {
				b, ok := v.(*ssa.BinOp)
				if !ok || b.Op != token.EQL {
					return nil
				}
				x := b.X
				if l, isLen := lenOf(x); isLen {
					if k, isK := model.ConstInt(b.Y); !isK || k != 0 {
						return nil
					}
					x = l
				} else if !model.IsNilConst(b.Y) {
					return nil
				}
				fp, ok := loadPath(x)
				if !ok || len(fp.Fields) != 1 || !sameRoot(fp.Base, rc) {
					return nil
				}
				return fp.Fields[0]
			}
			if !pl {
				return nil
			}
			if f := fieldOfTest(g, c, recv); f != nil {
				return f
			}
			if call, ok := c.(*ssa.Call); ok {
				callee := call.Common().StaticCallee()
				if callee != nil && len(callee.Params) == 1 && len(call.Common().Args) == 1 && sameRoot(call.Common().Args[0], recv) {
					rets := model.ReturnsOf(callee)
					if len(rets) == 1 && len(callee.Blocks) == 1 {
						return fieldOfTest(callee, model.ReturnValues(rets[0])[0], callee.Params[0])
					}
				}
			}
			return nil
		}
		f := emptyField(iff.Cond, true)
		if f == nil {
			continue
		}
		// the empty edge returns without an in-SCC call
		inSCC := func(in ssa.Instruction) bool {
			for _, e := range s.Edges {
				if e.Site == in && e.From == g {
					return true
				}
			}
			return false
		}
		if (model.PathQuery{FromBlock: g.Blocks[0].Succs[0], Target: inSCC}).Find(g) != nil {
			why = model.FnName(g) + " re-enters the cycle on its 'empty' edge"
			continue
		}
		// clearing instructions in g: store nil to recv.F, or call of a receiver method whose only effect on F is storing nil
		clears := func(in ssa.Instruction) bool {
			if st, ok := in.(*ssa.Store); ok {
				return model.FieldOf(st.Addr) == f && isEmptyValue(st.Val) && sameRoot(storeBase(st), recv)
			}
			if ci, ok := in.(ssa.CallInstruction); ok {
				callee := ci.Common().StaticCallee()
				if callee == nil || len(ci.Common().Args) == 0 || !sameRoot(ci.Common().Args[0], recv) {
					return false
				}
				n, good := 0, true
				for _, st := range model.FieldStores(callee, f) {
					n++
					if !isEmptyValue(st.Val) || !sameRoot(storeBase(st), callee.Params[0]) {
						good = false
					}
				}
				return n > 0 && good
			}
			return false
		}
		unclearedCall := model.PathQuery{Stop: clears, Target: inSCC}.Find(g)
		if unclearedCall != nil {
			why = model.FnName(g) + " reaches its callback at " + p.InstrPos(unclearedCall) + " without having cleared " + f.Name() + " first"
			continue
		}
		// no refill between the clear and the callback inside g, and nowhere below the cycle
		refill := ""
		for _, fn := range s.Funcs {
			reach := p.Reachable([]*ssa.Function{fn}, true, inScopeFn)
			for r := range reach {
				if r == g {
					continue
				}
				for _, st := range model.FieldStores(r, f) {
					if !isEmptyValue(st.Val) {
						refill = model.FnName(r)
					}
				}
			}
		}
		for _, st := range model.FieldStores(g, f) {
			if !isEmptyValue(st.Val) {
				refill = model.FnName(g)
			}
		}
		if refill != "" {
			why = f.Name() + " is refilled by " + refill + ", which the cycle can reach"
			continue
		}
		return true, model.FnName(g) + " returns at once when " + f.Name() + " is empty and clears it before calling back into the cycle; nothing the cycle reaches refills it"
	}
	return false, why
}

// isEmptyValue: nil, or a slice expression x[0:0] / x[:0].
func isEmptyValue(v ssa.Value) bool {
	if model.IsNilConst(v) {
		return true
	}
	if sl, ok := v.(*ssa.Slice); ok && sl.High != nil {
		h, okH := model.ConstInt(sl.High)
		lowZero := sl.Low == nil
		if !lowZero {
			l, okL := model.ConstInt(sl.Low)
			lowZero = okL && l == 0
		}
		return okH && h == 0 && lowZero
	}
	return false
}

// counterGuarded checks the "bounded retry counter" idiom on an SCC:
//   - a function G every cycle passes tests an integer field F of its receiver against a
//     constant and, on the edge taken for large F, returns without an in-SCC call;
//   - that test is passed by every path of G to an in-SCC call, and every in-SCC call of G is
//     dominated by a store F = F + k (k >= 1);
//   - nothing the cycle reaches stores F otherwise (no reset, no decrement).
//
// Then G is entered at most K+1 times on one stack.
func (s *recSCC) counterGuarded(p *model.Prog) (bool, string) {
	why := "no function of the cycle tests and increments a retry counter"
	for _, g := range s.Funcs {
		if len(g.Params) == 0 || len(g.Blocks) == 0 {
			continue
		}
		if !s.acyclicWithout(func(e recEdge) bool { return e.From == g || e.To == g }) {
			continue
		}
		recv := g.Params[0]
		inSCC := func(in ssa.Instruction) bool {
			for _, e := range s.Edges {
				if e.Site == in && e.From == g {
					return true
				}
			}
			return false
		}
		for _, b := range g.Blocks {
			iff, ok := b.Instrs[len(b.Instrs)-1].(*ssa.If)
			if !ok {
				continue
			}
			x, k, op, right, ok := constCmp(iff.Cond)
			if !ok {
				continue
			}
			fp, ok := loadPath(x)
			if !ok || len(fp.Fields) != 1 || !sameRoot(fp.Base, recv) {
				continue
			}
			f := fp.Fields[0]
			big := int64(1) << 40
			exceed := b.Succs[1]
			if cmpAt(op, big, k, right) {
				exceed = b.Succs[0]
			}
			if (model.PathQuery{FromBlock: exceed, Target: inSCC}).Find(g) != nil {
				continue
			}
			if (model.PathQuery{Stop: func(in ssa.Instruction) bool { return in == ssa.Instruction(iff) }, Target: inSCC}).Find(g) != nil {
				why = model.FnName(g) + " reaches the cycle without testing " + f.Name()
				continue
			}
			isInc := func(in ssa.Instruction) bool {
				st, ok := in.(*ssa.Store)
				if !ok || model.FieldOf(st.Addr) != f || !sameRoot(storeBase(st), recv) {
					return false
				}
				add, ok := st.Val.(*ssa.BinOp)
				if !ok || add.Op != token.ADD || !model.IsLoadOfField(add.X, f) {
					return false
				}
				c, isK := model.ConstInt(add.Y)
				return isK && c >= 1
			}
			// every in-SCC call behind the test is preceded by an increment
			start := b.Succs[0]
			if exceed == start {
				start = b.Succs[1]
			}
			if miss := (model.PathQuery{FromBlock: start, Stop: isInc, Target: inSCC}).Find(g); miss != nil {
				why = model.FnName(g) + " calls back into the cycle at " + p.InstrPos(miss) + " without incrementing " + f.Name()
				continue
			}
			// no other store to the counter anywhere the cycle reaches
			other := ""
			for _, fn := range s.Funcs {
				for r := range p.Reachable([]*ssa.Function{fn}, true, inScopeFn) {
					for _, st := range model.FieldStores(r, f) {
						if !(r == g && isInc(st)) {
							other = model.FnName(r)
						}
					}
				}
			}
			if other != "" {
				why = f.Name() + " is also assigned in " + other + ", which the cycle can reach"
				continue
			}
			return true, fmt.Sprintf("%s returns once %s exceeds %d and increments it before every call back into the cycle; nothing the cycle reaches resets it", model.FnName(g), f.Name(), k)
		}
	}
	return false, why
}
