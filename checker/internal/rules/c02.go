package rules

import (
	"go/token"
	"go/types"

	"golang.org/x/tools/go/ssa"

	"lalverif/internal/model"
	"lalverif/internal/report"
)

func init() { register("C02", c02) }

type consumerKind struct {
	name     string
	fresh    *types.Var // nil when the kind has no prologue
	wait     *types.Var // nil when the kind has no key-frame gate
	writes   []*types.Func
	setField *types.Var
	cache    *types.Var // Group field of the GOP cache serving the prologue
}

func consumerKinds(p *model.Prog, c *fanoutCtx) []consumerKind {
	return []consumerKind{
		{"rtmp-sub", c.rtmpIsFresh, c.rtmpWaitKey, []*types.Func{p.MethodObj("pkg/rtmp", "ServerSession", "Write"), p.MethodObj("pkg/rtmp", "ServerSession", "Writev")}, c.rtmpSubSet, p.Field("pkg/logic", "Group", "rtmpGopCache")},
		{"rtmp-push", c.pushIsFresh, nil, []*types.Func{p.MethodObj("pkg/rtmp", "PushSession", "Write")}, nil, p.Field("pkg/logic", "Group", "rtmpGopCache")},
		{"flv-sub", c.flvIsFresh, c.flvWaitKey, []*types.Func{p.MethodObj("pkg/httpflv", "SubSession", "Write")}, p.Field("pkg/logic", "Group", "httpflvSubSessionSet"), p.Field("pkg/logic", "Group", "httpflvGopCache")},
		{"ts-sub", c.tsIsFresh, c.tsWaitBound, []*types.Func{p.MethodObj("pkg/httpts", "SubSession", "Write")}, p.Field("pkg/logic", "Group", "httptsSubSessionSet"), p.Field("pkg/logic", "Group", "httptsGopCache")},
		{"rtsp-sub", nil, c.rtspWaitKey, []*types.Func{p.MethodObj("pkg/rtsp", "SubSession", "WriteRtpPacket")}, p.Field("pkg/logic", "Group", "rtspSubSessionSet"), nil},
	}
}

func c02(p *model.Prog, r *report.Result) {
	r.Explanation = "Decides the structural part of 'every consumer starts decodable': inside each consumer kind's fresh-session prologue no cached header is written after GOP or live data and the fresh flag is cleared on every way out (R1); every clearing of a wait-for-key-frame/boundary flag and every live write is dominated by a key-frame/boundary condition, a non-empty GOP cache in the prologue, or 'stream has no video' at join (R2); every joining function of a kind with a key-frame gate contains the no-video release (R3); the TS probe queue emits PAT/PMT before any popped message (R4); the per-GOP frame cap rejects at len==cap in both caches (R5)."
	r.NotDecided = []string{"that the replay is exactly the most recent GOPs oldest first (ring arithmetic)", "header content equal to the one in force when a frame was published", "RTSP SDP content", "stat.VideoCodec being reset between incarnations (C16.R1)"}
	r.Assumptions = []string{"sessions are only touched under Group.mutex (C20)"}
	c := newFanoutCtx(p)
	kinds := consumerKinds(p, c)
	fns := lalFuncsIn(p, "pkg/logic")
	r.Count("functions_analysed", len(fns))

	gopDataAtR := p.MethodObj("pkg/remux", "GopCache", "GetGopDataAt")
	gopDataAtT := p.MethodObj("pkg/remux", "GopCacheMpegts", "GetGopDataAt")
	gopCountR := p.MethodObj("pkg/remux", "GopCache", "GetGopCount")
	gopCountT := p.MethodObj("pkg/remux", "GopCacheMpegts", "GetGopCount")
	hdrFields := []*types.Var{
		p.Field("pkg/remux", "GopCache", "MetadataEnsureWithSetDataFrame"),
		p.Field("pkg/remux", "GopCache", "MetadataEnsureWithoutSetDataFrame"),
		p.Field("pkg/remux", "GopCache", "VideoSeqHeader"),
		p.Field("pkg/remux", "GopCache", "AacSeqHeader"),
		p.Field("pkg/logic", "Group", "patpmt"),
	}
	classify := func(d ssa.Value) string {
		for _, f := range hdrFields {
			if model.IsLoadOfField(d, f) {
				return "header"
			}
		}
		if model.DependsOn(d, func(v ssa.Value) bool {
			if cc, ok := v.(*ssa.Call); ok {
				o := model.CalleeObj(cc.Common())
				return model.SameFunc(o, gopDataAtR) || model.SameFunc(o, gopDataAtT)
			}
			return false
		}) {
			return "gop"
		}
		return "live"
	}
	dataArg := func(ci ssa.CallInstruction) ssa.Value {
		args := ci.Common().Args
		if len(args) < 2 {
			return nil
		}
		return args[len(args)-1]
	}

	// ---------------------------------------------------------------- R1
	r.Rule("C02.R1", "inside the IsFresh region of each consumer kind: no same-iteration path from a GOP-data or live write to a cached-header write of the same session, and every path out of the region passes the IsFresh=false store of that session")
	nRegions := 0
	for _, k := range kinds {
		if k.fresh == nil {
			continue
		}
		for _, fn := range fns {
			for _, b := range fn.Blocks {
				iff, ok := b.Instrs[len(b.Instrs)-1].(*ssa.If)
				if !ok {
					continue
				}
				cond, pol := model.StripNot(iff.Cond, true)
				f, base, ok := boolFieldTest(cond)
				if !ok || f != k.fresh {
					continue
				}
				entry := b.Succs[0]
				if !pol {
					entry = b.Succs[1]
				}
				// is this a prologue region (contains writes)? the skip tests in write2* have none.
				var writes []ssa.CallInstruction
				for _, ci := range model.CallsTo(fn, k.writes...) {
					if sameValue(receiver(ci.Common()), base) {
						writes = append(writes, ci)
					}
				}
				hasHeaderWrite := false
				for _, w := range writes {
					if classify(dataArg(w)) == "header" {
						hasHeaderWrite = true
					}
				}
				if !hasHeaderWrite {
					continue
				}
				nRegions++
				var hdr *ssa.BasicBlock
				if n := iterOrigin(base); n != nil {
					hdr = n.Block()
				}
				for _, w := range writes {
					cl := classify(dataArg(w))
					if cl == "header" {
						// header writes must be inside the fresh region
						r.Check(guardedByFieldFlag(w, k.fresh, base, true), "C02.R1", fkey(fn, "hdr-in-region", k.name), p.InstrPos(w),
							"cached header written inside the fresh region", "cached header written outside the fresh region: it would follow media")
						continue
					}
					bad := model.PathQuery{From: w, LoopHeader: hdr, Target: func(in ssa.Instruction) bool {
						ci, ok := in.(ssa.CallInstruction)
						if !ok {
							return false
						}
						o := model.CalleeObj(ci.Common())
						for _, wf := range k.writes {
							if model.SameFunc(o, wf) && sameValue(receiver(ci.Common()), base) && classify(dataArg(ci)) == "header" {
								return true
							}
						}
						return false
					}}.Find(fn)
					r.Check(bad == nil, "C02.R1", fkey(fn, "media-then-header", k.name+":"+cl), p.InstrPos(w),
						"no cached-header write is reachable after this "+cl+" write in the same iteration",
						"a cached header can be written after this "+cl+" write: the consumer sees media before its headers")
				}
				// every way out of the region clears the flag
				bad := model.PathQuery{FromBlock: entry,
					Stop: func(in ssa.Instruction) bool {
						st, ok := in.(*ssa.Store)
						if !ok || model.FieldOf(st.Addr) != k.fresh || !sameValue(storeBase(st), base) {
							return false
						}
						v, isc := model.ConstBool(st.Val)
						return isc && !v
					},
					Target: func(in ssa.Instruction) bool {
						switch x := in.(type) {
						case *ssa.Return:
							return true
						case *ssa.Next:
							return hdr != nil && x.Block() == hdr
						}
						return false
					}}.Find(fn)
				r.Check(bad == nil, "C02.R1", fkey(fn, "fresh-cleared", k.name), p.InstrPos(iff),
					"every path out of the fresh region stores IsFresh=false on the session", "the fresh region can be left with IsFresh still true: the prologue is replayed on the next message, headers after media")
			}
		}
	}
	// a prologue extracted into a helper that takes the session as a parameter: the helper's body
	// is the region; every call site must lie inside the fresh branch of the same session, the
	// order rule is decided inside the helper, and the flag is cleared inside the helper or, on
	// every path, behind the call
	for _, k := range kinds {
		if k.fresh == nil {
			continue
		}
		for _, h := range fns {
			for _, prm := range h.Params {
				var writes []ssa.CallInstruction
				for _, ci := range model.CallsTo(h, k.writes...) {
					if receiver(ci.Common()) == ssa.Value(prm) {
						writes = append(writes, ci)
					}
				}
				hasHeaderWrite := false
				for _, w := range writes {
					if classify(dataArg(w)) == "header" {
						hasHeaderWrite = true
					}
				}
				// not a helper region when the function tests the flag itself (handled above)
				testsFlag := false
				model.EachInstr(h, func(in ssa.Instruction) {
					if iff, ok := in.(*ssa.If); ok {
						c, _ := model.StripNot(iff.Cond, true)
						if f, b, ok := boolFieldTest(c); ok && f == k.fresh && b == ssa.Value(prm) {
							testsFlag = true
						}
					}
				})
				if !hasHeaderWrite || testsFlag {
					continue
				}
				nRegions++
				for _, w := range writes {
					cl := classify(dataArg(w))
					if cl == "header" {
						continue
					}
					bad := model.PathQuery{From: w, Target: func(in ssa.Instruction) bool {
						ci, ok := in.(ssa.CallInstruction)
						if !ok {
							return false
						}
						o := model.CalleeObj(ci.Common())
						for _, wf := range k.writes {
							if model.SameFunc(o, wf) && receiver(ci.Common()) == ssa.Value(prm) && classify(dataArg(ci)) == "header" {
								return true
							}
						}
						return false
					}}.Find(h)
					r.Check(bad == nil, "C02.R1", fkey(h, "media-then-header", k.name+":"+cl), p.InstrPos(w),
						"no cached-header write is reachable after this "+cl+" write", "a cached header can be written after this "+cl+" write: the consumer sees media before its headers")
				}
				isClear := func(base ssa.Value) func(in ssa.Instruction) bool {
					return func(in ssa.Instruction) bool {
						st, ok := in.(*ssa.Store)
						if !ok || model.FieldOf(st.Addr) != k.fresh || !sameValue(storeBase(st), base) {
							return false
						}
						v, isc := model.ConstBool(st.Val)
						return isc && !v
					}
				}
				clearedInside := model.PathQuery{Stop: isClear(prm), Target: func(in ssa.Instruction) bool { _, ok := in.(*ssa.Return); return ok }}.Find(h) == nil
				idx := -1
				for i, pp := range h.Params {
					if pp == prm {
						idx = i
					}
				}
				for _, ed := range p.Callers(h) {
					cf := ed.Caller.Func
					if ed.Site == nil || !model.IsLal(cf) {
						continue
					}
					args := ed.Site.Common().Args
					if idx < 0 || idx >= len(args) {
						continue
					}
					arg := args[idx]
					r.Check(guardedByFieldFlag(ed.Site, k.fresh, arg, true), "C02.R1", fkey(cf, "hdr-in-region", k.name), p.InstrPos(ed.Site),
						"prologue helper called inside the fresh region", "the prologue helper (which writes cached headers) is called outside the fresh region of the session: headers would follow media")
					if !clearedInside {
						var hdr *ssa.BasicBlock
						if n := iterOrigin(arg); n != nil {
							hdr = n.Block()
						}
						bad := model.PathQuery{From: ed.Site, Stop: isClear(arg), Target: func(in ssa.Instruction) bool {
							switch x := in.(type) {
							case *ssa.Return:
								return true
							case *ssa.Next:
								return hdr != nil && x.Block() == hdr
							}
							return false
						}}.Find(cf)
						r.Check(bad == nil, "C02.R1", fkey(cf, "fresh-cleared", k.name), p.InstrPos(ed.Site),
							"IsFresh=false stored behind the prologue helper on every path", "the fresh region can be left with IsFresh still true: the prologue is replayed on the next message, headers after media")
					}
				}
			}
		}
	}
	if nRegions < 4 {
		r.Bad("C02.R1", "floor", "", "fewer than 4 prologue regions (rtmp sub, relay push, httpflv, httpts) found")
	}

	// ---------------------------------------------------------------- R2
	r.Rule("C02.R2", "every store <wait flag>=false and every live write of a gated kind is dominated by: IsVideoKeyNalu() of the current message / the boundary parameter / a boolean built only from IsAvcBoundary|IsHevcBoundary and constants (true edge), GetGopCount()>0 of the kind's cache inside the fresh region, stat.VideoCodec==\"\" at join, the wait flag itself being false, or (RTSP) the OutWaitKeyFrameFlag=false configuration edge")
	isKeyNalu := p.MethodObj("pkg/base", "RtmpMsg", "IsVideoKeyNalu")
	isAvcB := p.FuncObj("pkg/rtprtcp", "IsAvcBoundary")
	isHevcB := p.FuncObj("pkg/rtprtcp", "IsHevcBoundary")
	statField := p.Field("pkg/logic", "Group", "stat")
	videoCodec := p.Field("pkg/base", "StatGroup", "VideoCodec")
	outWaitFlag := p.Field("pkg/logic", "RtspConfig", "OutWaitKeyFrameFlag")
	tsFeed := p.MethodObj("pkg/remux", "GopCacheMpegts", "Feed")

	boundaryLeaves := func(v ssa.Value) (onlyBoundary bool, hasCall bool) {
		seen := map[ssa.Value]bool{}
		ok := true
		var rec func(ssa.Value)
		rec = func(x ssa.Value) {
			if seen[x] {
				return
			}
			seen[x] = true
			switch y := x.(type) {
			case *ssa.Phi:
				for _, e := range y.Edges {
					rec(e)
				}
			case *ssa.Const:
			case *ssa.Call:
				o := model.CalleeObj(y.Common())
				if model.SameFunc(o, isAvcB) || model.SameFunc(o, isHevcB) {
					hasCall = true
				} else {
					ok = false
				}
			default:
				ok = false
			}
		}
		rec(v)
		return ok, hasCall
	}

	keyCond := func(fn *ssa.Function, k consumerKind, base ssa.Value) func(ssa.Value, bool) bool {
		return func(cond ssa.Value, pol bool) bool {
			// IsVideoKeyNalu() on the function's message parameter
			if call, ok := cond.(*ssa.Call); ok && pol {
				if model.SameFunc(model.CalleeObj(call.Common()), isKeyNalu) && paramCell(call.Common().Args[0]) != nil {
					return true
				}
			}
			// boundary parameter that is also what the TS cache is fed with
			if prm, ok := cond.(*ssa.Parameter); ok && pol {
				for _, ci := range model.CallsTo(fn, tsFeed) {
					for _, a := range ci.Common().Args {
						if a == prm {
							return true
						}
					}
				}
			}
			// rtsp boundary boolean
			if _, isPhi := cond.(*ssa.Phi); isPhi && pol {
				if only, has := boundaryLeaves(cond); only && has {
					return true
				}
			}
			// gop count > 0 in the fresh region
			if b, ok := cond.(*ssa.BinOp); ok && k.cache != nil {
				if call, ok := b.X.(*ssa.Call); ok {
					o := model.CalleeObj(call.Common())
					if (model.SameFunc(o, gopCountR) || model.SameFunc(o, gopCountT)) && model.IsLoadOfField(call.Common().Args[0], k.cache) {
						if kk, isK := model.ConstInt(b.Y); isK && ((b.Op == token.GTR && kk == 0 && pol) || (b.Op == token.GEQ && kk == 1 && pol) || (b.Op == token.NEQ && kk == 0 && pol) || (b.Op == token.EQL && kk == 0 && !pol) || (b.Op == token.LEQ && kk == 0 && !pol)) {
							return true
						}
					}
				}
			}
			// stat.VideoCodec == ""
			if b, ok := cond.(*ssa.BinOp); ok && (b.Op == token.EQL || b.Op == token.NEQ) {
				if s, isS := model.ConstString(b.Y); isS && s == "" {
					if fp, ok := loadPath(b.X); ok && len(fp.Fields) == 2 && fp.Fields[0] == statField && fp.Fields[1] == videoCodec {
						return (b.Op == token.EQL) == pol
					}
				}
			}
			return false
		}
	}
	nGate := 0
	for _, k := range kinds {
		if k.wait == nil {
			continue
		}
		for _, fn := range p.LalFuncs() {
			for _, st := range model.FieldStores(fn, k.wait) {
				base := storeBase(st)
				if _, fresh := base.(*ssa.Alloc); fresh {
					continue // constructor
				}
				key := fkey(fn, "release", k.name)
				v, isc := model.ConstBool(st.Val)
				if !isc || v {
					r.Bad("C02.R2", key, p.InstrPos(st), "wait flag assigned something other than constant false on a live session")
					continue
				}
				nGate++
				r.Check(model.GuardedBy(st, keyCond(fn, k, base)), "C02.R2", key, p.InstrPos(st),
					"release dominated by a key-frame/boundary condition, a non-empty GOP cache, or no-video-at-join",
					"the wait flag is cleared without a key-frame/boundary condition: the consumer's first video frame need not be a key frame")
			}
		}
		// live writes
		for _, fn := range fns {
			for _, ci := range model.CallsTo(fn, k.writes...) {
				recv := receiver(ci.Common())
				if classify(dataArg(ci)) != "live" {
					continue
				}
				if k.fresh != nil && guardedByFieldFlag(ci, k.fresh, recv, true) {
					continue
				}
				nGate++
				ok := guardedByFieldFlag(ci, k.wait, recv, false) || model.GuardedBy(ci, keyCond(fn, k, recv))
				if !ok && k.name == "rtsp-sub" {
					ok = model.GuardedBy(ci, func(cond ssa.Value, pol bool) bool {
						return model.IsLoadOfField(cond, outWaitFlag) && !pol
					})
				}
				r.Check(ok, "C02.R2", fkey(fn, "live-write", k.name), p.InstrPos(ci),
					"live write dominated by wait==false or by the releasing key-frame condition",
					"live data can reach a consumer that is still waiting for its key frame")
			}
		}
	}
	if nGate < 14 {
		r.Bad("C02.R2", "floor", "", "fewer than 14 gate sites found")
	}

	// ---------------------------------------------------------------- R3
	r.Rule("C02.R3", "every function of pkg/logic that inserts a session of a kind with ShouldWaitVideoKeyFrame into its set (RTSP: the play handler reached from OnNewRtspSubSessionPlay) releases the flag under stat.VideoCodec==\"\"")
	nJoin := 0
	for _, k := range kinds {
		if k.wait == nil || k.name == "ts-sub" {
			continue // httpts: boundary flag is raised by audio frames when no video header is cached (remuxer), reviewed exemption
		}
		var joinFns []*ssa.Function
		if k.name == "rtsp-sub" {
			joinFns = []*ssa.Function{p.Method("pkg/logic", "Group", "HandleNewRtspSubSessionPlay")}
		} else {
			for _, fn := range fns {
				ins := false
				model.EachInstr(fn, func(in ssa.Instruction) {
					if mu, ok := in.(*ssa.MapUpdate); ok && model.IsLoadOfField(mu.Map, k.setField) {
						ins = true
					}
				})
				if ins {
					joinFns = append(joinFns, fn)
				}
			}
		}
		for _, fn := range joinFns {
			nJoin++
			found := false
			for _, st := range model.FieldStores(fn, k.wait) {
				v, isc := model.ConstBool(st.Val)
				if !isc || v {
					continue
				}
				if model.GuardedBy(st, func(cond ssa.Value, pol bool) bool {
					b, ok := cond.(*ssa.BinOp)
					if !ok {
						return false
					}
					s, isS := model.ConstString(b.Y)
					fp, okp := loadPath(b.X)
					return isS && s == "" && okp && len(fp.Fields) == 2 && fp.Fields[1] == videoCodec && ((b.Op == token.EQL) == pol)
				}) {
					found = true
				}
			}
			r.Check(found, "C02.R3", fkey(fn, "no-video-release", k.name), p.Pos(fn.Pos()),
				"join function releases the wait flag when the stream has no video", "a consumer joining a stream without video is held back waiting for a key frame that never comes")
		}
	}
	if nJoin < 3 {
		r.Bad("C02.R3", "floor", "", "fewer than 3 join functions found")
	}

	// ---------------------------------------------------------------- R4
	r.Rule("C02.R4", "in remux.rtmp2MpegtsFilter every observer.onPop call is dominated by the true edge of q.done or by an observer.onPatPmt call; done is set only after onPatPmt")
	filterT := p.Named("pkg/remux", "rtmp2MpegtsFilter")
	obsIface := p.Named("pkg/remux", "iRtmp2MpegtsFilterObserver")
	onPop, _, _ := types.LookupFieldOrMethod(obsIface, true, obsIface.Obj().Pkg(), "onPop")
	onPatPmt, _, _ := types.LookupFieldOrMethod(obsIface, true, obsIface.Obj().Pkg(), "onPatPmt")
	doneF := p.Field("pkg/remux", "rtmp2MpegtsFilter", "done")
	nPop := 0
	for _, fn := range lalFuncsIn(p, "pkg/remux") {
		if fn.Signature.Recv() == nil {
			continue
		}
		rt := fn.Signature.Recv().Type()
		if pt, ok := rt.(*types.Pointer); ok {
			rt = pt.Elem()
		}
		if rt != types.Type(filterT) {
			continue
		}
		pats := model.CallsTo(fn, onPatPmt.(*types.Func))
		for _, ci := range model.CallsTo(fn, onPop.(*types.Func)) {
			nPop++
			ok := model.GuardedBy(ci, func(cond ssa.Value, pol bool) bool { return model.IsLoadOfField(cond, doneF) && pol })
			for _, pc := range pats {
				if model.InstrDominates(pc, ci) {
					ok = true
				}
			}
			r.Check(ok, "C02.R4", fkey(fn, "onPop", "observer.onPop"), p.InstrPos(ci), "onPop dominated by done==true or by onPatPmt", "a TS consumer can get media packets before PAT/PMT")
		}
		for _, st := range model.FieldStores(fn, doneF) {
			if v, isc := model.ConstBool(st.Val); isc && v {
				ok := false
				for _, pc := range pats {
					if model.InstrDominates(pc, st) {
						ok = true
					}
				}
				r.Check(ok, "C02.R4", fkey(fn, "done=true", "q.done"), p.InstrPos(st), "done=true dominated by onPatPmt", "the probe queue is marked done without PAT/PMT having been emitted")
			}
		}
	}
	if nPop < 2 {
		r.Bad("C02.R4", "floor", "", "fewer than 2 onPop sites found")
	}

	// ---------------------------------------------------------------- R5
	r.Rule("C02.R5", "the comparison between a GOP's length and singleGopMaxFrameNum that admits a frame in feedLastGop rejects when length == cap (both caches)")
	for _, tn := range []string{"GopCache", "GopCacheMpegts"} {
		fn := p.Method("pkg/remux", tn, "feedLastGop")
		capF := p.Field("pkg/remux", tn, "singleGopMaxFrameNum")
		gopT := "Gop"
		if tn == "GopCacheMpegts" {
			gopT = "GopMpegts"
		}
		feed := p.MethodObj("pkg/remux", gopT, "Feed")
		lenM := p.MethodObj("pkg/remux", gopT, "len")
		feeds := model.CallsTo(fn, feed)
		if len(feeds) == 0 {
			r.Bad("C02.R5", fkey(fn, "cap", "feed"), p.Pos(fn.Pos()), "no Gop.Feed call in feedLastGop")
			continue
		}
		found := false
		for _, b := range fn.Blocks {
			iff, ok := b.Instrs[len(b.Instrs)-1].(*ssa.If)
			if !ok {
				continue
			}
			cmp, ok := iff.Cond.(*ssa.BinOp)
			if !ok {
				continue
			}
			isLen := func(v ssa.Value) bool {
				if call, ok := v.(*ssa.Call); ok {
					if model.SameFunc(model.CalleeObj(call.Common()), lenM) {
						return true
					}
					if x, ok := lenOf(v); ok {
						_ = x
						return true
					}
				}
				return false
			}
			isCap := func(v ssa.Value) bool { return model.IsLoadOfField(v, capF) }
			op := cmp.Op
			switch {
			case isLen(cmp.X) && isCap(cmp.Y):
			case isCap(cmp.X) && isLen(cmp.Y):
				// cap OP len  ==  len OP' cap
				switch op {
				case token.LSS:
					op = token.GTR
				case token.LEQ:
					op = token.GEQ
				case token.GTR:
					op = token.LSS
				case token.GEQ:
					op = token.LEQ
				}
			default:
				continue
			}
			found = true
			// which edge admits (reaches Feed without going through the cap==0 'unlimited' edge)?
			for k := 0; k < 2; k++ {
				reach := model.PathQuery{FromBlock: b.Succs[k],
					StopEdge: func(bb *ssa.BasicBlock, kk int) bool {
						i2, ok := bb.Instrs[len(bb.Instrs)-1].(*ssa.If)
						if !ok {
							return false
						}
						c2, ok := i2.Cond.(*ssa.BinOp)
						if !ok || !isCap(c2.X) {
							return false
						}
						z, isz := model.ConstInt(c2.Y)
						return isz && z == 0 && ((c2.Op == token.EQL && kk == 0) || (c2.Op == token.NEQ && kk == 1))
					},
					Target: func(in ssa.Instruction) bool {
						ci, ok := in.(ssa.CallInstruction)
						return ok && model.SameFunc(model.CalleeObj(ci.Common()), feed)
					}}.Find(fn)
				if reach == nil {
					continue
				}
				// relation holding on this edge, as "len REL cap"
				admitsEq := false
				truth := k == 0
				switch op {
				case token.LSS:
					admitsEq = !truth // !(len<cap) = len>=cap
				case token.LEQ:
					admitsEq = truth
				case token.GTR:
					admitsEq = !truth // len<=cap
				case token.GEQ:
					admitsEq = truth
				case token.EQL:
					admitsEq = truth
				case token.NEQ:
					admitsEq = !truth
				}
				r.Check(!admitsEq, "C02.R5", fkey(fn, "cap", "len-vs-singleGopMaxFrameNum"), p.InstrPos(iff),
					"the admitting edge excludes len==cap: a GOP holds at most cap frames", "the admitting edge includes len==cap: a GOP is cut at cap+1 frames, not at the configured cap")
			}
		}
		if !found {
			r.Bad("C02.R5", fkey(fn, "cap", "len-vs-singleGopMaxFrameNum"), p.Pos(fn.Pos()), "no comparison of the GOP length with singleGopMaxFrameNum guards Gop.Feed: the per-GOP cap is not enforced")
		}
	}
	c02r67(p, r)
	w5HevcKey(p, r, "C02.R11")
	w7AacSeqHeaderCodec(p, r, "C02.R12")
	w7HevcCacheSets(p, r, "C02.R13")
	w8CacheResetWithRefill(p, r, "C02.R14")
	w9CacheConfigOfOwnProtocol(p, r, "C02.R15")
	c16r10(p, r, "C02.R8")
	c02r9(p, r)
	c02r10(p, r)
}
