package rules

import (
	"strings"

	"golang.org/x/tools/go/ssa"

	"lalverif/internal/model"
	"lalverif/internal/report"
)

// c05Count: a loop whose trip count is a number read from the payload must consume payload on
// every iteration and leave on a read error, so that the payload length bounds the iterations.
func c05Count(p *model.Prog, r *report.Result) {
	r.Rule("C05.COUNT", "in the codec parameter-set parsers (pkg/avc, pkg/hevc, pkg/aac) every loop whose bound depends on a value read with a nazabits.BitReader (a count chosen by the publisher, up to 2^32) performs a BitReader read on every iteration whose error leaves the loop: the payload length, not the announced count, bounds the iterations")
	isRead := func(ci ssa.CallInstruction) bool {
		o := model.CalleeObj(ci.Common())
		if o == nil || o.Pkg() == nil || !strings.HasSuffix(o.Pkg().Path(), "naza/pkg/nazabits") || !strings.HasPrefix(o.Name(), "Read") {
			return false
		}
		return recvTypeName(o) == "BitReader"
	}
	fromRead := func(v ssa.Value) bool {
		return model.DependsOn(v, func(x ssa.Value) bool {
			ex, ok := x.(*ssa.Extract)
			if !ok {
				return false
			}
			c, ok := ex.Tuple.(*ssa.Call)
			return ok && isRead(c)
		})
	}
	n := 0
	for _, fn := range lalFuncsIn(p, "pkg/avc", "pkg/hevc", "pkg/aac") {
		for _, l := range model.Loops(fn) {
			counted := false
			for b := range l.Body {
				iff, ok := b.Instrs[len(b.Instrs)-1].(*ssa.If)
				if !ok {
					continue
				}
				leaves := !l.Body[b.Succs[0]] || !l.Body[b.Succs[1]]
				if cmp, isCmp := iff.Cond.(*ssa.BinOp); leaves && isCmp && (fromRead(cmp.X) || fromRead(cmp.Y)) {
					if _, isErrTest := cmp.X.Type().Underlying().(interface{ NumMethods() int }); !isErrTest {
						counted = true
					}
				}
			}
			if !counted {
				continue
			}
			n++
			bad := ""
			// a path through one iteration without a read
			for _, s := range l.Header.Succs {
				if !l.Body[s] || s == l.Header {
					continue
				}
				if (model.PathQuery{FromBlock: s, Stop: func(in ssa.Instruction) bool {
					ci, ok := in.(ssa.CallInstruction)
					return ok && isRead(ci)
				}, Target: func(in ssa.Instruction) bool { return in.Block() == l.Header }}).Find(fn) != nil {
					bad = "an iteration can complete without reading from the payload"
				}
			}
			// at least one read in the body whose error edge leaves the loop
			exits := false
			for b := range l.Body {
				for _, in := range b.Instrs {
					call, ok := in.(*ssa.Call)
					if !ok || !isRead(call) {
						continue
					}
					for _, e := range errNonNilEdges(call) {
						if (model.PathQuery{FromBlock: e, Target: func(in ssa.Instruction) bool { return in.Block() == l.Header }}).Find(fn) == nil {
							exits = true
						}
					}
				}
			}
			if bad == "" && !exits {
				bad = "no read error inside the loop leaves it"
			}
			r.Check(bad == "", "C05.COUNT", fkey(fn, "count-loop", "consumes-input"), p.Pos(l.Header.Instrs[0].Pos()), "every iteration reads from the payload and a read error leaves the loop", "the loop runs a publisher-chosen number of times (up to 2^32) but "+bad+": a 33-byte sequence header keeps the group's lock for seconds to minutes")
		}
	}
	r.Count("payload_counted_loops", n)
	if n < 1 {
		r.Bad("C05.COUNT", "floor", "", "no payload-counted loop found in the parameter-set parsers")
	}
}
