package rules

import (
	"fmt"
	"go/token"

	"golang.org/x/tools/go/ssa"

	"lalverif/internal/model"
	"lalverif/internal/po"
	"lalverif/internal/report"
)

// c12r45: size arithmetic of the FU packer as linear obligations, and the duplicate boundary
// of the re-order list.
func c12r45(p *model.Prog, r *report.Result) {
	r.Rule("C12.R4", "in RtpPackerPayloadAvcHevc.PackNal every fragment allocated holds at most maxSize bytes (the FU header included), and every copy into a fragment moves exactly the bytes that fit behind the header (len(dst) == len(src)): no payload byte is dropped or sent twice, and no packet exceeds the payload limit")
	pack := p.Method("pkg/rtprtcp", "RtpPackerPayloadAvcHevc", "PackNal")
	maxSize := pack.Params[2]
	extra := func(fn *ssa.Function, in ssa.Instruction, lin func(ssa.Value) po.Lin, seqLen func(ssa.Value) po.Lin) []po.ExtraOb {
		if fn != pack {
			return nil
		}
		switch x := in.(type) {
		case *ssa.MakeSlice:
			if !x.Block().Dominates(x.Block()) {
				return nil
			}
			// fragments are allocated inside the loop; the single-packet copy before it is bounded by its guard
			inLoop := false
			for _, l := range model.Loops(fn) {
				if l.Body[x.Block()] || l.Header.Dominates(x.Block()) {
					inLoop = true
				}
			}
			if !inLoop {
				return nil
			}
			return []po.ExtraOb{{Kind: "rtp-fragment-fits", Expr: "make(" + valueToken(x.Len) + ")", Goals: []po.Ineq{{L: lin(maxSize).Sub(lin(x.Len)), Why: "fragment length <= maxSize"}}}}
		case *ssa.Call:
			b, ok := x.Call.Value.(*ssa.Builtin)
			if !ok || b.Name() != "copy" {
				return nil
			}
			inLoop := false
			for _, l := range model.Loops(fn) {
				if l.Body[x.Block()] || l.Header.Dominates(x.Block()) {
					inLoop = true
				}
			}
			if !inLoop {
				return nil
			}
			d, s := seqLen(x.Call.Args[0]), seqLen(x.Call.Args[1])
			return []po.ExtraOb{{Kind: "rtp-copy-exact", Expr: "copy(" + valueToken(x.Call.Args[0]) + ")", Goals: []po.Ineq{{L: d.Sub(s), Why: "destination holds the source"}, {L: s.Sub(d), Why: "source fills the destination"}}}}
		}
		return nil
	}
	kinds := map[string]bool{"rtp-fragment-fits": true, "rtp-copy-exact": true}
	_, n := runPO(p, r, poConfig{rule: "C12.R4", roots: []*ssa.Function{pack}, filter: func(fn *ssa.Function) bool { return fn == pack }, kinds: kinds, extra: extra})
	if n < 4 {
		r.Bad("C12.R4", "floor", p.Pos(pack.Pos()), fmt.Sprintf("only %d size obligations generated for PackNal", n))
	}

	staleBoundary(p, r, "C12.R5")
}

// staleBoundary: RtpPacketList.IsStale puts a packet whose sequence number EQUALS the last
// delivered one in the stale class (a duplicate of the packet just consumed must not re-enter
// the list, where it can never become 'first sequential').
func staleBoundary(p *model.Prog, r *report.Result, rule string) {
	r.Rule(rule, "RtpPacketList.IsStale returns true when CompareSeq(seq, doneSeq) == 0: a duplicate of the packet just delivered is dropped, not queued")
	fn := p.Method("pkg/rtprtcp", "RtpPacketList", "IsStale")
	cmpSeq := p.FuncObj("pkg/rtprtcp", "CompareSeq")
	found := false
	model.EachInstr(fn, func(in ssa.Instruction) {
		x, k, op, right, ok := constCmp(valueOf(in))
		if !ok || k != 0 {
			return
		}
		c, isC := x.(*ssa.Call)
		if !isC || !model.SameFunc(model.CalleeObj(c.Common()), cmpSeq) {
			return
		}
		found = true
		// the comparison's value flows to the returned result: true at 0 means stale
		atZero := cmpAt(op, 0, k, right)
		atNeg := cmpAt(op, -1, k, right)
		atPos := cmpAt(op, 1, k, right)
		r.Check(atZero && atNeg && !atPos, rule, fkey(fn, "stale", "boundary"), p.InstrPos(in), "older-or-equal sequence numbers are stale", "IsStale does not treat seq == doneSeq (or an older one) as stale: a duplicate of the last delivered packet is inserted at the list head, never becomes sequential, and output stalls until the list is full; then the unit is delivered twice")
	})
	if !found {
		r.Bad(rule, fkey(fn, "stale", "floor"), p.Pos(fn.Pos()), "the comparison of CompareSeq(seq, doneSeq) with 0 was not found in IsStale")
	}
	_ = token.EQL
}
