package rules

import (
	"fmt"
	"go/types"

	"golang.org/x/tools/go/ssa"

	"lalverif/internal/model"
	"lalverif/internal/report"
)

// c02r9: a waiting subscriber stays marked as waiting until the merge writer was flushed.
func c02r9(p *model.Prog, r *report.Result) {
	r.Rule("C02.R9", "in Group.broadcastByRtmpMsg no call of rtmpMergeWriter.Flush() is reachable, within the same iteration of the subscriber loop, from a store ShouldWaitVideoKeyFrame = false: the flush hands the buffered frames of the previous GOP to every session that is not waiting, so the flag may be cleared only after it")
	fn := p.Method("pkg/logic", "Group", "broadcastByRtmpMsg")
	mw := p.Field("pkg/logic", "Group", "rtmpMergeWriter")
	n := 0
	model.EachInstr(fn, func(in ssa.Instruction) {
		st, ok := in.(*ssa.Store)
		if !ok {
			return
		}
		f := model.FieldOf(st.Addr)
		if f == nil || f.Name() != "ShouldWaitVideoKeyFrame" {
			return
		}
		if v, isK := model.ConstBool(st.Val); !isK || v {
			return
		}
		n++
		hdr := loopHeaderOf(fn, st.Block())
		isFlush := func(x ssa.Instruction) bool {
			c, isC := x.(ssa.CallInstruction)
			if !isC {
				return false
			}
			o := model.CalleeObj(c.Common())
			if o == nil || o.Name() != "Flush" || len(c.Common().Args) == 0 {
				return false
			}
			return model.IsLoadOfField(c.Common().Args[0], mw)
		}
		// after the store the flag is false: the true edge of a test of the flag is not taken
		flagTrueEdge := func(b *ssa.BasicBlock, k int) bool {
			iff, ok := b.Instrs[len(b.Instrs)-1].(*ssa.If)
			if !ok || k != 0 {
				return false
			}
			return model.LoadedField(iff.Cond) == f
		}
		// the flush skips sessions that are still fresh: a flush is only harmful once IsFresh was
		// cleared (or when the store is not inside the fresh-session branch at all)
		inFresh := model.GuardedBy(st, func(c ssa.Value, pol bool) bool {
			lf := model.LoadedField(c)
			return pol && lf != nil && lf.Name() == "IsFresh"
		})
		var starts []ssa.Instruction
		if !inFresh {
			starts = []ssa.Instruction{st}
		} else {
			model.EachInstr(fn, func(x ssa.Instruction) {
				s2, isS := x.(*ssa.Store)
				if !isS {
					return
				}
				f2 := model.FieldOf(s2.Addr)
				if f2 == nil || f2.Name() != "IsFresh" {
					return
				}
				if v, isK := model.ConstBool(s2.Val); isK && !v {
					if (model.PathQuery{From: st, LoopHeader: hdr, Target: func(y ssa.Instruction) bool { return y == x }}).Find(fn) != nil {
						starts = append(starts, x)
					}
				}
			})
		}
		var hit ssa.Instruction
		for _, from := range starts {
			if h := (model.PathQuery{From: from, LoopHeader: hdr, StopEdge: flagTrueEdge, Target: isFlush}).Find(fn); h != nil {
				hit = h
			}
		}
		r.Check(hit == nil, "C02.R9", fkey(fn, "release", "after-flush"), p.InstrPos(st), "flag cleared after the flush (or the session is still marked fresh when the flush runs)", "a subscriber's wait-for-key-frame flag is cleared before the merge writer is flushed: the flush delivers the buffered inter frames of the previous GOP to it, its first video frame is not a key frame")
	})
	if n < 2 {
		r.Bad("C02.R9", fkey(fn, "release", "floor"), p.Pos(fn.Pos()), fmt.Sprintf("only %d releases of ShouldWaitVideoKeyFrame found", n))
	}
}

// c16r11: shutdown disconnects the inputs before the group forgets them.
func c16r11(p *model.Prog, r *report.Result) {
	r.Rule("C16.R11", "in Group.Dispose no load of a publisher/pull session field (rtmpPubSession, rtspPubSession, psPubSession, pullProxy sessions) that guards its Dispose() is reachable from the delIn() call: delIn() sets those fields to nil, a delIn() that runs first leaves the connections of the inputs open for ever")
	fn := p.Method("pkg/logic", "Group", "Dispose")
	delIn := p.MethodObj("pkg/logic", "Group", "delIn")
	calls := model.CallsTo(fn, delIn)
	if len(calls) != 1 {
		r.Bad("C16.R11", fkey(fn, "shutdown", "floor"), p.Pos(fn.Pos()), "expected one delIn() call in Group.Dispose")
		return
	}
	inputs := map[string]bool{"rtmpPubSession": true, "rtspPubSession": true, "psPubSession": true, "customizePubSession": true}
	nDisp := 0
	model.EachInstr(fn, func(in ssa.Instruction) {
		c, ok := in.(ssa.CallInstruction)
		if !ok {
			return
		}
		o := model.CalleeObj(c.Common())
		if o == nil || o.Name() != "Dispose" || len(c.Common().Args) == 0 {
			return
		}
		f := model.LoadedField(c.Common().Args[0])
		if f == nil || !inputs[f.Name()] {
			return
		}
		nDisp++
		after := model.PathQuery{From: calls[0], Target: func(x ssa.Instruction) bool { return x == in }}.Find(fn)
		r.Check(after == nil, "C16.R11", fkey(fn, "shutdown", "dispose-"+f.Name()), p.InstrPos(in), "input disposed before delIn()", "the input session's Dispose() runs after delIn() cleared the field: at server shutdown the publisher's connection (and its goroutine, UDP sockets) is never closed")
	})
	if nDisp < 3 {
		r.Bad("C16.R11", fkey(fn, "shutdown", "floor"), p.Pos(fn.Pos()), fmt.Sprintf("only %d input Dispose() calls found in Group.Dispose", nDisp))
	}
}

// c20r6: a session's connection is configured before the session is published to the group.
func c20r6(p *model.Prog, r *report.Result) {
	r.Rule("C20.R6", "in rtmp.ServerSession.doPublish / doPlay no path (helpers and closure / bound-method arguments inlined) reaches the observer call OnNewRtmpPubSession / OnNewRtmpSubSession without having passed modConnProps() (which switches the connection to its asynchronous write queue and sets time-outs with naza calls that are not safe for concurrent use): once the group knows the session, the fan-out goroutine writes to the connection concurrently")
	for _, pr := range [][2]string{{"doPublish", "OnNewRtmpPubSession"}, {"doPlay", "OnNewRtmpSubSession"}} {
		fn := p.Method("pkg/rtmp", "ServerSession", pr[0])
		ok, pos := connPropsBeforeObserver(p, pr[0], pr[1])
		r.Check(ok, "C20.R6", fkey(fn, "publish-to-group", "after-conn-setup"), pos, "connection configured first", "the session is handed to the group before modConnProps() ran (or the observer call / modConnProps is not found): the group's fan-out goroutine calls connection.Write while the session goroutine runs ModWriteChanSize / ModWriteTimeoutMs on the same connection (data race; and for that window the writes are synchronous under Group.mutex)")
	}
}

// c03r8: an RTSP connection carries one publisher or one subscriber.
func c03r8(p *model.Prog, r *report.Result) {
	r.Rule("C03.R8", "in rtsp.ServerCommandSession a new PubSession / SubSession is stored into the connection's pubSession / subSession field only behind tests that both fields are nil: a second ANNOUNCE (or DESCRIBE) on a connection cannot overwrite the session the group already holds - the connection's teardown reports exactly the sessions that were accepted")
	pubF := p.Field("pkg/rtsp", "ServerCommandSession", "pubSession")
	subF := p.Field("pkg/rtsp", "ServerCommandSession", "subSession")
	n := 0
	for _, fn := range lalFuncsIn(p, "pkg/rtsp") {
		if recvName(topFn(fn)) != "ServerCommandSession" {
			continue
		}
		for _, f := range []*types.Var{pubF, subF} {
			for _, st := range model.FieldStores(fn, f) {
				if model.IsNilConst(st.Val) {
					continue
				}
				n++
				nilEdge := func(ff *types.Var) bool {
					return model.GuardedBy(st, func(c ssa.Value, pol bool) bool {
						x, nonNil, ok := nilTestOf(c)
						return ok && model.LoadedField(x) == ff && nonNil != pol
					})
				}
				r.Check(nilEdge(pubF) && nilEdge(subF), "C03.R8", fkey(fn, "link", f.Name()), p.InstrPos(st), "stored only when the connection has no session yet", "a new session is linked to the connection without testing that it has none yet: a second ANNOUNCE overwrites the accepted publisher (refused as duplicate, the field ends up nil), the connection's teardown never reports the first one - the group keeps a dead input for ever, no pub_stop, every later publisher refused")
			}
		}
	}
	if n < 2 {
		r.Bad("C03.R8", "floor", "", fmt.Sprintf("only %d session links found in ServerCommandSession", n))
	}
}

// c03r9: a relay pull that was refused in its describe callback does not hand its SDP to the group.
func c03r9(p *model.Prog, r *report.Result) {
	r.Rule("C03.R9", "in rtsp.PullSession.OnDescribeResponse the call baseInSession.InitWithSdp (which delivers the SDP to the observer, i.e. the group) lies behind a test that depends on state PullSession.dispose() sets, evaluated after the onDescribeResponse() callback: the callback is where the group refuses and disposes a pull that was overtaken by a publisher, and a refused input must not overwrite the accepted input's SDP / re-initialise its remuxer")
	fn := p.Method("pkg/rtsp", "PullSession", "OnDescribeResponse")
	disp := p.Method("pkg/rtsp", "PullSession", "dispose")
	initSdp := p.MethodObj("pkg/rtsp", "BaseInSession", "InitWithSdp")
	// fields of PullSession whose address dispose() (or its closure) uses for a store / a Store() call
	set := map[*types.Var]bool{}
	for _, f := range model.WithAnons(disp) {
		model.EachInstr(f, func(in ssa.Instruction) {
			switch x := in.(type) {
			case *ssa.Store:
				if fv := model.FieldOf(x.Addr); fv != nil {
					set[fv] = true
				}
			case ssa.CallInstruction:
				o := model.CalleeObj(x.Common())
				if o != nil && o.Name() == "Store" && len(x.Common().Args) > 0 {
					if fv := model.FieldOf(x.Common().Args[0]); fv != nil {
						set[fv] = true
					}
				}
			}
		})
	}
	calls := model.CallsTo(fn, initSdp)
	if len(calls) != 1 {
		r.Bad("C03.R9", fkey(fn, "refused-pull", "floor"), p.Pos(fn.Pos()), "InitWithSdp call not found in OnDescribeResponse")
		return
	}
	guarded := model.GuardedBy(calls[0], func(c ssa.Value, pol bool) bool {
		return model.DependsOn(c, func(v ssa.Value) bool {
			fa, ok := v.(*ssa.FieldAddr)
			return ok && set[model.FieldOf(fa)]
		})
	})
	r.Check(guarded && len(set) > 0, "C03.R9", fkey(fn, "refused-pull", "sdp-not-delivered"), p.InstrPos(calls[0]), "SDP delivered only when the session was not disposed in the callback", "the SDP of a relay pull is delivered to the group although the describe callback may just have refused and disposed that pull (a publisher took the stream meanwhile): group.sdpCtx and the remuxer of the accepted input are overwritten with the refused input's description")
}

// c02r10: only video packets decide whether an RTSP subscriber's key-frame wait ends.
func c02r10(p *model.Prog, r *report.Result) {
	r.Rule("C02.R10", "in pkg/logic every call of rtprtcp.IsAvcBoundary / IsHevcBoundary lies behind the true edge of sdpCtx.IsVideoPayloadTypeOrigin(<the packet's payload type>): the bytes of an audio packet are not read as a NAL header (a G.711 sample 0x65 looks like an IDR slice and would release the wait for a key frame)")
	n := 0
	for _, fn := range lalFuncsIn(p, "pkg/logic") {
		for _, ci := range model.AllCalls(fn) {
			o := model.CalleeObj(ci.Common())
			if o == nil || (o.Name() != "IsAvcBoundary" && o.Name() != "IsHevcBoundary") {
				continue
			}
			n++
			ok := model.GuardedBy(ci, func(c ssa.Value, pol bool) bool {
				c, pol = model.StripNot(c, pol)
				call, isC := c.(*ssa.Call)
				if !isC || !pol {
					return false
				}
				co := model.CalleeObj(call.Common())
				return co != nil && co.Name() == "IsVideoPayloadTypeOrigin"
			})
			r.Check(ok, "C02.R10", fkey(fn, "boundary", "video-packets-only"), p.InstrPos(ci), "evaluated for video packets only", "the GOP-boundary test is applied to every RTP packet, audio included: an audio payload whose first byte reads as a key NAL type ends the subscriber's wait for a key frame, its first video frames are inter frames")
		}
	}
	if n < 2 {
		r.Bad("C02.R10", "floor", "", fmt.Sprintf("only %d boundary tests found in pkg/logic", n))
	}
}
