package rules

import (
	"fmt"

	"golang.org/x/tools/go/ssa"

	"lalverif/internal/model"
	"lalverif/internal/report"
)

// c02r9: a waiting subscriber stays marked as waiting until the merge writer was flushed.
func c02r9(p *model.Prog, r *report.Result) {
	r.Rule("C02.R9", "in Group.broadcastByRtmpMsg no call of rtmpMergeWriter.Flush() is reachable, within the same iteration of the subscriber loop, from a store ShouldWaitVideoKeyFrame = false: the flush hands the buffered frames of the previous GOP to every session that is not waiting, so the flag may be cleared only after it")
	fn := p.Method("pkg/logic", "Group", "broadcastByRtmpMsg")
	mw := p.Field("pkg/logic", "Group", "rtmpMergeWriter")
	n := 0
	model.EachInstr(fn, func(in ssa.Instruction) {
		st, ok := in.(*ssa.Store)
		if !ok {
			return
		}
		f := model.FieldOf(st.Addr)
		if f == nil || f.Name() != "ShouldWaitVideoKeyFrame" {
			return
		}
		if v, isK := model.ConstBool(st.Val); !isK || v {
			return
		}
		n++
		hdr := loopHeaderOf(fn, st.Block())
		isFlush := func(x ssa.Instruction) bool {
			c, isC := x.(ssa.CallInstruction)
			if !isC {
				return false
			}
			o := model.CalleeObj(c.Common())
			if o == nil || o.Name() != "Flush" || len(c.Common().Args) == 0 {
				return false
			}
			return model.IsLoadOfField(c.Common().Args[0], mw)
		}
		// after the store the flag is false: the true edge of a test of the flag is not taken
		flagTrueEdge := func(b *ssa.BasicBlock, k int) bool {
			iff, ok := b.Instrs[len(b.Instrs)-1].(*ssa.If)
			if !ok || k != 0 {
				return false
			}
			return model.LoadedField(iff.Cond) == f
		}
		// the flush skips sessions that are still fresh: a flush is only harmful once IsFresh was
		// cleared (or when the store is not inside the fresh-session branch at all)
		inFresh := model.GuardedBy(st, func(c ssa.Value, pol bool) bool {
			lf := model.LoadedField(c)
			return pol && lf != nil && lf.Name() == "IsFresh"
		})
		var starts []ssa.Instruction
		if !inFresh {
			starts = []ssa.Instruction{st}
		} else {
			model.EachInstr(fn, func(x ssa.Instruction) {
				s2, isS := x.(*ssa.Store)
				if !isS {
					return
				}
				f2 := model.FieldOf(s2.Addr)
				if f2 == nil || f2.Name() != "IsFresh" {
					return
				}
				if v, isK := model.ConstBool(s2.Val); isK && !v {
					if (model.PathQuery{From: st, LoopHeader: hdr, Target: func(y ssa.Instruction) bool { return y == x }}).Find(fn) != nil {
						starts = append(starts, x)
					}
				}
			})
		}
		var hit ssa.Instruction
		for _, from := range starts {
			if h := (model.PathQuery{From: from, LoopHeader: hdr, StopEdge: flagTrueEdge, Target: isFlush}).Find(fn); h != nil {
				hit = h
			}
		}
		r.Check(hit == nil, "C02.R9", fkey(fn, "release", "after-flush"), p.InstrPos(st), "flag cleared after the flush (or the session is still marked fresh when the flush runs)", "a subscriber's wait-for-key-frame flag is cleared before the merge writer is flushed: the flush delivers the buffered inter frames of the previous GOP to it, its first video frame is not a key frame")
	})
	if n < 2 {
		r.Bad("C02.R9", fkey(fn, "release", "floor"), p.Pos(fn.Pos()), fmt.Sprintf("only %d releases of ShouldWaitVideoKeyFrame found", n))
	}
}

// c16r11: shutdown disconnects the inputs before the group forgets them.
func c16r11(p *model.Prog, r *report.Result) {
	r.Rule("C16.R11", "in Group.Dispose no load of a publisher/pull session field (rtmpPubSession, rtspPubSession, psPubSession, pullProxy sessions) that guards its Dispose() is reachable from the delIn() call: delIn() sets those fields to nil, a delIn() that runs first leaves the connections of the inputs open for ever")
	fn := p.Method("pkg/logic", "Group", "Dispose")
	delIn := p.MethodObj("pkg/logic", "Group", "delIn")
	calls := model.CallsTo(fn, delIn)
	if len(calls) != 1 {
		r.Bad("C16.R11", fkey(fn, "shutdown", "floor"), p.Pos(fn.Pos()), "expected one delIn() call in Group.Dispose")
		return
	}
	inputs := map[string]bool{"rtmpPubSession": true, "rtspPubSession": true, "psPubSession": true, "customizePubSession": true}
	nDisp := 0
	model.EachInstr(fn, func(in ssa.Instruction) {
		c, ok := in.(ssa.CallInstruction)
		if !ok {
			return
		}
		o := model.CalleeObj(c.Common())
		if o == nil || o.Name() != "Dispose" || len(c.Common().Args) == 0 {
			return
		}
		f := model.LoadedField(c.Common().Args[0])
		if f == nil || !inputs[f.Name()] {
			return
		}
		nDisp++
		after := model.PathQuery{From: calls[0], Target: func(x ssa.Instruction) bool { return x == in }}.Find(fn)
		r.Check(after == nil, "C16.R11", fkey(fn, "shutdown", "dispose-"+f.Name()), p.InstrPos(in), "input disposed before delIn()", "the input session's Dispose() runs after delIn() cleared the field: at server shutdown the publisher's connection (and its goroutine, UDP sockets) is never closed")
	})
	if nDisp < 3 {
		r.Bad("C16.R11", fkey(fn, "shutdown", "floor"), p.Pos(fn.Pos()), fmt.Sprintf("only %d input Dispose() calls found in Group.Dispose", nDisp))
	}
}

// c20r6: a session's connection is configured before the session is published to the group.
func c20r6(p *model.Prog, r *report.Result) {
	r.Rule("C20.R6", "in rtmp.ServerSession.doPublish / doPlay the call modConnProps() (which switches the connection to its asynchronous write queue and sets time-outs with naza calls that are not safe for concurrent use) dominates the observer call OnNewRtmpPubSession / OnNewRtmpSubSession: once the group knows the session, the fan-out goroutine writes to the connection concurrently")
	mod := p.MethodObj("pkg/rtmp", "ServerSession", "modConnProps")
	for _, name := range []string{"doPublish", "doPlay"} {
		fn := p.Method("pkg/rtmp", "ServerSession", name)
		mods := model.CallsTo(fn, mod)
		var obs []ssa.CallInstruction
		for _, ci := range model.AllCalls(fn) {
			if ci.Common().IsInvoke() && (ci.Common().Method.Name() == "OnNewRtmpPubSession" || ci.Common().Method.Name() == "OnNewRtmpSubSession") {
				obs = append(obs, ci)
			}
		}
		if len(obs) == 0 || len(mods) == 0 {
			r.Bad("C20.R6", fkey(fn, "publish-to-group", "floor"), p.Pos(fn.Pos()), "modConnProps / observer call not found")
			continue
		}
		for _, o := range obs {
			dom := false
			for _, m := range mods {
				if model.InstrDominates(m, o) {
					dom = true
				}
			}
			r.Check(dom, "C20.R6", fkey(fn, "publish-to-group", "after-conn-setup"), p.InstrPos(o), "connection configured first", "the session is handed to the group before modConnProps() ran: the group's fan-out goroutine calls connection.Write while the session goroutine runs ModWriteChanSize / ModWriteTimeoutMs on the same connection (data race; and for that window the writes are synchronous under Group.mutex)")
		}
	}
}
