package rules

import (
	"fmt"
	"go/constant"
	"go/token"
	"go/types"
	"strings"

	"golang.org/x/tools/go/ssa"

	"lalverif/internal/model"
	"lalverif/internal/report"
)

// Rules added after the seventh round of seeded changes (suffix M/N).

// propScopeFns: lal functions declared in the files a property is anchored in.
func propScopeFns(p *model.Prog, prop string) []*ssa.Function {
	var out []*ssa.Function
	for _, fn := range p.LalFuncs() {
		if inFiles(p, fn, propAnchorFiles[prop]) {
			out = append(out, fn)
		}
	}
	return out
}

// w7DeadLocal: a local copy that is rewritten is also the value that is used.
func w7DeadLocal(p *model.Prog, r *report.Result, prop string) {
	rule := prop + ".UNUSED"
	r.Rule(rule, "in the files this property is anchored in: a local struct variable (not escaping) that starts as a copy of another value and then gets a field replaced - a clone whose payload is rewritten, a header whose length is patched - has that field (or the whole variable) read afterwards; a local that is only written means the rewritten value was computed and then the original handed on in its place (the slip 'wrong variable of the same type' in its second form)")
	n := 0
	for _, fn := range propScopeFns(p, prop) {
		model.EachInstr(fn, func(in ssa.Instruction) {
			al, ok := in.(*ssa.Alloc)
			if !ok || al.Heap || al.Referrers() == nil {
				return
			}
			if _, isS := al.Type().Underlying().(*types.Pointer).Elem().Underlying().(*types.Struct); !isS {
				return
			}
			// reads of the local: whole loads, field loads, and any use that lets the address out
			reads := map[ssa.Instruction]*types.Var{} // instruction -> field read (nil = whole / escape)
			var stores []*ssa.Store
			copied := false
			for _, ref := range *al.Referrers() {
				switch x := ref.(type) {
				case *ssa.Store:
					if x.Addr != ssa.Value(al) {
						reads[x] = nil
					} else {
						copied = true // the local starts as a copy of another value (a clone, a header taken over)
					}
				case *ssa.FieldAddr:
					if x.Referrers() == nil {
						continue
					}
					for _, r2 := range *x.Referrers() {
						if st, isSt := r2.(*ssa.Store); isSt && st.Addr == ssa.Value(x) {
							stores = append(stores, st)
						} else if _, isDbg := r2.(*ssa.DebugRef); !isDbg {
							reads[r2] = model.FieldOf(x)
							if _, isLd := r2.(*ssa.UnOp); !isLd {
								reads[r2] = nil // the field's address is passed on
							}
						}
					}
				case *ssa.DebugRef:
				default:
					reads[ref] = nil
				}
			}
			if !copied {
				return // a struct filled field by field (a decoded wire header): unused fields are normal
			}
			for _, st := range stores {
				f := model.FieldOf(st.Addr)
				n++
				later := model.PathQuery{From: st, Target: func(x ssa.Instruction) bool {
					rf, isRead := reads[x]
					return isRead && (rf == nil || rf == f)
				}}.Find(fn)
				if later == nil {
					r.Bad(rule, fkey(fn, "written-never-read", al.Comment+"."+f.Name()), p.InstrPos(st), "the value stored into "+al.Comment+"."+f.Name()+" is never read afterwards: what was built in the local copy is dropped and something else (the original it was cloned from) is used in its place")
				}
			}
		})
	}
	r.Check(true, rule, "unused|scanned", "", fmt.Sprintf("%d field stores into local structs, each read afterwards", n), "")
}

// w7NilOnErr: a pointer that comes with an error is not used where the error is set.
func w7NilOnErr(p *model.Prog, r *report.Result, prop string) {
	rule := prop + ".NILERR"
	r.Rule(rule, "in the files this property is anchored in: where a call returns (pointer, error) and the function tests the error, the pointer is dereferenced (field access, method call on it) only where the err == nil edge of that test dominates: an error path that logs and forgets to return does not fall through into a nil dereference (lal's constructors return nil with every error; nothing recovers a panic)")
	n := 0
	for _, fn := range propScopeFns(p, prop) {
		model.EachInstr(fn, func(in ssa.Instruction) {
			call, ok := in.(*ssa.Call)
			if !ok || call.Referrers() == nil {
				return
			}
			tup, isT := call.Type().(*types.Tuple)
			if !isT || tup.Len() != 2 || !isErrorType(tup.At(1).Type()) {
				return
			}
			if _, isPtr := tup.At(0).Type().Underlying().(*types.Pointer); !isPtr {
				return
			}
			// only callees of lal / naza whose error returns carry a nil pointer
			ce := call.Call.StaticCallee()
			if ce == nil || !(model.IsLal(ce) || model.IsNaza(ce)) || !nilWithError(ce) {
				return
			}
			var ptr, errv *ssa.Extract
			for _, ref := range *call.Referrers() {
				if ex, isE := ref.(*ssa.Extract); isE {
					if ex.Index == 0 {
						ptr = ex
					} else {
						errv = ex
					}
				}
			}
			if ptr == nil || errv == nil || ptr.Referrers() == nil || errv.Referrers() == nil {
				return
			}
			tested := false
			for _, ref := range *errv.Referrers() {
				if bo, isB := ref.(*ssa.BinOp); isB && (bo.Op == token.NEQ || bo.Op == token.EQL) {
					tested = true
				}
			}
			if !tested {
				return
			}
			for _, ref := range *ptr.Referrers() {
				deref := false
				switch x := ref.(type) {
				case *ssa.FieldAddr:
					deref = x.X == ssa.Value(ptr)
				case *ssa.UnOp:
					deref = x.Op == token.MUL
				case ssa.CallInstruction:
					c := x.Common()
					if !c.IsInvoke() && len(c.Args) > 0 && c.Args[0] == ssa.Value(ptr) {
						if sc := c.StaticCallee(); sc != nil && sc.Signature.Recv() != nil {
							deref = true
						}
					}
				}
				if !deref {
					continue
				}
				n++
				okEdge := model.GuardedBy(ref, func(c ssa.Value, pol bool) bool {
					x, nonNilOnTrue, isT := nilTestOf(c)
					return isT && x == ssa.Value(errv) && nonNilOnTrue != pol
				})
				r.Check(okEdge, rule, fkey(fn, "use-after-error", ce.Name()), p.InstrPos(ref), "used only where err == nil", "the pointer returned by "+ce.Name()+"() is used on a path on which its error is set (the error branch does not leave the function): "+ce.Name()+" returns nil with every error, so malformed input that makes it fail ends in a nil dereference and the process dies")
			}
		})
	}
	r.Check(true, rule, "nilerr|scanned", "", fmt.Sprintf("%d uses of (pointer, error) results", n), "")
}

func isErrorType(t types.Type) bool {
	return types.Identical(t, types.Universe.Lookup("error").Type())
}

// nilWithError: every return of fn that carries a non-nil error constant-folds its first result to nil
// (or: every return whose first result is not nil carries a nil error).
func nilWithError(fn *ssa.Function) bool {
	rets := model.ReturnsOf(fn)
	if len(rets) == 0 {
		return false
	}
	some := false
	for _, ret := range rets {
		rv := model.ReturnValues(ret)
		if len(rv) != 2 {
			return false
		}
		if model.IsNilConst(rv[1]) {
			continue // success return
		}
		if !model.IsNilConst(rv[0]) {
			return false
		}
		some = true
	}
	return some
}

var _ = strings.Contains

// w7AacSeqHeaderCodec: only an AAC message can be an AAC sequence header.
func w7AacSeqHeaderCodec(p *model.Prog, r *report.Result, rule string) {
	r.Rule(rule, "base.RtmpMsg.IsAacSeqHeader returns false on every path when AudioCodecId() is G.711A (7), G.711U (8) or Opus (13) (path enumeration with the codec id fixed): an audio frame of another codec whose second byte happens to be 0 is not stored as the stream's AAC sequence header, is not taken out of the GOP, and is not replayed as a header to joiners")
	fn := p.Method("pkg/base", "RtmpMsg", "IsAacSeqHeader")
	codec := p.MethodObj("pkg/base", "RtmpMsg", "AudioCodecId")
	for _, id := range []int64{7, 8, 13} {
		id0 := id
		used := false
		ev := &cEval{fn: fn, maxVisits: 3, maxPaths: 512}
		ev.seed = func(v ssa.Value) (int64, bool) {
			if c, ok := v.(*ssa.Call); ok && model.SameFunc(model.CalleeObj(c.Common()), codec) {
				used = true
				return id0, true
			}
			return 0, false
		}
		ev.run()
		bad := ""
		nRet := 0
		for _, pa := range ev.paths {
			if pa.ret == nil {
				continue
			}
			rvs := model.ReturnValues(pa.ret)
			if len(rvs) != 1 {
				continue
			}
			nRet++
			if v, known := ev.val(pa.env, rvs[0]); !known || v != 0 {
				bad = p.InstrPos(pa.ret)
			}
		}
		pos := p.Pos(fn.Pos())
		if bad != "" {
			pos = bad
		}
		// a path that never asks for the codec may still answer true: then used stays false
		r.Check(ev.undecided == "" && bad == "" && nRet > 0 && used, rule, fkey(fn, "aac-seq-header", fmt.Sprintf("codec-%d", id)), pos, "not a sequence header", fmt.Sprintf("an audio message of codec id %d can be classified as an AAC sequence header (the codec is not asked, or not on every path): the frame is cached as 'the AAC header', missing from the GOP, and sent to every late joiner in the prologue", id))
	}
}

// w7HevcCacheSets: the TS parameter-set cache holds each of VPS, SPS, PPS once.
func w7HevcCacheSets(p *model.Prog, r *report.Result, rule string) {
	r.Rule(rule, "in remux.Rtmp2MpegtsRemuxer.feedVideo, where the Annex-B parameter-set cache spspps is rebuilt by a run of appends in one block, the appended slices other than package-level start codes are pairwise different values, and every local whose length the guards of that block test (len(x) != 0) is among them: an in-band VPS+SPS+PPS update caches VPS, SPS and PPS - not one of them twice and another never")
	fn := p.Method("pkg/remux", "Rtmp2MpegtsRemuxer", "feedVideo")
	f := p.Field("pkg/remux", "Rtmp2MpegtsRemuxer", "spspps")
	n := 0
	for _, b := range fn.Blocks {
		var srcs []ssa.Value
		var first ssa.Instruction
		for _, in := range b.Instrs {
			st, ok := in.(*ssa.Store)
			if !ok || model.FieldOf(st.Addr) != f {
				continue
			}
			c, isC := st.Val.(*ssa.Call)
			if !isC {
				continue
			}
			if bi, isB := c.Call.Value.(*ssa.Builtin); !isB || bi.Name() != "append" || len(c.Call.Args) != 2 {
				continue
			}
			src := c.Call.Args[1]
			if _, isG := loadOfGlobal(src); isG {
				continue
			}
			srcs = append(srcs, src)
			if first == nil {
				first = in
			}
		}
		if len(srcs) < 2 {
			continue
		}
		n++
		dup := false
		for i := range srcs {
			for j := i + 1; j < len(srcs); j++ {
				if srcs[i] == srcs[j] {
					dup = true
				}
			}
		}
		missing := ""
		for _, g := range model.Guards(b) {
			bo, isB := g.Cond.(*ssa.BinOp)
			if !isB || bo.Op != token.NEQ || !g.Polarity {
				continue
			}
			if k, isK := model.ConstInt(bo.Y); !isK || k != 0 {
				continue
			}
			lc, isL := bo.X.(*ssa.Call)
			if !isL {
				continue
			}
			if bi, isBi := lc.Call.Value.(*ssa.Builtin); !isBi || bi.Name() != "len" {
				continue
			}
			tested := lc.Call.Args[0]
			found := false
			for _, s := range srcs {
				if s == tested {
					found = true
				}
			}
			if !found {
				missing = tested.Name()
			}
		}
		r.Check(!dup && missing == "", rule, fkey(fn, "param-set-cache", "each-once"), p.InstrPos(first), fmt.Sprintf("%d different sets appended, all tested ones among them", len(srcs)), "the parameter-set cache is rebuilt with one set appended twice / a tested set ("+missing+") left out: after an in-band update every key frame in the TS output is preceded by the wrong sets (no VPS), a consumer joining there cannot decode")
	}
	// the same through a helper of the package that rebuilds the cache from its arguments
	// (s.update(vps, sps, pps), also variadic): the arguments take the place of the appended sets
	for _, ci := range model.AllCalls(fn) {
		ce := ci.Common().StaticCallee()
		if ce == nil || ce.Pkg != fn.Pkg || len(model.FieldStores(ce, f)) == 0 {
			continue
		}
		var srcs []ssa.Value
		for i, a := range ci.Common().Args {
			if i == 0 && ce.Signature.Recv() != nil {
				continue
			}
			if sl, isSl := a.(*ssa.Slice); isSl {
				if al, isAl := sl.X.(*ssa.Alloc); isAl && al.Referrers() != nil {
					for _, ref := range *al.Referrers() {
						if ia, isIa := ref.(*ssa.IndexAddr); isIa && ia.Referrers() != nil {
							for _, r2 := range *ia.Referrers() {
								if st, isSt := r2.(*ssa.Store); isSt && st.Addr == ssa.Value(ia) {
									srcs = append(srcs, st.Val)
								}
							}
						}
					}
					continue
				}
			}
			if _, isSlice := a.Type().Underlying().(*types.Slice); isSlice {
				srcs = append(srcs, a)
			}
		}
		if len(srcs) < 2 {
			continue
		}
		n++
		dup := false
		for i := range srcs {
			for j := i + 1; j < len(srcs); j++ {
				if srcs[i] == srcs[j] {
					dup = true
				}
			}
		}
		missing := ""
		for _, g := range model.Guards(ci.Block()) {
			bo, isB := g.Cond.(*ssa.BinOp)
			if !isB || bo.Op != token.NEQ || !g.Polarity {
				continue
			}
			if k, isK := model.ConstInt(bo.Y); !isK || k != 0 {
				continue
			}
			lc, isL := bo.X.(*ssa.Call)
			if !isL {
				continue
			}
			if bi, isBi := lc.Call.Value.(*ssa.Builtin); !isBi || bi.Name() != "len" {
				continue
			}
			found := false
			for _, sv := range srcs {
				if sv == lc.Call.Args[0] {
					found = true
				}
			}
			if !found {
				missing = lc.Call.Args[0].Name()
			}
		}
		r.Check(!dup && missing == "", rule, fkey(fn, "param-set-cache", "each-once-via-"+ce.Name()), p.InstrPos(ci), fmt.Sprintf("%d different sets handed to %s, all tested ones among them", len(srcs), ce.Name()), "the parameter-set cache is rebuilt from an argument list that names one set twice / leaves a tested set ("+missing+") out")
	}
	if n < 2 {
		r.Bad(rule, "floor", "", fmt.Sprintf("only %d rebuild sites of spspps found in feedVideo", n))
	}
}

// w7StatPubEveryCall: the publisher entry of the stat answer is rewritten by every call.
func w7StatPubEveryCall(p *model.Prog, r *report.Result, rule string) {
	r.Rule(rule, "logic.Group.GetStat stores stat.StatPub and stat.StatPull on every path to its return: group.stat persists between calls, so a branch that leaves StatPub untouched (no publisher of the listed kinds attached) would keep listing the publisher that has left")
	fn := p.Method("pkg/logic", "Group", "GetStat")
	for _, name := range []string{"StatPub", "StatPull"} {
		f := p.Field("pkg/base", "StatGroup", name)
		miss := model.PathQuery{
			Stop: func(in ssa.Instruction) bool {
				st, ok := in.(*ssa.Store)
				return ok && model.FieldOf(st.Addr) == f
			},
			Target: func(in ssa.Instruction) bool { _, ok := in.(*ssa.Return); return ok },
		}.Find(fn)
		pos := p.Pos(fn.Pos())
		if miss != nil {
			pos = p.InstrPos(miss)
		}
		r.Check(miss == nil && len(model.FieldStores(fn, f)) > 0, rule, fkey(fn, "stat", name+"-every-call"), pos, name+" rewritten on every path", "a path through GetStat returns without storing "+name+": the answer repeats what an earlier call put there - a publisher (or pull) that is no longer attached stays listed")
	}
}

// w7PeerChunkSizeDefault: a fresh reader cuts chunks at the protocol default.
func w7PeerChunkSizeDefault(p *model.Prog, r *report.Result, rule string) {
	r.Rule(rule, "rtmp.NewChunkComposer initialises peerChunkSize with the constant 128, the protocol's default chunk size: until the peer sends Set Chunk Size, a conforming encoder chunks at 128 (lal's own outgoing size LocalChunkSize is a different quantity)")
	fn := p.Func("pkg/rtmp", "NewChunkComposer")
	f := p.Field("pkg/rtmp", "ChunkComposer", "peerChunkSize")
	sts := model.FieldStores(fn, f)
	ok := len(sts) == 1
	pos := p.Pos(fn.Pos())
	if ok {
		k, isK := model.ConstInt(sts[0].Val)
		ok = isK && k == 128
		pos = p.InstrPos(sts[0])
	}
	r.Check(ok, rule, fkey(fn, "peer-chunk-size", "default-128"), pos, "128", "a new ChunkComposer does not start with the protocol default chunk size 128: messages longer than 128 bytes from a peer that has not (yet) sent Set Chunk Size are reassembled with the fmt-3 headers inside the payload")
}

// w7TsFileName: the segment file name carries the caller's values as they are.
func w7TsFileName(p *model.Prog, r *report.Result, rule string) {
	r.Rule(rule, "hls.DefaultPathStrategy.GetTsFileName formats its three parameters themselves (stream name, timestamp, index - each passed to Sprintf unmodified): the millisecond timestamp is what keeps the names of a re-published stream apart from the files of the earlier session that playlists still list")
	fn := p.Method("pkg/hls", "DefaultPathStrategy", "GetTsFileName")
	used := map[*ssa.Parameter]bool{}
	model.EachInstr(fn, func(in ssa.Instruction) {
		if mi, ok := in.(*ssa.MakeInterface); ok {
			if prm, isP := mi.X.(*ssa.Parameter); isP {
				used[prm] = true
			}
		}
	})
	ok := len(fn.Params) == 4
	miss := ""
	if ok {
		for _, prm := range fn.Params[1:] {
			if !used[prm] {
				ok = false
				miss = prm.Name()
			}
		}
	}
	r.Check(ok, rule, fkey(fn, "ts-name", "parameters-unmodified"), p.Pos(fn.Pos()), "all three parameters formatted as given", "the parameter "+miss+" does not reach the file name as it was given (it is scaled, truncated or left out): names repeat across sessions of one stream, a new session's Create truncates a segment that the earlier playlist and record.m3u8 still list")
}

// w7ReadAtLeastWhole: a fixed-size header is read whole.
func w7ReadAtLeastWhole(p *model.Prog, r *report.Result, rule string) {
	r.Rule(rule, "in pkg/httpflv, where a buffer made with a constant or package-variable size is filled whole by ReadAtLeast(buf, min), min is that same size: the 13 bytes of FLV header + PreviousTagSize0 (and each 11-byte tag header) are consumed completely however the peer's writes are segmented, so the tag boundaries that follow are where the reader expects them")
	n := 0
	for _, fn := range lalFuncsIn(p, "pkg/httpflv") {
		for _, ci := range model.AllCalls(fn) {
			name := ""
			if ci.Common().IsInvoke() {
				name = ci.Common().Method.Name()
			} else if o := model.CalleeObj(ci.Common()); o != nil {
				name = o.Name()
			}
			if name != "ReadAtLeast" {
				continue
			}
			args := ci.Common().Args
			if len(args) < 2 {
				continue
			}
			buf, min := args[len(args)-2], args[len(args)-1]
			// make([]byte, n): a MakeSlice, or for constant n a new [n]byte sliced whole
			var mkLen ssa.Value
			if mk, isMk := model.Unwrap(buf).(*ssa.MakeSlice); isMk {
				mkLen = mk.Len
			} else if sl, isSl := buf.(*ssa.Slice); isSl && sl.Low == nil {
				if al, isAl := sl.X.(*ssa.Alloc); isAl {
					if at, isArr := al.Type().Underlying().(*types.Pointer).Elem().Underlying().(*types.Array); isArr {
						if h, okH := model.ConstInt(sl.High); sl.High == nil || (okH && h == at.Len()) {
							mkLen = ssa.NewConst(constant.MakeInt64(at.Len()), types.Typ[types.Int])
						}
					}
				}
			}
			if mkLen == nil {
				continue
			}
			// sizes are constants or package-level variables (flvHeaderSize, TagHeaderSize)
			key := func(v ssa.Value) (string, bool) {
				if k, ok := model.ConstInt(v); ok {
					return fmt.Sprintf("%d", k), true
				}
				if g, ok := loadOfGlobal(model.Unwrap(v)); ok {
					return g.Name(), true
				}
				return "", false
			}
			size, okS := key(mkLen)
			m, okM := key(min)
			if !okS {
				continue
			}
			n++
			if !okM {
				m = "a computed value"
			}
			r.Check(size == m, rule, fkey(fn, "read-whole", "buffer-"+size), p.InstrPos(ci), "min = buffer size", "a buffer of "+size+" bytes is read with a minimum of "+m+": when the peer's bytes arrive split, the read returns early, the rest of the header is taken for the start of the next tag and every later tag is mis-framed")
		}
	}
	if n < 1 {
		r.Bad(rule, "floor", "", "no constant-size ReadAtLeast found in pkg/httpflv")
	}
}

// w7DoneSeqEveryUnit: every unpacked unit moves the done mark.
func w7DoneSeqEveryUnit(p *model.Prog, r *report.Result, rule string) {
	r.Rule(rule, "rtprtcp.RtpUnpackContainer.tryUnpackOne calls list.SetDoneSeq on every path on which the unpacker reported a unit (path enumeration with the flag fixed to true): the sequence number 0 is an ordinary value after wrap-around, not a 'nothing' marker - otherwise the unit ending at seq 0 leaves the done mark behind, later packets never count as in sequence, and a duplicate of it is inserted again")
	fn := p.Method("pkg/rtprtcp", "RtpUnpackContainer", "tryUnpackOne")
	set := p.MethodObj("pkg/rtprtcp", "RtpPacketList", "SetDoneSeq")
	used := false
	ev := &cEval{fn: fn, maxVisits: 3, maxPaths: 256}
	ev.seed = func(v ssa.Value) (int64, bool) {
		if ex, ok := v.(*ssa.Extract); ok && ex.Index == 0 {
			if c, isC := ex.Tuple.(*ssa.Call); isC && c.Call.IsInvoke() && c.Call.Method.Name() == "TryUnpackOne" {
				used = true
				return 1, true
			}
		}
		return 0, false
	}
	ev.event = func(in ssa.Instruction) string {
		if ci, ok := in.(ssa.CallInstruction); ok && model.SameFunc(model.CalleeObj(ci.Common()), set) {
			return "done"
		}
		return ""
	}
	ev.run()
	bad := ""
	nRet := 0
	for _, pa := range ev.paths {
		if pa.ret == nil {
			continue
		}
		nRet++
		if pa.counts["done"] < 1 {
			bad = p.InstrPos(pa.ret)
		}
	}
	pos := p.Pos(fn.Pos())
	if bad != "" {
		pos = bad
	}
	r.Check(ev.undecided == "" && bad == "" && nRet > 0 && used, rule, fkey(fn, "done-seq", "every-unpacked-unit"), pos, "SetDoneSeq on every unpacked unit", "a unit can be reported as unpacked without the done sequence number being advanced (a further condition on the sequence number): after the 16-bit wrap the unit ending at that number blocks every later packet until the list overflows")
}

// w7LastHasOutTs: the 'last consumer seen' time is refreshed by consumers.
func w7LastHasOutTs(p *model.Prog, r *report.Result, rule string) {
	r.Rule(rule, "logic.Group.tickPullModule stores pullProxy.lastHasOutTs only behind the true edge of hasSubSession() (or hasOutSession()): the auto-stop window of a relay pull counts from the moment the last consumer left - an attached pull (an input) must not keep it fresh, and a consumer must")
	fn := p.Method("pkg/logic", "Group", "tickPullModule")
	f := p.Field("pkg/logic", "pullProxy", "lastHasOutTs")
	has := []*types.Func{p.MethodObj("pkg/logic", "Group", "hasSubSession"), p.MethodObj("pkg/logic", "Group", "hasOutSession")}
	sts := model.FieldStores(fn, f)
	if len(sts) == 0 {
		r.Bad(rule, fkey(fn, "last-has-out", "floor"), p.Pos(fn.Pos()), "no store to lastHasOutTs in tickPullModule")
		return
	}
	for _, st := range sts {
		ok := model.GuardedBy(st, func(c ssa.Value, pol bool) bool {
			call, isC := c.(*ssa.Call)
			if !isC || !pol {
				return false
			}
			o := model.CalleeObj(call.Common())
			return model.SameFunc(o, has[0]) || model.SameFunc(o, has[1])
		})
		r.Check(ok, rule, fkey(fn, "last-has-out", "refreshed-by-consumers"), p.InstrPos(st), "behind hasSubSession()", "the time stamp of the last consumer is refreshed under another condition than 'a consumer is attached': with the pull itself attached and nobody watching it is never auto-stopped, and a window that should start when the last viewer leaves has already run out")
	}
}

// w7AscHexLength: any whole number of bytes is a valid config= value.
func w7AscHexLength(p *model.Prog, r *report.Result, rule string) {
	r.Rule(rule, "sdp.ParseAsc rejects a config= value by its length only through len < 4 and len % 2 != 0 (a hex string of whole bytes): an AudioSpecificConfig of 3, 5, 7 bytes, which sdp.Pack writes, is read back")
	fn := p.Func("pkg/sdp", "ParseAsc")
	n := 0
	model.EachInstr(fn, func(in ssa.Instruction) {
		bo, ok := in.(*ssa.BinOp)
		if !ok || bo.Op != token.REM {
			return
		}
		n++
		k, isK := model.ConstInt(bo.Y)
		r.Check(isK && k == 2, rule, fkey(fn, "config-length", "mod-2"), p.InstrPos(bo), "len % 2", "the config= hex string is tested for another divisibility than by 2: configs with an odd number of bytes are rejected, the audio track comes back without its AudioSpecificConfig and is not unpackable")
	})
	if n < 1 {
		r.Bad(rule, fkey(fn, "config-length", "floor"), p.Pos(fn.Pos()), "no length parity test found in ParseAsc")
	}
}

// w7WaitChanBuffered: a dispose that reports on a channel does not wait for a reader.
func w7WaitChanBuffered(p *model.Prog, r *report.Result, rule string) {
	r.Rule(rule, "every channel lal stores into the waitChan field of rtsp.BaseInSession, BaseOutSession, PullSession and PushSession, and into logic.Group.exitChan, is made with a constant capacity >= 1: dispose() sends its one result inside sync.Once and must return whether or not anybody receives - the server side of several session kinds has no reader, and Dispose is called under Group.mutex / ServerManager.mutex (kick, liveness sweep, shutdown)")
	n := 0
	wait := map[*types.Var]bool{}
	for _, t := range []string{"BaseInSession", "BaseOutSession", "PullSession", "PushSession"} {
		wait[p.Field("pkg/rtsp", t, "waitChan")] = true
	}
	wait[p.Field("pkg/logic", "Group", "exitChan")] = true // Group.Dispose sends on it; a second Dispose (shutdown, then the tick) must not block
	for _, fn := range p.LalFuncs() {
		model.EachInstr(fn, func(in ssa.Instruction) {
			st, ok := in.(*ssa.Store)
			if !ok {
				return
			}
			f := model.FieldOf(st.Addr)
			if f == nil || !wait[f] {
				return
			}
			mk, isMk := model.Unwrap(st.Val).(*ssa.MakeChan)
			if !isMk {
				return
			}
			n++
			k, isK := model.ConstInt(mk.Size)
			r.Check(isK && k >= 1, rule, fkey(fn, "wait-chan", "buffered"), p.InstrPos(st), "capacity >= 1", "the session's waitChan is unbuffered: dispose() blocks in its send until somebody receives; where nobody does (the server-side RTSP subscriber) a kick or the liveness sweep hangs holding the group and server locks")
		})
	}
	if n < 5 {
		r.Bad(rule, "floor", "", fmt.Sprintf("only %d waitChan / exitChan constructions found", n))
	}
}

// w7PtsFieldWidths: the 33-bit PES time stamp is assembled from 3 + 15 + 15 bits.
func w7PtsFieldWidths(p *model.Prog, r *report.Result, rule string, pkg string) {
	r.Rule(rule, pkg+".readPts assembles its result from parts of 3 bits shifted by 30, 15 bits shifted by 15 and 15 bits unshifted (widths bounded from the masks and shifts applied to the bytes): all 33 bits of a PES PTS/DTS are read, the time stamps do not jump back when the source clock passes 2^32 (13h15m)")
	fn := p.Func(pkg, "readPts")
	type term struct{ bits, shift int }
	var terms []term
	var collect func(v ssa.Value, d int)
	collect = func(v ssa.Value, d int) {
		v = stripIntConv(v)
		if bo, ok := v.(*ssa.BinOp); ok && d < 8 {
			switch bo.Op {
			case token.OR, token.ADD:
				collect(bo.X, d+1)
				collect(bo.Y, d+1)
				return
			case token.SHL:
				if k, isK := model.ConstInt(bo.Y); isK {
					terms = append(terms, term{maxBits(bo.X, 0), int(k)})
					return
				}
			}
		}
		if c, isC := v.(*ssa.Const); isC {
			if k, isK := model.ConstInt(c); isK && k == 0 {
				return
			}
		}
		terms = append(terms, term{maxBits(v, 0), 0})
	}
	for _, ret := range model.ReturnsOf(fn) {
		rv := model.ReturnValues(ret)
		if len(rv) == 2 {
			collect(rv[1], 0)
		}
	}
	want := map[term]bool{{3, 30}: false, {15, 15}: false, {15, 0}: false}
	extra := ""
	for _, t := range terms {
		if _, ok := want[t]; ok {
			want[t] = true
		} else {
			extra = fmt.Sprintf("%d bits << %d", t.bits, t.shift)
		}
	}
	ok := extra == ""
	for _, seen := range want {
		if !seen {
			ok = false
		}
	}
	r.Check(ok && len(terms) == 3, rule, fkey(fn, "pts", "3+15+15"), p.Pos(fn.Pos()), "3<<30 | 15<<15 | 15", "the PTS/DTS is not assembled from 3 + 15 + 15 bits ("+extra+"): a bit of the 33-bit time stamp is dropped")
}

// w7ParseAuPremise: the premise of the reviewed invariant on parseAu's header loop.
func w7ParseAuPremise(p *model.Prog, r *report.Result, rule string) {
	r.Rule(rule, "rtprtcp.parseAu (premise of the reviewed invariant on its reads b[pauh], b[pauh+1]): the number of AU headers the loop visits is L / 2 for the very value L of which the function has established 2 + L <= len(b) before the loop (the quotient of L itself - rounded down, nothing added), the header position starts at 2 and advances by 2: the last read is at 2*(L/2)+1 < 2+L <= len(b)")
	fn := p.Func("pkg/rtprtcp", "parseAu")
	loops := model.Loops(fn)
	if len(loops) != 1 {
		r.Bad(rule, fkey(fn, "au-headers", "floor"), p.Pos(fn.Pos()), fmt.Sprintf("%d loops in parseAu, expected the one header loop", len(loops)))
		return
	}
	l := loops[0]
	// loop test i < N
	var bound ssa.Value
	if len(l.Header.Instrs) > 0 {
		if iff, ok := l.Header.Instrs[len(l.Header.Instrs)-1].(*ssa.If); ok {
			if bo, isB := iff.Cond.(*ssa.BinOp); isB && bo.Op == token.LSS {
				bound = bo.Y
			}
		}
	}
	var L ssa.Value
	okQuo := false
	if q, ok := stripIntConv(bound).(*ssa.BinOp); bound != nil && ok && q.Op == token.QUO {
		if k, isK := model.ConstInt(q.Y); isK && k == 2 {
			L = stripIntConv(q.X)
			okQuo = true
		}
	}
	// the guard 2 + L <= len(b) (written as: if uint64(2+L) > uint64(len(b)) return) dominates the loop
	okGuard := false
	if okQuo {
		for _, g := range model.Guards(l.Header) {
			bo, isB := g.Cond.(*ssa.BinOp)
			if !isB {
				continue
			}
			var sum, ln ssa.Value
			switch {
			case bo.Op == token.GTR && !g.Polarity, bo.Op == token.LEQ && g.Polarity:
				sum, ln = stripIntConv(bo.X), stripIntConv(bo.Y)
			case bo.Op == token.LSS && !g.Polarity, bo.Op == token.GEQ && g.Polarity:
				sum, ln = stripIntConv(bo.Y), stripIntConv(bo.X)
			default:
				continue
			}
			add, isA := sum.(*ssa.BinOp)
			if !isA || add.Op != token.ADD {
				continue
			}
			lc, isL := ln.(*ssa.Call)
			if !isL {
				continue
			}
			if bi, isBi := lc.Call.Value.(*ssa.Builtin); !isBi || bi.Name() != "len" || lc.Call.Args[0] != ssa.Value(fn.Params[0]) {
				continue
			}
			kx, isKx := model.ConstInt(add.X)
			ky, isKy := model.ConstInt(add.Y)
			if (isKx && kx == 2 && stripIntConv(add.Y) == L) || (isKy && ky == 2 && stripIntConv(add.X) == L) {
				okGuard = true
			}
		}
	}
	r.Check(okQuo && okGuard, rule, fkey(fn, "au-headers", "count=L/2-of-the-guarded-L"), p.Pos(l.Header.Instrs[0].Pos()), "loop bound L/2, 2+L <= len(b) established", "the number of AU headers read is not the quotient L/2 of the length L for which 2+L <= len(b) was checked (rounded up, or taken from another value): one more header than the packet holds is read - b[len(b)] - and the RTP read goroutine panics")
	// header position: starts at 2, +2 per iteration
	okPos := false
	for _, in := range l.Header.Instrs {
		ph, ok := in.(*ssa.Phi)
		if !ok {
			break
		}
		start, step := int64(-1), int64(-1)
		for i, e := range ph.Edges {
			pred := ph.Block().Preds[i]
			if l.Body[pred] {
				if add, isA := e.(*ssa.BinOp); isA && add.Op == token.ADD && add.X == ssa.Value(ph) {
					step, _ = model.ConstInt(add.Y)
				}
			} else if k, isK := model.ConstInt(e); isK {
				start = k
			}
		}
		if start == 2 && step == 2 {
			okPos = true
		}
	}
	r.Check(okPos, rule, fkey(fn, "au-headers", "position-2-step-2"), p.Pos(l.Header.Instrs[0].Pos()), "header position 2, 4, 6, ...", "the AU header position does not start at 2 and advance by 2")
}
