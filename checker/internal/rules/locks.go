package rules

// Engine C: lock sets. Lock classes are sync.Mutex struct fields. For every in-scope function
// the analysis computes the set of classes held at entry on every call (must) and on some call
// (may), and from those the sets held at every instruction.

import (
	"go/types"
	"sort"
	"strings"

	"golang.org/x/tools/go/ssa"

	"lalverif/internal/model"
)

type lockSet struct {
	top bool // "all classes" (unreached / not yet constrained) — only used by the must analysis
	m   map[*types.Var]bool
}

func emptyLS() lockSet { return lockSet{m: map[*types.Var]bool{}} }
func topLS() lockSet   { return lockSet{top: true} }

func (a lockSet) clone() lockSet {
	if a.top {
		return topLS()
	}
	o := emptyLS()
	for k := range a.m {
		o.m[k] = true
	}
	return o
}

func (a lockSet) has(c *types.Var) bool { return a.top || a.m[c] }

func (a lockSet) equal(b lockSet) bool {
	if a.top != b.top {
		return false
	}
	if a.top {
		return true
	}
	if len(a.m) != len(b.m) {
		return false
	}
	for k := range a.m {
		if !b.m[k] {
			return false
		}
	}
	return true
}

func meetLS(a, b lockSet) lockSet { // intersection
	if a.top {
		return b.clone()
	}
	if b.top {
		return a.clone()
	}
	o := emptyLS()
	for k := range a.m {
		if b.m[k] {
			o.m[k] = true
		}
	}
	return o
}

func joinLS(a, b lockSet) lockSet { // union (may); top never occurs in the may analysis
	o := emptyLS()
	for k := range a.m {
		o.m[k] = true
	}
	for k := range b.m {
		o.m[k] = true
	}
	return o
}

func (a lockSet) String() string {
	if a.top {
		return "{*}"
	}
	var s []string
	for k := range a.m {
		s = append(s, lockClassName(k))
	}
	sort.Strings(s)
	return "{" + strings.Join(s, ",") + "}"
}

func lockClassName(c *types.Var) string {
	if b, ok := sharedBase[c]; ok {
		return lockClassName(b) + "(read)"
	}
	return c.Pkg().Name() + "." + ownerOf(c) + "." + c.Name()
}

// A read lock (RWMutex.RLock) is tracked as a separate pseudo-class: it orders like its base
// class but protects only reads.
var sharedOf = map[*types.Var]*types.Var{}
var sharedBase = map[*types.Var]*types.Var{}

func sharedClass(c *types.Var) *types.Var {
	if s, ok := sharedOf[c]; ok {
		return s
	}
	s := types.NewVar(c.Pos(), c.Pkg(), c.Name()+"#R", c.Type())
	sharedOf[c] = s
	sharedBase[s] = c
	return s
}

func baseClass(c *types.Var) *types.Var {
	if b, ok := sharedBase[c]; ok {
		return b
	}
	return c
}

var ownerCache = map[*types.Var]string{}

// ownerOf finds the named struct type declaring field c.
func ownerOf(c *types.Var) string {
	if s, ok := ownerCache[c]; ok {
		return s
	}
	res := "?"
	sc := c.Pkg().Scope()
	for _, n := range sc.Names() {
		if tn, ok := sc.Lookup(n).(*types.TypeName); ok {
			if st, ok := tn.Type().Underlying().(*types.Struct); ok {
				for i := 0; i < st.NumFields(); i++ {
					if st.Field(i) == c {
						res = n
					}
				}
			}
		}
	}
	ownerCache[c] = res
	return res
}

// lockOp classifies a call instruction: +1 lock, -1 unlock, 0 neither; class is the mutex field.
func lockOp(ci ssa.CallInstruction) (class *types.Var, op int) {
	c := ci.Common()
	f := c.StaticCallee()
	if f == nil || f.Pkg == nil || f.Pkg.Pkg.Path() != "sync" || len(c.Args) == 0 {
		return nil, 0
	}
	recv := f.Signature.Recv()
	if recv == nil {
		return nil, 0
	}
	rt := recv.Type().String()
	if rt != "*sync.Mutex" && rt != "*sync.RWMutex" {
		return nil, 0
	}
	shared := false
	switch f.Name() {
	case "Lock":
		op = 1
	case "RLock":
		op, shared = 1, true
	case "Unlock":
		op = -1
	case "RUnlock":
		op, shared = -1, true
	default:
		return nil, 0
	}
	fa, ok := c.Args[0].(*ssa.FieldAddr)
	if !ok {
		return nil, 0
	}
	cl := model.FieldOf(fa)
	if shared && cl != nil {
		cl = sharedClass(cl)
	}
	return cl, op
}

type lockAnalysis struct {
	p       *model.Prog
	must    bool
	fns     []*ssa.Function
	inScope map[*ssa.Function]bool
	entry   map[*ssa.Function]lockSet
	// at holds the lock set immediately before each call instruction and each field access
	at map[ssa.Instruction]lockSet
	// context refinements (locks_ctx.go)
	skipDyn map[*ssa.Function]bool
	ovSites map[ssa.CallInstruction][]*ssa.Function
}

func lockScope(f *ssa.Function) bool {
	if f == nil || len(f.Blocks) == 0 {
		return false
	}
	pk := model.FnPkg(f)
	if pk == nil {
		return false
	}
	if strings.HasSuffix(pk.Path(), "/innertest") {
		return false
	}
	return strings.HasPrefix(pk.Path(), model.LalPath+"/pkg/") || strings.HasPrefix(pk.Path(), model.NazaPath)
}

// runLockAnalysis computes entry sets to a fixpoint. must=true: intersection over call sites
// (greatest fixpoint from top); must=false: union (least fixpoint from empty).
func runLockAnalysis(p *model.Prog, must bool, ovs []cbOverride) *lockAnalysis {
	la := &lockAnalysis{p: p, must: must, inScope: map[*ssa.Function]bool{}, entry: map[*ssa.Function]lockSet{}, at: map[ssa.Instruction]lockSet{},
		skipDyn: map[*ssa.Function]bool{}, ovSites: map[ssa.CallInstruction][]*ssa.Function{}}
	for _, ov := range ovs {
		la.skipDyn[ov.target] = true
		for _, s := range ov.sites {
			la.ovSites[s] = append(la.ovSites[s], ov.target)
		}
	}
	for _, f := range p.AllFuncs() {
		if lockScope(f) {
			la.fns = append(la.fns, f)
			la.inScope[f] = true
		}
	}
	cg := p.CG()
	// initial entry sets
	for _, f := range la.fns {
		hasScopedCaller := false
		if n := cg.Nodes[f]; n != nil {
			for _, e := range n.In {
				if la.inScope[e.Caller.Func] {
					if _, isGo := e.Site.(*ssa.Go); !isGo {
						hasScopedCaller = true
					}
				}
			}
		}
		if must && (hasScopedCaller || la.skipDyn[f]) {
			la.entry[f] = topLS()
		} else {
			la.entry[f] = emptyLS()
		}
	}
	// iterate
	work := append([]*ssa.Function(nil), la.fns...)
	inWork := map[*ssa.Function]bool{}
	for _, f := range work {
		inWork[f] = true
	}
	for len(work) > 0 {
		f := work[0]
		work = work[1:]
		inWork[f] = false
		sites := la.analyse(f, false)
		n := cg.Nodes[f]
		if n == nil {
			continue
		}
		for site, targets := range la.ovSites {
			if site.Parent() != f {
				continue
			}
			st, ok := sites[site]
			if !ok {
				continue
			}
			for _, t := range targets {
				old := la.entry[t]
				var nw lockSet
				if must {
					nw = meetLS(old, st)
				} else {
					nw = joinLS(old, st)
				}
				if !nw.equal(old) {
					la.entry[t] = nw
					if !inWork[t] {
						inWork[t] = true
						work = append(work, t)
					}
				}
			}
		}
		for _, e := range n.Out {
			callee := e.Callee.Func
			if !la.inScope[callee] || e.Site == nil {
				continue
			}
			if la.skipDyn[callee] && e.Site.Common().StaticCallee() != callee {
				continue // replaced by the ownership refinement
			}
			var contrib lockSet
			if _, isGo := e.Site.(*ssa.Go); isGo {
				contrib = emptyLS()
			} else {
				st, ok := sites[e.Site]
				if !ok {
					continue
				}
				contrib = st
			}
			old := la.entry[callee]
			var nw lockSet
			if must {
				nw = meetLS(old, contrib)
				// callers outside the scope (std lib invoking a callback) contribute the empty set
			} else {
				nw = joinLS(old, contrib)
			}
			if !nw.equal(old) {
				la.entry[callee] = nw
				if !inWork[callee] {
					inWork[callee] = true
					work = append(work, callee)
				}
			}
		}
	}
	// out-of-scope callers: std library code calling back into lal (net/http handlers, sort
	// callbacks) holds none of our locks from its own frames; for the must analysis such an edge
	// forces the empty set unless the callback is a closure created and invoked under the lock in
	// the same goroutine — those are rare and handled by the table of reviewed callbacks.
	if must {
		for _, f := range la.fns {
			if n := cg.Nodes[f]; n != nil {
				for _, e := range n.In {
					if !la.inScope[e.Caller.Func] && e.Caller.Func != nil && len(e.Caller.Func.Blocks) > 0 {
						if la.skipDyn[f] && e.Site != nil && e.Site.Common().StaticCallee() != f {
							continue
						}
						if !la.entry[f].equal(emptyLS()) && !isSyncCallbackCarrier(e.Caller.Func) {
							la.entry[f] = emptyLS()
						}
					}
				}
			}
		}
		// one more propagation round after the correction
		changed := true
		for iter := 0; changed && iter < 20; iter++ {
			changed = false
			for _, f := range la.fns {
				sites := la.analyse(f, false)
				n := cg.Nodes[f]
				if n == nil {
					continue
				}
				for site, targets := range la.ovSites {
					if site.Parent() != f {
						continue
					}
					if st, ok := sites[site]; ok {
						for _, t := range targets {
							nw := meetLS(la.entry[t], st)
							if !nw.equal(la.entry[t]) {
								la.entry[t] = nw
								changed = true
							}
						}
					}
				}
				for _, e := range n.Out {
					callee := e.Callee.Func
					if !la.inScope[callee] || e.Site == nil {
						continue
					}
					if la.skipDyn[callee] && e.Site.Common().StaticCallee() != callee {
						continue
					}
					contrib := emptyLS()
					if _, isGo := e.Site.(*ssa.Go); !isGo {
						st, ok := sites[e.Site]
						if !ok {
							continue
						}
						contrib = st
					}
					nw := meetLS(la.entry[callee], contrib)
					if !nw.equal(la.entry[callee]) {
						la.entry[callee] = nw
						changed = true
					}
				}
			}
		}
	}
	// final pass: record per-instruction states
	for _, f := range la.fns {
		la.analyse(f, true)
	}
	return la
}

// isSyncCallbackCarrier: std functions that invoke a callback synchronously in the caller's
// goroutine (so the caller's locks are still held); the callback's entry set is then decided
// by its lal callers only.
func isSyncCallbackCarrier(f *ssa.Function) bool {
	pk := model.FnPkg(f)
	if pk == nil {
		return false
	}
	switch pk.Path() {
	case "sort", "strings", "bytes", "sync":
		return true // sort.Slice less funcs, strings.*Func, sync.Once.Do
	}
	return false
}

// analyse runs the intraprocedural dataflow of f from its entry set and returns the lock set
// before every call instruction; with record=true it also stores the set before every
// instruction of interest in la.at.
func (la *lockAnalysis) analyse(f *ssa.Function, record bool) map[ssa.CallInstruction]lockSet {
	in := map[*ssa.BasicBlock]lockSet{}
	out := map[*ssa.BasicBlock]lockSet{}
	for _, b := range f.Blocks {
		if la.must {
			in[b], out[b] = topLS(), topLS()
		} else {
			in[b], out[b] = emptyLS(), emptyLS()
		}
	}
	entry := la.entry[f]
	if entry.top {
		// unconstrained so far: analyse with top, contributions are top as well
	}
	sites := map[ssa.CallInstruction]lockSet{}
	transfer := func(b *ssa.BasicBlock, st lockSet, rec bool) lockSet {
		cur := st.clone()
		for _, ins := range b.Instrs {
			if rec && record {
				switch ins.(type) {
				case ssa.CallInstruction, *ssa.FieldAddr, *ssa.Field, *ssa.Send, *ssa.Select, *ssa.UnOp, *ssa.MapUpdate, *ssa.Lookup, *ssa.Range:
					la.at[ins] = cur.clone()
				}
			}
			ci, ok := ins.(ssa.CallInstruction)
			if !ok {
				continue
			}
			if rec {
				sites[ci] = cur.clone()
			}
			if _, isDefer := ins.(*ssa.Defer); isDefer {
				continue // a deferred Unlock keeps the lock until return
			}
			if _, isGo := ins.(*ssa.Go); isGo {
				continue
			}
			class, op := lockOp(ci)
			if class == nil || cur.top {
				continue
			}
			if op > 0 {
				cur.m[class] = true
			} else {
				delete(cur.m, class)
			}
		}
		return cur
	}
	changed := true
	for iter := 0; changed && iter < 200; iter++ {
		changed = false
		for i, b := range f.Blocks {
			var st lockSet
			if i == 0 {
				st = entry.clone()
			} else {
				first := true
				for _, pr := range b.Preds {
					if first {
						st = out[pr].clone()
						first = false
					} else if la.must {
						st = meetLS(st, out[pr])
					} else {
						st = joinLS(st, out[pr])
					}
				}
				if first {
					if la.must {
						st = topLS()
					} else {
						st = emptyLS()
					}
				}
			}
			o := transfer(b, st, false)
			if !st.equal(in[b]) || !o.equal(out[b]) {
				in[b], out[b] = st, o
				changed = true
			}
		}
	}
	for _, b := range f.Blocks {
		transfer(b, in[b], true)
	}
	return sites
}
