package rules

import (
	"fmt"
	"go/token"
	"go/types"
	"strings"

	"golang.org/x/tools/go/ssa"

	"lalverif/internal/model"
	"lalverif/internal/report"
)

// Rules written after the fifth wave of seeded changes (small slips in rarely exercised code).

// w5FeedAvSize: the premise of the reviewed assumption on FeedAvPacket's output buffer.
func w5FeedAvSize(p *model.Prog, r *report.Result, rule string) {
	r.Rule(rule, "AvPacket2RtmpRemuxer.FeedAvPacket sizes the message buffer as len(pkt.Payload) + (header, >= 5) + len(nals): every 3-byte Annex-B start code becomes a 4-byte length, one byte more per NAL unit than the input held (the premise of the reviewed invariant that the NAL loop stays inside the buffer)")
	fn := p.Method("pkg/remux", "AvPacket2RtmpRemuxer", "FeedAvPacket")
	payloadF := p.Field("pkg/base", "AvPacket", "Payload")
	n := 0
	model.EachInstr(fn, func(in ssa.Instruction) {
		ms, ok := in.(*ssa.MakeSlice)
		if !ok {
			return
		}
		if et, isS := ms.Type().Underlying().(*types.Slice); !isS || !types.Identical(et.Elem(), types.Typ[types.Uint8]) {
			return
		}
		terms, k := linTerms(ms.Len)
		if len(terms) == 0 {
			return
		}
		// the buffer the NAL loop writes 4-byte lengths into
		lengthsWritten := false
		for _, ref := range *ms.Referrers() {
			sl, isSl := ref.(*ssa.Slice)
			if !isSl || sl.Referrers() == nil {
				continue
			}
			for _, r2 := range *sl.Referrers() {
				if c, isC := r2.(ssa.CallInstruction); isC {
					if o := model.CalleeObj(c.Common()); o != nil && o.Name() == "BePutUint32" {
						lengthsWritten = true
					}
				}
			}
		}
		// or the buffer is handed to a same-package helper that writes the lengths
		for _, ref := range *ms.Referrers() {
			c, isC := ref.(ssa.CallInstruction)
			if !isC {
				continue
			}
			if ce := c.Common().StaticCallee(); ce != nil && ce.Blocks != nil && ce.Pkg == fn.Pkg {
				for _, hc := range model.AllCalls(ce) {
					if o := model.CalleeObj(hc.Common()); o != nil && o.Name() == "BePutUint32" {
						lengthsWritten = true
					}
				}
			}
		}
		if !lengthsWritten {
			return
		}
		hasPayload, hasCount := false, false
		for v, c := range terms {
			l, isLen := lenOf(v)
			if !isLen || c < 1 {
				continue
			}
			if f := model.LoadedField(l); f == payloadF || (f != nil && f.Name() == "Payload") {
				hasPayload = true
			} else if _, isSl := l.Type().Underlying().(*types.Slice); isSl {
				if st, isSS := l.Type().Underlying().(*types.Slice).Elem().Underlying().(*types.Slice); isSS && types.Identical(st.Elem(), types.Typ[types.Uint8]) {
					hasCount = true // len of a [][]byte: the NAL list
				}
			}
		}
		if !hasPayload {
			return
		}
		n++
		r.Check(hasCount && k >= 5, rule, fkey(fn, "buffer", "payload+header+count"), p.InstrPos(ms), "buffer = payload + header + one byte per NAL unit", "the message buffer is not sized len(pkt.Payload) + header + len(nals): an Annex-B access unit with 3-byte start codes (x264, many PS cameras) needs one byte more per NAL unit than it had; the NAL loop runs past the buffer and the publisher's goroutine panics")
	})
	if n < 1 {
		r.Bad(rule, "floor", "", "the message buffer allocation of FeedAvPacket was not found")
	}
}

// w5MetaErr: a metadata message that cannot be parsed is passed on as it is.
func w5MetaErr(p *model.Prog, r *report.Result, rule string) {
	r.Rule(rule, "rtmp.MetadataEnsureWithoutSdf / MetadataEnsureWithSdf return, on every path where reading the leading AMF0 string failed, bytes built from the input b (callers ignore the error and forward the first result): a malformed metadata message reaches the consumers unchanged instead of empty")
	readString := p.MethodObj("pkg/rtmp", "amf0", "ReadString")
	n := 0
	for _, name := range []string{"MetadataEnsureWithoutSdf", "MetadataEnsureWithSdf"} {
		fn := p.Func("pkg/rtmp", name)
		b := fn.Params[0]
		var reads []ssa.CallInstruction
		reads = append(reads, model.CallsTo(fn, readString)...)
		if len(reads) == 0 {
			// the read may sit in a same-package helper that returns its error
			for _, ci := range model.AllCalls(fn) {
				ce := ci.Common().StaticCallee()
				if ce == nil || ce.Blocks == nil || ce.Pkg != fn.Pkg || len(model.CallsTo(ce, readString)) == 0 {
					continue
				}
				passesB := false
				for _, a := range ci.Common().Args {
					if a == ssa.Value(b) {
						passesB = true
					}
				}
				if passesB && len(errValuesOf(ci.Value())) > 0 {
					reads = append(reads, ci)
				}
			}
		}
		for _, ci := range reads {
			call, ok := ci.(*ssa.Call)
			if !ok {
				continue
			}
			for _, e := range errNonNilEdges(call) {
				n++
				bad := model.PathQuery{FromBlock: e, Target: func(in ssa.Instruction) bool {
					ret, isRet := in.(*ssa.Return)
					if !isRet {
						return false
					}
					rvs := model.ReturnValues(ret)
					if len(rvs) < 1 {
						return true
					}
					return !model.DependsOn(rvs[0], func(v ssa.Value) bool {
						return v == ssa.Value(b) || (paramCell(v) != nil && paramCell(v) == paramCell(b))
					})
				}}.Find(fn)
				pos := p.InstrPos(ci)
				if bad != nil {
					pos = p.InstrPos(bad)
				}
				r.Check(bad == nil, rule, fkey(fn, "error-path", "input-handed-back"), pos, "the error path returns the input bytes", "when the leading string of a metadata message cannot be read the function returns something that is not built from its input (nil): the callers ignore the error, so the message goes out with an empty payload to every RTMP / FLV consumer and into the recording")
			}
		}
	}
	if n < 1 {
		r.Bad(rule, "floor", "", "no error edge of ReadString found in MetadataEnsure*")
	}
}

// w5HevcKey: every coded-frame packet type of an enhanced-RTMP key frame is a key NAL.
func w5HevcKey(p *model.Prog, r *report.Result, rule string) {
	r.Rule(rule, "base.RtmpMsg.IsHevcKeyNalu, for an enhanced-RTMP message (ex-header bit set) with frame type 'key' and packet type CodedFrames (1) or CodedFramesX (3), returns true on every path (path enumeration with the byte tests fixed): both forms open a GOP and release waiting subscribers")
	fn := p.Method("pkg/base", "RtmpMsg", "IsHevcKeyNalu")
	for _, pt := range []int64{1, 3} {
		pkt := pt
		used := false
		ev := &cEval{fn: fn, maxVisits: 3, maxPaths: 1024}
		ev.seed = func(v ssa.Value) (int64, bool) {
			bo, ok := model.Unwrap(v).(*ssa.BinOp)
			if !ok || bo.Op != token.AND {
				return 0, false
			}
			m, isK := model.ConstInt(bo.Y)
			if !isK {
				return 0, false
			}
			switch m {
			case 0x80: // ex-header flag
				return 0x80, true
			case 0x07: // frame type after >> 4
				used = true
				return 1, true
			case 0x70:
				used = true
				return 0x10, true
			case 0x0F: // packet type
				used = true
				return pkt, true
			}
			return 0, false
		}
		ev.run()
		bad := ""
		nRet := 0
		for _, pa := range ev.paths {
			if pa.ret == nil {
				continue
			}
			rvs := model.ReturnValues(pa.ret)
			if len(rvs) != 1 {
				continue
			}
			// paths that left through the length check are not this case
			if v, known := ev.val(pa.env, rvs[0]); known && v == 0 && !reachedTypeTest(pa) {
				continue
			}
			nRet++
			if v, known := ev.val(pa.env, rvs[0]); !known || v != 1 {
				bad = p.InstrPos(pa.ret)
			}
		}
		pos := p.Pos(fn.Pos())
		if bad != "" {
			pos = bad
		}
		r.Check(ev.undecided == "" && bad == "" && nRet > 0 && used, rule, fkey(fn, "enhanced-key", fmt.Sprintf("packet-type-%d", pt)), pos, "key frame recognised", fmt.Sprintf("an enhanced-RTMP HEVC key frame sent with packet type %d is not recognised as a key NAL: no new GOP is opened for it and a subscriber waiting for a key frame is never released", pt))
	}
}

// reachedTypeTest: the path evaluated the frame/packet type (some seeded AND is in its env).
func reachedTypeTest(pa cPath) bool {
	for v := range pa.env {
		if bo, ok := v.(*ssa.BinOp); ok && bo.Op == token.AND {
			if m, isK := model.ConstInt(bo.Y); isK && (m == 0x0F || m == 0x07 || m == 0x70) {
				return true
			}
		}
	}
	return false
}

// w5PackerMsgLen: a signalling message split into several chunks announces its body length.
func w5PackerMsgLen(p *model.Prog, r *report.Result, rule string) {
	r.Rule(rule, "in rtmp.MessagePacker.ChunkAndWrite the header handed to Message2Chunks has MsgLen = b.Len() - k where the body passed is b.Bytes()[k:] of the same buffer (k = the 12 reserved header bytes): the multi-chunk path announces exactly the bytes it sends")
	fn := p.Method("pkg/rtmp", "MessagePacker", "ChunkAndWrite")
	m2c := p.FuncObj("pkg/rtmp", "Message2Chunks")
	msgLen := p.Field("pkg/base", "RtmpHeader", "MsgLen")
	n := 0
	for _, ci := range model.CallsTo(fn, m2c) {
		n++
		ok := false
		why := "the body is not a tail slice of the packer's buffer"
		if sl, isSl := ci.Common().Args[0].(*ssa.Slice); isSl && sl.High == nil && sl.Low != nil {
			low, isK := model.ConstInt(sl.Low)
			bytesCall, isC := sl.X.(*ssa.Call)
			if isK && isC && model.CalleeObj(bytesCall.Common()) != nil && model.CalleeObj(bytesCall.Common()).Name() == "Bytes" {
				buf := receiver(bytesCall.Common())
				why = "no store MsgLen = Len() - reserved bytes dominates the call"
				for _, st := range model.FieldStores(fn, msgLen) {
					if !model.InstrDominates(st, ci) {
						continue
					}
					terms, k := linTerms(model.Unwrap(st.Val))
					if len(terms) != 1 {
						why = "MsgLen is not the buffer length minus a constant"
						continue
					}
					for v, c := range terms {
						lc, isLenCall := v.(*ssa.Call)
						if c == 1 && isLenCall && model.CalleeObj(lc.Common()) != nil && model.CalleeObj(lc.Common()).Name() == "Len" && sameLoad(receiver(lc.Common()), buf, 0) {
							if k == -low {
								ok = true
							} else {
								why = fmt.Sprintf("MsgLen = Len()%+d but the body starts at byte %d of the buffer", k, low)
							}
						}
					}
				}
			}
		}
		r.Check(ok, rule, fkey(fn, "multi-chunk", "MsgLen=body"), p.InstrPos(ci), "MsgLen is the length of the body sent", "the header of a signalling message that needs several chunks announces a length other than the body's ("+why+"): the reader takes the first bytes of the next message for the rest of this one and loses chunk synchronisation (publish / play / connect with a very long name or url)")
	}
	if n < 1 {
		r.Bad(rule, "floor", "", "the Message2Chunks call of ChunkAndWrite was not found")
	}
}

// w5CsidForms: the reader decodes the 2- and 3-byte chunk basic headers as the writer encodes them.
func w5CsidForms(p *model.Prog, r *report.Result, rule string) {
	r.Rule(rule, "ChunkComposer.RunLoop computes the chunk stream id of the 2-byte form as 64 + b0 and of the 3-byte form as 64 + b0 + 256*b1 (first byte low, second byte high - RTMP 5.3.1.1), the weights calcHeader writes them with")
	fn := p.Method("pkg/rtmp", "ChunkComposer", "RunLoop")
	found2, found3 := false, false
	bad := ""
	var pos ssa.Instruction
	// RunLoop and the same-package helpers it calls (the basic-header read may be factored out)
	for _, g := range model.StaticGroup(fn, 1) {
		model.EachInstr(g, func(in ssa.Instruction) {
			bo, ok := in.(*ssa.BinOp)
			if !ok || bo.Op != token.ADD {
				return
			}
			// only the outermost sum of a csid computation: its referrers are not ADDs
			for _, ref := range *bo.Referrers() {
				if rb, isB := ref.(*ssa.BinOp); isB && rb.Op == token.ADD {
					return
				}
			}
			terms, k := csidTerms(bo)
			if k != 64 || len(terms) == 0 {
				return
			}
			w := map[int64]int64{} // byte index -> weight
			for v, c := range terms {
				ld, isL := model.Unwrap(v).(*ssa.UnOp)
				if !isL {
					return
				}
				ia, isIA := ld.X.(*ssa.IndexAddr)
				if !isIA {
					return
				}
				idx, isK := model.ConstInt(ia.Index)
				if !isK {
					return
				}
				w[idx] += c
			}
			switch len(w) {
			case 1:
				if w[0] == 1 {
					found2 = true
				} else {
					bad, pos = "the 2-byte form is not 64 + b0", in
				}
			case 2:
				if w[0] == 1 && w[1] == 256 {
					found3 = true
				} else {
					bad, pos = fmt.Sprintf("the 3-byte form weighs its bytes %d and %d instead of 1 and 256", w[0], w[1]), in
				}
			}
		})
	}
	at := p.Pos(fn.Pos())
	if pos != nil {
		at = p.InstrPos(pos)
	}
	r.Check(bad == "" && found2 && found3, rule, fkey(fn, "csid", "reader-forms"), at, "2-byte form 64+b0, 3-byte form 64+b0+256*b1", "the reader decodes an extended chunk stream id differently from how it is written ("+bad+"): chunks of stream ids >= 320 are filed under another stream's state, headers and partial messages of different streams mix")
}

// csidTerms: like linTerms but with multiplication by a constant (b1*256).
func csidTerms(v ssa.Value) (map[ssa.Value]int64, int64) {
	terms := map[ssa.Value]int64{}
	var k int64
	var rec func(v ssa.Value, mul int64, d int)
	rec = func(v ssa.Value, mul int64, d int) {
		if c, ok := model.ConstInt(v); ok {
			k += mul * c
			return
		}
		if cv, ok := v.(*ssa.Convert); ok && d < 20 && isInteger(cv.X.Type()) {
			rec(cv.X, mul, d+1)
			return
		}
		if b, ok := v.(*ssa.BinOp); ok && d < 20 {
			switch b.Op {
			case token.ADD:
				rec(b.X, mul, d+1)
				rec(b.Y, mul, d+1)
				return
			case token.MUL:
				if c, isK := model.ConstInt(b.Y); isK {
					rec(b.X, mul*c, d+1)
					return
				}
				if c, isK := model.ConstInt(b.X); isK {
					rec(b.Y, mul*c, d+1)
					return
				}
			case token.SHL:
				if c, isK := model.ConstInt(b.Y); isK && c < 32 {
					rec(b.X, mul<<uint(c), d+1)
					return
				}
			}
		}
		terms[v] += mul
	}
	rec(v, 1, 0)
	return terms, k
}

// w5CacheKind: a joining consumer is replayed the cache that holds its own wire format.
func w5CacheKind(p *model.Prog, r *report.Result, rule string) {
	r.Rule(rule, "in Group.broadcastByRtmpMsg everything written to a consumer out of a GOP cache comes from the cache of that consumer's format: rtmp.ServerSession / rtmp.PushSession from Group.rtmpGopCache (RTMP chunks), httpflv.SubSession from Group.httpflvGopCache (FLV tags)")
	fn := p.Method("pkg/logic", "Group", "broadcastByRtmpMsg")
	rtmpC := p.Field("pkg/logic", "Group", "rtmpGopCache")
	flvC := p.Field("pkg/logic", "Group", "httpflvGopCache")
	n := 0
	for _, g := range model.WithAnons(fn) {
		for _, ci := range model.AllCalls(g) {
			o := model.CalleeObj(ci.Common())
			if o == nil || o.Name() != "Write" || len(ci.Common().Args) < 2 {
				continue
			}
			recv := receiver(ci.Common())
			if recv == nil {
				continue
			}
			var want *types.Var
			ts := recv.Type().String()
			switch {
			case hasSuffixAny(ts, "pkg/rtmp.ServerSession", "pkg/rtmp.PushSession"):
				want = rtmpC
			case hasSuffixAny(ts, "pkg/httpflv.SubSession"):
				want = flvC
			default:
				continue
			}
			var from *types.Var
			model.DependsOn(ci.Common().Args[len(ci.Common().Args)-1], func(v ssa.Value) bool {
				if f := model.LoadedField(v); f == rtmpC || f == flvC {
					from = f
					return true
				}
				return false
			})
			if from == nil {
				continue
			}
			n++
			r.Check(from == want, rule, fkey(g, "replay", want.Name()), p.InstrPos(ci), "replayed from "+want.Name(), "a "+ts[len(ts)-min(len(ts), 24):]+" is written data taken from "+from.Name()+": the bytes are in the other consumer kind's framing (RTMP chunks inside an FLV body or the reverse), the consumer loses tag / chunk alignment for the rest of the connection")
		}
	}
	if n < 1 {
		// the replay may be factored into a helper that is given the cache: then the pairing is
		// the helper call's (cache argument, consumer) and is not decided by this clause
		viaHelper := false
		for _, g := range model.WithAnons(fn) {
			for _, ci := range model.AllCalls(g) {
				if ce := ci.Common().StaticCallee(); ce != nil && ce.Pkg == fn.Pkg {
					for _, a := range ci.Common().Args {
						if f := model.LoadedField(a); f == rtmpC || f == flvC {
							viaHelper = true
						}
					}
				}
			}
		}
		if viaHelper {
			r.Note(rule, "not-decided", p.Pos(fn.Pos()), "the caches are handed to a helper; the pairing of cache and consumer is not decided by this rule in this arrangement")
		} else {
			r.Bad(rule, "floor", "", "no cache replay found in broadcastByRtmpMsg")
		}
	}
}

func hasSuffixAny(s string, sufs ...string) bool {
	for _, x := range sufs {
		if len(s) >= len(x) && s[len(s)-len(x):] == x {
			return true
		}
	}
	return false
}

// w5HlsSweep: an HLS viewer session is dropped when it expired and also when it was disposed (kicked).
func w5HlsSweep(p *model.Prog, r *report.Result, rule string) {
	r.Rule(rule, "in hls.ServerHandler.clearExpireSession, from the true edge of the test of session.IsExpired() and from the true edge of the test of session.IsDisposed(), every path to the next iteration (or the return) deletes the session from sessionMap: either condition alone removes the session - a kicked viewer that keeps polling is still dropped")
	fn := p.Method("pkg/hls", "ServerHandler", "clearExpireSession")
	mapF := p.Field("pkg/hls", "ServerHandler", "sessionMap")
	isDelete := func(in ssa.Instruction) bool {
		c, ok := in.(ssa.CallInstruction)
		if !ok {
			return false
		}
		b, isB := c.Common().Value.(*ssa.Builtin)
		return isB && b.Name() == "delete" && model.IsLoadOfField(c.Common().Args[0], mapF)
	}
	var hdrs []ssa.Instruction
	for _, l := range model.Loops(fn) {
		hdrs = append(hdrs, l.Header.Instrs[0])
	}
	for _, name := range []string{"IsExpired", "IsDisposed"} {
		found := false
		for _, ci := range model.AllCalls(fn) {
			o := model.CalleeObj(ci.Common())
			if o == nil || o.Name() != name || ci.Value() == nil {
				continue
			}
			for _, ref := range *ci.Value().Referrers() {
				iff, isIf := ref.(*ssa.If)
				if !isIf {
					continue
				}
				found = true
				miss := model.PathQuery{FromBlock: iff.Block().Succs[0], Stop: isDelete, Target: func(x ssa.Instruction) bool {
					if _, isRet := x.(*ssa.Return); isRet {
						return true
					}
					for _, h := range hdrs {
						if x == h {
							return true
						}
					}
					return false
				}}.Find(fn)
				r.Check(miss == nil, rule, fkey(fn, "sweep", name+"-alone-removes"), p.InstrPos(ci), "removed whenever "+name+"() holds", "a session for which "+name+"() holds is not removed unless another condition holds as well: a viewer session that was kicked (disposed) but keeps requesting never expires, stays in the table and keeps being served")
			}
		}
		if !found {
			r.Bad(rule, fkey(fn, "sweep", name+"-alone-removes"), p.Pos(fn.Pos()), "no test of "+name+"() found in clearExpireSession")
		}
	}
}

// w5HlsAuthName: the playlist secret is checked against the stream whose files are served.
func w5HlsAuthName(p *model.Prog, r *report.Result, rule string) {
	r.Rule(rule, "ServerManager.serveHls passes to Authentication.OnHls the StreamName of hls.PathStrategy.GetRequestInfo for the same request - the name the file server derives the served directory from - not another part of the url (for /hls/<stream>/playlist.m3u8 the file name is 'playlist' for every stream)")
	fn := p.Method("pkg/logic", "ServerManager", "serveHls")
	n := 0
	var sites []ssa.CallInstruction
	model.EachInstrDeep(fn, 1, func(d model.DeepInstr) {
		if ci, ok := d.In.(ssa.CallInstruction); ok && ci.Common().IsInvoke() && ci.Common().Method.Name() == "OnHls" {
			sites = append(sites, ci)
		}
	})
	for _, ci := range sites {
		n++
		ok := model.DependsOn(ci.Common().Args[0], func(v ssa.Value) bool {
			switch x := v.(type) {
			case *ssa.Field:
				if f := model.FieldOf(x); f != nil && f.Name() == "StreamName" {
					if c, isC := x.X.(*ssa.Call); isC && (c.Call.IsInvoke() && c.Call.Method.Name() == "GetRequestInfo") {
						return true
					}
				}
			case *ssa.UnOp:
				if f := model.LoadedField(x); f != nil && f.Name() == "StreamName" && f.Pkg() != nil && hasSuffixAny(f.Pkg().Path(), "/pkg/hls") {
					return true
				}
			}
			return false
		})
		r.Check(ok, rule, fkey(fn, "auth", "stream-name-of-request-info"), p.InstrPos(ci), "secret checked for the served stream", "the stream name given to the playlist authentication is not RequestInfo.StreamName: for the directory form /hls/<stream>/playlist.m3u8 the secret is checked against the file name - the right secret for the stream is refused and md5(key+'playlist') opens every stream's playlist")
	}
	if n != 1 {
		r.Bad(rule, "floor", "", "the OnHls call of serveHls was not found")
	}
}

// w5SweepReached: nothing but the interval test lets the sweep end before the subscriber loops.
func w5SweepReached(p *model.Prog, r *report.Result, rule string) {
	r.Rule(rule, "in Group.disposeInactiveSessions every path from the entry to a return either takes the 'not a sweep tick' edge of the interval test (tickCount % interval != 0) or passes the range over each connection-backed subscriber set: no branch for one kind of input (a GB28181 publisher without timeout, ...) returns before the subscribers were swept")
	fn := p.Method("pkg/logic", "Group", "disposeInactiveSessions")
	groupT := p.Named("pkg/logic", "Group")
	st := groupT.Underlying().(*types.Struct)
	notSweepTick := func(b *ssa.BasicBlock, k int) bool {
		iff, ok := b.Instrs[len(b.Instrs)-1].(*ssa.If)
		if !ok {
			return false
		}
		c, pol := model.StripNot(iff.Cond, k == 0)
		x, kk, op, right, okc := constCmp(c)
		if !okc || kk != 0 {
			return false
		}
		rem, isRem := model.Unwrap(x).(*ssa.BinOp)
		if !isRem || rem.Op != token.REM {
			return false
		}
		if _, isP := model.Unwrap(rem.X).(*ssa.Parameter); !isP {
			return false
		}
		// the edge on which the remainder is not zero
		return cmpAt(op, 1, kk, right) == pol && cmpAt(op, 0, kk, right) != pol
	}
	n := 0
	for i := 0; i < st.NumFields(); i++ {
		f := st.Field(i)
		mt, ok := f.Type().Underlying().(*types.Map)
		if !ok {
			continue
		}
		pt, ok := mt.Key().(*types.Pointer)
		if !ok {
			continue
		}
		if obj, _, _ := types.LookupFieldOrMethod(pt, true, f.Pkg(), "IsAlive"); obj == nil || f.Name() == "hlsSubSessionSet" {
			continue
		}
		n++
		isRange := func(in ssa.Instruction) bool {
			rg, ok := in.(*ssa.Range)
			return ok && model.IsLoadOfField(rg.X, f)
		}
		early := model.PathQuery{Stop: isRange, StopEdge: notSweepTick, Target: func(in ssa.Instruction) bool {
			_, isRet := in.(*ssa.Return)
			return isRet
		}}.Find(fn)
		pos := p.Pos(fn.Pos())
		if early != nil {
			pos = p.InstrPos(early)
		}
		r.Check(early == nil, rule, fkey(fn, "sweep-reached", f.Name()), pos, "swept on every sweep tick", "the function can return before the loop over "+f.Name()+" on a way that is not the 'not a sweep tick' test: for streams that take that way (e.g. a GB28181 publisher started without timeout) stalled subscribers are never disconnected")
	}
	if n < 4 {
		r.Bad(rule, "floor", "", "fewer than 4 subscriber sets found")
	}
}

// w5PlayConnProps: the connection properties of an RTMP subscriber are chosen after its base type is set.
func w5PlayConnProps(p *model.Prog, r *report.Result, rule string) {
	r.Rule(rule, "in rtmp.ServerSession.doPublish / doPlay (helpers inlined) sessionStat.SetBaseType(..) precedes modConnProps(), which selects the write queue and the per-write timeout by the base type: a subscriber is not left with the undetermined role's settings (no write deadline - a player that stops reading is cut only by the 2-4 minute sweep)")
	setBase := p.MethodObj("pkg/base", "BasicSessionStat", "SetBaseType")
	mod := p.MethodObj("pkg/rtmp", "ServerSession", "modConnProps")
	for _, name := range []string{"doPublish", "doPlay"} {
		fn := p.Method("pkg/rtmp", "ServerSession", name)
		isMod := func(d model.DeepInstr) bool {
			ci, ok := d.In.(ssa.CallInstruction)
			return ok && model.SameFunc(model.CalleeObj(ci.Common()), mod)
		}
		isSet := func(d model.DeepInstr) bool {
			ci, ok := d.In.(ssa.CallInstruction)
			return ok && model.SameFunc(model.CalleeObj(ci.Common()), setBase)
		}
		nMod := model.CountDeep(fn, 2, isMod)
		early := model.DeepPathQuery{Root: fn, Depth: 2, Stop: isSet, Target: isMod}.Find()
		pos := p.Pos(fn.Pos())
		if early != nil {
			pos = p.InstrPos(early.In)
		}
		r.Check(nMod >= 1 && early == nil, rule, fkey(fn, "conn-props", "after-base-type"), pos, "base type set before the connection properties are chosen", "modConnProps() can run before the session's base type is set (or is not called): the write timeout and queue are chosen for the undetermined role")
	}
}

// connPropsBeforeObserver: the subscriber's write queue and deadline are in place before the
// session is handed to the observer (from which instant the fan-out may write to it): in
// rtmp.ServerSession.doPlay, with helpers and closure / bound-method arguments inlined, no path
// reaches the observer call OnNewRtmpSubSession without having passed modConnProps().
func connPropsBeforeObserver(p *model.Prog, fnName, obsName string) (bool, string) {
	mod := p.MethodObj("pkg/rtmp", "ServerSession", "modConnProps")
	fn := p.Method("pkg/rtmp", "ServerSession", fnName)
	isMod := func(d model.DeepInstr) bool {
		ci, ok := d.In.(ssa.CallInstruction)
		return ok && model.SameFunc(model.CalleeObj(ci.Common()), mod)
	}
	isObs := func(d model.DeepInstr) bool { return invokedMethodName(d) == obsName }
	nObs := model.CountDeep(fn, 2, isObs)
	early := model.DeepPathQuery{Root: fn, Depth: 2, Stop: isMod, Target: isObs}.Find()
	pos := p.Pos(fn.Pos())
	if early != nil {
		pos = p.InstrPos(early.In)
	}
	return nObs >= 1 && early == nil, pos
}

// w5PullName: the relay pull is started on the stream the answer names.
func w5PullName(p *model.Prog, r *report.Result, rule string) {
	r.Rule(rule, "ServerManager.CtrlStartRelayPull looks the group up (getOrCreateGroup) under the same value it reports as Data.StreamName - the name derived from the url when the request carries none: start conditions are evaluated, and stop/kick find the pull, on the stream the caller was told")
	fn := p.Method("pkg/logic", "ServerManager", "CtrlStartRelayPull")
	goc := p.MethodObj("pkg/logic", "ServerManager", "getOrCreateGroup")
	calls := model.CallsTo(fn, goc)
	var reported []ssa.Value
	model.EachInstr(fn, func(in ssa.Instruction) {
		st, ok := in.(*ssa.Store)
		if !ok {
			return
		}
		if f := model.FieldOf(st.Addr); f != nil && f.Name() == "StreamName" {
			if _, isStr := st.Val.Type().Underlying().(*types.Basic); isStr {
				reported = append(reported, st.Val)
			}
		}
	})
	ok := len(calls) == 1 && len(reported) >= 1
	if ok {
		name := calls[0].Common().Args[len(calls[0].Common().Args)-1]
		for _, v := range reported {
			if v != name {
				ok = false
			}
		}
	}
	pos := p.Pos(fn.Pos())
	if len(calls) == 1 {
		pos = p.InstrPos(calls[0])
	}
	r.Check(ok, rule, fkey(fn, "pull", "group-name=reported-name"), pos, "group looked up under the reported stream name", "the group is looked up under another value than the stream name the answer reports (the raw request field, empty when the name comes from the url): the pull runs on the group named \"\", a stream that already has an input is pulled again, and stop_relay_pull for the reported name answers 'group not found'")
}

// w5BuildMeta: each optional metadata field is written exactly when its own argument is set.
func w5BuildMeta(p *model.Prog, r *report.Result, rule string) {
	r.Rule(rule, "rtmp.BuildMetadata appends the pair whose Value is the parameter q only behind the test q != -1 of the same parameter, and under the key that carries q's name: a field is present in the built metadata exactly when its argument is given, with its own value")
	fn := p.Func("pkg/rtmp", "BuildMetadata")
	n := 0
	model.EachInstr(fn, func(in ssa.Instruction) {
		st, ok := in.(*ssa.Store)
		if !ok {
			return
		}
		f := model.FieldOf(st.Addr)
		if f == nil || f.Name() != "Value" {
			return
		}
		mi, isMI := st.Val.(*ssa.MakeInterface)
		if !isMI {
			return
		}
		prm, isP := mi.X.(*ssa.Parameter)
		if !isP {
			if pc := paramCell(mi.X); pc != nil {
				prm, isP = pc, true
			}
		}
		if !isP {
			return
		}
		n++
		guarded := model.GuardedBy(st, func(c ssa.Value, pol bool) bool {
			x, k, op, right, okc := constCmp(c)
			if !okc || k != -1 {
				return false
			}
			ux := model.Unwrap(x)
			if ux != ssa.Value(prm) && paramCell(ux) != prm {
				return false
			}
			// the edge on which q differs from -1
			return cmpAt(op, 0, k, right) == pol && cmpAt(op, -1, k, right) != pol
		})
		// the key stored into the same pair
		keyOK := false
		if fa, isFA := st.Addr.(*ssa.FieldAddr); isFA {
			for _, in2 := range st.Block().Instrs {
				s2, isS := in2.(*ssa.Store)
				if !isS {
					continue
				}
				if fa2, isFA2 := s2.Addr.(*ssa.FieldAddr); isFA2 && fa2.X == fa.X && model.FieldOf(fa2) != nil && model.FieldOf(fa2).Name() == "Key" {
					if ks, isStr := model.ConstString(s2.Val); isStr && ks == prm.Name() {
						keyOK = true
					}
				}
			}
		}
		r.Check(guarded && keyOK, rule, fkey(fn, "field", prm.Name()), p.InstrPos(st), "written iff "+prm.Name()+" != -1, under its own key", "the metadata field that carries "+prm.Name()+" is not written exactly when "+prm.Name()+" is given (it is guarded by another argument's test, or stored under another key): a video-only or audio-only source gets a metadata object that lacks its codec id or carries a codec id of -1")
	})
	if n < 4 {
		r.Bad(rule, "floor", "", fmt.Sprintf("only %d parameter-valued pairs found in BuildMetadata", n))
	}
}

// w5AscCopy: the AAC sequence header carries the whole AudioSpecificConfig.
func w5AscCopy(p *model.Prog, r *report.Result, rule string) {
	r.Rule(rule, "aac.MakeAudioDataSeqHeaderWithAsc allocates 2 + len(asc) bytes and copies asc behind the two tag bytes: an AudioSpecificConfig longer than two bytes (HE-AAC signalling, explicit frequency, PCE) reaches the RTMP sequence header byte for byte")
	fn := p.Func("pkg/aac", "MakeAudioDataSeqHeaderWithAsc")
	asc := fn.Params[0]
	okSize, okCopy := false, false
	var mk *ssa.MakeSlice
	model.EachInstr(fn, func(in ssa.Instruction) {
		switch x := in.(type) {
		case *ssa.MakeSlice:
			terms, k := linTerms(x.Len)
			if len(terms) == 1 && k == 2 {
				for v, c := range terms {
					if l, isLen := lenOf(v); isLen && c == 1 && (l == ssa.Value(asc) || paramCell(l) == asc) {
						okSize = true
						mk = x
					}
				}
			}
		case *ssa.Call:
			if b, isB := x.Call.Value.(*ssa.Builtin); isB && b.Name() == "copy" {
				if dst, isSl := x.Call.Args[0].(*ssa.Slice); isSl && dst.Low != nil {
					if k, isK := model.ConstInt(dst.Low); isK && k == 2 {
						if src := x.Call.Args[1]; src == ssa.Value(asc) || paramCell(src) == asc {
							okCopy = true
						}
					}
				}
			}
		}
	})
	_ = mk
	r.Check(okSize && okCopy, rule, fkey(fn, "asc", "whole-config-copied"), p.Pos(fn.Pos()), "2 + len(asc) bytes, asc copied at offset 2", "the sequence header buffer is not 2 + len(asc) bytes with asc copied behind the tag bytes: copy() silently keeps only the part that fits, the decoder configuration of HE-AAC / explicit-frequency streams is cut")
}

// w5SizeCount: the number subtracted from the reorder list's Size counts every packet taken out.
func w5SizeCount(p *model.Prog, r *report.Result, rule string) {
	r.Rule(rule, "in pkg/rtprtcp, where RtpPacketList.Size is decreased by a counter that a loop over the list items (pp = pp.Next until the last fragment) increments, the increment is executed in every iteration including the last one (it dominates the loop's exit test): Size stays the number of linked items - a Size that drifts upward makes Full() permanently true and every later fragmented unit is force-popped and lost")
	sizeF := p.Field("pkg/rtprtcp", "RtpPacketList", "Size")
	n := 0
	for _, fn := range lalFuncsIn(p, "pkg/rtprtcp") {
		for _, st := range model.FieldStores(fn, sizeF) {
			sub, ok := st.Val.(*ssa.BinOp)
			if !ok || sub.Op != token.SUB || !model.IsLoadOfField(sub.X, sizeF) {
				continue
			}
			if _, isK := model.ConstInt(sub.Y); isK {
				continue
			}
			// the counter: a phi (possibly at the loop exit) of a loop-header phi incremented by 1
			var incs []*ssa.BinOp
			seen := map[ssa.Value]bool{}
			var walk func(v ssa.Value, d int)
			walk = func(v ssa.Value, d int) {
				if seen[v] || d > 6 {
					return
				}
				seen[v] = true
				switch x := v.(type) {
				case *ssa.Phi:
					for _, e := range x.Edges {
						walk(e, d+1)
					}
				case *ssa.BinOp:
					if x.Op == token.ADD {
						if k, isK := model.ConstInt(x.Y); isK && k == 1 {
							incs = append(incs, x)
							walk(x.X, d+1)
						}
					}
				}
			}
			walk(sub.Y, 0)
			if len(incs) == 0 {
				continue
			}
			n++
			ok2 := true
			for _, inc := range incs {
				for _, l := range model.Loops(fn) {
					if !l.Body[inc.Block()] {
						continue
					}
					for b := range l.Body {
						iff, isIf := b.Instrs[len(b.Instrs)-1].(*ssa.If)
						if !isIf {
							continue
						}
						exits := !l.Body[b.Succs[0]] || !l.Body[b.Succs[1]]
						if exits && !model.InstrDominates(inc, iff) {
							ok2 = false
						}
					}
				}
			}
			r.Check(ok2, rule, fkey(fn, "size", "counts-every-packet"), p.InstrPos(st), "every iteration counts its packet before the exit test", "the counter subtracted from Size is not incremented in the iteration that leaves the loop: each reassembled unit leaves Size one too high, Full() becomes true on a nearly empty list and the container force-pops the start fragment of every later unit")
		}
	}
	if n < 1 {
		r.Bad(rule, "floor", "", "no counted decrease of RtpPacketList.Size found")
	}
}

// invokedMethodName: the interface method a call instruction invokes - directly (x.M(...)) or
// through a bound method value x.M that was handed to a helper and is called there ("" otherwise).
func invokedMethodName(d model.DeepInstr) string {
	ci, ok := d.In.(ssa.CallInstruction)
	if !ok {
		return ""
	}
	if ci.Common().IsInvoke() {
		return ci.Common().Method.Name()
	}
	if mc, isMc := model.Unwrap(d.Resolve(ci.Common().Value)).(*ssa.MakeClosure); isMc {
		if f, isFn := mc.Fn.(*ssa.Function); isFn && f.Synthetic != "" && strings.HasSuffix(f.Name(), "$bound") {
			return strings.TrimSuffix(f.Name(), "$bound")
		}
	}
	return ""
}
