package rules

import (
	"fmt"

	"golang.org/x/tools/go/ssa"

	"lalverif/internal/model"
	"lalverif/internal/report"
)

// c09r7: the PMT's declared descriptor length is the number of bytes the writer emits.
func c09r7(p *model.Prog, r *report.Result) {
	r.Rule("C09.R7", "PSI descriptor length accounting: the bytes PsiSection.calcDescriptorsLength counts per descriptor besides its body (the constant added per loop iteration) equal the header bytes writeDescriptor emits per descriptor (sum of the constant bit widths of its own WriteBits calls / 8), and writeDescriptorsWithLength writes exactly calcDescriptorsLength(dps) as ES_info_length: the descriptor loop a demuxer walks ends where the declared length says")
	calc := p.Method("pkg/mpegts", "PsiSection", "calcDescriptorsLength")
	wr := p.Method("pkg/mpegts", "PsiSection", "writeDescriptor")
	wrl := p.Method("pkg/mpegts", "PsiSection", "writeDescriptorsWithLength")
	calcObj := p.MethodObj("pkg/mpegts", "PsiSection", "calcDescriptorsLength")
	// constant per iteration: the back-edge value of the accumulator minus the accumulator
	perIter := int64(-1)
	for _, b := range calc.Blocks {
		for _, in := range b.Instrs {
			ph, ok := in.(*ssa.Phi)
			if !ok {
				continue
			}
			for _, e := range ph.Edges {
				terms, k := linTerms(e)
				if terms[ph] == 1 && len(terms) >= 2 { // phi + body length call
					perIter = k
				}
			}
		}
	}
	// header bits written by writeDescriptor itself
	bits := int64(0)
	for _, ci := range model.AllCalls(wr) {
		o := model.CalleeObj(ci.Common())
		if o == nil || len(o.Name()) < 9 || o.Name()[:9] != "WriteBits" {
			continue
		}
		args := ci.Common().Args
		if k, ok := model.ConstInt(args[len(args)-2]); ok {
			bits += k
		}
	}
	r.Check(perIter >= 0 && bits > 0 && perIter*8 == bits, "C09.R7", fkey(calc, "descriptor", "header-bytes"), p.Pos(calc.Pos()), fmt.Sprintf("%d bytes counted per descriptor header = %d bits written", perIter, bits), fmt.Sprintf("calcDescriptorsLength counts %d header byte(s) per descriptor but writeDescriptor writes %d bits of tag and length: ES_info_length does not cover the descriptors that follow it, a demuxer reads the tail of the descriptor as the next elementary stream entry", perIter, bits))
	// the declared length is the computed one
	okLen := false
	for _, ci := range model.AllCalls(wrl) {
		o := model.CalleeObj(ci.Common())
		if o == nil || o.Name() != "WriteBits16" {
			continue
		}
		args := ci.Common().Args
		if c, ok := args[len(args)-1].(*ssa.Call); ok && model.SameFunc(model.CalleeObj(c.Common()), calcObj) {
			okLen = true
		}
	}
	r.Check(okLen, "C09.R7", fkey(wrl, "descriptor", "declared-length"), p.Pos(wrl.Pos()), "ES_info_length = calcDescriptorsLength(dps)", "the ES_info_length written is not the unmodified result of calcDescriptorsLength: declared and written descriptor bytes can differ")
}
