package rules

// Engine F helper: extraction of fixed byte layouts from writer and reader code, so that the
// (offset, width, endianness) a field is written with can be compared with what it is read with.

import (
	"fmt"
	"go/token"
	"go/types"
	"sort"
	"strings"

	"golang.org/x/tools/go/ssa"

	"lalverif/internal/model"
)

type layoutItem struct {
	Field  string    // field / token name the bytes carry
	Buf    ssa.Value // the underlying buffer value the access goes to
	Base   ssa.Value // symbolic base of the offset (nil = absolute)
	Off    int64
	Width  int    // bytes
	Endian string // "be", "le", "" for single bytes
	In     ssa.Instruction
	// Bind: for an item found in a helper the function calls, the helper's parameters bound to
	// the arguments of that call (nil for an item of the function itself)
	Bind map[*ssa.Parameter]ssa.Value
}

func (l layoutItem) String() string {
	return fmt.Sprintf("%s@%d/%d%s", l.Field, l.Off, l.Width, l.Endian)
}

// linear decomposes v into base + constant (base nil when v is a constant).
func linear(v ssa.Value) (ssa.Value, int64) {
	var off int64
	for i := 0; i < 50; i++ {
		switch x := v.(type) {
		case nil:
			return nil, off
		case *ssa.Const:
			k, _ := model.ConstInt(x)
			return nil, off + k
		case *ssa.BinOp:
			if x.Op == token.ADD {
				if k, ok := model.ConstInt(x.Y); ok {
					off += k
					v = x.X
					continue
				}
				if k, ok := model.ConstInt(x.X); ok {
					off += k
					v = x.Y
					continue
				}
			}
			if x.Op == token.SUB {
				if k, ok := model.ConstInt(x.Y); ok {
					off -= k
					v = x.X
					continue
				}
			}
			return v, off
		case *ssa.Convert:
			v = x.X
		default:
			return v, off
		}
	}
	return v, off
}

// sliceStart returns the (base, const) start offset a byte-slice value has relative to its
// underlying buffer: b -> 0, b[k:] -> k, b[i+k:] -> (i,k).
func sliceStart(v ssa.Value) (buf ssa.Value, base ssa.Value, off int64) {
	for i := 0; i < 10; i++ {
		sl, ok := v.(*ssa.Slice)
		if !ok {
			return v, base, off
		}
		if sl.Low != nil {
			b, k := linear(sl.Low)
			off += k
			if b != nil {
				base = b
			}
		}
		v = sl.X
	}
	return v, base, off
}

// beleInfo classifies a naza bele function: put/get, width in bytes, endianness.
func beleInfo(f *types.Func) (put bool, width int, endian string, ok bool) {
	if f == nil || f.Pkg() == nil || !strings.HasSuffix(f.Pkg().Path(), "naza/pkg/bele") {
		return
	}
	n := f.Name()
	switch {
	case strings.HasPrefix(n, "BePutUint"):
		put, endian, n = true, "be", strings.TrimPrefix(n, "BePutUint")
	case strings.HasPrefix(n, "LePutUint"):
		put, endian, n = true, "le", strings.TrimPrefix(n, "LePutUint")
	case strings.HasPrefix(n, "BeUint"):
		endian, n = "be", strings.TrimPrefix(n, "BeUint")
	case strings.HasPrefix(n, "LeUint"):
		endian, n = "le", strings.TrimPrefix(n, "LeUint")
	default:
		return
	}
	switch n {
	case "16":
		width = 2
	case "24":
		width = 3
	case "32":
		width = 4
	case "64":
		width = 8
	default:
		return
	}
	ok = true
	return
}

// valueToken names what a written value carries: a loaded struct field, a parameter, a named
// local (phi comment) or a constant.
func valueToken(v ssa.Value) string {
	v = model.Unwrap(v)
	// shifted / masked pieces of a value: name the underlying value
	for i := 0; i < 6; i++ {
		if b, ok := v.(*ssa.BinOp); ok && (b.Op == token.SHR || b.Op == token.AND || b.Op == token.SHL) {
			v = model.Unwrap(b.X)
			continue
		}
		break
	}
	if f := model.LoadedField(v); f != nil {
		return f.Name()
	}
	switch x := v.(type) {
	case *ssa.Parameter:
		return x.Name()
	case *ssa.Const:
		return "const:" + x.Value.ExactString()
	case *ssa.Phi:
		if x.Comment != "" {
			return x.Comment
		}
	case *ssa.Call:
		if l, ok := lenOf(v); ok {
			return "len(" + valueToken(l) + ")"
		}
	case *ssa.UnOp:
		if p := paramCell(x); p != nil {
			return p.Name()
		}
	}
	return "?"
}

// writerLayout collects the fixed-position writes of fn into byte buffers.
func writerLayout(fn *ssa.Function) []layoutItem {
	var out []layoutItem
	model.EachInstr(fn, func(in ssa.Instruction) {
		switch x := in.(type) {
		case ssa.CallInstruction:
			put, w, e, ok := beleInfo(model.CalleeObj(x.Common()))
			if !ok || !put {
				return
			}
			buf, base, off := sliceStart(x.Common().Args[0])
			out = append(out, layoutItem{Field: valueToken(x.Common().Args[1]), Buf: buf, Base: base, Off: off, Width: w, Endian: e, In: in})
		case *ssa.Store:
			ia, ok := x.Addr.(*ssa.IndexAddr)
			if !ok {
				return
			}
			if bt, ok := x.Val.Type().Underlying().(*types.Basic); !ok || bt.Kind() != types.Uint8 {
				return
			}
			buf, sbase, soff := sliceStart(ia.X)
			b, k := linear(ia.Index)
			if b == nil {
				b = sbase
			}
			out = append(out, layoutItem{Field: valueToken(x.Val), Buf: buf, Base: b, Off: k + soff, Width: 1, In: in})
		}
	})
	return out
}

// writerLayoutDeep adds to writerLayout(fn) the writes that same-package helpers called from fn
// make into a byte-slice parameter, re-based on the buffer fn passes (one level): a header
// writer factored out of fn is still fn's layout. Field names that are helper parameters are
// renamed to what fn passes for them.
func writerLayoutDeep(fn *ssa.Function) []layoutItem {
	out := writerLayout(fn)
	for _, ci := range model.AllCalls(fn) {
		call, ok := ci.(*ssa.Call)
		if !ok {
			continue
		}
		ce := call.Call.StaticCallee()
		if ce == nil || ce.Blocks == nil || ce.Pkg != fn.Pkg || ce == fn || len(ce.Params) != len(call.Call.Args) {
			continue
		}
		bind := map[*ssa.Parameter]ssa.Value{}
		for k, a := range call.Call.Args {
			bind[ce.Params[k]] = a
		}
		for _, it := range writerLayout(ce) {
			prm, isP := it.Buf.(*ssa.Parameter)
			if !isP {
				continue
			}
			abuf, abase, aoff := sliceStart(bind[prm])
			if it.Base != nil && abase != nil {
				continue // two symbolic bases: not a fixed position
			}
			n := it
			n.Buf, n.Off, n.Bind = abuf, it.Off+aoff, bind
			if abase != nil {
				n.Base = abase
			}
			for q, a := range bind {
				if q.Name() == it.Field {
					n.Field = valueToken(a)
				}
			}
			out = append(out, n)
		}
	}
	return out
}

// readerLayout collects the fixed-position reads of fn from byte buffers together with the
// struct field (or local name) each result is stored into.
func readerLayout(fn *ssa.Function) []layoutItem {
	shiftOf := map[ssa.Value]int64{} // read value -> left shift (bits) applied before it is stored
	truncated := map[ssa.Value]bool{}
	dest := func(v ssa.Value) string {
		// follow conversions and single-use arithmetic to the store
		seen := map[ssa.Value]bool{}
		var rec func(ssa.Value, int) string
		rec = func(x ssa.Value, d int) string {
			if d > 6 || seen[x] || x.Referrers() == nil {
				return ""
			}
			seen[x] = true
			for _, ref := range *x.Referrers() {
				switch y := ref.(type) {
				case *ssa.Store:
					if y.Val == x {
						if f := model.FieldOf(y.Addr); f != nil {
							return f.Name()
						}
					}
				case *ssa.Convert:
					if s := rec(y, d+1); s != "" {
						return s
					}
				case *ssa.ChangeType:
					if s := rec(y, d+1); s != "" {
						return s
					}
				case *ssa.BinOp:
					if y.Op == token.SHL && y.X == x {
						if k, isK := model.ConstInt(y.Y); isK {
							shiftOf[v] = k
							// shifted in a type too narrow to hold the byte at its new position
							// (uint32(b[7]<<24): the shift happens in uint8 and yields 0)
							if bt, isB := y.Type().Underlying().(*types.Basic); isB {
								w := int64(64)
								switch bt.Kind() {
								case types.Uint8, types.Int8:
									w = 8
								case types.Uint16, types.Int16:
									w = 16
								case types.Uint32, types.Int32:
									w = 32
								}
								if k+8 > w {
									truncated[v] = true
								}
							}
						}
					}
					if s := rec(y, d+1); s != "" {
						return s
					}
				}
			}
			return ""
		}
		return rec(v, 0)
	}
	var out []layoutItem
	model.EachInstr(fn, func(in ssa.Instruction) {
		switch x := in.(type) {
		case *ssa.Call:
			put, w, e, ok := beleInfo(model.CalleeObj(x.Common()))
			if !ok || put {
				return
			}
			buf, base, off := sliceStart(x.Common().Args[0])
			out = append(out, layoutItem{Field: dest(x), Buf: buf, Base: base, Off: off, Width: w, Endian: e, In: in})
		case *ssa.UnOp:
			if x.Op != token.MUL {
				return
			}
			ia, ok := x.X.(*ssa.IndexAddr)
			if !ok {
				return
			}
			if bt, ok := x.Type().Underlying().(*types.Basic); !ok || bt.Kind() != types.Uint8 {
				return
			}
			buf, sbase, soff := sliceStart(ia.X)
			b, k := linear(ia.Index)
			if b == nil {
				b = sbase
			}
			fld := dest(x)
			if truncated[x] {
				fld += "(bits shifted out of an 8-bit value)"
			}
			out = append(out, layoutItem{Field: fld, Buf: buf, Base: b, Off: k + soff, Width: 1, In: in})
		}
	})
	return mergeByteReads(out, shiftOf)
}

// mergeByteReads: single-byte reads that are shifted into place and stored into one field
// (uint32(b[1])<<16 | uint32(b[2])<<8 | uint32(b[3])) are the multi-byte read they spell:
// consecutive offsets with shifts falling by 8 are one big-endian item, rising by 8 one
// little-endian item.
func mergeByteReads(items []layoutItem, shiftOf map[ssa.Value]int64) []layoutItem {
	type key struct {
		field string
		buf   ssa.Value
		base  ssa.Value
	}
	groups := map[key][]int{}
	for i, it := range items {
		if it.Width != 1 || it.Field == "" {
			continue
		}
		v, ok := it.In.(ssa.Value)
		if !ok {
			continue
		}
		if _, shifted := shiftOf[v]; !shifted {
			// an unshifted byte takes part only when a shifted sibling exists
		}
		groups[key{it.Field, it.Buf, it.Base}] = append(groups[key{it.Field, it.Buf, it.Base}], i)
	}
	drop := map[int]bool{}
	var merged []layoutItem
	for _, idxs := range groups {
		if len(idxs) < 2 {
			continue
		}
		sort.Slice(idxs, func(a, b int) bool { return items[idxs[a]].Off < items[idxs[b]].Off })
		sh := func(i int) int64 { return shiftOf[items[i].In.(ssa.Value)] }
		for a := 0; a < len(idxs); {
			b := a
			dir := int64(0)
			for b+1 < len(idxs) && items[idxs[b+1]].Off == items[idxs[b]].Off+1 {
				step := sh(idxs[b+1]) - sh(idxs[b])
				if (step != 8 && step != -8) || (dir != 0 && step != dir) {
					break
				}
				dir = step
				b++
			}
			if b > a && ((dir == -8 && sh(idxs[b]) == 0) || (dir == 8 && sh(idxs[a]) == 0)) {
				first := items[idxs[a]]
				e := "be"
				if dir == 8 {
					e = "le"
				}
				merged = append(merged, layoutItem{Field: first.Field, Buf: first.Buf, Base: first.Base, Off: first.Off, Width: b - a + 1, Endian: e, In: first.In})
				for k := a; k <= b; k++ {
					drop[idxs[k]] = true
				}
			}
			a = b + 1
		}
	}
	var out []layoutItem
	for i, it := range items {
		if !drop[i] {
			out = append(out, it)
		}
	}
	return append(out, merged...)
}

func layoutString(items []layoutItem) string {
	var s []string
	for _, it := range items {
		s = append(s, it.String())
	}
	sort.Strings(s)
	return strings.Join(s, " ")
}

// layoutSet renders the distinct (offset,width,endian) triples of the items carrying field.
func layoutSet(items []layoutItem, field string, keep func(layoutItem) bool) string {
	seen := map[string]bool{}
	for _, it := range items {
		if it.Field != field || (keep != nil && !keep(it)) {
			continue
		}
		seen[fmt.Sprintf("@%d/%d%s", it.Off, it.Width, it.Endian)] = true
	}
	var s []string
	for k := range seen {
		s = append(s, k)
	}
	sort.Strings(s)
	return strings.Join(s, ",")
}
