package rules

import (
	"go/token"
	"go/types"
	"strings"

	"golang.org/x/tools/go/ssa"

	"lalverif/internal/model"
	"lalverif/internal/po"
	"lalverif/internal/report"
)

func init() { register("C05", c05) }

// fanoutRoots: the entry points through which an accepted publisher's media enters a Group.
func fanoutRoots(p *model.Prog) []*ssa.Function {
	var roots []*ssa.Function
	for _, n := range []string{"OnReadRtmpAvMsg", "OnAvPacket", "OnAvPacketFromPsPubSession", "OnSdp", "OnRtpPacket"} {
		roots = append(roots, p.Method("pkg/logic", "Group", n))
	}
	for _, n := range []string{"FeedAudioSpecificConfig", "FeedAvPacket", "FeedRtmpMsg"} {
		roots = append(roots, p.Method("pkg/logic", "CustomizePubSessionContext", n))
	}
	return roots
}

var c05Files = []string{
	"pkg/base/t_rtmp.go", "pkg/base/avpacket", "pkg/base/merge_writer.go", "pkg/logic/group__core_streaming.go", "pkg/logic/customize_pubsession.go",
	"pkg/remux/", "pkg/avc/", "pkg/hevc/", "pkg/aac/", "pkg/h2645/", "pkg/mpegts/", "pkg/hls/muxer.go", "pkg/hls/fragment.go", "pkg/rtmp/metadata.go", "pkg/rtmp/amf0.go",
	"pkg/rtmp/chunk_divider.go", "pkg/httpflv/tag.go", "pkg/httpflv/flv_file_writer.go", "pkg/rtprtcp/rtp_pack", "pkg/rtprtcp/rtp.go", "pkg/rtprtcp/rtp_packet.go", "pkg/sdp/pack.go", "pkg/sdp/avconfig.go",
}

func inFiles(p *model.Prog, fn *ssa.Function, files []string) bool {
	pos := p.Pos(topFn(fn).Pos())
	for _, f := range files {
		if strings.HasPrefix(pos, f) {
			return true
		}
	}
	return false
}

func c05(p *model.Prog, r *report.Result) {
	r.Explanation = "Decides, for the group fan-out and everything below it (remuxers, codec parsers, TS packer, HLS muxer, RTP packers, SDP packer, GOP caches), the structural clauses of 'no published payload terminates the server': every index, slice, allocation size, division, unchecked type assertion and explicit terminator reachable from the media entry points of logic.Group with an arbitrary message is proved from dominating guards / inferred preconditions discharged at every caller, or listed (PO); every call-graph cycle there is depth-guarded or reviewed (REC); every loop whose exit depends on a message timestamp is preceded by a guard that bounds the timestamp difference by a constant (LOOP)."
	r.NotDecided = []string{"that other streams keep flowing (only via C15/C20)", "memory growth", "nil-pointer dereferences in general", "naza nazabytes.Buffer internals (trusted)"}
	r.Assumptions = []string{"64-bit int", "loads of the same field path are identified when the function does not assign the field", "Log.Assert does not terminate under the default assert_behavior"}
	roots := fanoutRoots(p)
	reach := p.Reachable(roots, false, func(f *ssa.Function) bool { return model.IsLal(f) || model.IsNaza(f) })
	r.Count("functions_analysed", len(reach))

	r.Rule("C05.PO", "engine B over the functions reachable from Group.OnReadRtmpAvMsg / OnAvPacket / OnAvPacketFromPsPubSession / OnSdp / OnRtpPacket / CustomizePubSessionContext.Feed* with arbitrary arguments: index<len, 0<=low<=high<=cap, divisor>=1, make size bounded, no unchecked type assertion, no process terminator")
	// every NAL unit handed to an iteration callback is non-empty: the consumers read nal[0]
	nalIter := map[*ssa.Function]bool{p.Func("pkg/avc", "IterateNaluAvcc"): true, p.Func("pkg/avc", "IterateNaluAnnexb"): true}
	// strict progress of hand-written scanning loops whose only exit tests watch a position that
	// is not advanced by a positive constant on every path (C05.PROGRESS names them): the amount
	// added on each back edge must be provably >= 1
	progressAt := scanProgressSites(p, []string{"pkg/avc", "pkg/hevc", "pkg/aac", "pkg/h2645"})
	extra := func(fn *ssa.Function, in ssa.Instruction, lin func(ssa.Value) po.Lin, seqLen func(ssa.Value) po.Lin) []po.ExtraOb {
		if sites, ok := progressAt[in]; ok {
			var out []po.ExtraOb
			for _, s := range sites {
				out = append(out, po.ExtraOb{Kind: "progress", Expr: "scan position " + valueToken(s.phi) + " advances", Goals: []po.Ineq{{L: lin(s.next).Sub(lin(s.phi)).Sub(po.Const(1)), Why: "the scan position grows by at least one on this way round the loop"}}})
			}
			return out
		}
		if !nalIter[fn] {
			return nil
		}
		ci, ok := in.(ssa.CallInstruction)
		if !ok || ci.Common().IsInvoke() || len(ci.Common().Args) != 1 {
			return nil
		}
		if prm, isP := ci.Common().Value.(*ssa.Parameter); !isP || prm.Name() != "handler" {
			return nil
		}
		return []po.ExtraOb{{Kind: "nonempty-nal", Expr: "handler(" + valueToken(ci.Common().Args[0]) + ")", Goals: []po.Ineq{{L: seqLen(ci.Common().Args[0]).Sub(po.Const(1)), Why: "callback receives a non-empty NAL unit"}}}}
	}
	_, n := runPO(p, r, poConfig{rule: "C05.PO", roots: roots, filter: func(fn *ssa.Function) bool { return inFiles(p, fn, c05Files) }, extra: extra})
	if n < 400 {
		r.Bad("C05.PO", "floor", "", "fewer than 400 obligations enumerated for the fan-out surface")
	}

	r.Rule("C05.REC", "every call-graph cycle reachable from the media entry points is depth-guarded (or a reviewed state argument bounds re-entry)")
	for _, s := range recursiveSCCs(p, roots) {
		// client-side reconnect cycles are reached only through object-insensitive callbacks: C13
		client := false
		for _, f := range s.Funcs {
			if strings.Contains(model.FnName(f), "ClientSession") {
				client = true
			}
		}
		if client {
			continue
		}
		ok, why := s.depthGuarded()
		if !ok {
			if ok2, why2 := s.stateGuarded(p); ok2 {
				ok, why = true, why2
			} else {
				why = why + "; " + why2
			}
		}
		r.Check(ok, "C05.REC", "scc|"+s.Name(), p.Pos(s.Funcs[0].Pos()), why, "recursion reachable from published media: "+why)
	}

	r.Rule("C05.LOOP", "in pkg/remux and pkg/logic, every loop with an exit condition that depends on a timestamp field (TimestampAbs, Timestamp, Dts, Pts) of a message, and that calls out per iteration, is preceded in its function by a guard comparing a difference of timestamp-dependent values with a constant (that the loop is entered only across that guard is a reviewed invariant when the guard is part of a short-circuit condition), and its exit test is not computed in the timestamp's own 32-bit type")
	isBaseTs := func(v ssa.Value) bool {
		f := model.LoadedField(v)
		if f == nil {
			return false
		}
		switch f.Name() {
		case "TimestampAbs", "Timestamp", "Dts", "Pts":
			return true
		}
		return false
	}
	// derived timestamps: integer fields of pkg/remux and pkg/logic types that are assigned a
	// value depending on a message timestamp (the dummy-audio filter's previous audio timestamp)
	derivedTs := map[*types.Var]bool{}
	for _, fn := range append(lalFuncsIn(p, "pkg/remux"), lalFuncsIn(p, "pkg/logic")...) {
		model.EachInstr(fn, func(in ssa.Instruction) {
			st, ok := in.(*ssa.Store)
			if !ok {
				return
			}
			f := model.FieldOf(st.Addr)
			if f == nil || !isInteger(f.Type()) || f.Pkg() == nil || f.Pkg() != model.FnPkg(fn) {
				return
			}
			if model.DependsOn(st.Val, isBaseTs) {
				derivedTs[f] = true
			}
		})
	}
	isTs := func(v ssa.Value) bool {
		if isBaseTs(v) {
			return true
		}
		f := model.LoadedField(v)
		return f != nil && derivedTs[f]
	}
	nLoops := 0
	for _, fn := range append(lalFuncsIn(p, "pkg/remux"), lalFuncsIn(p, "pkg/logic")...) {
		if _, ok := reach[fn]; !ok {
			continue
		}
		for _, l := range model.Loops(fn) {
			tsExit := false
			var exitIf *ssa.If
			calls := false
			for b := range l.Body {
				for _, in := range b.Instrs {
					if ci, ok := in.(ssa.CallInstruction); ok {
						if _, isB := ci.Common().Value.(*ssa.Builtin); !isB {
							calls = true
						}
					}
				}
				iff, ok := b.Instrs[len(b.Instrs)-1].(*ssa.If)
				if !ok {
					continue
				}
				leaves := !l.Body[b.Succs[0]] || !l.Body[b.Succs[1]]
				if leaves && model.DependsOn(iff.Cond, isTs) {
					if _, isCmp := iff.Cond.(*ssa.BinOp); isCmp && isInteger(iff.Cond.(*ssa.BinOp).X.Type()) {
						tsExit = true
						exitIf = iff
					}
				}
			}
			if !tsExit || !calls {
				continue
			}
			nLoops++
			// a guard before the loop: (tsA - tsB) cmp const
			bounded := false
			gapBehindLess := false
			for _, b := range fn.Blocks {
				if l.Body[b] {
					continue
				}
				iff, ok := b.Instrs[len(b.Instrs)-1].(*ssa.If)
				if !ok {
					continue
				}
				model.DependsOn(iff.Cond, func(v ssa.Value) bool {
					cmp, ok := v.(*ssa.BinOp)
					if !ok {
						return false
					}
					switch cmp.Op {
					case token.GTR, token.GEQ, token.LSS, token.LEQ:
					default:
						return false
					}
					sub, ok := model.Unwrap(cmp.X).(*ssa.BinOp)
					_, isK := model.ConstInt(cmp.Y)
					if ok && isK && sub.Op == token.SUB && model.DependsOn(sub.X, isTs) && model.DependsOn(sub.Y, isTs) {
						bounded = true
						// the gap test must not itself sit behind "minuend < subtrahend": then it is
						// only evaluated for differences that wrapped, and a forward jump of any size
						// reaches the loop untested
						if cb, isInstr := v.(ssa.Instruction); isInstr {
							fx, fy := model.LoadedField(model.Unwrap(sub.X)), model.LoadedField(model.Unwrap(sub.Y))
							for _, g := range model.Guards(cb.Block()) {
								gc, pol := model.StripNot(g.Cond, g.Polarity)
								gb, isB := gc.(*ssa.BinOp)
								if !isB || fx == nil || fy == nil {
									continue
								}
								ga, gbb := model.LoadedField(model.Unwrap(gb.X)), model.LoadedField(model.Unwrap(gb.Y))
								less := false // the edge implies sub.X < sub.Y
								switch {
								case ga == fx && gbb == fy:
									less = (gb.Op == token.LSS && pol) || (gb.Op == token.GEQ && !pol)
								case ga == fy && gbb == fx:
									less = (gb.Op == token.GTR && pol) || (gb.Op == token.LEQ && !pol)
								}
								if less {
									gapBehindLess = true
								}
							}
						}
					}
					return false
				})
			}
			if gapBehindLess {
				bounded = false
			}
			r.Check(bounded, "C05.LOOP", fkey(fn, "ts-loop", "bounded-gap"), p.InstrPos(exitIf), "timestamp-driven loop preceded by a constant bound on the timestamp gap", "the number of iterations (each calling into the fan-out) is a timestamp difference chosen by the publisher, with no bound: one message can occupy the stream's lock for minutes, or forever at the 32-bit wrap")
			// the exit comparison must not be computed in the timestamp's own 32-bit type when one
			// side is a sum: near 2^32 the sum wraps and the exit condition never becomes true
			cmp := exitIf.Cond.(*ssa.BinOp)
			wraps := false
			for _, side := range []ssa.Value{cmp.X, cmp.Y} {
				model.DependsOn(side, func(v ssa.Value) bool {
					if add, ok := v.(*ssa.BinOp); ok && add.Op == token.ADD {
						if b, isB := add.Type().Underlying().(*types.Basic); isB && (b.Kind() == types.Uint32 || b.Kind() == types.Int32) && model.DependsOn(add, isTs) {
							wraps = true
						}
					}
					return false
				})
			}
			r.Check(!wraps, "C05.LOOP", fkey(fn, "ts-loop", "wrap-free-exit"), p.InstrPos(exitIf), "the loop's exit test is computed wider than the 32-bit timestamp", "the loop's exit test adds to a 32-bit timestamp in 32 bits: for a timestamp within one step of 2^32 the sum wraps, the exit condition stays false and the loop emits messages until the process is killed")
		}
	}
	c05Count(p, r)
	c05Gate(p, r)
	c05Split(p, r)
	w5FeedAvSize(p, r, "C05.SIZE")
	c05Progress(p, r, "C05.PROGRESS", []string{"pkg/avc", "pkg/hevc", "pkg/aac", "pkg/h2645", "pkg/remux", "pkg/mpegts", "pkg/base"}, 5)
	r.Rule("C05.NILF", "fields that lal itself compares with nil somewhere (per-input state cleared when the input leaves, outputs created on demand) are, in every function reachable from the media entry points of the group, dereferenced only behind the non-nil edge of a test of the same field expression or a dominating non-nil store; reviewed exceptions are listed per (function, field)")
	{
		reach := p.Reachable(fanoutRoots(p), false, func(f *ssa.Function) bool { return model.IsLal(f) })
		var scope []*ssa.Function
		for f := range reach {
			if inFiles(p, f, c05Files) {
				scope = append(scope, f)
			}
		}
		nilFieldRule(p, r, "C05.NILF", scope, c05NilExceptions, 10, 10)
	}
	r.Count("timestamp_driven_loops", nLoops)
	if nLoops < 1 {
		r.Bad("C05.LOOP", "floor", "", "no timestamp-driven loop found (DummyAudioFilter.handleDummyStage expected)")
	}
}

func isInteger(t types.Type) bool {
	b, ok := t.Underlying().(*types.Basic)
	return ok && b.Info()&types.IsInteger != 0
}

var c05NilExceptions = []nilFieldException{
	{"logic.Group.OnFragmentOpen", "Group.rtmp2MpegtsRemuxer", "reached only from hls.Muxer.openFragment, which runs inside the remuxer's own callback chain (onFrame -> Group.OnTsPackets -> Muxer.FeedMpegts); delIn clears the field only after Dispose() returned"},
	{"logic.Group.feedWaitRtspSubSessions", "Group.sdpCtx", "both callers (OnSdp, onSdpFromRemux) assign group.sdpCtx = &sdpCtx in the statement before the call"},
	{"rtprtcp.RtpPacketList.PopFirst", "RtpPacketListItem.Next", "documented contract 'caller guarantees the list is not empty'; Size bookkeeping decided by C13.LIST / C07.R3"},
}
