package rules

import (
	"go/token"
	"go/types"
	"strings"

	"golang.org/x/tools/go/ssa"

	"lalverif/internal/model"
	"lalverif/internal/report"
)

func init() { register("C05", c05) }

// fanoutRoots: the entry points through which an accepted publisher's media enters a Group.
func fanoutRoots(p *model.Prog) []*ssa.Function {
	var roots []*ssa.Function
	for _, n := range []string{"OnReadRtmpAvMsg", "OnAvPacket", "OnAvPacketFromPsPubSession", "OnSdp", "OnRtpPacket"} {
		roots = append(roots, p.Method("pkg/logic", "Group", n))
	}
	for _, n := range []string{"FeedAudioSpecificConfig", "FeedAvPacket", "FeedRtmpMsg"} {
		roots = append(roots, p.Method("pkg/logic", "CustomizePubSessionContext", n))
	}
	return roots
}

var c05Files = []string{
	"pkg/base/t_rtmp.go", "pkg/base/avpacket", "pkg/base/merge_writer.go", "pkg/logic/group__core_streaming.go", "pkg/logic/customize_pubsession.go",
	"pkg/remux/", "pkg/avc/", "pkg/hevc/", "pkg/aac/", "pkg/h2645/", "pkg/mpegts/", "pkg/hls/muxer.go", "pkg/hls/fragment.go", "pkg/rtmp/metadata.go", "pkg/rtmp/amf0.go",
	"pkg/rtmp/chunk_divider.go", "pkg/httpflv/tag.go", "pkg/httpflv/flv_file_writer.go", "pkg/rtprtcp/rtp_pack", "pkg/rtprtcp/rtp.go", "pkg/rtprtcp/rtp_packet.go", "pkg/sdp/pack.go", "pkg/sdp/avconfig.go",
}

func inFiles(p *model.Prog, fn *ssa.Function, files []string) bool {
	pos := p.Pos(topFn(fn).Pos())
	for _, f := range files {
		if strings.HasPrefix(pos, f) {
			return true
		}
	}
	return false
}

func c05(p *model.Prog, r *report.Result) {
	r.Explanation = "Decides, for the group fan-out and everything below it (remuxers, codec parsers, TS packer, HLS muxer, RTP packers, SDP packer, GOP caches), the structural clauses of 'no published payload terminates the server': every index, slice, allocation size, division, unchecked type assertion and explicit terminator reachable from the media entry points of logic.Group with an arbitrary message is proved from dominating guards / inferred preconditions discharged at every caller, or listed (PO); every call-graph cycle there is depth-guarded or reviewed (REC); every loop whose exit depends on a message timestamp is preceded by a guard that bounds the timestamp difference by a constant (LOOP)."
	r.NotDecided = []string{"that other streams keep flowing (only via C15/C20)", "memory growth", "nil-pointer dereferences in general", "naza nazabytes.Buffer internals (trusted)"}
	r.Assumptions = []string{"64-bit int", "loads of the same field path are identified when the function does not assign the field", "Log.Assert does not terminate under the default assert_behavior"}
	roots := fanoutRoots(p)
	reach := p.Reachable(roots, false, func(f *ssa.Function) bool { return model.IsLal(f) || model.IsNaza(f) })
	r.Count("functions_analysed", len(reach))

	r.Rule("C05.PO", "engine B over the functions reachable from Group.OnReadRtmpAvMsg / OnAvPacket / OnAvPacketFromPsPubSession / OnSdp / OnRtpPacket / CustomizePubSessionContext.Feed* with arbitrary arguments: index<len, 0<=low<=high<=cap, divisor>=1, make size bounded, no unchecked type assertion, no process terminator")
	_, n := runPO(p, r, poConfig{rule: "C05.PO", roots: roots, filter: func(fn *ssa.Function) bool { return inFiles(p, fn, c05Files) }})
	if n < 400 {
		r.Bad("C05.PO", "floor", "", "fewer than 400 obligations enumerated for the fan-out surface")
	}

	r.Rule("C05.REC", "every call-graph cycle reachable from the media entry points is depth-guarded (or a reviewed state argument bounds re-entry)")
	for _, s := range recursiveSCCs(p, roots) {
		// client-side reconnect cycles are reached only through object-insensitive callbacks: C13
		client := false
		for _, f := range s.Funcs {
			if strings.Contains(model.FnName(f), "ClientSession") {
				client = true
			}
		}
		if client {
			continue
		}
		ok, why := s.depthGuarded()
		if !ok {
			if ok2, why2 := s.stateGuarded(p); ok2 {
				ok, why = true, why2
			} else {
				why = why + "; " + why2
			}
		}
		r.Check(ok, "C05.REC", "scc|"+s.Name(), p.Pos(s.Funcs[0].Pos()), why, "recursion reachable from published media: "+why)
	}

	r.Rule("C05.LOOP", "in pkg/remux and pkg/logic, every loop with an exit condition that depends on a timestamp field (TimestampAbs, Timestamp, Dts, Pts) of a message, and that calls out per iteration, is dominated by a guard comparing a difference of timestamp-dependent values with a constant")
	isTs := func(v ssa.Value) bool {
		f := model.LoadedField(v)
		if f == nil {
			return false
		}
		switch f.Name() {
		case "TimestampAbs", "Timestamp", "Dts", "Pts", "prevAudioTs":
			return true
		}
		return false
	}
	nLoops := 0
	for _, fn := range append(lalFuncsIn(p, "pkg/remux"), lalFuncsIn(p, "pkg/logic")...) {
		if _, ok := reach[fn]; !ok {
			continue
		}
		for _, l := range model.Loops(fn) {
			tsExit := false
			var exitIf *ssa.If
			calls := false
			for b := range l.Body {
				for _, in := range b.Instrs {
					if ci, ok := in.(ssa.CallInstruction); ok {
						if _, isB := ci.Common().Value.(*ssa.Builtin); !isB {
							calls = true
						}
					}
				}
				iff, ok := b.Instrs[len(b.Instrs)-1].(*ssa.If)
				if !ok {
					continue
				}
				leaves := !l.Body[b.Succs[0]] || !l.Body[b.Succs[1]]
				if leaves && model.DependsOn(iff.Cond, isTs) {
					if _, isCmp := iff.Cond.(*ssa.BinOp); isCmp && isInteger(iff.Cond.(*ssa.BinOp).X.Type()) {
						tsExit = true
						exitIf = iff
					}
				}
			}
			if !tsExit || !calls {
				continue
			}
			nLoops++
			// a guard before the loop: (tsA - tsB) cmp const
			bounded := false
			for _, b := range fn.Blocks {
				if l.Body[b] || !b.Dominates(l.Header) {
					continue
				}
				iff, ok := b.Instrs[len(b.Instrs)-1].(*ssa.If)
				if !ok {
					continue
				}
				model.DependsOn(iff.Cond, func(v ssa.Value) bool {
					cmp, ok := v.(*ssa.BinOp)
					if !ok {
						return false
					}
					switch cmp.Op {
					case token.GTR, token.GEQ, token.LSS, token.LEQ:
					default:
						return false
					}
					sub, ok := model.Unwrap(cmp.X).(*ssa.BinOp)
					_, isK := model.ConstInt(cmp.Y)
					if ok && isK && sub.Op == token.SUB && model.DependsOn(sub.X, isTs) && model.DependsOn(sub.Y, isTs) {
						bounded = true
					}
					return false
				})
			}
			r.Check(bounded, "C05.LOOP", fkey(fn, "ts-loop", "bounded-gap"), p.InstrPos(exitIf), "timestamp-driven loop preceded by a constant bound on the timestamp gap", "the number of iterations (each calling into the fan-out) is a timestamp difference chosen by the publisher, with no bound: one message can occupy the stream's lock for minutes, or forever at the 32-bit wrap")
		}
	}
	r.Count("timestamp_driven_loops", nLoops)
	if nLoops < 1 {
		r.Bad("C05.LOOP", "floor", "", "no timestamp-driven loop found (DummyAudioFilter.handleDummyStage expected)")
	}
}

func isInteger(t types.Type) bool {
	b, ok := t.Underlying().(*types.Basic)
	return ok && b.Info()&types.IsInteger != 0
}
