package rules

import (
	"fmt"
	"go/token"
	"go/types"
	"sort"
	"strings"

	"golang.org/x/tools/go/ssa"

	"lalverif/internal/model"
	"lalverif/internal/report"
)

// Contradiction rule for late-initialised / cleared fields (Engler et al.: "if one path checks a
// pointer for nil and another dereferences it unconditionally, one of them is wrong"). A struct
// field that lal itself compares with nil somewhere is believed to be nil at times; inside the
// given scope every dereference of such a field must then be protected: dominated by the
// non-nil edge of a test of the same field expression, or by a store of a non-nil value to it in
// the same function. Exceptions are frozen per (function, field) with a reason.

func sameLoad(a, b ssa.Value, d int) bool {
	if a == b {
		return true
	}
	if d > 8 {
		return false
	}
	switch x := a.(type) {
	case *ssa.UnOp:
		y, ok := b.(*ssa.UnOp)
		return ok && x.Op == y.Op && sameLoad(x.X, y.X, d+1)
	case *ssa.FieldAddr:
		y, ok := b.(*ssa.FieldAddr)
		return ok && x.Field == y.Field && sameLoad(x.X, y.X, d+1)
	case *ssa.Field:
		y, ok := b.(*ssa.Field)
		return ok && x.Field == y.Field && sameLoad(x.X, y.X, d+1)
	}
	return false
}

type nilFieldException struct {
	fn, field string // "pkg.Type.method", "Type.field"
	reason    string
}

func nilTestOf(c ssa.Value) (x ssa.Value, nonNilOnTrue bool, ok bool) {
	bo, isB := c.(*ssa.BinOp)
	if !isB || (bo.Op != token.EQL && bo.Op != token.NEQ) {
		return nil, false, false
	}
	switch {
	case model.IsNilConst(bo.Y):
		x = bo.X
	case model.IsNilConst(bo.X):
		x = bo.Y
	default:
		return nil, false, false
	}
	return x, bo.Op == token.NEQ, true
}

func fieldLabel(f *types.Var, owner map[*types.Var]string) string {
	if o, ok := owner[f]; ok {
		return o + "." + f.Name()
	}
	return f.Name()
}

func nilFieldRule(p *model.Prog, r *report.Result, rule string, scope []*ssa.Function, exceptions []nilFieldException, minBelieved, minDerefs int) {
	// owner names of fields (for messages and the exception table)
	owner := map[*types.Var]string{}
	for _, pk := range p.Pkgs {
		sc := pk.Types.Scope()
		for _, n := range sc.Names() {
			tn, ok := sc.Lookup(n).(*types.TypeName)
			if !ok {
				continue
			}
			st, isS := tn.Type().Underlying().(*types.Struct)
			if !isS {
				continue
			}
			for i := 0; i < st.NumFields(); i++ {
				owner[st.Field(i)] = tn.Name()
			}
		}
	}
	nilable := func(t types.Type) bool {
		switch t.Underlying().(type) {
		case *types.Pointer, *types.Interface, *types.Signature:
			return true
		}
		return false
	}
	// beliefs: fields compared with nil anywhere in lal
	believed := map[*types.Var]int{}
	for _, fn := range p.LalFuncs() {
		model.EachInstr(fn, func(in ssa.Instruction) {
			if bo, ok := in.(*ssa.BinOp); ok {
				if x, _, isT := nilTestOf(bo); isT {
					if f := model.LoadedField(x); f != nil && nilable(f.Type()) {
						believed[f]++
					}
				}
			}
		})
	}
	// a field whose only stores initialise a freshly allocated owner with the result of a call or
	// an allocation is never nil after construction: a nil test of it is vestigial, no belief
	type storeKinds struct{ ctor, other int }
	kinds := map[*types.Var]*storeKinds{}
	for _, fn := range p.LalFuncs() {
		model.EachInstr(fn, func(in ssa.Instruction) {
			st, ok := in.(*ssa.Store)
			if !ok {
				return
			}
			f := model.FieldOf(st.Addr)
			if f == nil || believed[f] == 0 {
				return
			}
			k := kinds[f]
			if k == nil {
				k = &storeKinds{}
				kinds[f] = k
			}
			fresh := false
			if fa, isFA := st.Addr.(*ssa.FieldAddr); isFA {
				_, fresh = fa.X.(*ssa.Alloc)
			}
			nonNil := false
			switch v := st.Val.(type) {
			case *ssa.Call:
				nonNil = true
			case *ssa.Alloc, *ssa.MakeInterface, *ssa.MakeClosure, *ssa.Function:
				nonNil = true
				if mi, isMI := v.(*ssa.MakeInterface); isMI {
					switch mi.X.(type) {
					case *ssa.Call, *ssa.Alloc:
					default:
						nonNil = false
					}
				}
			}
			if fresh && nonNil {
				k.ctor++
			} else {
				k.other++
			}
		})
	}
	for f, k := range kinds {
		if k.ctor > 0 && k.other == 0 {
			delete(believed, f)
		}
	}
	// derefsRecv: the method touches memory through its receiver (so a nil receiver panics)
	derefMemo := map[*ssa.Function]bool{}
	derefsRecv := func(fn *ssa.Function) bool {
		if v, ok := derefMemo[fn]; ok {
			return v
		}
		res := false
		if fn.Blocks == nil {
			res = true
		} else if len(fn.Params) > 0 {
			recv := fn.Params[0]
			model.EachInstr(fn, func(in ssa.Instruction) {
				switch x := in.(type) {
				case *ssa.FieldAddr:
					if x.X == ssa.Value(recv) && !model.GuardedBy(in, func(c ssa.Value, pol bool) bool {
						t, nn, ok := nilTestOf(c)
						return ok && t == ssa.Value(recv) && nn == pol
					}) {
						res = true
					}
				case *ssa.UnOp:
					if x.Op == token.MUL && x.X == ssa.Value(recv) {
						res = true
					}
				}
			})
		}
		derefMemo[fn] = res
		return res
	}
	exc := map[string]string{}
	for _, e := range exceptions {
		exc[e.fn+"|"+e.field] = e.reason
	}
	usedExc := map[string]bool{}
	nDeref := 0
	sort.Slice(scope, func(i, j int) bool { return model.FnName(scope[i]) < model.FnName(scope[j]) })
	for _, fn := range scope {
		if fn.Blocks == nil {
			continue
		}
		model.EachInstr(fn, func(in ssa.Instruction) {
			var v ssa.Value // the (possibly nil) value being dereferenced
			how := ""
			switch x := in.(type) {
			case ssa.CallInstruction:
				c := x.Common()
				switch {
				case c.IsInvoke():
					v, how = c.Value, "method call on the interface"
				default:
					if _, isF := c.Value.(*ssa.Function); !isF {
						if _, isB := c.Value.(*ssa.Builtin); !isB {
							if _, isC := c.Value.(*ssa.MakeClosure); !isC {
								v, how = c.Value, "call of the function value"
							}
						}
					}
					if ce := c.StaticCallee(); ce != nil && ce.Signature.Recv() != nil && len(c.Args) > 0 {
						if _, isP := ce.Signature.Recv().Type().(*types.Pointer); isP && derefsRecv(ce) {
							v, how = c.Args[0], "call of "+ce.Name()+"(), which uses its receiver"
						}
					}
				}
			case *ssa.FieldAddr:
				v, how = x.X, "field access"
			case *ssa.UnOp:
				if x.Op == token.MUL {
					if _, isPP := x.X.Type().Underlying().(*types.Pointer); isPP {
						if _, isFA := x.X.(*ssa.FieldAddr); !isFA {
							if _, isAl := x.X.(*ssa.Alloc); !isAl {
								v, how = x.X, "load through the pointer"
							}
						}
					}
				}
			}
			if v == nil {
				return
			}
			f := model.LoadedField(v)
			if f == nil || believed[f] == 0 || !nilable(f.Type()) {
				return
			}
			nDeref++
			// protected by a dominating non-nil test of the same expression?
			if model.GuardedBy(in, func(c ssa.Value, pol bool) bool {
				t, nn, ok := nilTestOf(c)
				return ok && nn == pol && sameLoad(t, v, 0)
			}) {
				return
			}
			// ... or by a dominating store of a non-nil value to the same field expression
			ld, _ := v.(*ssa.UnOp)
			stored := false
			if ld != nil {
				model.EachInstr(fn, func(in2 ssa.Instruction) {
					if st, ok := in2.(*ssa.Store); ok && !model.IsNilConst(st.Val) && sameLoad(st.Addr, ld.X, 0) && model.InstrDominates(st, in) {
						stored = true
					}
				})
			}
			if stored {
				return
			}
			label := fieldLabel(f, owner)
			k := model.FnName(fn) + "|" + label
			if why, ok := exc[k]; ok {
				usedExc[k] = true
				r.Assume(rule, fkey(fn, "nil-believed", label), p.InstrPos(in), "reviewed exception: "+why)
				return
			}
			r.Bad(rule, fkey(fn, "nil-believed", label), p.InstrPos(in), fmt.Sprintf("%s of %s without a nil test, although lal tests this field for nil at %d other place(s) (it is unset until a later protocol step, or cleared at teardown): a peer that makes this code run in that state dereferences nil and terminates the process", how, label, believed[f]))
		})
	}
	for _, e := range exceptions {
		if !usedExc[e.fn+"|"+e.field] {
			r.Bad(rule, "exception|"+e.fn+"|"+e.field, "", "a reviewed exception no longer matches any dereference: the table must follow the code ("+strings.TrimSpace(e.reason)+")")
		}
	}
	r.Count("nil_believed_fields", len(believed))
	r.Count("nil_believed_derefs_in_scope", nDeref)
	if len(believed) < minBelieved || nDeref < minDerefs {
		r.Bad(rule, "floor", "", fmt.Sprintf("only %d nil-tested fields / %d dereferences in scope found", len(believed), nDeref))
	}
}
