package rules

import (
	"golang.org/x/tools/go/ssa"

	"lalverif/internal/model"
	"lalverif/internal/report"
)

// c10r910: every closed segment is recorded; the fragment ring has a spare slot.
func c10r910(p *model.Prog, r *report.Result) {
	r.Rule("C10.R9", "Muxer.writeRecordPlaylist reaches writeM3u8File on every path from its entry, except across the error edge of a file-system/update call (err != nil): no property of the closed segment (its duration, its position) makes it skip the record playlist, which has to list every segment ever produced")
	fn := p.Method("pkg/hls", "Muxer", "writeRecordPlaylist")
	wObj := p.FuncObj("pkg/hls", "writeM3u8File")
	isErrEdge := func(b *ssa.BasicBlock, k int) bool {
		iff, ok := b.Instrs[len(b.Instrs)-1].(*ssa.If)
		if !ok {
			return false
		}
		x, nonNil, isT := nilTestOf(iff.Cond)
		if !isT {
			return false
		}
		if _, isErr := x.Type().Underlying().(interface{ NumMethods() int }); !isErr {
			return false
		}
		if x.Type().String() != "error" {
			return false
		}
		// the edge on which err != nil
		return (k == 0) == nonNil
	}
	writes := model.CallsTo(fn, wObj)
	miss := model.PathQuery{
		Stop: func(in ssa.Instruction) bool {
			c, ok := in.(ssa.CallInstruction)
			return ok && model.SameFunc(model.CalleeObj(c.Common()), wObj)
		},
		StopEdge: isErrEdge,
		Target:   func(in ssa.Instruction) bool { _, ok := in.(*ssa.Return); return ok },
	}.Find(fn)
	pos := p.Pos(fn.Pos())
	if miss != nil {
		pos = p.InstrPos(miss)
	}
	r.Check(miss == nil && len(writes) >= 1, "C10.R9", fkey(fn, "record", "every-segment"), pos, "every closed segment is written to the record playlist", "writeRecordPlaylist can return without writing the playlist for a reason other than an I/O error: a segment that was produced (and listed in the live playlist) is missing from the record playlist")

	r.Rule("C10.R10", "Muxer.fragsCapacity() = FragmentNum + DeleteThreshold + c with c >= 1: getDeleteFrag returns the slot that is about to be re-used, so without the spare slot every segment is removed one playlist version early")
	capFn := p.Method("pkg/hls", "Muxer", "fragsCapacity")
	fragNum := p.Field("pkg/hls", "MuxerConfig", "FragmentNum")
	delThr := p.Field("pkg/hls", "MuxerConfig", "DeleteThreshold")
	ok := false
	for _, ret := range model.ReturnsOf(capFn) {
		rvs := model.ReturnValues(ret)
		if len(rvs) != 1 {
			continue
		}
		terms, k := linTerms(rvs[0])
		nF, nD, other := 0, 0, 0
		for v, c := range terms {
			switch model.LoadedField(v) {
			case fragNum:
				nF += c
			case delThr:
				nD += c
			default:
				other++
			}
		}
		ok = nF == 1 && nD == 1 && other == 0 && k >= 1
	}
	r.Check(ok, "C10.R10", fkey(capFn, "ring", "spare-slot"), p.Pos(capFn.Pos()), "FragmentNum + DeleteThreshold + 1", "the fragment ring has no spare slot beyond fragment_num + delete_threshold: the slot handed to getDeleteFrag still belongs to a segment that the last delete_threshold playlist versions list, and with cleanup_mode asap its file is removed while players still fetch it")
	w6DeleteSlot(p, r, "C10.R11")
	w6VideoBoundaryKey(p, r, "C10.R12")
	w7TsFileName(p, r, "C10.R13")
	w8CacheResetWithRefill(p, r, "C10.R14")
	w8TsNameClock(p, r, "C10.R15")
	w9CutsetMisuse(p, r, "C10.R16", "pkg/hls", "pkg/logic")
}
