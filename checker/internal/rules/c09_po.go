package rules

import (
	"go/token"

	"golang.org/x/tools/go/ssa"

	"lalverif/internal/model"
	"lalverif/internal/po"
	"lalverif/internal/report"
)

// c09Placement: packet-window arithmetic of mpegts.Frame.Pack as linear obligations (engine B)
// plus the bit placement of PTS/DTS/PCR (shared with C06.R5).
func c09Placement(p *model.Prog, r *report.Result) { c09PlacementAs(p, r, "C09.R4", "C09.R5") }

func c09PlacementAs(p *model.Prog, r *report.Result, r4, r5 string) {
	r.Rule(r4, "in Frame.Pack, on the stuffing path: the elementary payload copied last ends exactly at byte 188 of the packet (write position + remaining payload == 188); every 0xFF stuffing byte is written inside [insertion point, start of the moved header); the insertion point of the branch that already has an adaptation field is 5 + adaptation_field_length; the value whose two bytes are written as PES_packet_length is proved <= 0xFFFF")
	pack := p.Method("pkg/mpegts", "Frame", "Pack")
	rawF := p.Field("pkg/mpegts", "Frame", "Raw")
	// the packet window: a Slice of buf with High = Low+188
	isPacket := func(v ssa.Value) bool {
		sl, ok := v.(*ssa.Slice)
		if !ok || sl.High == nil || sl.Low == nil {
			return false
		}
		b, k := linear(sl.High)
		b2, k2 := linear(sl.Low)
		return b == b2 && k-k2 == 188
	}
	// the two header-moving copies: copy(packet[A+stuff:], packet[A:wpos])
	type mv struct {
		call     *ssa.Call
		from, to ssa.Value // src.Low, dst.Low
	}
	var moves []mv
	var payloadCopies []*ssa.Call
	model.EachInstr(pack, func(in ssa.Instruction) {
		c, ok := in.(*ssa.Call)
		if !ok {
			return
		}
		b, isB := c.Call.Value.(*ssa.Builtin)
		if !isB || b.Name() != "copy" {
			return
		}
		dst, ok1 := c.Call.Args[0].(*ssa.Slice)
		src, ok2 := c.Call.Args[1].(*ssa.Slice)
		if !ok1 || !ok2 || !isPacket(dst.X) {
			return
		}
		if isPacket(src.X) && src.Low != nil && dst.Low != nil {
			moves = append(moves, mv{c, src.Low, dst.Low})
		} else if model.IsLoadOfField(src.X, rawF) {
			payloadCopies = append(payloadCopies, c)
		}
	})
	if len(moves) != 2 || len(payloadCopies) != 2 {
		r.Bad(r4, fkey(pack, "shape", "copies"), p.Pos(pack.Pos()), "expected the two header-moving copies and the two payload copies of Frame.Pack")
		return
	}
	// the payload copy on the stuffing path is the one reached from a header move
	var stuffCopy *ssa.Call
	for _, pc := range payloadCopies {
		if (model.PathQuery{From: moves[0].call, Target: func(in ssa.Instruction) bool { return in == ssa.Instruction(pc) }, LoopHeader: loopHeaderOf(pack, moves[0].call.Block())}).Find(pack) != nil {
			stuffCopy = pc
		}
	}
	if stuffCopy == nil {
		r.Bad(r4, fkey(pack, "shape", "stuff-copy"), p.Pos(pack.Pos()), "the payload copy of the stuffing path was not found")
		return
	}
	// insertion point of the has-adaptation branch: 5 + packet[4]
	for _, m := range moves {
		t, k := linTerms(m.from)
		if len(t) == 0 {
			r.Check(k == 4, r4, fkey(pack, "insert", "no-adaptation"), p.InstrPos(m.call), "header moved from offset 4", "the branch without adaptation field moves the header from an offset other than 4")
			continue
		}
		good := len(t) == 1 && k == 5
		for v := range t {
			u := model.Unwrap(v)
			ld, ok := u.(*ssa.UnOp)
			if !ok {
				good = false
				continue
			}
			ia, ok := ld.X.(*ssa.IndexAddr)
			idx, isK := int64(-1), false
			if ok {
				idx, isK = model.ConstInt(ia.Index)
			}
			if !ok || !isK || idx != 4 || !isPacket(ia.X) {
				good = false
			}
		}
		r.Check(good, r4, fkey(pack, "insert", "has-adaptation"), p.InstrPos(m.call), "insertion point = 5 + adaptation_field_length", "the stuffing of a packet that already has an adaptation field is inserted at "+termsString(t, k)+" instead of 5 + adaptation_field_length: the last PCR byte is overwritten and the PES header shifted wrongly (key frames shorter than one packet)")
	}
	// the If that separates the two stuffing branches: each successor dominates one header move
	branchOf := func(b *ssa.BasicBlock) int { return -1 }
	for _, d := range pack.Blocks {
		if _, ok := d.Instrs[len(d.Instrs)-1].(*ssa.If); !ok || len(d.Succs) != 2 {
			continue
		}
		dom := func(s, x *ssa.BasicBlock) bool { return s == x || s.Dominates(x) }
		m0, m1 := moves[0].call.Block(), moves[1].call.Block()
		if (dom(d.Succs[0], m0) && dom(d.Succs[1], m1)) || (dom(d.Succs[0], m1) && dom(d.Succs[1], m0)) {
			dd := d
			branchOf = func(b *ssa.BasicBlock) int {
				for k, s := range dd.Succs {
					if dom(s, b) {
						return k
					}
				}
				return -1
			}
		}
	}
	sameBranch := func(a, b *ssa.BasicBlock) bool { return branchOf(a) >= 0 && branchOf(a) == branchOf(b) }
	// destination slices of block copies from a constant filler (a package-level byte block)
	fillerDst := map[*ssa.Slice]*ssa.Call{}
	model.EachInstr(pack, func(in ssa.Instruction) {
		c, ok := in.(*ssa.Call)
		if !ok {
			return
		}
		if b, isB := c.Call.Value.(*ssa.Builtin); !isB || b.Name() != "copy" {
			return
		}
		dst, isS := c.Call.Args[0].(*ssa.Slice)
		if !isS || !isPacket(dst.X) || dst.Low == nil || dst.High == nil {
			return
		}
		srcRoot := c.Call.Args[1]
		if sl, isSl := srcRoot.(*ssa.Slice); isSl {
			srcRoot = sl.X
		}
		if _, fromGlobal := loadOfGlobal(srcRoot); fromGlobal {
			fillerDst[dst] = c
		}
	})
	extra := func(fn *ssa.Function, in ssa.Instruction, lin func(ssa.Value) po.Lin, seqLen func(ssa.Value) po.Lin) []po.ExtraOb {
		if fn != pack {
			return nil
		}
		var out []po.ExtraOb
		if in == ssa.Instruction(stuffCopy) {
			dst := stuffCopy.Call.Args[0].(*ssa.Slice)
			src := stuffCopy.Call.Args[1].(*ssa.Slice)
			end := lin(dst.Low).Add(lin(src.High).Sub(lin(src.Low)))
			out = append(out, po.ExtraOb{Kind: "ts-payload-end", Expr: "wpos+inSize==188", Goals: []po.Ineq{{L: po.Const(188).Sub(end), Why: "payload ends at or before byte 188"}, {L: end.Sub(po.Const(188)), Why: "payload ends at or after byte 188"}}})
		}
		// stuffing written as one block copy from a constant filler (copy(packet[a:b], filler)):
		// the block lies between the insertion point and the moved header. Stated at the slice
		// expression itself, so that its own success is not among the facts.
		if dst, ok := in.(*ssa.Slice); ok && fillerDst[dst] != nil {
			c := fillerDst[dst]
			for _, m := range moves {
				if !sameBranch(m.call.Block(), c.Block()) {
					continue
				}
				out = append(out, po.ExtraOb{Kind: "ts-stuffing-range", Expr: "filler@" + valueToken(dst.Low), Goals: []po.Ineq{
					{L: lin(dst.Low).Sub(lin(m.from)), Why: "stuffing at or after the insertion point"},
					{L: lin(m.to).Sub(lin(dst.High)), Why: "stuffing ends before the moved header"},
					{L: lin(dst.High).Sub(lin(dst.Low)), Why: "the stuffing block is not inverted (its end is not before its start)"}}})
			}
		}
		if st, ok := in.(*ssa.Store); ok {
			if k, isK := model.ConstInt(st.Val); isK && k == 0xFF {
				if ia, ok := st.Addr.(*ssa.IndexAddr); ok && isPacket(ia.X) {
					for _, m := range moves {
						// same branch: the move's block and the store share the dominating stuffing-branch successor
						if !sameBranch(m.call.Block(), st.Block()) {
							continue
						}
						out = append(out, po.ExtraOb{Kind: "ts-stuffing-range", Expr: "0xFF@" + valueToken(ia.Index), Goals: []po.Ineq{
							{L: lin(ia.Index).Sub(lin(m.from)), Why: "stuffing at or after the insertion point"},
							{L: lin(m.to).Sub(lin(ia.Index)).Sub(po.Const(1)), Why: "stuffing before the moved header"}}})
					}
				}
			}
			// adaptation_field_length written from a computed size: packet[4] = uint8(X)
			if cv, ok := st.Val.(*ssa.Convert); ok {
				if ia, ok := st.Addr.(*ssa.IndexAddr); ok && isPacket(ia.X) {
					if k, isK := model.ConstInt(ia.Index); isK && k == 4 {
						if _, isC := cv.X.(*ssa.Const); !isC {
							out = append(out, po.ExtraOb{Kind: "ts-adaptation-length", Expr: "adaptation_field_length", Goals: []po.Ineq{{L: lin(cv.X), Why: "adaptation_field_length >= 0 (a packet that gets the adaptation flag has at least the length byte inserted)"}}})
						}
					}
				}
			}
			// PES_packet_length high byte: uint8(X >> 8) stored next to uint8(X & 0xFF)
			if cv, ok := st.Val.(*ssa.Convert); ok {
				if sh, ok := cv.X.(*ssa.BinOp); ok && sh.Op == token.SHR {
					if k, isK := model.ConstInt(sh.Y); isK && k == 8 {
						if ia, ok := st.Addr.(*ssa.IndexAddr); ok && isPacket(ia.X) && !isK0(sh.X) {
							out = append(out, po.ExtraOb{Kind: "ts-pes-length-fits", Expr: "PES_packet_length", Goals: []po.Ineq{{L: po.Const(0xFFFF).Sub(lin(sh.X)), Why: "the 16-bit PES_packet_length holds the value"}, {L: lin(sh.X), Why: "PES_packet_length >= 0"}}})
						}
					}
				}
			}
		}
		return out
	}
	kinds := map[string]bool{"ts-payload-end": true, "ts-stuffing-range": true, "ts-pes-length-fits": true, "ts-adaptation-length": true}
	_, n := runPO(p, r, poConfig{rule: r4, roots: []*ssa.Function{pack}, filter: func(fn *ssa.Function) bool { return fn == pack }, kinds: kinds, extra: extra})
	if n < 4 {
		r.Bad(r4, "floor", p.Pos(pack.Pos()), "fewer than 4 placement obligations generated for Frame.Pack")
	}

	if r5 == "" {
		return
	}
	r.Rule(r5, "mpegts.packPts / packPcr place the 33 time-stamp bits and the markers at the ISO 13818-1 positions (same table as C06.R5)")
	pts := p.Func("pkg/mpegts", "packPts")
	checkBitLayout(p, r, r5, pts, pts.Params[2], ptsLayout(), "packPts")
}

func isK0(v ssa.Value) bool { _, ok := v.(*ssa.Const); return ok }

func loopHeaderOf(fn *ssa.Function, b *ssa.BasicBlock) *ssa.BasicBlock {
	for _, l := range model.Loops(fn) {
		if l.Body[b] {
			return l.Header
		}
	}
	return nil
}
