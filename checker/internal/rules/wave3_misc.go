package rules

import (
	"fmt"
	"go/token"
	"go/types"
	"strings"

	"golang.org/x/tools/go/ssa"

	"lalverif/internal/model"
	"lalverif/internal/report"
)

// c01r9: a vector of buffers handed to Writev is not shared between the sessions of a loop.
func c01r9(p *model.Prog, r *report.Result) {
	r.Rule("C01.R9", "in pkg/logic every Writev(bs) on a session inside a loop over sessions is given a vector created inside that loop iteration (make + copy of the slice headers): net.Buffers.WriteTo / the connection's writev consume the vector (entries are set to nil as they are sent), so a vector shared by two subscribers leaves the second one with holes")
	n := 0
	for _, fn := range lalFuncsIn(p, "pkg/logic") {
		loops := model.Loops(fn)
		for _, ci := range model.AllCalls(fn) {
			c := ci.Common()
			name := ""
			if c.IsInvoke() {
				name = c.Method.Name()
			} else if o := model.CalleeObj(c); o != nil {
				name = o.Name()
			}
			if name != "Writev" {
				continue
			}
			var inner *model.Loop
			for _, l := range loops {
				if l.Body[ci.Block()] && (inner == nil || len(l.Body) < len(inner.Body)) {
					inner = l
				}
			}
			if inner == nil {
				continue
			}
			n++
			arg := c.Args[len(c.Args)-1]
			fresh := false
			if in, ok := arg.(ssa.Instruction); ok && inner.Body[in.Block()] {
				switch x := arg.(type) {
				case *ssa.MakeSlice:
					fresh = true
				case *ssa.Call:
					// append(net.Buffers(nil), bs...) / append([]..{}, bs...) also makes a private vector
					if b, isB := x.Call.Value.(*ssa.Builtin); isB && b.Name() == "append" {
						base := model.Unwrap(x.Call.Args[0])
						if model.IsNilConst(base) {
							fresh = true
						}
						if sl, isSl := base.(*ssa.Slice); isSl {
							if a, isA := sl.X.(*ssa.Alloc); isA && inner.Body[a.Block()] {
								fresh = true
							}
						}
					}
				}
			}
			r.Check(fresh, "C01.R9", fkey(fn, "writev", "per-session-vector"), p.InstrPos(ci), "vector made inside the iteration", "the same net.Buffers vector is handed to Writev for every session of the loop: the first session's write consumes it (sent entries become nil), the other sessions skip that data - whole batches of messages are missing for them")
		}
	}
	if n < 1 {
		r.Bad("C01.R9", "floor", "", "no Writev call inside a session loop found in pkg/logic")
	}
}

// c06r9: the pre-analysis queue of the TS remuxer hands on every message it is given.
func c06r9(p *model.Prog, r *report.Result, rule string) {
	r.Rule(rule, "rtmp2MpegtsFilter.Push: every path from entry to return either appends the message (or its Clone) to q.data or passes it to observer.onPop: the message that makes the queue reach its limit is not dropped")
	fn := p.Method("pkg/remux", "rtmp2MpegtsFilter", "Push")
	dataF := p.Field("pkg/remux", "rtmp2MpegtsFilter", "data")
	msgP := fn.Params[1]
	fromMsg := func(v ssa.Value) bool {
		return model.DependsOn(v, func(x ssa.Value) bool {
			if x == ssa.Value(msgP) {
				return true
			}
			// the spill cell of the by-value parameter
			if u, ok := x.(*ssa.UnOp); ok && u.Op == token.MUL {
				if a, isA := u.X.(*ssa.Alloc); isA {
					for _, ref := range *a.Referrers() {
						if st, isS := ref.(*ssa.Store); isS && st.Val == ssa.Value(msgP) {
							return true
						}
					}
				}
			}
			return false
		})
	}
	keeps := func(in ssa.Instruction) bool {
		switch x := in.(type) {
		case *ssa.Store:
			if model.FieldOf(x.Addr) == dataF {
				if c, ok := x.Val.(*ssa.Call); ok {
					if b, isB := c.Call.Value.(*ssa.Builtin); isB && b.Name() == "append" {
						for _, e := range variadicElems(c.Call.Args[1]) {
							if fromMsg(e) {
								return true
							}
						}
					}
				}
			}
		case ssa.CallInstruction:
			if x.Common().IsInvoke() && x.Common().Method.Name() == "onPop" && len(x.Common().Args) == 1 && fromMsg(x.Common().Args[0]) {
				return true
			}
		}
		return false
	}
	miss := model.PathQuery{Stop: keeps, Target: func(in ssa.Instruction) bool { _, ok := in.(*ssa.Return); return ok }}.Find(fn)
	pos := p.Pos(fn.Pos())
	if miss != nil {
		pos = p.InstrPos(miss)
	}
	r.Check(miss == nil, rule, fkey(fn, "conserve", "message-kept-or-popped"), pos, "message queued or handed on on every path", "a path through Push returns without queueing the message or handing it on: the message that trips the queue limit is lost - one frame of every single-track stream never reaches TS / HLS / the recording")
}

// c12r8: codec-specific NAL type tests run only for their codec.
func c12r8As(p *model.Prog, r *report.Result, rule string) {
	r.Rule(rule, "in rtprtcp.RtpPackerPayloadAvcHevc every call of avc.ParseNaluType is dominated by the edge payloadType == AvPacketPtAvc and every call of hevc.ParseNaluType by the opposite edge (or payloadType == AvPacketPtHevc): the two codecs number their NAL types differently (an H.264 SPS written with nal_ref_idc 2, 0x47, reads as HEVC type 35 = access unit delimiter and would be dropped)")
	ptF := p.Field("pkg/rtprtcp", "RtpPackerPayloadAvcHevc", "payloadType")
	avcK := constU(p, "pkg/base", "AvPacketPtAvc")
	hevcK := constU(p, "pkg/base", "AvPacketPtHevc")
	n := 0
	for _, fn := range lalFuncsIn(p, "pkg/rtprtcp") {
		if recvName(topFn(fn)) != "RtpPackerPayloadAvcHevc" {
			continue
		}
		for _, ci := range model.AllCalls(fn) {
			o := model.CalleeObj(ci.Common())
			if o == nil || o.Name() != "ParseNaluType" || o.Pkg() == nil {
				continue
			}
			isAvc := strings.HasSuffix(o.Pkg().Path(), "/pkg/avc")
			isHevc := strings.HasSuffix(o.Pkg().Path(), "/pkg/hevc")
			if !isAvc && !isHevc {
				continue
			}
			n++
			ok := model.GuardedBy(ci, func(c ssa.Value, pol bool) bool {
				c, pol = model.StripNot(c, pol)
				bo, isB := c.(*ssa.BinOp)
				if !isB || (bo.Op != token.EQL && bo.Op != token.NEQ) {
					return false
				}
				var k int64
				var isK bool
				switch {
				case model.IsLoadOfField(bo.X, ptF):
					k, isK = model.ConstInt(bo.Y)
				case model.IsLoadOfField(bo.Y, ptF):
					k, isK = model.ConstInt(bo.X)
				}
				if !isK {
					return false
				}
				eq := pol == (bo.Op == token.EQL)
				if isAvc {
					return eq && k == avcK
				}
				return (eq && k == hevcK) || (!eq && k == avcK)
			})
			codec := "HEVC"
			if isAvc {
				codec = "AVC"
			}
			r.Check(ok, rule, fkey(fn, "naltype", codec), p.InstrPos(ci), "applied under the matching payload type", fmt.Sprintf("the %s NAL type of a unit is evaluated without the packer being in %s mode: header bytes of the other codec are misread (e.g. H.264 0x46/0x47 read as HEVC type 35 'AUD') and units are dropped from, or wrongly kept in, the RTP stream", codec, codec))
		}
	}
	if n < 2 {
		r.Bad(rule, "floor", "", fmt.Sprintf("only %d ParseNaluType calls found in the AVC/HEVC payload packer", n))
	}
}

// c15r5: the liveness sweep disposes every subscriber that is not write-alive.
func c15r5(p *model.Prog, r *report.Result) {
	r.Rule("C15.R5", "in Group.disposeInactiveSessions, for every IsAlive() call on an output session (the loops over the subscriber sets and push proxies): every path from the call to the end of that iteration tests the write-alive result, and the not-write-alive edge leads to Dispose() on every path: no other condition (read activity such as RTCP from the peer) keeps a subscriber that accepts no data connected")
	fn := p.Method("pkg/logic", "Group", "disposeInactiveSessions")
	n := 0
	isAliveCall := func(ci ssa.CallInstruction) (*ssa.Call, bool) {
		c, ok := ci.(*ssa.Call)
		if !ok {
			return nil, false
		}
		name := ""
		if c.Call.IsInvoke() {
			name = c.Call.Method.Name()
		} else if o := model.CalleeObj(&c.Call); o != nil {
			name = o.Name()
		}
		return c, name == "IsAlive"
	}
	// site: one IsAlive() call c in g; the iteration ends at g's return or at the loop header hdr
	site := func(g *ssa.Function, c *ssa.Call, hdr *ssa.BasicBlock) {
		var wa ssa.Value
		for _, ref := range *c.Referrers() {
			if ex, isE := ref.(*ssa.Extract); isE && ex.Index == 1 {
				wa = ex
			}
		}
		isWaIf := func(b *ssa.BasicBlock) (notAliveSucc int, ok bool) {
			iff, isIf := b.Instrs[len(b.Instrs)-1].(*ssa.If)
			if !isIf || wa == nil {
				return 0, false
			}
			cc, pol := model.StripNot(iff.Cond, true)
			if cc != wa {
				return 0, false
			}
			// pol: succ 0 is taken when writeAlive is true
			if pol {
				return 1, true
			}
			return 0, true
		}
		endOfIter := func(in ssa.Instruction) bool {
			if _, isR := in.(*ssa.Return); isR {
				return true
			}
			return hdr != nil && in == hdr.Instrs[0]
		}
		unconsulted := model.PathQuery{From: c, StopEdge: func(b *ssa.BasicBlock, k int) bool { _, is := isWaIf(b); return is }, Target: endOfIter}.Find(g)
		// from the not-alive edge every path reaches Dispose
		skipped := false
		for _, b := range g.Blocks {
			if k, is := isWaIf(b); is {
				miss := model.PathQuery{FromBlock: b.Succs[k], Stop: func(in ssa.Instruction) bool {
					cc, isC := in.(ssa.CallInstruction)
					if !isC {
						return false
					}
					if cc.Common().IsInvoke() {
						return cc.Common().Method.Name() == "Dispose"
					}
					o := model.CalleeObj(cc.Common())
					return o != nil && o.Name() == "Dispose"
				}, Target: endOfIter}.Find(g)
				if miss != nil {
					skipped = true
				}
			}
		}
		r.Check(unconsulted == nil && !skipped && wa != nil, "C15.R5", fkey(g, "sweep", "write-alive-decides"), p.InstrPos(c), "not write-alive => disposed", "the sweep can leave a subscriber connected although it is not write-alive (another condition, e.g. read activity, is required as well or instead): a player that stopped reading but keeps sending RTCP is never disconnected, its queue stays pinned")
	}
	helpersDone := map[*ssa.Function]bool{}
	for _, ci := range model.AllCalls(fn) {
		if c, is := isAliveCall(ci); is {
			hdr := loopHeaderOf(fn, c.Block())
			if hdr == nil {
				continue // the publisher checks are not inside a loop; they use read liveness
			}
			n++
			site(fn, c, hdr)
			continue
		}
		// a same-package helper called inside a subscriber loop that asks IsAlive() of its parameter
		ce := ci.Common().StaticCallee()
		if ce == nil || ce.Blocks == nil || ce.Pkg != fn.Pkg || loopHeaderOf(fn, ci.Block()) == nil {
			continue
		}
		for _, hc := range model.AllCalls(ce) {
			c, is := isAliveCall(hc)
			if !is {
				continue
			}
			if _, onParam := receiver(c.Common()).(*ssa.Parameter); !onParam {
				continue
			}
			n++
			if !helpersDone[ce] {
				site(ce, c, nil)
			}
		}
		helpersDone[ce] = true
	}
	if n < 4 {
		r.Bad("C15.R5", fkey(fn, "sweep", "floor"), p.Pos(fn.Pos()), fmt.Sprintf("only %d IsAlive() calls inside the subscriber loops found", n))
	}
}

// c14r12: the Digest nonce is random.
func c14r12(p *model.Prog, r *report.Result) {
	r.Rule("C14.R12", "rtsp.Auth.nonce(): the buffer handed to crypto/rand.Read is a make([]byte, n) with a constant length n >= 16 (a zero-length buffer makes the fill loop a no-op and every session gets the same nonce, so a captured Digest header replays on any connection), and the value returned depends on that buffer")
	fn := p.Method("pkg/rtsp", "Auth", "nonce")
	var buf ssa.Value
	bufLen := int64(-1)
	okRead := false
	for _, ci := range model.AllCalls(fn) {
		o := model.CalleeObj(ci.Common())
		if o == nil || o.Pkg() == nil || o.Pkg().Path() != "crypto/rand" || o.Name() != "Read" {
			continue
		}
		model.DependsOn(ci.Common().Args[0], func(v ssa.Value) bool {
			switch ms := v.(type) {
			case *ssa.MakeSlice:
				if k, isK := model.ConstInt(ms.Len); isK {
					buf, bufLen = ms, k
				}
			case *ssa.Slice:
				// a constant-size make is lowered to new [N]byte + slice[:len]
				if a, isA := ms.X.(*ssa.Alloc); isA && a.Comment == "makeslice" {
					if ms.High != nil {
						if k, isK := model.ConstInt(ms.High); isK {
							buf, bufLen = ms, k
						}
					} else if n, okN := arrayLenOf(a.Type()); okN {
						buf, bufLen = ms, n
					}
				}
			}
			return false
		})
		okRead = true
	}
	lenOK := buf != nil && bufLen >= 16
	retOK := false
	for _, ret := range model.ReturnsOf(fn) {
		for _, rv := range model.ReturnValues(ret) {
			if buf != nil && model.DependsOn(rv, func(v ssa.Value) bool { return v == buf }) {
				retOK = true
			}
		}
	}
	r.Check(okRead && lenOK && retOK, "C14.R12", fkey(fn, "nonce", "random"), p.Pos(fn.Pos()), "nonce built from >= 16 random bytes", "the nonce is not built from a non-empty buffer filled by crypto/rand (zero length, or the result does not depend on it): it is the same for every session, and a Digest Authorization header captured once is accepted on every later connection")
}

func arrayLenOf(t types.Type) (int64, bool) {
	if pt, ok := t.(*types.Pointer); ok {
		t = pt.Elem()
	}
	if a, ok := t.Underlying().(*types.Array); ok {
		return a.Len(), true
	}
	return 0, false
}

// c17r8: goroutines started in a loop do not share the loop's variables.
func c17r8(p *model.Prog, r *report.Result, rule string) {
	r.Rule(rule, "in pkg/logic no goroutine or deferred/queued closure created inside a loop captures, by reference, a variable that the loop re-assigns on every iteration (the module's language version gives one variable per loop, not per iteration): each relay-push goroutine works on the target url it was started for")
	n := 0
	for _, fn := range lalFuncsIn(p, "pkg/logic") {
		loops := model.Loops(fn)
		if len(loops) == 0 {
			continue
		}
		model.EachInstr(fn, func(in ssa.Instruction) {
			g, ok := in.(*ssa.Go)
			if !ok {
				return
			}
			mc, isMC := g.Call.Value.(*ssa.MakeClosure)
			var loop *model.Loop
			for _, l := range loops {
				if l.Body[g.Block()] && (loop == nil || len(l.Body) < len(loop.Body)) {
					loop = l
				}
			}
			if loop == nil {
				return
			}
			n++
			shared := ""
			// what the goroutine can reach by reference: a closure's bindings, or pointer
			// arguments of a plain `go f(args)` (values are copied at the go statement)
			var refs []ssa.Value
			if isMC {
				refs = mc.Bindings
			} else {
				refs = g.Call.Args
			}
			for _, b := range refs {
				a, isA := b.(*ssa.Alloc)
				if !isA || loop.Body[a.Block()] {
					continue // created inside the iteration: private to it
				}
				for _, ref := range *a.Referrers() {
					if st, isS := ref.(*ssa.Store); isS && st.Addr == ssa.Value(a) && loop.Body[st.Block()] {
						shared = a.Comment
					}
				}
			}
			r.Check(shared == "", rule, fkey(fn, "go-in-loop", "private-variables"), p.InstrPos(g), "captures only per-iteration values", "the goroutine captures the loop variable '"+shared+"' by reference: by the time it runs the loop has moved on, every goroutine sees the last element - all relay-push sessions are registered under one target, the other targets stay 'pushing' for ever and their connections outlive the publisher")
		})
	}
	if n < 1 {
		r.Bad(rule, "floor", "", "no goroutine started inside a loop found in pkg/logic")
	}
}

// c11r67: the FLV reader consumes the file header once; recording writers start from an empty file.
func c11r67(p *model.Prog, r *report.Result) {
	r.Rule("C11.R6", "httpflv.FlvFileReader: every method that reads the 13-byte FLV header from the file (a Read into a buffer of flvHeaderSize bytes) sets hasReadFlvHeader = true itself, on every path: an explicit ReadFlvHeader() followed by ReadTag() does not skip 13 more bytes")
	hdrSize := constU(p, "pkg/httpflv", "flvHeaderSize")
	flagF := p.Field("pkg/httpflv", "FlvFileReader", "hasReadFlvHeader")
	n := 0
	for _, fn := range lalFuncsIn(p, "pkg/httpflv") {
		if recvName(topFn(fn)) != "FlvFileReader" {
			continue
		}
		reads := false
		model.EachInstr(fn, func(in ssa.Instruction) {
			c, ok := in.(ssa.CallInstruction)
			if !ok {
				return
			}
			o := model.CalleeObj(c.Common())
			if o == nil || o.Name() != "Read" || len(c.Common().Args) < 2 {
				return
			}
			model.DependsOn(c.Common().Args[len(c.Common().Args)-1], func(v ssa.Value) bool {
				switch x := v.(type) {
				case *ssa.MakeSlice:
					if k, isK := model.ConstInt(x.Len); isK && k == hdrSize {
						reads = true
					}
				case *ssa.Alloc:
					if l, okL := arrayLenOf(x.Type()); okL && l == hdrSize && x.Comment == "makeslice" {
						reads = true
					}
				}
				return false
			})
		})
		if !reads {
			continue
		}
		n++
		isSet := func(in ssa.Instruction) bool {
			st, ok := in.(*ssa.Store)
			if !ok || model.FieldOf(st.Addr) != flagF {
				return false
			}
			v, isK := model.ConstBool(st.Val)
			return isK && v
		}
		miss := model.PathQuery{Stop: isSet, Target: func(in ssa.Instruction) bool { _, ok := in.(*ssa.Return); return ok }}.Find(fn)
		r.Check(miss == nil, "C11.R6", fkey(fn, "header", "marked-as-read"), p.Pos(fn.Pos()), "header read marks the reader", "the method consumes the FLV file header without setting hasReadFlvHeader: the lazy branch of ReadTag() consumes 13 more bytes and every tag is parsed from the wrong offset")
	}
	if n < 1 {
		r.Bad("C11.R6", "floor", "", "no FlvFileReader method reading the file header found")
	}

	r.Rule("C11.R7", "the recording writers (httpflv.FlvFileWriter.Open, mpegts.FileWriter.Create) open their file truncating: os.Create, or os.OpenFile with constant flags that include O_TRUNC: a recording that re-uses a file name (re-publish within the same second) does not keep the tail of the previous, longer file behind its last tag")
	type w struct{ pkg, typ, m string }
	for _, x := range []w{{"pkg/httpflv", "FlvFileWriter", "Open"}, {"pkg/mpegts", "FileWriter", "Create"}} {
		fn := p.Method(x.pkg, x.typ, x.m)
		ok, found := false, false
		for _, ci := range model.AllCalls(fn) {
			o := model.CalleeObj(ci.Common())
			if o == nil || o.Pkg() == nil || o.Pkg().Path() != "os" {
				continue
			}
			switch o.Name() {
			case "Create":
				found, ok = true, true
			case "OpenFile":
				found = true
				if k, isK := model.ConstInt(ci.Common().Args[1]); isK && k&0x200 != 0 { // O_TRUNC on linux
					ok = true
				}
			}
		}
		r.Check(found && ok, "C11.R7", fkey(fn, "open", "truncating"), p.Pos(fn.Pos()), "file truncated on open", "the recording file is opened without truncation: when the name already exists with a longer content the old tail stays behind the new data and the file is not a valid FLV/TS stream")
	}
}

// c17r9: relay-push bookkeeping is keyed by the configured target url.
func c17r9(p *model.Prog, r *report.Result) {
	r.Rule("C17.R9", "every call of Group.AddRtmpPushSession / DelRtmpPushSession passes, as the target, the key of Group.url2PushProxy the push was started for (the range key, possibly through parameters of the goroutine or of helpers) - never a string derived from it (url + '?' + publisher parameters): the entry's isPushing flag is cleared only under its own key, otherwise the target is never retried")
	proxyF := p.Field("pkg/logic", "Group", "url2PushProxy")
	n := 0
	for _, name := range []string{"AddRtmpPushSession", "DelRtmpPushSession"} {
		obj := p.MethodObj("pkg/logic", "Group", name)
		for _, fn := range lalFuncsIn(p, "pkg/logic") {
			for _, ci := range model.CallsTo(fn, obj) {
				args := ci.Common().Args
				if len(args) < 2 {
					continue
				}
				n++
				seen := map[ssa.Value]bool{}
				var trace func(v ssa.Value, f *ssa.Function, d int) string // "" = the map key
				trace = func(v ssa.Value, f *ssa.Function, d int) string {
					v = model.Unwrap(v)
					if seen[v] || d > 8 {
						return ""
					}
					seen[v] = true
					switch x := v.(type) {
					case *ssa.Extract:
						if rangedField(iterOrigin(x)) == proxyF && x.Index == 1 {
							return ""
						}
						return "a value that is not the key of url2PushProxy"
					case *ssa.BinOp:
						return "a string built from the key (" + x.Op.String() + ")"
					case *ssa.Phi:
						for _, e := range x.Edges {
							if w := trace(e, f, d+1); w != "" {
								return w
							}
						}
						return ""
					case *ssa.UnOp:
						if x.Op == token.MUL {
							if al, ok := x.X.(*ssa.Alloc); ok {
								for _, ref := range *al.Referrers() {
									if st, isSt := ref.(*ssa.Store); isSt && st.Addr == ssa.Value(al) {
										if w := trace(st.Val, f, d+1); w != "" {
											return w
										}
									}
								}
								return ""
							}
							if fv, ok := x.X.(*ssa.FreeVar); ok {
								return trace(fv, f, d+1)
							}
						}
						return "a value that is not the key of url2PushProxy"
					case *ssa.FreeVar:
						par := f.Parent()
						if par == nil {
							return "an unresolved closure variable"
						}
						for i, fv := range f.FreeVars {
							if fv != x {
								continue
							}
							for _, ref := range *f.Referrers() {
								if mc, isMC := ref.(*ssa.MakeClosure); isMC && i < len(mc.Bindings) {
									if w := trace(mc.Bindings[i], par, d+1); w != "" {
										return w
									}
								}
							}
						}
						return ""
					case *ssa.Alloc:
						for _, ref := range *x.Referrers() {
							if st, isSt := ref.(*ssa.Store); isSt && st.Addr == ssa.Value(x) {
								if w := trace(st.Val, f, d+1); w != "" {
									return w
								}
							}
						}
						return ""
					case *ssa.Parameter:
						// the callers of the function (a goroutine body: the go statement's arguments)
						k := -1
						for i, q := range f.Params {
							if q == x {
								k = i
							}
						}
						found := false
						for _, ed := range p.Callers(f) {
							if ed.Site == nil || !model.IsLal(ed.Caller.Func) {
								continue
							}
							cargs := ed.Site.Common().Args
							if k < 0 || k >= len(cargs) {
								continue
							}
							found = true
							if w := trace(cargs[k], ed.Caller.Func, d+1); w != "" {
								return w
							}
						}
						// an anonymous function called directly: go func(u string){..}(url)
						if !found && f.Parent() != nil {
							for _, ref := range *f.Referrers() {
								if mc, isMC := ref.(*ssa.MakeClosure); isMC {
									for _, r2 := range *mc.Referrers() {
										if c2, isC := r2.(ssa.CallInstruction); isC && c2.Common().Value == ssa.Value(mc) && k >= 0 && k < len(c2.Common().Args) {
											found = true
											if w := trace(c2.Common().Args[k], f.Parent(), d+1); w != "" {
												return w
											}
										}
									}
								}
							}
						}
						if !found {
							return "" // an exported entry point: the caller's business
						}
						return ""
					}
					return "a value that is not the key of url2PushProxy"
				}
				why := trace(args[1], fn, 0)
				r.Check(why == "", "C17.R9", fkey(fn, "push-key", name), p.InstrPos(ci), "keyed by the url2PushProxy key", name+" is given "+why+": the entry of the real target keeps isPushing = true for ever (no retry after a failed or ended push, no push for the next publisher) or is looked up under a key that does not exist")
			}
		}
	}
	if n < 2 {
		r.Bad("C17.R9", "floor", "", fmt.Sprintf("only %d Add/DelRtmpPushSession calls found in pkg/logic", n))
	}
}
