package rules

import (
	"fmt"
	"go/token"
	"go/types"
	"strings"

	"golang.org/x/tools/go/ssa"

	"lalverif/internal/model"
	"lalverif/internal/report"
)

// c01r9: a vector of buffers handed to Writev is not shared between the sessions of a loop.
func c01r9(p *model.Prog, r *report.Result) {
	r.Rule("C01.R9", "in pkg/logic every Writev(bs) on a session inside a loop over sessions is given a vector created inside that loop iteration (make + copy of the slice headers): net.Buffers.WriteTo / the connection's writev consume the vector (entries are set to nil as they are sent), so a vector shared by two subscribers leaves the second one with holes")
	n := 0
	for _, fn := range lalFuncsIn(p, "pkg/logic") {
		loops := model.Loops(fn)
		for _, ci := range model.AllCalls(fn) {
			c := ci.Common()
			name := ""
			if c.IsInvoke() {
				name = c.Method.Name()
			} else if o := model.CalleeObj(c); o != nil {
				name = o.Name()
			}
			if name != "Writev" {
				continue
			}
			var inner *model.Loop
			for _, l := range loops {
				if l.Body[ci.Block()] && (inner == nil || len(l.Body) < len(inner.Body)) {
					inner = l
				}
			}
			if inner == nil {
				continue
			}
			n++
			arg := c.Args[len(c.Args)-1]
			fresh := false
			if in, ok := arg.(ssa.Instruction); ok && inner.Body[in.Block()] {
				switch x := arg.(type) {
				case *ssa.MakeSlice:
					fresh = true
				case *ssa.Call:
					// a helper of lal whose every return is a slice it has just made
					if ce := x.Call.StaticCallee(); ce != nil && model.IsLal(ce) && allReturnsSatisfy(ce, 0, func(v ssa.Value) bool {
						_, isMk := model.Unwrap(v).(*ssa.MakeSlice)
						return isMk
					}) {
						fresh = true
					}
					// append(net.Buffers(nil), bs...) / append([]..{}, bs...) also makes a private vector
					if b, isB := x.Call.Value.(*ssa.Builtin); isB && b.Name() == "append" {
						base := model.Unwrap(x.Call.Args[0])
						if model.IsNilConst(base) {
							fresh = true
						}
						if sl, isSl := base.(*ssa.Slice); isSl {
							if a, isA := sl.X.(*ssa.Alloc); isA && inner.Body[a.Block()] {
								fresh = true
							}
						}
					}
				}
			}
			r.Check(fresh, "C01.R9", fkey(fn, "writev", "per-session-vector"), p.InstrPos(ci), "vector made inside the iteration", "the same net.Buffers vector is handed to Writev for every session of the loop: the first session's write consumes it (sent entries become nil), the other sessions skip that data - whole batches of messages are missing for them")
		}
	}
	if n < 1 {
		r.Bad("C01.R9", "floor", "", "no Writev call inside a session loop found in pkg/logic")
	}
}

// c06r9: the pre-analysis queue of the TS remuxer hands on every message it is given.
func c06r9(p *model.Prog, r *report.Result, rule string) {
	r.Rule(rule, "rtmp2MpegtsFilter.Push: every path from entry to return either appends the message (or its Clone) to q.data or passes it to observer.onPop: the message that makes the queue reach its limit is not dropped")
	fn := p.Method("pkg/remux", "rtmp2MpegtsFilter", "Push")
	dataF := p.Field("pkg/remux", "rtmp2MpegtsFilter", "data")
	msgP := fn.Params[1]
	fromMsg := func(v ssa.Value) bool {
		return model.DependsOn(v, func(x ssa.Value) bool {
			if x == ssa.Value(msgP) {
				return true
			}
			// the spill cell of the by-value parameter
			if u, ok := x.(*ssa.UnOp); ok && u.Op == token.MUL {
				if a, isA := u.X.(*ssa.Alloc); isA {
					for _, ref := range *a.Referrers() {
						if st, isS := ref.(*ssa.Store); isS && st.Val == ssa.Value(msgP) {
							return true
						}
					}
				}
			}
			return false
		})
	}
	keeps := func(in ssa.Instruction) bool {
		switch x := in.(type) {
		case *ssa.Store:
			if model.FieldOf(x.Addr) == dataF {
				if c, ok := x.Val.(*ssa.Call); ok {
					if b, isB := c.Call.Value.(*ssa.Builtin); isB && b.Name() == "append" {
						for _, e := range variadicElems(c.Call.Args[1]) {
							if fromMsg(e) {
								return true
							}
						}
					}
				}
			}
		case ssa.CallInstruction:
			if x.Common().IsInvoke() && x.Common().Method.Name() == "onPop" && len(x.Common().Args) == 1 && fromMsg(x.Common().Args[0]) {
				return true
			}
		}
		return false
	}
	miss := model.PathQuery{Stop: keeps, Target: func(in ssa.Instruction) bool { _, ok := in.(*ssa.Return); return ok }}.Find(fn)
	pos := p.Pos(fn.Pos())
	if miss != nil {
		pos = p.InstrPos(miss)
	}
	r.Check(miss == nil, rule, fkey(fn, "conserve", "message-kept-or-popped"), pos, "message queued or handed on on every path", "a path through Push returns without queueing the message or handing it on: the message that trips the queue limit is lost - one frame of every single-track stream never reaches TS / HLS / the recording")
}

// c12r8: codec-specific NAL type tests run only for their codec.
func c12r8As(p *model.Prog, r *report.Result, rule string) {
	r.Rule(rule, "in rtprtcp.RtpPackerPayloadAvcHevc every call of avc.ParseNaluType is dominated by the edge payloadType == AvPacketPtAvc and every call of hevc.ParseNaluType by the opposite edge (or payloadType == AvPacketPtHevc): the two codecs number their NAL types differently (an H.264 SPS written with nal_ref_idc 2, 0x47, reads as HEVC type 35 = access unit delimiter and would be dropped)")
	ptF := p.Field("pkg/rtprtcp", "RtpPackerPayloadAvcHevc", "payloadType")
	avcK := constU(p, "pkg/base", "AvPacketPtAvc")
	hevcK := constU(p, "pkg/base", "AvPacketPtHevc")
	n := 0
	for _, fn := range lalFuncsIn(p, "pkg/rtprtcp") {
		if recvName(topFn(fn)) != "RtpPackerPayloadAvcHevc" {
			continue
		}
		for _, ci := range model.AllCalls(fn) {
			o := model.CalleeObj(ci.Common())
			if o == nil || o.Name() != "ParseNaluType" || o.Pkg() == nil {
				continue
			}
			isAvc := strings.HasSuffix(o.Pkg().Path(), "/pkg/avc")
			isHevc := strings.HasSuffix(o.Pkg().Path(), "/pkg/hevc")
			if !isAvc && !isHevc {
				continue
			}
			n++
			ok := model.GuardedBy(ci, func(c ssa.Value, pol bool) bool {
				c, pol = model.StripNot(c, pol)
				bo, isB := c.(*ssa.BinOp)
				if !isB || (bo.Op != token.EQL && bo.Op != token.NEQ) {
					return false
				}
				var k int64
				var isK bool
				switch {
				case model.IsLoadOfField(bo.X, ptF):
					k, isK = model.ConstInt(bo.Y)
				case model.IsLoadOfField(bo.Y, ptF):
					k, isK = model.ConstInt(bo.X)
				}
				if !isK {
					return false
				}
				eq := pol == (bo.Op == token.EQL)
				if isAvc {
					return eq && k == avcK
				}
				return (eq && k == hevcK) || (!eq && k == avcK)
			})
			codec := "HEVC"
			if isAvc {
				codec = "AVC"
			}
			r.Check(ok, rule, fkey(fn, "naltype", codec), p.InstrPos(ci), "applied under the matching payload type", fmt.Sprintf("the %s NAL type of a unit is evaluated without the packer being in %s mode: header bytes of the other codec are misread (e.g. H.264 0x46/0x47 read as HEVC type 35 'AUD') and units are dropped from, or wrongly kept in, the RTP stream", codec, codec))
		}
	}
	if n < 2 {
		r.Bad(rule, "floor", "", fmt.Sprintf("only %d ParseNaluType calls found in the AVC/HEVC payload packer", n))
	}
}

// c15r5: the liveness sweep disposes every subscriber that is not write-alive.
func c15r5(p *model.Prog, r *report.Result) {
	r.Rule("C15.R5", "in Group.disposeInactiveSessions, for every IsAlive() call on an output session (the loops over the subscriber sets and push proxies): every path from the call to the end of that iteration tests the write-alive result, and the not-write-alive edge leads to Dispose() on every path: no other condition (read activity such as RTCP from the peer) keeps a subscriber that accepts no data connected")
	fn := p.Method("pkg/logic", "Group", "disposeInactiveSessions")
	n := 0
	isAliveCall := func(ci ssa.CallInstruction) (*ssa.Call, bool) {
		c, ok := ci.(*ssa.Call)
		if !ok {
			return nil, false
		}
		name := ""
		if c.Call.IsInvoke() {
			name = c.Call.Method.Name()
		} else if o := model.CalleeObj(&c.Call); o != nil {
			name = o.Name()
		}
		return c, name == "IsAlive"
	}
	// site: one IsAlive() call c in g; the iteration ends at g's return or at the loop header hdr
	site := func(g *ssa.Function, c *ssa.Call, hdr *ssa.BasicBlock) {
		var wa ssa.Value
		for _, ref := range *c.Referrers() {
			if ex, isE := ref.(*ssa.Extract); isE && ex.Index == 1 {
				wa = ex
			}
		}
		isWaIf := func(b *ssa.BasicBlock) (notAliveSucc int, ok bool) {
			iff, isIf := b.Instrs[len(b.Instrs)-1].(*ssa.If)
			if !isIf || wa == nil {
				return 0, false
			}
			cc, pol := model.StripNot(iff.Cond, true)
			if cc != wa {
				return 0, false
			}
			// pol: succ 0 is taken when writeAlive is true
			if pol {
				return 1, true
			}
			return 0, true
		}
		endOfIter := func(in ssa.Instruction) bool {
			if _, isR := in.(*ssa.Return); isR {
				return true
			}
			return hdr != nil && in == hdr.Instrs[0]
		}
		unconsulted := model.PathQuery{From: c, StopEdge: func(b *ssa.BasicBlock, k int) bool { _, is := isWaIf(b); return is }, Target: endOfIter}.Find(g)
		// from the not-alive edge every path reaches Dispose
		skipped := false
		for _, b := range g.Blocks {
			if k, is := isWaIf(b); is {
				miss := model.PathQuery{FromBlock: b.Succs[k], Stop: func(in ssa.Instruction) bool {
					cc, isC := in.(ssa.CallInstruction)
					if !isC {
						return false
					}
					if cc.Common().IsInvoke() {
						return cc.Common().Method.Name() == "Dispose"
					}
					o := model.CalleeObj(cc.Common())
					return o != nil && o.Name() == "Dispose"
				}, Target: endOfIter}.Find(g)
				if miss != nil {
					skipped = true
				}
			}
		}
		r.Check(unconsulted == nil && !skipped && wa != nil, "C15.R5", fkey(g, "sweep", "write-alive-decides"), p.InstrPos(c), "not write-alive => disposed", "the sweep can leave a subscriber connected although it is not write-alive (another condition, e.g. read activity, is required as well or instead): a player that stopped reading but keeps sending RTCP is never disconnected, its queue stays pinned")
	}
	helpersDone := map[*ssa.Function]bool{}
	for _, ci := range model.AllCalls(fn) {
		if c, is := isAliveCall(ci); is {
			hdr := loopHeaderOf(fn, c.Block())
			if hdr == nil {
				continue // the publisher checks are not inside a loop; they use read liveness
			}
			n++
			site(fn, c, hdr)
			continue
		}
		// a same-package helper called inside a subscriber loop that asks IsAlive() of its parameter
		ce := ci.Common().StaticCallee()
		if ce == nil || ce.Blocks == nil || ce.Pkg != fn.Pkg || loopHeaderOf(fn, ci.Block()) == nil {
			continue
		}
		for _, hc := range model.AllCalls(ce) {
			c, is := isAliveCall(hc)
			if !is {
				continue
			}
			if _, onParam := receiver(c.Common()).(*ssa.Parameter); !onParam {
				continue
			}
			n++
			if !helpersDone[ce] {
				site(ce, c, nil)
			}
		}
		helpersDone[ce] = true
	}
	if n < 4 {
		r.Bad("C15.R5", fkey(fn, "sweep", "floor"), p.Pos(fn.Pos()), fmt.Sprintf("only %d IsAlive() calls inside the subscriber loops found", n))
	}
}

// c14r12: the Digest nonce is random.
func c14r12(p *model.Prog, r *report.Result) {
	r.Rule("C14.R12", "rtsp.Auth.nonce(): the buffer handed to crypto/rand.Read is a make([]byte, n) with a constant length n >= 16 (a zero-length buffer makes the fill loop a no-op and every session gets the same nonce, so a captured Digest header replays on any connection), and the value returned depends on that buffer")
	fn := p.Method("pkg/rtsp", "Auth", "nonce")
	var buf ssa.Value
	bufLen := int64(-1)
	okRead := false
	for _, ci := range model.AllCalls(fn) {
		o := model.CalleeObj(ci.Common())
		if o == nil || o.Pkg() == nil || o.Pkg().Path() != "crypto/rand" || o.Name() != "Read" {
			continue
		}
		model.DependsOn(ci.Common().Args[0], func(v ssa.Value) bool {
			switch ms := v.(type) {
			case *ssa.MakeSlice:
				if k, isK := model.ConstInt(ms.Len); isK {
					buf, bufLen = ms, k
				}
			case *ssa.Slice:
				// a constant-size make is lowered to new [N]byte + slice[:len]
				if a, isA := ms.X.(*ssa.Alloc); isA && a.Comment == "makeslice" {
					if ms.High != nil {
						if k, isK := model.ConstInt(ms.High); isK {
							buf, bufLen = ms, k
						}
					} else if n, okN := arrayLenOf(a.Type()); okN {
						buf, bufLen = ms, n
					}
				}
			}
			return false
		})
		okRead = true
	}
	lenOK := buf != nil && bufLen >= 16
	retOK := false
	for _, ret := range model.ReturnsOf(fn) {
		for _, rv := range model.ReturnValues(ret) {
			if buf != nil && model.DependsOn(rv, func(v ssa.Value) bool { return v == buf }) {
				retOK = true
			}
		}
	}
	r.Check(okRead && lenOK && retOK, "C14.R12", fkey(fn, "nonce", "random"), p.Pos(fn.Pos()), "nonce built from >= 16 random bytes", "the nonce is not built from a non-empty buffer filled by crypto/rand (zero length, or the result does not depend on it): it is the same for every session, and a Digest Authorization header captured once is accepted on every later connection")
}

func arrayLenOf(t types.Type) (int64, bool) {
	if pt, ok := t.(*types.Pointer); ok {
		t = pt.Elem()
	}
	if a, ok := t.Underlying().(*types.Array); ok {
		return a.Len(), true
	}
	return 0, false
}

// c17r8: goroutines started in a loop do not share the loop's variables.
func c17r8(p *model.Prog, r *report.Result, rule string) {
	r.Rule(rule, "in pkg/logic no goroutine or deferred/queued closure created inside a loop captures, by reference, a variable that the loop re-assigns on every iteration (the module's language version gives one variable per loop, not per iteration): each relay-push goroutine works on the target url it was started for")
	n := 0
	for _, fn := range lalFuncsIn(p, "pkg/logic") {
		loops := model.Loops(fn)
		if len(loops) == 0 {
			continue
		}
		model.EachInstr(fn, func(in ssa.Instruction) {
			g, ok := in.(*ssa.Go)
			if !ok {
				return
			}
			mc, isMC := g.Call.Value.(*ssa.MakeClosure)
			var loop *model.Loop
			for _, l := range loops {
				if l.Body[g.Block()] && (loop == nil || len(l.Body) < len(loop.Body)) {
					loop = l
				}
			}
			if loop == nil {
				return
			}
			n++
			shared := ""
			// what the goroutine can reach by reference: a closure's bindings, or pointer
			// arguments of a plain `go f(args)` (values are copied at the go statement)
			var refs []ssa.Value
			if isMC {
				refs = mc.Bindings
			} else {
				refs = g.Call.Args
			}
			for _, b := range refs {
				a, isA := b.(*ssa.Alloc)
				if !isA || loop.Body[a.Block()] {
					continue // created inside the iteration: private to it
				}
				for _, ref := range *a.Referrers() {
					if st, isS := ref.(*ssa.Store); isS && st.Addr == ssa.Value(a) && loop.Body[st.Block()] {
						shared = a.Comment
					}
				}
			}
			r.Check(shared == "", rule, fkey(fn, "go-in-loop", "private-variables"), p.InstrPos(g), "captures only per-iteration values", "the goroutine captures the loop variable '"+shared+"' by reference: by the time it runs the loop has moved on, every goroutine sees the last element - all relay-push sessions are registered under one target, the other targets stay 'pushing' for ever and their connections outlive the publisher")
		})
	}
	if n < 1 {
		r.Bad(rule, "floor", "", "no goroutine started inside a loop found in pkg/logic")
	}
}

// c11r67: the FLV reader consumes the file header once; recording writers start from an empty file.
func c11r67(p *model.Prog, r *report.Result) {
	r.Rule("C11.R6", "httpflv.FlvFileReader: every method that reads the 13-byte FLV header from the file (a Read into a buffer of flvHeaderSize bytes) sets hasReadFlvHeader = true itself, on every path: an explicit ReadFlvHeader() followed by ReadTag() does not skip 13 more bytes")
	hdrSize := constU(p, "pkg/httpflv", "flvHeaderSize")
	flagF := p.Field("pkg/httpflv", "FlvFileReader", "hasReadFlvHeader")
	n := 0
	for _, fn := range lalFuncsIn(p, "pkg/httpflv") {
		if recvName(topFn(fn)) != "FlvFileReader" {
			continue
		}
		reads := false
		model.EachInstr(fn, func(in ssa.Instruction) {
			c, ok := in.(ssa.CallInstruction)
			if !ok {
				return
			}
			o := model.CalleeObj(c.Common())
			if o == nil || o.Name() != "Read" || len(c.Common().Args) < 2 {
				return
			}
			model.DependsOn(c.Common().Args[len(c.Common().Args)-1], func(v ssa.Value) bool {
				switch x := v.(type) {
				case *ssa.MakeSlice:
					if k, isK := model.ConstInt(x.Len); isK && k == hdrSize {
						reads = true
					}
				case *ssa.Alloc:
					if l, okL := arrayLenOf(x.Type()); okL && l == hdrSize && x.Comment == "makeslice" {
						reads = true
					}
				}
				return false
			})
		})
		if !reads {
			continue
		}
		n++
		isSet := func(in ssa.Instruction) bool {
			st, ok := in.(*ssa.Store)
			if !ok || model.FieldOf(st.Addr) != flagF {
				return false
			}
			v, isK := model.ConstBool(st.Val)
			return isK && v
		}
		miss := model.PathQuery{Stop: isSet, Target: func(in ssa.Instruction) bool { _, ok := in.(*ssa.Return); return ok }}.Find(fn)
		r.Check(miss == nil, "C11.R6", fkey(fn, "header", "marked-as-read"), p.Pos(fn.Pos()), "header read marks the reader", "the method consumes the FLV file header without setting hasReadFlvHeader: the lazy branch of ReadTag() consumes 13 more bytes and every tag is parsed from the wrong offset")
	}
	if n < 1 {
		r.Bad("C11.R6", "floor", "", "no FlvFileReader method reading the file header found")
	}

	r.Rule("C11.R7", "the recording writers (httpflv.FlvFileWriter.Open, mpegts.FileWriter.Create) open their file truncating: os.Create, or os.OpenFile with constant flags that include O_TRUNC: a recording that re-uses a file name (re-publish within the same second) does not keep the tail of the previous, longer file behind its last tag")
	type w struct{ pkg, typ, m string }
	for _, x := range []w{{"pkg/httpflv", "FlvFileWriter", "Open"}, {"pkg/mpegts", "FileWriter", "Create"}} {
		fn := p.Method(x.pkg, x.typ, x.m)
		ok, found := false, false
		for _, ci := range model.AllCalls(fn) {
			o := model.CalleeObj(ci.Common())
			if o == nil || o.Pkg() == nil || o.Pkg().Path() != "os" {
				continue
			}
			switch o.Name() {
			case "Create":
				found, ok = true, true
			case "OpenFile":
				found = true
				if k, isK := model.ConstInt(ci.Common().Args[1]); isK && k&0x200 != 0 { // O_TRUNC on linux
					ok = true
				}
			}
		}
		r.Check(found && ok, "C11.R7", fkey(fn, "open", "truncating"), p.Pos(fn.Pos()), "file truncated on open", "the recording file is opened without truncation: when the name already exists with a longer content the old tail stays behind the new data and the file is not a valid FLV/TS stream")
	}
}

// c17r9: relay-push bookkeeping is keyed by the configured target url.
func c17r9(p *model.Prog, r *report.Result) {
	r.Rule("C17.R9", "every call of Group.AddRtmpPushSession / DelRtmpPushSession passes, as the target, the key of Group.url2PushProxy the push was started for (the range key, possibly through parameters of the goroutine or of helpers) - never a string derived from it (url + '?' + publisher parameters): the entry's isPushing flag is cleared only under its own key, otherwise the target is never retried")
	proxyF := p.Field("pkg/logic", "Group", "url2PushProxy")
	n := 0
	for _, name := range []string{"AddRtmpPushSession", "DelRtmpPushSession"} {
		obj := p.MethodObj("pkg/logic", "Group", name)
		for _, fn := range lalFuncsIn(p, "pkg/logic") {
			for _, ci := range model.CallsTo(fn, obj) {
				args := ci.Common().Args
				if len(args) < 2 {
					continue
				}
				n++
				seen := map[ssa.Value]bool{}
				var trace func(v ssa.Value, f *ssa.Function, d int) string // "" = the map key
				trace = func(v ssa.Value, f *ssa.Function, d int) string {
					v = model.Unwrap(v)
					if seen[v] || d > 8 {
						return ""
					}
					seen[v] = true
					switch x := v.(type) {
					case *ssa.Extract:
						if rangedField(iterOrigin(x)) == proxyF && x.Index == 1 {
							return ""
						}
						return "a value that is not the key of url2PushProxy"
					case *ssa.BinOp:
						return "a string built from the key (" + x.Op.String() + ")"
					case *ssa.Phi:
						for _, e := range x.Edges {
							if w := trace(e, f, d+1); w != "" {
								return w
							}
						}
						return ""
					case *ssa.UnOp:
						if x.Op == token.MUL {
							if al, ok := x.X.(*ssa.Alloc); ok {
								for _, ref := range *al.Referrers() {
									if st, isSt := ref.(*ssa.Store); isSt && st.Addr == ssa.Value(al) {
										if w := trace(st.Val, f, d+1); w != "" {
											return w
										}
									}
								}
								return ""
							}
							if fv, ok := x.X.(*ssa.FreeVar); ok {
								return trace(fv, f, d+1)
							}
						}
						return "a value that is not the key of url2PushProxy"
					case *ssa.FreeVar:
						par := f.Parent()
						if par == nil {
							return "an unresolved closure variable"
						}
						for i, fv := range f.FreeVars {
							if fv != x {
								continue
							}
							for _, ref := range *f.Referrers() {
								if mc, isMC := ref.(*ssa.MakeClosure); isMC && i < len(mc.Bindings) {
									if w := trace(mc.Bindings[i], par, d+1); w != "" {
										return w
									}
								}
							}
						}
						return ""
					case *ssa.Alloc:
						for _, ref := range *x.Referrers() {
							if st, isSt := ref.(*ssa.Store); isSt && st.Addr == ssa.Value(x) {
								if w := trace(st.Val, f, d+1); w != "" {
									return w
								}
							}
						}
						return ""
					case *ssa.Parameter:
						// the callers of the function (a goroutine body: the go statement's arguments)
						k := -1
						for i, q := range f.Params {
							if q == x {
								k = i
							}
						}
						found := false
						for _, ed := range p.Callers(f) {
							if ed.Site == nil || !model.IsLal(ed.Caller.Func) {
								continue
							}
							cargs := ed.Site.Common().Args
							if k < 0 || k >= len(cargs) {
								continue
							}
							found = true
							if w := trace(cargs[k], ed.Caller.Func, d+1); w != "" {
								return w
							}
						}
						// an anonymous function called directly: go func(u string){..}(url)
						if !found && f.Parent() != nil {
							for _, ref := range *f.Referrers() {
								if mc, isMC := ref.(*ssa.MakeClosure); isMC {
									for _, r2 := range *mc.Referrers() {
										if c2, isC := r2.(ssa.CallInstruction); isC && c2.Common().Value == ssa.Value(mc) && k >= 0 && k < len(c2.Common().Args) {
											found = true
											if w := trace(c2.Common().Args[k], f.Parent(), d+1); w != "" {
												return w
											}
										}
									}
								}
							}
						}
						if !found {
							return "" // an exported entry point: the caller's business
						}
						return ""
					}
					return "a value that is not the key of url2PushProxy"
				}
				why := trace(args[1], fn, 0)
				r.Check(why == "", "C17.R9", fkey(fn, "push-key", name), p.InstrPos(ci), "keyed by the url2PushProxy key", name+" is given "+why+": the entry of the real target keeps isPushing = true for ever (no retry after a failed or ended push, no push for the next publisher) or is looked up under a key that does not exist")
			}
		}
	}
	if n < 2 {
		r.Bad("C17.R9", "floor", "", fmt.Sprintf("only %d Add/DelRtmpPushSession calls found in pkg/logic", n))
	}
}

// c01r10: the merge writer hands blocks on in the order it received them.
func c01r10(p *model.Prog, r *report.Result) {
	r.Rule("C01.R10", "every call of MergeWriter.onWritev in the methods of base.MergeWriter passes the waiting list w.bs itself, or runs only when nothing is waiting (behind len(w.bs) == 0 / w.currSize == 0): a block never overtakes blocks accepted before it")
	onW := p.Field("pkg/base", "MergeWriter", "onWritev")
	bsF := p.Field("pkg/base", "MergeWriter", "bs")
	curF := p.Field("pkg/base", "MergeWriter", "currSize")
	n := 0
	for _, fn := range lalFuncsIn(p, "pkg/base") {
		if recvName(topFn(fn)) != "MergeWriter" {
			continue
		}
		for _, ci := range model.AllCalls(fn) {
			if !model.IsLoadOfField(ci.Common().Value, onW) || len(ci.Common().Args) != 1 {
				continue
			}
			n++
			arg := ci.Common().Args[0]
			if model.IsLoadOfField(arg, bsF) {
				r.Ok("C01.R10", fkey(fn, "emit", "in-order"), p.InstrPos(ci), "emits the whole waiting list")
				continue
			}
			empty := model.GuardedBy(ci, func(c ssa.Value, pol bool) bool {
				x, k, op, right, ok := constCmp(c)
				if !ok || k != 0 {
					return false
				}
				isEmptyTest := false
				if l, isLen := lenOf(model.Unwrap(x)); isLen && model.IsLoadOfField(l, bsF) {
					isEmptyTest = true
				}
				if model.IsLoadOfField(model.Unwrap(x), curF) {
					isEmptyTest = true
				}
				// the edge on which the quantity is 0
				return isEmptyTest && cmpAt(op, 0, k, right) == pol && cmpAt(op, 1, k, right) != pol
			})
			r.Check(empty, "C01.R10", fkey(fn, "emit", "in-order"), p.InstrPos(ci), "emits another block only while nothing is waiting", "a block is handed to the connection while earlier blocks are still waiting in the merge buffer: it overtakes them (a key frame reaches the subscriber before the audio accepted ahead of it)")
		}
	}
	if n < 1 {
		r.Bad("C01.R10", "floor", "", "no call of MergeWriter.onWritev found")
	}
}

// c17r10: only the end of a pull attempt gives the "attempt in flight" flag back.
func c17r10(p *model.Prog, r *report.Result) {
	r.Rule("C17.R10", "pullProxy.isSessionPulling is cleared only on the way from Group.DelRtmpPullSession / DelRtspPullSession (the pull goroutine reporting the end of its attempt): a stop or kick while the attempt is still connecting does not free the slot, so no second attempt is started beside the one in flight")
	f := p.Field("pkg/logic", "pullProxy", "isSessionPulling")
	ends := map[*ssa.Function]bool{
		p.Method("pkg/logic", "Group", "DelRtmpPullSession"): true,
		p.Method("pkg/logic", "Group", "DelRtspPullSession"): true,
	}
	memo := map[*ssa.Function]int{} // 1 = only from the end of an attempt, 2 = not
	var endOnly func(fn *ssa.Function, d int) bool
	endOnly = func(fn *ssa.Function, d int) bool {
		fn = topFn(fn)
		if ends[fn] {
			return true
		}
		if v, ok := memo[fn]; ok {
			return v == 1
		}
		memo[fn] = 2
		if d > 4 {
			return false
		}
		n := 0
		for _, ed := range p.Callers(fn) {
			if !model.IsLal(ed.Caller.Func) {
				continue
			}
			n++
			if !endOnly(ed.Caller.Func, d+1) {
				return false
			}
		}
		if n == 0 {
			return false
		}
		memo[fn] = 1
		return true
	}
	n := 0
	for _, fn := range lalFuncsIn(p, "pkg/logic") {
		for _, st := range model.FieldStores(fn, f) {
			if v, isK := model.ConstBool(st.Val); !isK || v {
				continue
			}
			n++
			r.Check(endOnly(fn, 0), "C17.R10", fkey(fn, "pull-flag", "cleared-at-attempt-end"), p.InstrPos(st), "cleared on the way from Del*PullSession only", "the in-flight flag of the relay pull is cleared outside the end of the attempt (a stop / kick / other path): while the first connection attempt is still running the next trigger starts a second one - two concurrent pulls of one stream")
		}
	}
	if n < 1 {
		r.Bad("C17.R10", "floor", "", "no store clearing isSessionPulling found")
	}
}

// c03r10: the liveness probe of a session is consumed by the periodic sweep only.
func c03r10(p *model.Prog, r *report.Result) {
	r.Rule("C03.R10", "in pkg/logic IsAlive() of a session (which compares the byte counters with the snapshot taken at its previous call and then overwrites that snapshot) is called only on the way from Group.Tick: a call from another path (a refusal log, an API answer) restarts the accepted input's check interval, and the next sweep disconnects a publisher that was sending all the time")
	tick := p.Method("pkg/logic", "Group", "Tick")
	memo := map[*ssa.Function]int{}
	var tickOnly func(fn *ssa.Function, d int) bool
	tickOnly = func(fn *ssa.Function, d int) bool {
		fn = topFn(fn)
		if fn == tick {
			return true
		}
		if v, ok := memo[fn]; ok {
			return v == 1
		}
		memo[fn] = 2
		if d > 4 {
			return false
		}
		n := 0
		for _, ed := range p.Callers(fn) {
			if !model.IsLal(ed.Caller.Func) {
				continue
			}
			n++
			if !tickOnly(ed.Caller.Func, d+1) {
				return false
			}
		}
		if n == 0 {
			return false
		}
		memo[fn] = 1
		return true
	}
	n := 0
	for _, fn := range lalFuncsIn(p, "pkg/logic") {
		for _, ci := range model.AllCalls(fn) {
			name := ""
			if o := model.CalleeObj(ci.Common()); o != nil {
				name = o.Name()
			} else if ci.Common().IsInvoke() {
				name = ci.Common().Method.Name()
			}
			if name != "IsAlive" {
				continue
			}
			// only the stateful probes: a method with two bool results
			sig := ci.Common().Signature()
			if sig.Results().Len() != 2 {
				continue
			}
			n++
			r.Check(tickOnly(fn, 0), "C03.R10", fkey(fn, "liveness", "probe-from-tick-only"), p.InstrPos(ci), "probed by the periodic sweep", "IsAlive() is called outside the periodic sweep: the call consumes the activity of the current interval, so an accepted input that is sending is seen as silent by the next sweep and disconnected (e.g. after another publisher for the same name was refused)")
		}
	}
	if n < 3 {
		r.Bad("C03.R10", "floor", "", fmt.Sprintf("only %d IsAlive() probes found in pkg/logic", n))
	}
}

// c14r13: an address leaves the black list only on the strength of the expiry the list holds for it.
func c14r13(p *model.Prog, r *report.Result) {
	r.Rule("C14.R13", "every delete from IpBlacklist.ips removes a key whose expiry, as stored in that map (the range value of ips or ips[key]), was compared in a dominating test - directly, or when the key was put into the set the delete loop ranges over: an entry renewed by a second Add is not removed on the strength of an older copy of its expiry")
	ipsF := p.Field("pkg/logic", "IpBlacklist", "ips")
	n := 0
	isIps := func(v ssa.Value) bool { return model.IsLoadOfField(v, ipsF) }
	// usesMapValue: cond compares something with the value ips holds for a key
	usesMapValue := func(c ssa.Value) bool {
		bo, ok := c.(*ssa.BinOp)
		if !ok {
			return false
		}
		for _, side := range []ssa.Value{bo.X, bo.Y} {
			side = model.Unwrap(side)
			if ex, isEx := side.(*ssa.Extract); isEx {
				if nx := iterOrigin(ex); nx != nil && rangedField(nx) == ipsF && ex.Index == 2 {
					return true
				}
				if lk, isLk := ex.Tuple.(*ssa.Lookup); isLk && isIps(lk.X) && ex.Index == 0 {
					return true
				}
			}
			if lk, isLk := side.(*ssa.Lookup); isLk && isIps(lk.X) {
				return true
			}
		}
		return false
	}
	guardedByMapValue := func(in ssa.Instruction) bool {
		return model.GuardedBy(in, func(c ssa.Value, pol bool) bool {
			c, _ = model.StripNot(c, pol)
			return usesMapValue(c)
		})
	}
	for _, fn := range lalFuncsIn(p, "pkg/logic") {
		if recvName(topFn(fn)) != "IpBlacklist" {
			continue
		}
		for _, ci := range model.AllCalls(fn) {
			b, isB := ci.Common().Value.(*ssa.Builtin)
			if !isB || b.Name() != "delete" || !isIps(ci.Common().Args[0]) {
				continue
			}
			n++
			ok := guardedByMapValue(ci)
			if !ok {
				// the key comes from a set that was filled under such a test
				if ex, isEx := model.Unwrap(ci.Common().Args[1]).(*ssa.Extract); isEx {
					if nx := iterOrigin(ex); nx != nil {
						if rg, isR := nx.Iter.(*ssa.Range); isR {
							if mk, isMk := rg.X.(*ssa.MakeMap); isMk && mk.Referrers() != nil {
								all, some := true, false
								for _, ref := range *mk.Referrers() {
									if mu, isMU := ref.(*ssa.MapUpdate); isMU {
										some = true
										if !guardedByMapValue(mu) {
											all = false
										}
									}
								}
								ok = all && some
							}
						}
					}
				}
			}
			r.Check(ok, "C14.R13", fkey(fn, "blacklist", "delete-on-own-expiry"), p.InstrPos(ci), "removed only after the stored expiry was tested", "an address is deleted from the black list without a test of the expiry the list currently holds for it (the decision comes from another record of the expiry): after a second, longer ban of the same address the first ban's expiry removes it - the address is served again before the announced time")
		}
	}
	if n < 1 {
		r.Bad("C14.R13", "floor", "", "no delete from IpBlacklist.ips found")
	}
}

// c04r13: a refused publish / play ends the RTMP session.
func c04r13(p *model.Prog, r *report.Result, rule string) {
	r.Rule(rule, "in rtmp.ServerSession.doPublish / doPlay (with same-package helpers inlined), on the way where the observer's OnNewRtmpPubSession / OnNewRtmpSubSession returned a non-nil error, every return hands that error on (the value itself, or a helper that returns the error it was given): the read loop ends and the connection is closed - a refused publisher whose session kept running would reach the media dispatch with no observer attached")
	n := 0
	for _, name := range []string{"doPublish", "doPlay"} {
		fn := p.Method("pkg/rtmp", "ServerSession", name)
		model.EachInstrDeep(fn, 2, func(d model.DeepInstr) {
			call, ok := d.In.(*ssa.Call)
			if !ok {
				return
			}
			m := invokedMethodName(d)
			if m != "OnNewRtmpPubSession" && m != "OnNewRtmpSubSession" {
				return
			}
			n++
			errVals := errValuesOf(call)
			var propagates func(v ssa.Value, depth int) bool
			propagates = func(v ssa.Value, depth int) bool {
				if depth > 4 {
					return false
				}
				for _, ev := range errVals {
					if v == ev {
						return true
					}
				}
				switch x := v.(type) {
				case *ssa.Phi:
					for _, e := range x.Edges {
						if model.IsNilConst(e) {
							continue // the other way into the merge; only the refused way is asked
						}
						if !propagates(e, depth+1) {
							return false
						}
					}
					return true
				case *ssa.Call:
					ce := x.Call.StaticCallee()
					if ce == nil || ce.Blocks == nil || len(ce.Params) != len(x.Call.Args) {
						return false
					}
					k := -1
					for i, a := range x.Call.Args {
						if propagates(a, depth+1) {
							k = i
						}
					}
					if k < 0 {
						return false
					}
					for _, ret := range model.ReturnsOf(ce) {
						rvs := model.ReturnValues(ret)
						if len(rvs) != 1 || rvs[0] != ssa.Value(ce.Params[k]) {
							return false
						}
					}
					return true
				}
				return false
			}
			good := true
			pos := p.InstrPos(call)
			for _, e := range errNonNilEdges(call) {
				bad := model.PathQuery{FromBlock: e, Target: func(in ssa.Instruction) bool {
					ret, isRet := in.(*ssa.Return)
					if !isRet {
						return false
					}
					rvs := model.ReturnValues(ret)
					return len(rvs) != 1 || !propagates(rvs[0], 0)
				}}.Find(d.Fn)
				if bad != nil {
					good = false
					pos = p.InstrPos(bad)
				}
			}
			if len(errNonNilEdges(call)) == 0 {
				good = false
			}
			r.Check(good, rule, fkey(fn, "refused", m), pos, "the observer's refusal is returned", "after the observer refused the "+name[2:]+" the handler can return something else than that error (nil when a reply was written successfully): the session's read loop goes on with the base type already set but no media observer attached, and the next audio/video/data message of that peer dereferences nil - one refused publish (second publisher on a name, failed auth) followed by any media message terminates the server")
		})
	}
	if n < 2 {
		r.Bad(rule, "floor", "", fmt.Sprintf("only %d observer admission calls found in doPublish/doPlay", n))
	}
}

// c03r11: a refused input leaves the accepted input's pipeline alone.
func c03r11(p *model.Prog, r *report.Result) {
	r.Rule("C03.R11", "in every Group method that admits an input (it tests hasInSession()), a new object is stored into a Group field of a pkg/remux pointer type (the per-input remuxers and filters) only on ways that crossed the 'no input yet' edge of that test - with same-package helpers and closures handed to them followed: a publisher or relay pull that is refused does not replace the remuxers the accepted input is using")
	groupT := p.Named("pkg/logic", "Group")
	st := groupT.Underlying().(*types.Struct)
	remuxFields := map[*types.Var]bool{}
	for i := 0; i < st.NumFields(); i++ {
		f := st.Field(i)
		if pt, ok := f.Type().(*types.Pointer); ok {
			if nt, isN := pt.Elem().(*types.Named); isN && nt.Obj().Pkg() != nil && strings.HasSuffix(nt.Obj().Pkg().Path(), "/pkg/remux") {
				remuxFields[f] = true
			}
		}
	}
	hasIn := p.MethodObj("pkg/logic", "Group", "hasInSession")
	isAdmitted := func(b *ssa.BasicBlock, k int) bool {
		iff, ok := b.Instrs[len(b.Instrs)-1].(*ssa.If)
		if !ok {
			return false
		}
		c, pol := model.StripNot(iff.Cond, k == 0)
		call, isCall := c.(*ssa.Call)
		if !isCall || !model.SameFunc(model.CalleeObj(call.Common()), hasIn) {
			return false
		}
		return !pol // the edge on which hasInSession() is false
	}
	n := 0
	for _, fn := range lalFuncsIn(p, "pkg/logic") {
		if fn.Parent() != nil || recvName(fn) != "Group" {
			continue
		}
		// admitting methods: hasInSession() is tested in the function's own inlined view
		tests := model.CountDeep(fn, 2, func(d model.DeepInstr) bool {
			ci, ok := d.In.(ssa.CallInstruction)
			return ok && model.SameFunc(model.CalleeObj(ci.Common()), hasIn)
		})
		if tests == 0 || fn.Object() == nil || !fn.Object().Exported() {
			continue
		}
		isStore := func(d model.DeepInstr) bool {
			s, ok := d.In.(*ssa.Store)
			return ok && remuxFields[model.FieldOf(s.Addr)] && !model.IsNilConst(s.Val)
		}
		if model.CountDeep(fn, 2, isStore) == 0 {
			continue
		}
		n++
		early := model.DeepPathQuery{Root: fn, Depth: 2, StopEdge: isAdmitted, Target: isStore}.Find()
		pos := p.Pos(fn.Pos())
		if early != nil {
			pos = p.InstrPos(early.In)
		}
		r.Check(early == nil, "C03.R11", fkey(fn, "admission", "pipeline-after-check"), pos, "remuxers created only for an admitted input", "a remuxer / filter of the group is replaced before (or regardless of) the 'stream already has an input' test: an input that is then refused has already overwritten what the accepted input was using - its frames are dropped or garbled for the subscribers")
	}
	if n < 2 {
		r.Bad("C03.R11", "floor", "", fmt.Sprintf("only %d admitting Group methods that set up remuxers found", n))
	}
}

// c07r12: the reorder list stays sorted by CompareSeq and free of duplicates.
func c07r12(p *model.Prog, r *report.Result, rule string) {
	r.Rule(rule, "in rtprtcp.RtpPacketList.Insert (helpers inlined) the new item is linked only (a) where a test of CompareSeq(new, neighbour) excludes the outcome 0 (strictly before / strictly after that neighbour: == -1, == 1, < 0, > 0), or (b) where the list is empty or was walked to its end (a .Next that is nil): a packet equal to a neighbour is never linked a second time, and no raw comparison of the 16-bit sequence numbers (wrong across the wrap) decides a position")
	fn := p.Method("pkg/rtprtcp", "RtpPacketList", "Insert")
	nextF := p.Field("pkg/rtprtcp", "RtpPacketListItem", "Next")
	cmp := p.FuncObj("pkg/rtprtcp", "CompareSeq")
	n := 0
	model.EachInstrDeep(fn, 2, func(d model.DeepInstr) {
		st, ok := d.In.(*ssa.Store)
		if !ok || model.FieldOf(st.Addr) != nextF {
			return
		}
		fresh := func(v ssa.Value) bool {
			_, isAlloc := d.Resolve(v).(*ssa.Alloc)
			return isAlloc
		}
		if fa, isFA := st.Addr.(*ssa.FieldAddr); isFA && fresh(fa.X) {
			return
		}
		if !fresh(st.Val) {
			return
		}
		n++
		// decisive edges: a CompareSeq test on the edge where "equal" is excluded, or a .Next
		// found nil; the link must not be reachable from the entry without crossing one
		strictEdge := func(c ssa.Value, pol bool) bool {
			x, k, op, right, ok := constCmp(c)
			if !ok {
				return false
			}
			call, isCall := model.Unwrap(x).(*ssa.Call)
			if !isCall || !model.SameFunc(model.CalleeObj(call.Common()), cmp) {
				return false
			}
			some := false
			for _, v := range []int64{-1, 0, 1} {
				if cmpAt(op, v, k, right) == pol {
					if v == 0 {
						return false
					}
					some = true
				}
			}
			return some
		}
		endEdge := func(c ssa.Value, pol bool) bool {
			x, nonNilOnTrue, isNil := nilTest(c)
			if !isNil || nonNilOnTrue == pol {
				return false // the edge on which x is nil is wanted
			}
			return model.LoadedField(x) == nextF
		}
		edgeOf := func(pred func(ssa.Value, bool) bool) func(b *ssa.BasicBlock, k int) bool {
			return func(b *ssa.BasicBlock, k int) bool {
				iff, ok := b.Instrs[len(b.Instrs)-1].(*ssa.If)
				if !ok {
					return false
				}
				c, pol := model.StripNot(iff.Cond, k == 0)
				return pred(c, pol)
			}
		}
		isThis := func(x model.DeepInstr) bool { return x.In == d.In }
		strict := model.DeepPathQuery{Root: fn, Depth: 2, StopEdge: edgeOf(strictEdge), Target: isThis}.Find() == nil
		atEnd := !strict && model.DeepPathQuery{Root: fn, Depth: 2, StopEdge: func(b *ssa.BasicBlock, k int) bool {
			return edgeOf(strictEdge)(b, k) || edgeOf(endEdge)(b, k)
		}, Target: isThis}.Find() == nil
		// "walked to its end" counts only if the walk goes on to the next item solely where the
		// new packet is strictly after the current one: in every loop of the function that holds
		// a CompareSeq test, no way leads from the test back to the loop header except over an
		// edge on which the outcome is 1
		if atEnd && !strict {
			for _, g := range append([]*ssa.Function{fn}, chainFns(d)...) {
				for _, l := range model.Loops(g) {
					for b := range l.Body {
						for _, in := range b.Instrs {
							call, isCall := in.(*ssa.Call)
							if !isCall || !model.SameFunc(model.CalleeObj(call.Common()), cmp) {
								continue
							}
							// enumerate the function's paths with the test's outcome fixed to "equal"
							// and to "before": none may pass the test and come back to the loop header
							var hdrFirst ssa.Instruction
							for _, hi := range l.Header.Instrs {
								if _, isPhi := hi.(*ssa.Phi); !isPhi {
									hdrFirst = hi
									break
								}
							}
							var back ssa.Instruction
							for _, outcome := range []int64{0, -1} {
								oc := outcome
								ev := &cEval{fn: g, maxVisits: 3, maxPaths: 4096}
								ev.seed = func(v ssa.Value) (int64, bool) {
									if v == ssa.Value(call) {
										return oc, true
									}
									return 0, false
								}
								ev.observe = func(in2 ssa.Instruction, _ func(ssa.Value) (int64, bool)) string {
									if in2 == ssa.Instruction(call) {
										return "C"
									}
									if in2 == hdrFirst {
										return "H"
									}
									return ""
								}
								ev.run()
								if ev.undecided != "" {
									back = call // a loop that keeps going under this outcome
								}
								for _, pa := range ev.paths {
									seenC := false
									for _, e := range pa.events {
										if e == "C" {
											seenC = true
										} else if e == "H" && seenC {
											back = call
										}
									}
								}
							}
							if back != nil {
								atEnd = false
							}
						}
					}
				}
			}
		}
		r.Check(strict || atEnd, rule, fkey(fn, "position", "decided-by-CompareSeq"), p.InstrPos(st), "linked strictly before/after a neighbour, or at the end", "the new packet is linked at a place that no CompareSeq test with the outcome 'equal' excluded decides (a raw comparison of sequence numbers, or a <= / >= test that lets an equal number through): around the 65535 -> 0 wrap a late packet is appended after newer ones, or a duplicate of the last buffered packet is stored twice - the unpacker stalls until the list is full and then delivers frames out of order or twice")
	})
	if n < 1 {
		r.Bad(rule, "floor", "", "no link of the new item found in RtpPacketList.Insert")
	}
}

// chainFns: the functions of the calls on a deep instruction's chain and its own function.
func chainFns(d model.DeepInstr) []*ssa.Function {
	var out []*ssa.Function
	seen := map[*ssa.Function]bool{}
	add := func(f *ssa.Function) {
		if f != nil && !seen[f] {
			seen[f] = true
			out = append(out, f)
		}
	}
	add(d.Fn)
	for _, c := range d.Chain {
		add(c.Parent())
		add(c.Common().StaticCallee())
	}
	return out
}

// allReturnsSatisfy: fn has source, at least one return, and result idx of every return satisfies pred.
func allReturnsSatisfy(fn *ssa.Function, idx int, pred func(ssa.Value) bool) bool {
	rets := model.ReturnsOf(fn)
	if len(fn.Blocks) == 0 || len(rets) == 0 {
		return false
	}
	for _, ret := range rets {
		rv := model.ReturnValues(ret)
		if idx >= len(rv) || !pred(rv[idx]) {
			return false
		}
	}
	return true
}
