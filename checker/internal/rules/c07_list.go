package rules

import (
	"fmt"
	"go/token"
	"go/types"

	"golang.org/x/tools/go/ssa"

	"lalverif/internal/model"
	"lalverif/internal/report"
)

// c07r3: RtpPacketList.Size is the number of linked packets. Code that unlinks packets by
// assigning list.Head.Next must keep Size in step.
func c07r3(p *model.Prog, r *report.Result) {
	r.Rule("C07.R3", "RtpPacketList.Size tracks the linked packets: every unpacker path that assigns list.Head.Next decreases Size in the same block; where the amount is a loop counter, the counter starts at the number of .Next hops between the list head and the loop pointer's start (a loop that starts at the second packet starts counting at 1); a function that empties the list (Head.Next = nil) sets Size = 0")
	sizeF := p.Field("pkg/rtprtcp", "RtpPacketList", "Size")
	nextF := p.Field("pkg/rtprtcp", "RtpPacketListItem", "Next")
	headF := p.Field("pkg/rtprtcp", "RtpPacketList", "Head")
	isHeadNextAddr := func(a ssa.Value) bool {
		fa, ok := a.(*ssa.FieldAddr)
		if !ok || model.FieldOf(fa) != nextF {
			return false
		}
		inner, ok := fa.X.(*ssa.FieldAddr)
		return ok && model.FieldOf(inner) == headF
	}
	// hops: number of .Next loads between load(list.Head.Next) and v (-1 unknown)
	var hops func(v ssa.Value, d int) int
	hops = func(v ssa.Value, d int) int {
		ld, ok := v.(*ssa.UnOp)
		if !ok || ld.Op != token.MUL || d > 6 {
			return -1
		}
		if isHeadNextAddr(ld.X) {
			return 0
		}
		fa, ok := ld.X.(*ssa.FieldAddr)
		if !ok || model.FieldOf(fa) != nextF {
			return -1
		}
		h := hops(fa.X, d+1)
		if h < 0 {
			return -1
		}
		return h + 1
	}
	n := 0
	for _, typ := range []string{"RtpUnpackerAac", "RtpUnpackerAvcHevc", "RtpUnpackerRaw"} {
		fn := p.Method("pkg/rtprtcp", typ, "TryUnpackOne")
		for _, st := range model.FieldStores(fn, nextF) {
			if !isHeadNextAddr(st.Addr) {
				continue
			}
			n++
			var dec *ssa.BinOp
			for _, in := range st.Block().Instrs {
				if s2, ok := in.(*ssa.Store); ok && model.FieldOf(s2.Addr) == sizeF {
					if sub, ok := s2.Val.(*ssa.BinOp); ok && sub.Op == token.SUB && model.IsLoadOfField(sub.X, sizeF) {
						dec = sub
					}
				}
			}
			if !r.Check(dec != nil, "C07.R3", fkey(fn, "unlink", "size-updated"), p.InstrPos(st), "Size decreased where packets are unlinked", "packets are unlinked from the list without decreasing Size: Full() eventually stays true and the head packet of every later frame is dropped") {
				continue
			}
			if k, isK := model.ConstInt(dec.Y); isK {
				r.Check(k == 1, "C07.R3", fkey(fn, "unlink", "count"), p.InstrPos(st), "one packet unlinked, Size decreased by one", "Size is decreased by a constant other than the one packet unlinked")
				// the constant 1 fits only an unlink of the first packet: the new head is
				// first.Next, not the successor of a pointer that walked down the list
				walked := false
				if ld, isLd := st.Val.(*ssa.UnOp); isLd && ld.Op == token.MUL {
					if fa, isFa := ld.X.(*ssa.FieldAddr); isFa && model.FieldOf(fa) == nextF && hops(fa.X, 0) != 0 {
						walked = model.DependsOn(fa.X, func(v ssa.Value) bool {
							ph, isPhi := v.(*ssa.Phi)
							if !isPhi {
								return false
							}
							_, isPtr := ph.Type().Underlying().(*types.Pointer)
							return isPtr
						})
					}
				}
				r.Check(!walked, "C07.R3", fkey(fn, "unlink", "count-walked"), p.InstrPos(st), "the constant decrement belongs to an unlink of the first packet only", "the list head is moved behind a pointer that walked over several packets, but Size is decreased by the constant 1: every fragmented unit leaks its other fragments from Size, Full() eventually stays true and the first packet of every later unit is dropped")
				continue
			}
			// a counter: find its loop-header phi
			var cphi *ssa.Phi
			model.DependsOn(dec.Y, func(v ssa.Value) bool {
				if ph, ok := v.(*ssa.Phi); ok && cphi == nil && isInteger(ph.Type()) {
					cphi = ph
				}
				return false
			})
			if cphi == nil {
				r.Bad("C07.R3", fkey(fn, "unlink", "count"), p.InstrPos(st), "the amount subtracted from Size is neither 1 nor a loop counter")
				continue
			}
			c0, haveC0 := int64(-1), false
			for i, e := range cphi.Edges {
				pred := cphi.Block().Preds[i]
				if cphi.Block() == pred || cphi.Block().Dominates(pred) {
					continue
				}
				if k, isK := model.ConstInt(e); isK {
					c0, haveC0 = k, true
				}
			}
			// the pointer phi of the same loop header
			want := -1
			for _, in := range cphi.Block().Instrs {
				ph, ok := in.(*ssa.Phi)
				if !ok {
					break
				}
				if _, isPtr := ph.Type().Underlying().(*types.Pointer); !isPtr || ph == cphi {
					continue
				}
				for i, e := range ph.Edges {
					pred := ph.Block().Preds[i]
					if ph.Block() == pred || ph.Block().Dominates(pred) {
						continue
					}
					if h := hops(e, 0); h >= 0 {
						want = h
					}
				}
			}
			r.Check(haveC0 && want >= 0 && c0 == int64(want), "C07.R3", fkey(fn, "unlink", "count"), p.InstrPos(st),
				fmt.Sprintf("counter starts at %d for a loop that starts %d packet(s) behind the head", c0, want),
				fmt.Sprintf("the packet counter subtracted from Size starts at %d although the loop starts %d packet(s) behind the list head: each reassembled unit leaks %d from Size, Full() eventually stays true and packets are dropped", c0, want, int64(want)-c0))
		}
	}
	if n < 5 {
		r.Bad("C07.R3", "floor", "", "fewer than 5 unlink sites found in the unpackers")
	}
	// emptying the list
	nReset := 0
	for _, fn := range lalFuncsIn(p, "pkg/rtprtcp") {
		for _, st := range model.FieldStores(fn, nextF) {
			if !isHeadNextAddr(st.Addr) || !model.IsNilConst(st.Val) {
				continue
			}
			nReset++
			zero := false
			for _, s2 := range model.FieldStores(fn, sizeF) {
				if k, isK := model.ConstInt(s2.Val); isK && k == 0 {
					zero = true
				}
			}
			r.Check(zero, "C07.R3", fkey(fn, "reset", "size-zero"), p.InstrPos(st), "Size reset with the list", "the list is emptied but Size keeps its value: Size > 0 on an empty list makes PeekFirst()/PopFirst() dereference a nil head (GB28181 drop loop) and Full() report a full list")
		}
	}
	if nReset < 1 {
		r.Bad("C07.R3", "floor-reset", "", "RtpPacketList.Reset (Head.Next = nil) not found")
	}
}
