package rules

import (
	"fmt"
	"go/constant"
	"go/token"
	"go/types"
	"strings"

	"golang.org/x/tools/go/ssa"

	"lalverif/internal/model"
	"lalverif/internal/report"
)

// Rules added after the sixth round of seeded changes (suffix K/L): small slips in functions the
// earlier rounds had not touched.

// w6MsgLenOfPayload: a header length written next to a chunking call is the length of the payload
// that call is given.
func w6MsgLenOfPayload(p *model.Prog, r *report.Result, rule string) {
	r.Rule(rule, "in pkg/remux and pkg/logic, where a function stores Header.MsgLen of a message and hands the same header to rtmp.Message2Chunks(payload, &header), the stored value is len() of the very payload expression passed to the call: the chunk headers announce the number of bytes that follow (a rewritten metadata payload is announced with its new length)")
	m2c := p.FuncObj("pkg/rtmp", "Message2Chunks")
	msgLen := p.Field("pkg/base", "RtmpHeader", "MsgLen")
	n := 0
	for _, fn := range lalFuncsIn(p, "pkg/remux", "pkg/logic") {
		for _, ci := range model.CallsTo(fn, m2c) {
			args := ci.Common().Args
			if len(args) != 2 {
				continue
			}
			payload, hdr := args[0], args[1]
			for _, st := range model.FieldStores(fn, msgLen) {
				fa, ok := st.Addr.(*ssa.FieldAddr)
				if !ok || !(fa.X == hdr || sameLoad(fa.X, hdr, 0)) {
					continue
				}
				n++
				okLen := false
				if c, isC := model.Unwrap(st.Val).(*ssa.Call); isC {
					if b, isB := c.Call.Value.(*ssa.Builtin); isB && b.Name() == "len" && len(c.Call.Args) == 1 {
						x := c.Call.Args[0]
						okLen = x == payload || sameLoad(x, payload, 0)
						// the payload variable was rewritten in this branch: at the call it is a
						// merge whose input from the store's block is the measured value
						if ph, isPhi := payload.(*ssa.Phi); isPhi && !okLen {
							for i, e := range ph.Edges {
								pred := ph.Block().Preds[i]
								if (e == x || sameLoad(e, x, 0)) && (pred == st.Block() || st.Block().Dominates(pred)) {
									okLen = true
								}
							}
						}
					}
				}
				r.Check(okLen, rule, fkey(fn, "msglen", "len-of-chunked-payload"), p.InstrPos(st), "MsgLen = len(payload handed to Message2Chunks)", "the message length written into the header is not the length of the payload that is chunked with it: the chunk header announces another size than the bytes that follow, the receiver cuts the message short (or waits for more) and reads payload bytes as the next chunk header")
			}
		}
	}
	if n < 1 {
		r.Bad(rule, "floor", "", "no MsgLen store next to a Message2Chunks call found (LazyRtmpChunkDivider.GetEnsureWithSdf)")
	}
}

// w6FanoutLoops: skipping one subscriber does not end the delivery to the others.
func w6FanoutLoops(p *model.Prog, r *report.Result, rule string) {
	r.Rule(rule, "in the fan-out functions of logic.Group (declared in group__core_streaming.go) every loop that ranges over one of the group's session sets is left only through its range header: a subscriber that is skipped (fresh, waiting for a key frame, wrong stage) is passed with 'continue' - no return, break or goto out of the body - so the sessions visited after it still get the message")
	n := 0
	for _, fn := range lalFuncsIn(p, "pkg/logic") {
		if recvName(fn) != "Group" || fn.Parent() != nil {
			continue
		}
		if !strings.Contains(p.Pos(fn.Pos()), "group__core_streaming.go") {
			continue
		}
		for _, l := range model.Loops(fn) {
			// a range loop over a session set of the group
			var rng *ssa.Range
			for _, in := range l.Header.Instrs {
				if nx, ok := in.(*ssa.Next); ok {
					rng, _ = nx.Iter.(*ssa.Range)
				}
			}
			if rng == nil {
				continue
			}
			f := model.LoadedField(rng.X)
			if f == nil || !(strings.HasSuffix(f.Name(), "SessionSet") || strings.HasSuffix(f.Name(), "Set")) {
				continue
			}
			// only loops that deliver: the body calls something (a search loop that only tests
			// flags and breaks at the first hit is no fan-out)
			delivers := false
			for b := range l.Body {
				for _, in := range b.Instrs {
					if ci, ok := in.(ssa.CallInstruction); ok {
						if _, isB := ci.Common().Value.(*ssa.Builtin); !isB {
							delivers = true
						}
					}
				}
			}
			if !delivers {
				continue
			}
			n++
			var bad ssa.Instruction
			for b := range l.Body {
				if b == l.Header {
					continue
				}
				for _, s := range b.Succs {
					if !l.Body[s] && len(b.Instrs) > 0 {
						// leaving through a panic is not a delivery decision
						if _, isPanic := s.Instrs[len(s.Instrs)-1].(*ssa.Panic); isPanic {
							continue
						}
						bad = b.Instrs[len(b.Instrs)-1]
					}
				}
			}
			pos := p.Pos(fn.Pos())
			if bad != nil {
				pos = p.InstrPos(bad)
			}
			r.Check(bad == nil, rule, fkey(fn, "fan-out", "range-"+f.Name()), pos, "loop left only when the set is exhausted", "the loop over the session set is left from inside its body (return / break): as soon as one session is skipped or handled, the sessions the map iteration visits after it do not get this message - an admitted subscriber has messages missing in the middle of its run")
		}
	}
	if n < 6 {
		r.Bad(rule, "floor", "", fmt.Sprintf("only %d session-set loops found in the fan-out functions", n))
	}
}

// w6PullAlive: a pull that is in flight or attached keeps its group alive.
func w6PullAlive(p *model.Prog, r *report.Result, rule string) {
	r.Rule(rule, "logic.Group.isPullModuleAlive returns true on every path on which hasPullSession() is true, and on every path on which pullProxy.isSessionPulling is true (path enumeration with that one value fixed): a relay pull that has been started but is not attached yet keeps the group from being disposed by the next tick - otherwise the pull attaches to an orphaned group and a fresh group of the same name admits a second input")
	fn := p.Method("pkg/logic", "Group", "isPullModuleAlive")
	has := p.MethodObj("pkg/logic", "Group", "hasPullSession")
	pulling := p.Field("pkg/logic", "pullProxy", "isSessionPulling")
	for _, which := range []string{"hasPullSession", "isSessionPulling"} {
		w := which
		used := false
		ev := &cEval{fn: fn, maxVisits: 3, maxPaths: 512}
		ev.seed = func(v ssa.Value) (int64, bool) {
			if w == "hasPullSession" {
				if c, ok := v.(*ssa.Call); ok && model.SameFunc(model.CalleeObj(c.Common()), has) {
					used = true
					return 1, true
				}
				return 0, false
			}
			if f := model.LoadedField(v); f != nil && f == pulling {
				used = true
				return 1, true
			}
			return 0, false
		}
		ev.run()
		bad := ""
		nRet := 0
		for _, pa := range ev.paths {
			if pa.ret == nil {
				continue
			}
			rvs := model.ReturnValues(pa.ret)
			if len(rvs) != 1 {
				continue
			}
			nRet++
			if v, known := ev.val(pa.env, rvs[0]); !known || v != 1 {
				bad = p.InstrPos(pa.ret)
			}
		}
		pos := p.Pos(fn.Pos())
		if bad != "" {
			pos = bad
		}
		r.Check(ev.undecided == "" && bad == "" && nRet > 0 && used, rule, fkey(fn, "alive", w), pos, "alive while "+w, "with "+w+" true the pull module can still be reported as not alive: a group whose only member is a connecting (or attached) pull is disposed by the tick; the pull then feeds an orphaned group that no stat lists and the stream name is open for a second input")
	}
}

// w6TsBase: the time base of a TS track is the first DTS of that track.
func w6TsBase(p *model.Prog, r *report.Result, rule string) {
	r.Rule(rule, "remux.Rtmp2MpegtsTimestampFilter.Do stores into basicAudioDts / basicVideoDts only the Dts of the frame it is given (the field the base is later compared with and subtracted from), and subtracts from frame.Dts only the base of the same track: every frame of a track is shifted by one constant, so DTS stays monotone and PTS-DTS keeps the composition offset")
	fn := p.Method("pkg/remux", "Rtmp2MpegtsTimestampFilter", "Do")
	dts := p.Field("pkg/mpegts", "Frame", "Dts")
	n := 0
	bases := map[*types.Var]bool{}
	for _, name := range []string{"basicAudioDts", "basicVideoDts"} {
		f := p.Field("pkg/remux", "Rtmp2MpegtsTimestampFilter", name)
		bases[f] = true
		for _, st := range model.FieldStores(fn, f) {
			n++
			r.Check(model.IsLoadOfField(model.Unwrap(st.Val), dts), rule, fkey(fn, "base", name), p.InstrPos(st), "base = frame.Dts", "the track's time base is taken from something else than the frame's DTS (e.g. its PTS, which is DTS plus the composition offset): the first frames fall below the base and are emitted un-shifted while later ones are shifted - the track's offset is not constant and DTS jumps backwards for streams with B frames")
		}
	}
	// the subtraction uses a base
	for _, st := range model.FieldStores(fn, dts) {
		sub, ok := model.Unwrap(st.Val).(*ssa.BinOp)
		if !ok || sub.Op != token.SUB {
			continue
		}
		n++
		bf := model.LoadedField(sub.Y)
		okBase := model.IsLoadOfField(sub.X, dts) && bf != nil && bases[bf]
		okGuard := okBase && model.GuardedBy(st, func(c ssa.Value, pol bool) bool {
			bo, isB := c.(*ssa.BinOp)
			return isB && bo.Op == token.LSS && !pol && model.IsLoadOfField(bo.X, dts) && model.LoadedField(bo.Y) == bf
		})
		r.Check(okGuard, rule, fkey(fn, "shift", "dts-minus-base"), p.InstrPos(st), "Dts -= base of the track, behind !(Dts < base)", "frame.Dts is reduced by something else than the base it was just compared with (or without that comparison): the unsigned subtraction wraps or another track's base is applied")
	}
	if n < 4 {
		r.Bad(rule, "floor", "", fmt.Sprintf("only %d base stores / shifts found in Rtmp2MpegtsTimestampFilter.Do", n))
	}
}

var _ = types.Typ

// maxBits: an upper bound on the number of significant bits of an unsigned / non-negative
// integer value, from masks, shifts, conversions and the width of its type.
func maxBits(v ssa.Value, d int) int {
	w := typeBits(v.Type())
	if d > 12 {
		return w
	}
	min := func(a, b int) int {
		if a < b {
			return a
		}
		return b
	}
	switch x := v.(type) {
	case *ssa.Const:
		if k, ok := model.ConstInt(x); ok && k >= 0 {
			n := 0
			for k > 0 {
				n++
				k >>= 1
			}
			return n
		}
	case *ssa.BinOp:
		switch x.Op {
		case token.AND:
			return min(maxBits(x.X, d+1), maxBits(x.Y, d+1))
		case token.OR, token.XOR:
			a, b := maxBits(x.X, d+1), maxBits(x.Y, d+1)
			if a > b {
				return min(a, w)
			}
			return min(b, w)
		case token.SHR:
			if k, ok := model.ConstInt(x.Y); ok && k >= 0 {
				n := maxBits(x.X, d+1) - int(k)
				if n < 0 {
					n = 0
				}
				return n
			}
			return maxBits(x.X, d+1)
		case token.SHL:
			if k, ok := model.ConstInt(x.Y); ok && k >= 0 {
				return min(maxBits(x.X, d+1)+int(k), w)
			}
		}
	case *ssa.Convert:
		if isInteger(x.X.Type()) && isUnsignedOrNonNeg(x.X, d+1) {
			return min(maxBits(x.X, d+1), w)
		}
	}
	return w
}

func isUnsignedOrNonNeg(v ssa.Value, d int) bool {
	if b, ok := v.Type().Underlying().(*types.Basic); ok && b.Info()&types.IsUnsigned != 0 {
		return true
	}
	return maxBits(v, d) < typeBits(v.Type())
}

func typeBits(t types.Type) int {
	b, ok := t.Underlying().(*types.Basic)
	if !ok {
		return 64
	}
	switch b.Kind() {
	case types.Int8, types.Uint8:
		return 8
	case types.Int16, types.Uint16:
		return 16
	case types.Int32, types.Uint32:
		return 32
	}
	return 64
}

// w6ShiftWidth: a field assembled from wire bytes is not shifted out of a narrow type before it
// is widened.
func w6ShiftWidth(p *model.Prog, r *report.Result, rule string, floor int, pkgs ...string) {
	r.Rule(rule, "in "+strings.Join(pkgs, ", ")+": where a value whose significant bits are bounded (by a mask, a right shift or the width of the type it was converted from) is shifted left by a constant, bound plus shift fit the type the shift is computed in: no bit of a wire field (the 33-bit PTS/DTS, 24/32-bit lengths and timestamps) falls off while the field is assembled; shifts of operands with no known bound (hashes, CRC) are not judged")
	n := 0
	for _, fn := range lalFuncsIn(p, pkgs...) {
		model.EachInstr(fn, func(in ssa.Instruction) {
			bo, ok := in.(*ssa.BinOp)
			if ok && bo.Op == token.SHR && isInteger(bo.Type()) {
				// narrowed before the right shift: uint8(x) >> k keeps none of x's bits above 7
				if cv, isCv := bo.X.(*ssa.Convert); isCv && isInteger(cv.X.Type()) && typeBits(cv.Type()) < typeBits(cv.X.Type()) {
					if k, isK := model.ConstInt(bo.Y); isK && k > 0 {
						n++
						src := maxBits(cv.X, 0)
						r.Check(src <= typeBits(cv.Type()), rule, fkey(fn, "shr-after-narrowing", fmt.Sprintf("%dbits>>%d", typeBits(cv.Type()), k)), p.InstrPos(bo), "nothing cut off before the shift", fmt.Sprintf("a value of up to %d significant bits is converted to %d bits and only then shifted right by %d: the bits the shift was to bring down are already gone (a 13-bit AU size written as size mod 256: every AAC frame of 256 bytes or more is announced too short)", src, typeBits(cv.Type()), k))
					}
				}
				return
			}
			if !ok || bo.Op != token.SHL || !isInteger(bo.Type()) {
				return
			}
			k, isK := model.ConstInt(bo.Y)
			if !isK || k <= 0 {
				return
			}
			have := maxBits(bo.X, 0)
			if have >= typeBits(bo.X.Type()) {
				return // nothing known about the operand: a deliberate wrap (hash, crc) is not judged
			}
			n++
			r.Check(have+int(k) <= typeBits(bo.Type()), rule, fkey(fn, "shl", fmt.Sprintf("%dbits<<%d", have, k)), p.InstrPos(bo), "shift fits its type", fmt.Sprintf("a field of up to %d significant bits is shifted left by %d in a %d-bit type: its top bits are lost before the value is used (a 33-bit PTS/DTS assembled in 32 bits wraps after 13h15m and the timestamps jump back)", have, k, typeBits(bo.Type())))
		})
	}
	if n < floor {
		r.Bad(rule, "floor", "", fmt.Sprintf("only %d narrow shifts that are widened afterwards found", n))
	}
}

// w6FlvTsBits: the FLV tag reader uses all 32 bits of the timestamp.
func w6FlvTsBits(p *model.Prog, r *report.Result, rule string) {
	r.Rule(rule, "httpflv.parseTagHeader builds TagHeader.Timestamp from the TimestampExtended byte shifted by 24 plus the 24-bit timestamp, and the extended byte enters with all of its 8 bits (no mask narrows it): a tag lal wrote with a timestamp >= 2^31 reads back with the same timestamp")
	fn := p.Func("pkg/httpflv", "parseTagHeader")
	ts := p.Field("pkg/httpflv", "TagHeader", "Timestamp")
	n := 0
	for _, st := range model.FieldStores(fn, ts) {
		var hi *ssa.BinOp
		var walk func(v ssa.Value, d int)
		walk = func(v ssa.Value, d int) {
			bo, ok := model.Unwrap(v).(*ssa.BinOp)
			if !ok || d > 4 {
				return
			}
			switch bo.Op {
			case token.ADD, token.OR:
				walk(bo.X, d+1)
				walk(bo.Y, d+1)
			case token.SHL:
				if k, isK := model.ConstInt(bo.Y); isK && k == 24 {
					hi = bo
				}
			}
		}
		walk(st.Val, 0)
		n++
		bits := 0
		if hi != nil {
			bits = maxBits(hi.X, 0)
		}
		r.Check(hi != nil && bits >= 8 && typeBits(hi.Type()) >= 32, rule, fkey(fn, "timestamp", "extended-byte"), p.InstrPos(st), "extended byte used in full", fmt.Sprintf("the TimestampExtended byte contributes only %d bits to the 32-bit timestamp (or is not shifted into bits 24..31): timestamps above that range read back lower than they were written", bits))
	}
	if n < 1 {
		r.Bad(rule, "floor", "", "no store to TagHeader.Timestamp in parseTagHeader")
	}
}

// w6CopyBuffers: gathering a chunk body from several slices.
func w6CopyBuffers(p *model.Prog, r *report.Result, rule string) {
	r.Rule(rule, "rtmp.copyBufferFromBuffers (the gather step of Message2ChunksV): the skip offset 'pos' applies to the first slice that is copied from only - on the way from the copy() back to the loop head pos is 0 -, the remaining length decreases by what copy() returned and the destination advances by the same amount: a chunk body that continues in the next slice continues at that slice's first byte")
	fn := p.Func("pkg/rtmp", "copyBufferFromBuffers")
	var cp *ssa.Call
	model.EachInstr(fn, func(in ssa.Instruction) {
		if c, ok := in.(*ssa.Call); ok {
			if b, isB := c.Call.Value.(*ssa.Builtin); isB && b.Name() == "copy" {
				cp = c
			}
		}
	})
	if cp == nil || len(fn.Params) != 4 {
		r.Bad(rule, fkey(fn, "gather", "floor"), p.Pos(fn.Pos()), "copy() call / four parameters not found")
		return
	}
	// loop-header phis seeded by the parameters
	phiOf := func(prm *ssa.Parameter) *ssa.Phi {
		var out *ssa.Phi
		model.EachInstr(fn, func(in ssa.Instruction) {
			if ph, ok := in.(*ssa.Phi); ok {
				for _, e := range ph.Edges {
					if e == prm && out == nil {
						out = ph
					}
				}
			}
		})
		return out
	}
	backVal := func(ph *ssa.Phi) (ssa.Value, bool) { // the edge value on the way back from the copy
		if ph == nil {
			return nil, false
		}
		var v ssa.Value
		found := false
		seen := map[*ssa.Phi]bool{}
		var look func(q *ssa.Phi, d int)
		look = func(q *ssa.Phi, d int) {
			if seen[q] || d > 4 {
				return
			}
			seen[q] = true
			for i, e := range q.Edges {
				pred := q.Block().Preds[i]
				if pred == cp.Block() || cp.Block().Dominates(pred) {
					v, found = e, true
				} else if q2, isPhi := e.(*ssa.Phi); isPhi && q2 != ph {
					// the values of the 'continue' way and of the copy way meet in a block
					// before the loop head (a for loop's post statement)
					look(q2, d+1)
				}
			}
		}
		look(ph, 0)
		return v, found
	}
	out, pos, length := phiOf(fn.Params[0]), phiOf(fn.Params[2]), phiOf(fn.Params[3])
	pv, ok := backVal(pos)
	k, isK := int64(-1), false
	if ok {
		k, isK = model.ConstInt(pv)
	}
	r.Check(ok && isK && k == 0, rule, fkey(fn, "gather", "pos-reset"), p.InstrPos(cp), "pos = 0 after the first copy", "after bytes were copied from one slice the skip offset keeps its value: the next slice is read from that stale offset (or skipped), so a chunk body that crosses a slice border carries wrong bytes - headers and lengths stay right, the payload is corrupt")
	lv, ok := backVal(length)
	okLen := false
	if ok {
		if sub, isS := lv.(*ssa.BinOp); isS && sub.Op == token.SUB && sub.X == ssa.Value(length) && sub.Y == ssa.Value(cp) {
			okLen = true
		}
	}
	r.Check(okLen, rule, fkey(fn, "gather", "length-minus-copied"), p.InstrPos(cp), "length -= n", "the remaining length is not reduced by the number of bytes copy() moved")
	ov, ok := backVal(out)
	okOut := false
	if ok {
		if sl, isS := ov.(*ssa.Slice); isS && sl.X == ssa.Value(out) && sl.Low == ssa.Value(cp) && sl.High == nil {
			okOut = true
		}
	}
	r.Check(okOut, rule, fkey(fn, "gather", "out-advanced"), p.InstrPos(cp), "out = out[n:]", "the destination is not advanced by the number of bytes copy() moved")
}

// w6PeerChunkSize: a Set Chunk Size from the peer takes effect whatever legal size it names.
func w6PeerChunkSize(p *model.Prog, r *report.Result, rule string) {
	r.Rule(rule, "rtmp.ChunkComposer.SetPeerChunkSize stores its argument into peerChunkSize on every path, for the argument fixed to 1, 128, 4096, 65536 and 0xFFFFFF (path enumeration): the reader cuts chunk bodies at the size the peer announced, also at the property's largest size 65536 and above")
	fn := p.Method("pkg/rtmp", "ChunkComposer", "SetPeerChunkSize")
	f := p.Field("pkg/rtmp", "ChunkComposer", "peerChunkSize")
	if len(fn.Params) != 2 {
		r.Bad(rule, fkey(fn, "peer-chunk-size", "floor"), p.Pos(fn.Pos()), "unexpected signature")
		return
	}
	prm := fn.Params[1]
	for _, val := range []int64{1, 128, 4096, 65536, 0xFFFFFF} {
		v0 := val
		ev := &cEval{fn: fn, maxVisits: 3, maxPaths: 256}
		ev.seed = func(v ssa.Value) (int64, bool) {
			if v == ssa.Value(prm) {
				return v0, true
			}
			return 0, false
		}
		ev.event = func(in ssa.Instruction) string {
			if st, ok := in.(*ssa.Store); ok && model.FieldOf(st.Addr) == f && model.Unwrap(st.Val) == ssa.Value(prm) {
				return "set"
			}
			return ""
		}
		ev.run()
		bad := ""
		nRet := 0
		for _, pa := range ev.paths {
			if pa.ret == nil {
				continue
			}
			nRet++
			if pa.counts["set"] < 1 {
				bad = p.InstrPos(pa.ret)
			}
		}
		pos := p.Pos(fn.Pos())
		if bad != "" {
			pos = bad
		}
		r.Check(ev.undecided == "" && bad == "" && nRet > 0, rule, fkey(fn, "peer-chunk-size", fmt.Sprintf("%d", val)), pos, "stored", fmt.Sprintf("a Set Chunk Size of %d is not taken over: the composer keeps cutting chunk bodies at the old size and reads payload bytes as chunk headers", val))
	}
}

// w6DeleteSlot: the fragment whose file is deleted is the one whose ring slot is reused next.
func w6DeleteSlot(p *model.Prog, r *report.Result, rule string) {
	r.Rule(rule, "hls.Muxer.getDeleteFrag and getCurrFrag address the same ring slot, getFrag(nfrags): the record of a fragment is lost when its slot is overwritten by the next fragment, so the file to delete in asap cleanup is the one in the slot about to be reused - any other index removes a file that the current or one of the previous delete_threshold playlists still lists, and leaks the one that falls out")
	nf := p.Field("pkg/hls", "Muxer", "nfrags")
	gf := p.MethodObj("pkg/hls", "Muxer", "getFrag")
	for _, name := range []string{"getDeleteFrag", "getCurrFrag"} {
		fn := p.Method("pkg/hls", "Muxer", name)
		calls := model.CallsTo(fn, gf)
		ok := len(calls) == 1
		if ok {
			a := calls[0].Common().Args
			ok = len(a) == 2 && model.IsLoadOfField(a[1], nf)
		}
		pos := p.Pos(fn.Pos())
		if len(calls) > 0 {
			pos = p.InstrPos(calls[0])
		}
		r.Check(ok, rule, fkey(fn, "ring-slot", "getFrag(nfrags)"), pos, "slot nfrags", "the slot is not getFrag(nfrags): deletion and reuse address different ring slots, a segment is deleted while a playlist within delete_threshold versions still lists it")
	}
}

// w6VideoBoundaryKey: a video frame is a segment boundary only if it is a key frame.
func w6VideoBoundaryKey(p *model.Prog, r *report.Result, rule string) {
	r.Rule(rule, "remux.Rtmp2MpegtsRemuxer.onFrame, for a frame that is not audio and whose Key flag is false, hands boundary=false to observer.OnTsPackets on every path (path enumeration with Sid and Key fixed): HLS cuts segments, and the TS GOP cache / waiting http-ts subscribers start, at key frames only")
	fn := p.Method("pkg/remux", "Rtmp2MpegtsRemuxer", "onFrame")
	vid, _ := constant.Int64Val(p.Const("pkg/mpegts", "StreamIdVideo").Val())
	usedKey := false
	keyF, sidF := p.Field("pkg/mpegts", "Frame", "Key"), p.Field("pkg/mpegts", "Frame", "Sid")
	ev := &cEval{fn: fn, maxVisits: 3, maxPaths: 1024}
	ev.seed = func(v ssa.Value) (int64, bool) {
		if f := model.LoadedField(v); f != nil {
			switch f {
			case keyF:
				usedKey = true
				return 0, true
			case sidF:
				return vid, true
			}
		}
		return 0, false
	}
	ev.observe = func(in ssa.Instruction, val func(ssa.Value) (int64, bool)) string {
		ci, ok := in.(ssa.CallInstruction)
		if !ok || !ci.Common().IsInvoke() || ci.Common().Method.Name() != "OnTsPackets" {
			return ""
		}
		a := ci.Common().Args
		if b, known := val(a[len(a)-1]); known {
			return fmt.Sprintf("boundary=%d", b)
		}
		return "boundary=?"
	}
	ev.run()
	bad := ""
	n := 0
	for _, pa := range ev.paths {
		for _, e := range pa.events {
			n++
			if e != "boundary=0" {
				bad = e
			}
		}
	}
	r.Check(ev.undecided == "" && bad == "" && n > 0 && usedKey, rule, fkey(fn, "boundary", "video-needs-key"), p.Pos(fn.Pos()), "non-key video frame is never a boundary", "a video frame that is not a key frame can be reported as a boundary ("+bad+"): the HLS muxer closes and opens segments at it, so a listed segment starts with a frame that cannot be decoded on its own, and waiting TS subscribers are released mid-GOP")
}

// w6AvcSingle: every single-NAL payload type of H.264 is recognised.
func w6AvcSingle(p *model.Prog, r *report.Result, rule string) {
	r.Rule(rule, "rtprtcp.calcPositionIfNeededAvc marks a packet whose NAL header type is 1, 5, 12 or 23 (the whole single-NAL range 1..23 of RFC 6184, ends included) as PositionTypeSingle on every path (path enumeration with the parsed type fixed): such a unit is delivered and does not block the head of the reorder list")
	fn := p.Func("pkg/rtprtcp", "calcPositionIfNeededAvc")
	pt := p.Field("pkg/rtprtcp", "RtpPacket", "positionType")
	single, _ := constant.Int64Val(p.Const("pkg/rtprtcp", "PositionTypeSingle").Val())
	parse := p.FuncObj("pkg/avc", "ParseNaluType")
	for _, t := range []int64{1, 5, 12, 23} {
		t0 := t
		used := false
		ev := &cEval{fn: fn, maxVisits: 3, maxPaths: 1024}
		ev.seed = func(v ssa.Value) (int64, bool) {
			if c, ok := v.(*ssa.Call); ok && model.SameFunc(model.CalleeObj(c.Common()), parse) {
				used = true
				return t0, true
			}
			return 0, false
		}
		ev.observe = func(in ssa.Instruction, val func(ssa.Value) (int64, bool)) string {
			st, ok := in.(*ssa.Store)
			if !ok || model.FieldOf(st.Addr) != pt {
				return ""
			}
			if k, known := val(st.Val); known {
				return fmt.Sprintf("%d", k)
			}
			return "?"
		}
		ev.run()
		bad := ""
		nRet := 0
		for _, pa := range ev.paths {
			if pa.ret == nil {
				continue
			}
			nRet++
			if len(pa.events) != 1 || pa.events[0] != fmt.Sprintf("%d", single) {
				bad = p.InstrPos(pa.ret)
			}
		}
		pos := p.Pos(fn.Pos())
		if bad != "" {
			pos = bad
		}
		r.Check(ev.undecided == "" && bad == "" && nRet > 0 && used, rule, fkey(fn, "single-nal", fmt.Sprintf("type-%d", t)), pos, "classified as single NAL", fmt.Sprintf("an H.264 packet whose NAL type is %d is not classified as a single-NAL packet: it is logged as unknown, never delivered and blocks the list head until the list is full", t))
	}
}

// w6NilLocal: a local pointer that starts as nil is tested before it is dereferenced.
func w6NilLocal(p *model.Prog, r *report.Result, rule string, floor int, pkgs ...string) {
	r.Rule(rule, "in "+strings.Join(pkgs, ", ")+": a local pointer variable that is nil on some way into a merge point (an SSA phi with a nil constant among its inputs, e.g. 'var md *MediaDesc' set later inside a loop) is dereferenced (field address, load, store through it) only behind the non-nil edge of a nil test of that variable: input that presents the dependent item first (an a= line before any m= line) is skipped, not dereferenced")
	n := 0
	for _, fn := range lalFuncsIn(p, pkgs...) {
		model.EachInstr(fn, func(in ssa.Instruction) {
			ph, ok := in.(*ssa.Phi)
			if !ok {
				return
			}
			if _, isPtr := ph.Type().Underlying().(*types.Pointer); !isPtr {
				return
			}
			hasNil := false
			seen := map[*ssa.Phi]bool{}
			// edgeNonNil: the edge pred -> blk is only taken when v != nil
			edgeNonNil := func(v ssa.Value, pred, blk *ssa.BasicBlock) bool {
				if len(pred.Instrs) > 0 {
					if iff, isIf := pred.Instrs[len(pred.Instrs)-1].(*ssa.If); isIf && pred.Succs[0] != pred.Succs[1] {
						if x, nonNilOnTrue, isT := nilTestOf(iff.Cond); isT && x == v {
							if (pred.Succs[0] == blk && nonNilOnTrue) || (pred.Succs[1] == blk && !nonNilOnTrue) {
								return true
							}
						}
					}
				}
				for _, g := range model.Guards(pred) {
					if x, nonNilOnTrue, isT := nilTestOf(g.Cond); isT && x == v && nonNilOnTrue == g.Polarity {
						return true
					}
				}
				return false
			}
			var scan func(q *ssa.Phi, d int)
			scan = func(q *ssa.Phi, d int) {
				if seen[q] || d > 6 {
					return
				}
				seen[q] = true
				for i, e := range q.Edges {
					if model.IsNilConst(e) {
						hasNil = true
					}
					if q2, isPhi := e.(*ssa.Phi); isPhi && !edgeNonNil(q2, q.Block().Preds[i], q.Block()) {
						scan(q2, d+1)
					}
				}
			}
			scan(ph, 0)
			if !hasNil || ph.Referrers() == nil {
				return
			}
			for _, ref := range *ph.Referrers() {
				deref := false
				switch x := ref.(type) {
				case *ssa.FieldAddr:
					deref = x.X == ssa.Value(ph)
				case *ssa.UnOp:
					deref = x.Op == token.MUL && x.X == ssa.Value(ph)
				case *ssa.Store:
					deref = x.Addr == ssa.Value(ph)
				case *ssa.IndexAddr:
					deref = x.X == ssa.Value(ph)
				}
				if !deref {
					continue
				}
				n++
				guarded := model.GuardedBy(ref, func(c ssa.Value, pol bool) bool {
					x, nonNil, isT := nilTestOf(c)
					if !isT || nonNil != pol {
						return false
					}
					if x == ssa.Value(ph) {
						return true
					}
					// a test of a phi this one feeds / is fed by (same variable at another merge)
					q, isPhi := x.(*ssa.Phi)
					if !isPhi {
						return false
					}
					for _, e := range ph.Edges {
						if e == ssa.Value(q) {
							return true
						}
					}
					return false
				})
				r.Check(guarded, rule, fkey(fn, "nil-local", ph.Comment), p.InstrPos(ref), "dereferenced behind a nil test", "the variable can still be nil here (it is nil until the item it points to has been seen) and is dereferenced without a test: a peer that sends the lines in another order makes the goroutine panic, and nothing recovers it")
			}
		})
	}
	if n < floor {
		r.Bad(rule, "floor", "", fmt.Sprintf("only %d dereferences of maybe-nil locals found", n))
	}
}

// w6KickPrefixes: every kind of session a group holds can be kicked by its id.
func w6KickPrefixes(p *model.Prog, r *report.Result, rule string) {
	r.Rule(rule, "logic.Group.KickSession dispatches on strings.HasPrefix(sessionId, <prefix>) for the unique-key prefix of every session kind the group holds (rtmp server, rtmp/rtsp pull, rtsp pub/sub, ps pub, flv/ts/hls sub), and with the id fixed to a pull prefix (path enumeration, all other prefix tests false) every path calls kickPull: a kicked session of any kind is found and disconnected")
	fn := p.Method("pkg/logic", "Group", "KickSession")
	kick := p.MethodObj("pkg/logic", "Group", "kickPull")
	prefixOf := func(ci ssa.CallInstruction) (string, bool) {
		o := model.CalleeObj(ci.Common())
		if o == nil || o.Name() != "HasPrefix" || o.Pkg() == nil || o.Pkg().Path() != "strings" || len(ci.Common().Args) != 2 {
			return "", false
		}
		return model.ConstString(ci.Common().Args[1])
	}
	have := map[string]bool{}
	for _, ci := range model.AllCalls(fn) {
		if s, ok := prefixOf(ci); ok {
			have[s] = true
		}
	}
	for _, name := range []string{"UkPreRtmpServerSession", "UkPreRtmpPullSession", "UkPreRtspPullSession", "UkPreRtspPubSession", "UkPreRtspSubSession", "UkPrePsPubSession", "UkPreFlvSubSession", "UkPreTsSubSession", "UkPreHlsSubSession"} {
		want := constant.StringVal(p.Const("pkg/base", name).Val())
		r.Check(have[want], rule, fkey(fn, "kick-prefix", name), p.Pos(fn.Pos()), "prefix "+want+" dispatched", "no branch of KickSession tests the prefix "+want+": a session of that kind is reported as 'not found' by the kick API and stays connected")
	}
	for _, name := range []string{"UkPreRtmpPullSession", "UkPreRtspPullSession"} {
		want := constant.StringVal(p.Const("pkg/base", name).Val())
		ev := &cEval{fn: fn, maxVisits: 2, maxPaths: 4096}
		ev.seed = func(v ssa.Value) (int64, bool) {
			c, ok := v.(*ssa.Call)
			if !ok {
				return 0, false
			}
			if s, isP := prefixOf(c); isP {
				return b2i(s == want), true
			}
			return 0, false
		}
		ev.event = func(in ssa.Instruction) string {
			if ci, ok := in.(ssa.CallInstruction); ok && model.SameFunc(model.CalleeObj(ci.Common()), kick) {
				return "kickPull"
			}
			return ""
		}
		ev.run()
		bad := ""
		nRet := 0
		for _, pa := range ev.paths {
			if pa.ret == nil {
				continue
			}
			nRet++
			if pa.counts["kickPull"] < 1 {
				bad = p.InstrPos(pa.ret)
			}
		}
		pos := p.Pos(fn.Pos())
		if bad != "" {
			pos = bad
		}
		r.Check(ev.undecided == "" && bad == "" && nRet > 0, rule, fkey(fn, "kick-pull", name), pos, "pull id reaches kickPull", "a session id with the prefix "+want+" does not reach kickPull(): kicking a relay pull of that protocol answers 'not found' and the pull keeps running")
	}
}

// w6AliveSnapshot: the liveness snapshot remembers each counter under its own name.
func w6AliveSnapshot(p *model.Prog, r *report.Result, rule string) {
	r.Rule(rule, "base.BasicSessionStat.isAlive / updateStat: the read counter (first argument, ReadBytesSum at the call in IsAliveWitchConn) is compared with and stored into the snapshot's ReadBytesSum only, the written counter (second argument) with and into WroteBytesSum only: write-alive is 'the written byte count moved since the last sweep', so a subscriber that accepts no more data is noticed")
	n := 0
	for _, name := range []string{"isAlive", "updateStat"} {
		fn := p.Method("pkg/base", "BasicSessionStat", name)
		if len(fn.Params) < 3 {
			r.Bad(rule, fkey(fn, "snapshot", "floor"), p.Pos(fn.Pos()), "unexpected signature")
			continue
		}
		want := map[string]ssa.Value{"ReadBytesSum": fn.Params[1], "WroteBytesSum": fn.Params[2]}
		model.EachInstr(fn, func(in ssa.Instruction) {
			switch x := in.(type) {
			case *ssa.Store:
				f := model.FieldOf(x.Addr)
				if f == nil || want[f.Name()] == nil {
					return
				}
				n++
				r.Check(model.Unwrap(x.Val) == want[f.Name()], rule, fkey(fn, "snapshot-store", f.Name()), p.InstrPos(x), "own counter stored", "the snapshot field "+f.Name()+" is overwritten with another value than the counter of the same name: from the second sweep on the comparison is between unrelated numbers, a stalled subscriber counts as alive for ever (or a live one as dead)")
			case *ssa.BinOp:
				if x.Op != token.SUB {
					return
				}
				f := model.LoadedField(x.Y)
				if f == nil || want[f.Name()] == nil {
					return
				}
				n++
				r.Check(model.Unwrap(x.X) == want[f.Name()], rule, fkey(fn, "snapshot-diff", f.Name()), p.InstrPos(x), "own counter compared", "the snapshot field "+f.Name()+" is subtracted from another value than the counter of the same name")
			}
		})
	}
	// the caller passes the counters in this order
	caller := p.Method("pkg/base", "BasicSessionStat", "IsAliveWitchConn")
	okOrder := false
	for _, ci := range model.CallsTo(caller, p.MethodObj("pkg/base", "BasicSessionStat", "isAlive")) {
		a := ci.Common().Args
		if len(a) == 3 {
			f1, f2 := fieldOfValue(a[1]), fieldOfValue(a[2])
			if f1 == "ReadBytesSum" && f2 == "WroteBytesSum" {
				okOrder = true
			}
		}
	}
	r.Check(okOrder, rule, fkey(caller, "snapshot", "argument-order"), p.Pos(caller.Pos()), "isAlive(ReadBytesSum, WroteBytesSum)", "IsAliveWitchConn does not pass (ReadBytesSum, WroteBytesSum) of the connection's stat in this order")
	if n < 10 {
		r.Bad(rule, "floor", "", fmt.Sprintf("only %d snapshot stores / differences found", n))
	}
}

// fieldOfValue: the name of the struct field a value was read from (load of a field address or
// a Field extraction of a struct value).
func fieldOfValue(v ssa.Value) string {
	v = model.Unwrap(v)
	if f := model.LoadedField(v); f != nil {
		return f.Name()
	}
	if fx, ok := v.(*ssa.Field); ok {
		if st, isS := fx.X.Type().Underlying().(*types.Struct); isS {
			return st.Field(fx.Field).Name()
		}
	}
	return ""
}

// w6CtxDefUse: a parser tests the fields of its result only after it has set them.
func w6CtxDefUse(p *model.Prog, r *report.Result, rule string, floor int, fns ...*ssa.Function) {
	r.Rule(rule, "in the parameter-set parsers that fill a caller-supplied context (hevc.ParseSps, hevc.ParseVps, ...): a field of the context that the function itself stores is read (to decide what to parse next) only where a store to it in the same function dominates the read: the decision uses the value just parsed, never what a previous call or the caller's zero value left there")
	n := 0
	for _, fn := range fns {
		if fn == nil {
			continue
		}
		for _, prm := range fn.Params {
			pt, ok := prm.Type().Underlying().(*types.Pointer)
			if !ok {
				continue
			}
			if _, isS := pt.Elem().Underlying().(*types.Struct); !isS {
				continue
			}
			stores := map[*types.Var][]*ssa.Store{}
			model.EachInstr(fn, func(in ssa.Instruction) {
				if st, isSt := in.(*ssa.Store); isSt {
					if fa, isFa := st.Addr.(*ssa.FieldAddr); isFa && fa.X == ssa.Value(prm) {
						stores[model.FieldOf(fa)] = append(stores[model.FieldOf(fa)], st)
					}
				}
			})
			model.EachInstr(fn, func(in ssa.Instruction) {
				ld, isLd := in.(*ssa.UnOp)
				if !isLd || ld.Op != token.MUL {
					return
				}
				fa, isFa := ld.X.(*ssa.FieldAddr)
				if !isFa || fa.X != ssa.Value(prm) {
					return
				}
				f := model.FieldOf(fa)
				if len(stores[f]) == 0 {
					return
				}
				// accumulate-the-maximum: the read is only compared with the value that is then stored
				if ld.Referrers() != nil && len(*ld.Referrers()) > 0 {
					onlyCmp := true
					for _, ref := range *ld.Referrers() {
						bo, isB := ref.(*ssa.BinOp)
						if !isB || !(bo.Op == token.LSS || bo.Op == token.GTR || bo.Op == token.LEQ || bo.Op == token.GEQ) {
							onlyCmp = false
							break
						}
						other := bo.X
						if other == ssa.Value(ld) {
							other = bo.Y
						}
						stored := false
						for _, st := range stores[f] {
							if sameExpr(st.Val, other, 0) {
								stored = true
							}
						}
						if !stored {
							onlyCmp = false
						}
					}
					if onlyCmp {
						return
					}
				}
				n++
				dom := false
				for _, st := range stores[f] {
					if model.InstrDominates(st, ld) {
						dom = true
					}
				}
				r.Check(dom, rule, fkey(fn, "read-after-set", f.Name()), p.InstrPos(ld), "read after the function's own store", "the context field "+f.Name()+" is read before this call has stored it: the branch is decided by a stale value (zero for a fresh context), so a conditional syntax element is skipped or read wrongly and every later field is parsed at a shifted bit position")
			})
		}
	}
	if n < floor {
		r.Bad(rule, "floor", "", fmt.Sprintf("only %d reads of self-set context fields found", n))
	}
}

// w6StatFresh: every stat answer owns its list of subscribers.
func w6StatFresh(p *model.Prog, r *report.Result, rule string) {
	r.Rule(rule, "logic.Group.GetStat returns group.stat by value after rebuilding stat.StatSubs under the group lock; the rebuild starts from nil (or a fresh make) - a store of nil / MakeSlice to StatSubs dominates every other store to it - and no stored value is a re-slice of the previous list: an answer handed out earlier (and read without the lock by the HTTP API encoder, the notify worker) is never rewritten by a later call")
	fn := p.Method("pkg/logic", "Group", "GetStat")
	f := p.Field("pkg/base", "StatGroup", "StatSubs")
	var fresh []*ssa.Store
	var others []*ssa.Store
	for _, st := range model.FieldStores(fn, f) {
		v := model.Unwrap(st.Val)
		_, isMake := v.(*ssa.MakeSlice)
		if model.IsNilConst(v) || isMake {
			fresh = append(fresh, st)
		} else {
			others = append(others, st)
		}
	}
	ok := len(fresh) >= 1 && len(others) >= 1
	var bad ssa.Instruction
	for _, st := range others {
		dom := false
		for _, fr := range fresh {
			if model.InstrDominates(fr, st) {
				dom = true
			}
		}
		reslice := false
		if sl, isSl := model.Unwrap(st.Val).(*ssa.Slice); isSl && model.IsLoadOfField(sl.X, f) {
			reslice = true
		}
		if !dom || reslice {
			ok = false
			bad = st
		}
	}
	pos := p.Pos(fn.Pos())
	if bad != nil {
		pos = p.InstrPos(bad)
	}
	r.Check(ok, rule, fkey(fn, "stat", "StatSubs-fresh"), pos, "list rebuilt from nil", "the subscriber list of the stat answer is rebuilt in the backing array of the previous answer (re-sliced, or not reset to nil first): a copy of StatGroup returned by an earlier call shares that array and is rewritten under the lock while its reader works without it - a data race and answers that show the wrong sessions")
}

// sameExpr: two values are the same value or the same small expression over the same values
// (go/ssa does not share common subexpressions).
func sameExpr(a, b ssa.Value, d int) bool {
	if a == b {
		return true
	}
	if d > 4 {
		return false
	}
	switch x := a.(type) {
	case *ssa.Const:
		y, ok := b.(*ssa.Const)
		return ok && x.Value != nil && y.Value != nil && constant.Compare(x.Value, token.EQL, y.Value)
	case *ssa.BinOp:
		y, ok := b.(*ssa.BinOp)
		return ok && x.Op == y.Op && sameExpr(x.X, y.X, d+1) && sameExpr(x.Y, y.Y, d+1)
	case *ssa.Convert:
		y, ok := b.(*ssa.Convert)
		return ok && types.Identical(x.Type(), y.Type()) && sameExpr(x.X, y.X, d+1)
	}
	return false
}

// w6LockPairing: a mutex locked in a function is released on every way out of it.
func w6LockPairing(p *model.Prog, r *report.Result, rule string) {
	r.Rule(rule, "every lal function that calls Lock()/RLock() on a mutex field releases it on every path to a return: the set of mutex classes possibly still held from the function's own Lock() calls (forward may-analysis over the function's blocks; a deferred Unlock of the class releases it at the return) is empty at each return. The call-graph lock analysis of R1-R3 treats callees as lock-neutral, so this is also what makes its sets exact; a path that keeps the lock blocks every later user of the session or group for ever")
	n := 0
	for _, fn := range p.LalFuncs() {
		if !lockScope(fn) {
			continue
		}
		hasLock := false
		deferred := map[*types.Var]bool{}
		model.EachInstr(fn, func(in ssa.Instruction) {
			ci, ok := in.(ssa.CallInstruction)
			if !ok {
				return
			}
			cl, op := lockOp(ci)
			if cl == nil {
				return
			}
			if _, isDefer := in.(*ssa.Defer); isDefer {
				if op < 0 {
					deferred[cl] = true
				}
				return
			}
			if op > 0 {
				hasLock = true
			}
		})
		if !hasLock {
			continue
		}
		in := map[*ssa.BasicBlock]map[*types.Var]ssa.Instruction{}
		out := map[*ssa.BasicBlock]map[*types.Var]ssa.Instruction{}
		transfer := func(b *ssa.BasicBlock, st map[*types.Var]ssa.Instruction) map[*types.Var]ssa.Instruction {
			cur := map[*types.Var]ssa.Instruction{}
			for k, v := range st {
				cur[k] = v
			}
			for _, ins := range b.Instrs {
				ci, ok := ins.(ssa.CallInstruction)
				if !ok {
					continue
				}
				if _, isDefer := ins.(*ssa.Defer); isDefer {
					continue
				}
				if _, isGo := ins.(*ssa.Go); isGo {
					continue
				}
				cl, op := lockOp(ci)
				if cl == nil {
					continue
				}
				if op > 0 {
					cur[cl] = ins
				} else {
					delete(cur, cl)
				}
			}
			return cur
		}
		for changed, iter := true, 0; changed && iter < 100; iter++ {
			changed = false
			for _, b := range fn.Blocks {
				st := map[*types.Var]ssa.Instruction{}
				for _, pr := range b.Preds {
					for k, v := range out[pr] {
						if _, have := st[k]; !have {
							st[k] = v
						}
					}
				}
				o := transfer(b, st)
				if len(o) != len(out[b]) || len(st) != len(in[b]) {
					changed = true
				}
				in[b], out[b] = st, o
			}
		}
		for _, ret := range model.ReturnsOf(fn) {
			for cl, at := range out[ret.Block()] {
				if deferred[cl] {
					continue
				}
				n++
				r.Bad(rule, fkey(fn, "lock-leak", lockClassName(cl)), p.InstrPos(ret), "the lock "+lockClassName(cl)+" taken at "+p.InstrPos(at)+" can still be held at this return: some path from the Lock() to here passes no Unlock(); the next Lock() of that mutex - every later packet, stat call or teardown of the object - blocks for ever")
			}
		}
		n++
		r.Check(true, rule, fkey(fn, "lock-pairing", "analysed"), p.Pos(fn.Pos()), "locks released on every return", "")
	}
	if n < 40 {
		r.Bad(rule, "floor", "", fmt.Sprintf("only %d locking functions analysed", n))
	}
}

// w6Counterpart: "the wrong one of a pair" in the files a property is anchored in (counterpart.go).
func w6Counterpart(p *model.Prog, r *report.Result, prop string) {
	rule := prop + ".PAIR"
	files := propAnchorFiles[prop]
	r.Rule(rule, "in the files this property is anchored in ("+strings.Join(files, ", ")+"): no plain copy (assignment, struct literal field, argument bound to a named parameter) takes its value from the counterpart of what its target is named after - target name carries one word of read/wrote, audio/video, pts/dts, sps/pps/vps, pub/sub, pull/push, rtp/rtcp, in/out, first/last, width/height, src/dst, local/remote, min/max, begin/end, start/stop, key/value; source name carries the other word and not the target's - while a value of the same type named after the target's word is in scope; nor is a value of package avc compared with a constant of package hevc (or the reverse); nor does an if-statement test X while its block works on X's twin (the same name with the pair word exchanged, same type) and never mentions X. Decided on the type-checked syntax; arithmetic is not judged, nor is a bare `dts` set from a pts value (a PES that carries no DTS)")
	n := 0
	for _, h := range CounterpartHits(p) {
		in := false
		for _, f := range files {
			if strings.HasPrefix(h.Pos, f+":") {
				in = true
			}
		}
		if !in {
			continue
		}
		key := h.Fn + "|" + h.Target + "<-" + h.Source
		if _, ok := counterpartExceptions[key]; ok {
			n++
			r.Check(true, rule, "pair|"+key, h.Pos, "meant: "+counterpartExceptions[key], "")
			continue
		}
		r.Bad(rule, "pair|"+key, h.Pos, h.Target+" takes its value from "+h.Source+" ("+h.Pair+"): the counterpart of the value the target is named after is copied - the wrong one of two parallel counters / tracks / time stamps")
	}
	r.Check(true, rule, "pair|scanned", "", fmt.Sprintf("%d files scanned, %d reviewed instance(s)", len(files), n), "")
}
