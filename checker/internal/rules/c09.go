package rules

import (
	"fmt"
	"go/constant"
	"go/token"
	"go/types"
	"sort"

	"golang.org/x/tools/go/ssa"

	"lalverif/internal/model"
	"lalverif/internal/report"
)

func init() { register("C09", c09) }

// literalBytes returns the constant bytes of the first local [n]byte array of length n that fn
// initialises element by element with constants.
func literalBytes(fn *ssa.Function, n int64) []int64 {
	var res []int64
	model.EachInstr(fn, func(in ssa.Instruction) {
		if res != nil {
			return
		}
		al, ok := in.(*ssa.Alloc)
		if !ok {
			return
		}
		at, ok := al.Type().Underlying().(*types.Pointer).Elem().Underlying().(*types.Array)
		if !ok || at.Len() != n {
			return
		}
		if bt, ok := at.Elem().Underlying().(*types.Basic); !ok || bt.Kind() != types.Uint8 {
			return
		}
		vals := make([]int64, n)
		cnt := 0
		for _, ref := range *al.Referrers() {
			ia, ok := ref.(*ssa.IndexAddr)
			if !ok || ia.Referrers() == nil {
				continue
			}
			i, _ := model.ConstInt(ia.Index)
			for _, r2 := range *ia.Referrers() {
				if st, ok := r2.(*ssa.Store); ok {
					if v, isK := model.ConstInt(st.Val); isK {
						vals[i] = v
						cnt++
					}
				}
			}
		}
		if cnt == int(n) {
			res = vals
		}
	})
	return res
}

func constU(p *model.Prog, pkg, name string) int64 {
	v, _ := constant.Int64Val(p.Const(pkg, name).Val())
	return v
}

func c09(p *model.Prog, r *report.Result) {
	r.Explanation = "Narrow: decides the PSI/PID constant agreement MPEG-TS well-formedness needs: the literal TS headers of PackPat/PackPmt carry PID 0 / PidPmt with payload-unit-start and payload-only adaptation control, the PAT points at PidPmt, the PMT's PCR PID and element PIDs are the PIDs the remuxer stamps on video/audio frames, only video frames can be key frames (the frames Frame.Pack gives a PCR), stream-type constants equal ISO/IEC 13818-1 values (R1); the codec ids the remuxer forwards are exactly the ones PackPmt declares (R2); Frame.Pack writes the sync byte, the 13-bit PID split 5+8 and a 4-bit continuity counter (R3); on the stuffing path the payload ends exactly at byte 188, stuffing bytes stay inside the adaptation field, and PES_packet_length fits 16 bits (R4, linear obligations); PTS/DTS bits are placed as ISO 13818-1 lays them out (R5)."
	r.NotDecided = []string{"continuity across frames, CRC-32, adaptation-field length value, PCR value (value computations)", "byte identity of the elementary payload"}
	r.Count("functions_analysed", 6)

	// ---------------------------------------------------------------- R1
	r.Rule("C09.R1", "PackPat header literal 47 40 00 10 (PID = PidPat), PackPmt header literal 47 50 01 10 (PID = PidPmt = the pmpid PackPat stores), pcrPid = PidVideo, PMT element PIDs = PidVideo/PidAudio = the constants Rtmp2MpegtsRemuxer stores into Frame.Pid for video/audio with StreamIdVideo/StreamIdAudio, Frame.Key is non-false only where Frame.Pid = PidVideo; StreamTypeAac/Avc/Hevc/Private = 0x0F/0x1B/0x24/0x06")
	pidPat, pidPmt, pidV, pidA := constU(p, "pkg/mpegts", "PidPat"), constU(p, "pkg/mpegts", "PidPmt"), constU(p, "pkg/mpegts", "PidVideo"), constU(p, "pkg/mpegts", "PidAudio")
	hdr := func(fn *ssa.Function, wantPid int64) {
		b := literalBytes(fn, 4)
		ok := b != nil && b[0] == 0x47 && b[1]&0x40 != 0 && b[1]&0x80 == 0 && (b[3]>>4)&0x3 == 1
		var pid int64 = -1
		if b != nil {
			pid = (b[1]&0x1f)<<8 | b[2]
		}
		r.Check(ok && pid == wantPid, "C09.R1", fkey(fn, "psi", "ts-header"), p.Pos(fn.Pos()), fmt.Sprintf("sync 0x47, PUSI, payload-only, PID 0x%x", pid), fmt.Sprintf("PSI packet header %v carries PID 0x%x, expected 0x%x with payload-unit-start and payload-only", b, pid, wantPid))
	}
	packPat, packPmt := p.Func("pkg/mpegts", "PackPat"), p.Func("pkg/mpegts", "PackPmt")
	hdr(packPat, pidPat)
	hdr(packPmt, pidPmt)
	storeConst := func(fn *ssa.Function, field *types.Var) []int64 {
		var out []int64
		for _, st := range model.FieldStores(fn, field) {
			if k, isK := model.ConstInt(st.Val); isK {
				out = append(out, k)
			} else {
				out = append(out, -1)
			}
		}
		sort.Slice(out, func(i, j int) bool { return out[i] < out[j] })
		return out
	}
	pmpid := storeConst(packPat, p.Field("pkg/mpegts", "PatProgramElement", "pmpid"))
	r.Check(len(pmpid) == 1 && pmpid[0] == pidPmt, "C09.R1", fkey(packPat, "psi", "pat->pmt-pid"), p.Pos(packPat.Pos()), "PAT program_map_PID = PidPmt", fmt.Sprintf("PAT points at PID %v but the PMT is sent on 0x%x", pmpid, pidPmt))
	pcr := storeConst(packPmt, p.Field("pkg/mpegts", "PmtSpecificData", "pcrPid"))
	r.Check(len(pcr) == 1 && pcr[0] == pidV, "C09.R1", fkey(packPmt, "psi", "pcr-pid"), p.Pos(packPmt.Pos()), "PCR_PID = PidVideo", fmt.Sprintf("PMT declares PCR_PID %v but PCRs are carried on the video PID 0x%x", pcr, pidV))
	elPids := storeConst(packPmt, p.Field("pkg/mpegts", "PmtProgramElement", "Pid"))
	r.Check(len(elPids) == 2 && elPids[0] == pidV && elPids[1] == pidA, "C09.R1", fkey(packPmt, "psi", "element-pids"), p.Pos(packPmt.Pos()), "PMT elements on PidVideo and PidAudio", fmt.Sprintf("PMT element PIDs %v differ from PidVideo/PidAudio", elPids))
	// remuxer
	framePid := p.Field("pkg/mpegts", "Frame", "Pid")
	frameSid := p.Field("pkg/mpegts", "Frame", "Sid")
	frameKey := p.Field("pkg/mpegts", "Frame", "Key")
	sidV, sidA := constU(p, "pkg/mpegts", "StreamIdVideo"), constU(p, "pkg/mpegts", "StreamIdAudio")
	seenV, seenA := false, false
	// per function of pkg/remux, with its same-package helpers inlined: a helper that fills the
	// frame gets PID / stream id / key as parameters, resolved at each call site; one group per
	// (function, call chain)
	type frameGroup struct {
		fn         *ssa.Function
		pids, sids []int64
		keyStores  []ssa.Instruction
	}
	for _, fn := range lalFuncsIn(p, "pkg/remux") {
		if fn.Parent() != nil {
			continue
		}
		groups := map[string]*frameGroup{}
		var order []string
		model.EachInstrDeep(fn, 1, func(d model.DeepInstr) {
			st, ok := d.In.(*ssa.Store)
			if !ok {
				return
			}
			f := model.FieldOf(st.Addr)
			if f != framePid && f != frameSid && f != frameKey {
				return
			}
			ck := ""
			for _, c := range d.Chain {
				ck += p.InstrPos(c) + ">"
			}
			g := groups[ck]
			if g == nil {
				g = &frameGroup{fn: d.Fn}
				groups[ck] = g
				order = append(order, ck)
			}
			v := d.Resolve(st.Val)
			k, isK := model.ConstInt(v)
			switch f {
			case framePid:
				if isK {
					g.pids = append(g.pids, k)
				} else if len(d.Chain) > 0 {
					g.pids = append(g.pids, -1)
				}
			case frameSid:
				if isK {
					g.sids = append(g.sids, k)
				} else if len(d.Chain) > 0 {
					g.sids = append(g.sids, -1)
				}
			case frameKey:
				if b, isc := model.ConstBool(v); isc && !b {
					return
				}
				if _, isPrm := model.Unwrap(v).(*ssa.Parameter); isPrm && len(d.Chain) == 0 {
					return // the helper on its own: decided at its call sites
				}
				g.keyStores = append(g.keyStores, st)
			}
		})
		sort.Strings(order)
		for _, ck := range order {
			g := groups[ck]
			pids, sids := g.pids, g.sids
			if len(pids) == 0 {
				continue
			}
			key := fkey(fn, "frame", "pid/sid")
			okPair := len(pids) == 1 && len(sids) == 1 && ((pids[0] == pidV && sids[0] == sidV) || (pids[0] == pidA && sids[0] == sidA))
			first := int64(-1)
			if len(sids) > 0 {
				first = sids[0]
			}
			r.Check(okPair, "C09.R1", key, p.Pos(fn.Pos()), fmt.Sprintf("frames stamped PID 0x%x / stream id 0x%x", pids[0], first), fmt.Sprintf("frames are stamped with PID %v / stream id %v, not a declared (PID, stream id) pair", pids, sids))
			if okPair && pids[0] == pidV {
				seenV = true
			}
			if okPair && pids[0] == pidA {
				seenA = true
			}
			// key only on video
			for _, st := range g.keyStores {
				r.Check(len(pids) == 1 && pids[0] == pidV, "C09.R1", fkey(fn, "frame", "key-only-video"), p.InstrPos(st), "key flag (PCR carrier) only on the PCR PID", "a frame on a PID other than PCR_PID can be marked key and be given the PCR")
			}
		}
	}
	r.Check(seenV && seenA, "C09.R1", "remux|frame|both-tracks", "", "video and audio frame stamping found", "frame stamping for video/audio not found")
	for _, st := range []struct {
		n string
		v int64
	}{{"StreamTypeAac", 0x0F}, {"StreamTypeAvc", 0x1B}, {"StreamTypeHevc", 0x24}, {"StreamTypePrivate", 0x06}} {
		r.Check(constU(p, "pkg/mpegts", st.n) == st.v, "C09.R1", "mpegts|const|"+st.n, "", fmt.Sprintf("= 0x%02x", st.v), fmt.Sprintf("%s = 0x%02x, ISO/IEC 13818-1 says 0x%02x", st.n, constU(p, "pkg/mpegts", st.n), st.v))
	}

	// ---------------------------------------------------------------- R2
	r.Rule("C09.R2", "the audio codec ids Rtmp2MpegtsRemuxer.onPop lets through and the video codec ids feedVideo accepts are exactly the ids PackPmt maps to a declared stream type")
	cmpConsts := func(fn *ssa.Function, isSubject func(ssa.Value) bool) map[int64]bool {
		out := map[int64]bool{}
		model.EachInstr(fn, func(in ssa.Instruction) {
			if x, k, op, _, ok := constCmp(valueOf(in)); ok && (op == token.EQL || op == token.NEQ) && isSubject(x) {
				out[k] = true
			}
		})
		return out
	}
	isParam := func(name string) func(ssa.Value) bool {
		return func(v ssa.Value) bool {
			prm, ok := model.Unwrap(v).(*ssa.Parameter)
			return ok && prm.Name() == name
		}
	}
	pmtV := cmpConsts(packPmt, isParam("videoCodecId"))
	pmtA := cmpConsts(packPmt, isParam("audioCodecId"))
	onPop := p.Method("pkg/remux", "Rtmp2MpegtsRemuxer", "onPop")
	audioCodec := p.MethodObj("pkg/base", "RtmpMsg", "AudioCodecId")
	videoCodec := p.MethodObj("pkg/base", "RtmpMsg", "VideoCodecId")
	isCallOf := func(o *types.Func) func(ssa.Value) bool {
		return func(v ssa.Value) bool {
			c, ok := model.Unwrap(v).(*ssa.Call)
			return ok && model.SameFunc(model.CalleeObj(c.Common()), o)
		}
	}
	popA := cmpConsts(onPop, isCallOf(audioCodec))
	feedV := cmpConsts(p.Method("pkg/remux", "Rtmp2MpegtsRemuxer", "feedVideo"), func(v ssa.Value) bool {
		if isCallOf(videoCodec)(v) {
			return true
		}
		if ph, ok := model.Unwrap(v).(*ssa.Phi); ok && ph.Comment == "codecId" {
			return true
		}
		return model.CopyOf(v, isCallOf(videoCodec))
	})
	same := func(a, b map[int64]bool) bool {
		if len(a) != len(b) || len(a) == 0 {
			return false
		}
		for k := range a {
			if !b[k] {
				return false
			}
		}
		return true
	}
	r.Check(same(pmtA, popA), "C09.R2", fkey(onPop, "codecs", "audio"), p.Pos(onPop.Pos()), fmt.Sprintf("audio ids %v on both sides", keysOf(pmtA)), fmt.Sprintf("PackPmt declares audio codec ids %v but the remuxer forwards %v", keysOf(pmtA), keysOf(popA)))
	r.Check(same(pmtV, feedV), "C09.R2", fkey(onPop, "codecs", "video"), p.Pos(onPop.Pos()), fmt.Sprintf("video ids %v on both sides", keysOf(pmtV)), fmt.Sprintf("PackPmt declares video codec ids %v but the remuxer packs %v", keysOf(pmtV), keysOf(feedV)))

	// ---------------------------------------------------------------- R3
	r.Rule("C09.R3", "Frame.Pack writes packet[0]=0x47, packet[1] |= (Pid>>8)&0x1F, packet[2] = Pid&0xFF, packet[3] = 0x10|(Cc&0x0F) and increments Cc once per packet")
	pack := p.Method("pkg/mpegts", "Frame", "Pack")
	var okSync, okHi, okLo, okCc, okInc bool
	// Pack and the same-package helpers it calls (a header writer may be factored out)
	for _, packFn := range model.StaticGroup(pack, 1) {
		model.EachInstr(packFn, func(in ssa.Instruction) {
			st, ok := in.(*ssa.Store)
			if !ok {
				return
			}
			if f := model.FieldOf(st.Addr); f != nil && f.Name() == "Cc" {
				if b, isB := st.Val.(*ssa.BinOp); isB && b.Op == token.ADD {
					if k, isK := model.ConstInt(b.Y); isK && k == 1 {
						okInc = true
					}
				}
			}
			ia, ok := st.Addr.(*ssa.IndexAddr)
			if !ok {
				return
			}
			i, isK := model.ConstInt(ia.Index)
			if !isK {
				return
			}
			switch i {
			case 0:
				if v, isC := model.ConstInt(st.Val); isC && v == 0x47 {
					okSync = true
				}
			case 1:
				if model.DependsOn(st.Val, func(v ssa.Value) bool {
					b, ok := v.(*ssa.BinOp)
					if !ok || b.Op != token.AND {
						return false
					}
					k, isK := model.ConstInt(b.Y)
					sh, isSh := b.X.(*ssa.BinOp)
					if !isK || k != 0x1f || !isSh || sh.Op != token.SHR {
						return false
					}
					s, _ := model.ConstInt(sh.Y)
					return s == 8 && model.IsLoadOfField(sh.X, framePid)
				}) {
					okHi = true
				}
			case 2:
				if model.DependsOn(st.Val, func(v ssa.Value) bool {
					b, ok := v.(*ssa.BinOp)
					if !ok || b.Op != token.AND {
						return false
					}
					k, isK := model.ConstInt(b.Y)
					return isK && k == 0xff && model.IsLoadOfField(b.X, framePid)
				}) {
					okLo = true
				}
			case 3:
				if model.DependsOn(st.Val, func(v ssa.Value) bool {
					b, ok := v.(*ssa.BinOp)
					if !ok || b.Op != token.AND {
						return false
					}
					k, isK := model.ConstInt(b.Y)
					f := model.LoadedField(b.X)
					return isK && k == 0x0f && f != nil && f.Name() == "Cc"
				}) {
					okCc = true
				}
			}
		})
	}
	for _, c := range []struct {
		ok   bool
		name string
	}{{okSync, "sync-byte"}, {okHi, "pid-high-5"}, {okLo, "pid-low-8"}, {okCc, "cc-4-bits"}, {okInc, "cc-increment"}} {
		r.Check(c.ok, "C09.R3", fkey(pack, "ts-header", c.name), p.Pos(pack.Pos()), "present", "Frame.Pack no longer writes the "+c.name+" as ISO/IEC 13818-1 lays it out")
	}
	c09Placement(p, r)
	c09r6(p, r)
	c09r7(p, r)
	w8BitWriterMask(p, r, "C09.R8", "pkg/mpegts")
	w9ExtensionBytes(p, r, "C09.R9")
}
