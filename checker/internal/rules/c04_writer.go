package rules

import (
	"fmt"
	"go/types"

	"golang.org/x/tools/go/ssa"

	"lalverif/internal/model"
	"lalverif/internal/report"
)

// c04Writer: structural rules that back the reviewed invariants of the writer side of the RTMP
// server (responses the server builds itself).
func c04Writer(p *model.Prog, r *report.Result) {
	// ---------------------------------------------------------------- PACK
	r.Rule("C04.PACK", "MessagePacker.ChunkAndWrite is called only from MessagePacker methods, and in each of them the first operation on packer.b is ModWritePos(12) (the room for the chunk header) which dominates the call, with no other ModWritePos/Reset/WriteTo on packer.b before it: at ChunkAndWrite's entry the buffer holds at least the 12 reserved bytes")
	caw := p.Method("pkg/rtmp", "MessagePacker", "ChunkAndWrite")
	cawObj := p.MethodObj("pkg/rtmp", "MessagePacker", "ChunkAndWrite")
	mwp := p.MethodObj("pkg/rtmp", "Buffer", "ModWritePos")
	bField := p.Field("pkg/rtmp", "MessagePacker", "b")
	nSites := 0
	for _, ed := range p.Callers(caw) {
		fn := ed.Caller.Func
		if !model.IsLal(fn) {
			continue
		}
		recvOK := fn.Signature.Recv() != nil && fn.Signature.Recv().Type().String() == caw.Signature.Recv().Type().String()
		for _, ci := range model.CallsTo(fn, cawObj) {
			nSites++
			if !recvOK {
				r.Bad("C04.PACK", fkey(fn, "caller", "ChunkAndWrite"), p.InstrPos(ci), "ChunkAndWrite called from outside MessagePacker: the 12 reserved header bytes are not guaranteed")
				continue
			}
			ok := false
			for _, m := range model.CallsTo(fn, mwp) {
				k, isK := model.ConstInt(m.Common().Args[1])
				if !isK || k != 12 || !model.IsLoadOfField(m.Common().Args[0], bField) || !model.InstrDominates(m, ci) {
					continue
				}
				// nothing that moves the positions backwards between the reservation and the call
				moved := model.PathQuery{From: m, Stop: func(in ssa.Instruction) bool { return in == ssa.Instruction(ci) }, Target: func(in ssa.Instruction) bool {
					c, isC := in.(ssa.CallInstruction)
					if !isC || in == ssa.Instruction(ci) {
						return false
					}
					o := model.CalleeObj(c.Common())
					if o == nil {
						return false
					}
					switch o.Name() {
					case "ModWritePos", "Reset", "WriteTo":
						return len(c.Common().Args) > 0 && model.IsLoadOfField(c.Common().Args[0], bField)
					}
					return false
				}}.Find(fn)
				// and nothing before the reservation writes into the buffer
				early := model.PathQuery{Stop: func(in ssa.Instruction) bool { return in == ssa.Instruction(m) }, Target: func(in ssa.Instruction) bool {
					for _, a := range operandsOf(in) {
						if model.IsLoadOfField(a, bField) {
							return in != ssa.Instruction(m)
						}
					}
					return false
				}}.Find(fn)
				if moved == nil && early == nil {
					ok = true
				}
			}
			r.Check(ok, "C04.PACK", fkey(fn, "reserve", "ModWritePos(12)"), p.InstrPos(ci), "header room reserved first", "ChunkAndWrite is reached without packer.b.ModWritePos(12) having reserved the chunk header first (or after the positions were reset): writeSingleChunkHeader writes 12 bytes into a shorter slice / Bytes()[12:] is out of range")
		}
	}
	r.Count("chunk_and_write_sites", nSites)
	if nSites < 10 {
		r.Bad("C04.PACK", "floor", "", fmt.Sprintf("only %d ChunkAndWrite call sites found", nSites))
	}

	// ---------------------------------------------------------------- WOBJ
	r.Rule("C04.WOBJ", "every ObjectPair whose Value the server itself constructs in pkg/rtmp (outside the AMF0 reader) holds a string, int, float64 or bool: amf0.WriteObject, which terminates the process on any other dynamic type, is never handed an array built from other types; and WriteObject is not called with an array obtained from the AMF0 reader")
	wobj := p.MethodObj("pkg/rtmp", "amf0", "WriteObject")
	valueF := p.Field("pkg/rtmp", "ObjectPair", "Value")
	okType := func(t types.Type) bool {
		b, isB := t.Underlying().(*types.Basic)
		if !isB {
			return false
		}
		switch b.Kind() {
		case types.String, types.Int, types.Float64, types.Bool, types.UntypedString, types.UntypedInt, types.UntypedFloat, types.UntypedBool:
			return true
		}
		return false
	}
	nStores := 0
	for _, fn := range lalFuncsIn(p, "pkg/rtmp") {
		if recvName(fn) == "amf0" {
			continue // the reader builds arbitrary values; they are never passed to WriteObject (checked below)
		}
		for _, st := range model.FieldStores(fn, valueF) {
			nStores++
			mi, isMI := st.Val.(*ssa.MakeInterface)
			good := isMI && okType(mi.X.Type())
			r.Check(good, "C04.WOBJ", fkey(fn, "pair", "value-type"), p.InstrPos(st), "value of a type WriteObject encodes", "an ObjectPair is built with a value whose dynamic type WriteObject does not encode: writing it reaches Log.Panicf")
		}
	}
	// call sites: the array argument is local to the caller (not a result of Read*/Parse*)
	nW := 0
	for _, fn := range p.LalFuncs() {
		for _, ci := range model.CallsTo(fn, wobj) {
			nW++
			arg := ci.Common().Args[len(ci.Common().Args)-1]
			fromReader := model.DependsOn(arg, func(v ssa.Value) bool {
				c, ok := v.(*ssa.Call)
				if !ok {
					return false
				}
				o := model.CalleeObj(c.Common())
				if o == nil || o.Pkg() == nil || o.Pkg().Path() != model.LalPath+"/pkg/rtmp" {
					return false
				}
				switch o.Name() {
				case "append":
					return false
				}
				return true
			})
			_, isParam := arg.(*ssa.Parameter)
			r.Check(!fromReader && !isParam, "C04.WOBJ", fkey(fn, "site", "WriteObject"), p.InstrPos(ci), "array built locally from literals", "WriteObject receives an array that comes from another function (possibly the AMF0 reader, whose values include nested objects, arrays, null): an unencodable value terminates the process")
		}
	}
	r.Count("object_pair_value_stores", nStores)
	if nStores < 10 || nW < 5 {
		r.Bad("C04.WOBJ", "floor", "", fmt.Sprintf("only %d ObjectPair value stores / %d WriteObject sites found", nStores, nW))
	}

	// ---------------------------------------------------------------- AGG
	r.Rule("C04.AGG", "in the aggregate branch of ChunkComposer.RunLoop the bytes consumed from the message by constant-size Skip() calls between the 'Len() < N' check and the sub-message body check add up to at most N (the 11-byte sub-message header): every Bytes()[0] / BeUint24(Bytes()) there reads inside the checked length")
	runLoop := p.Method("pkg/rtmp", "ChunkComposer", "RunLoop")
	skip := p.MethodObj("pkg/rtmp", "StreamMsg", "Skip")
	lenM := p.MethodObj("pkg/rtmp", "StreamMsg", "Len")
	found := false
	for _, b := range runLoop.Blocks {
		iff, ok := b.Instrs[len(b.Instrs)-1].(*ssa.If)
		if !ok {
			continue
		}
		x, n, op, right, ok := constCmp(iff.Cond)
		call, isCall := x.(*ssa.Call)
		if !ok || !isCall || !model.SameFunc(model.CalleeObj(call.Common()), lenM) || n < 8 {
			continue
		}
		// the edge on which Len() >= n
		var okBlock *ssa.BasicBlock
		if cmpAt(op, n, n, right) { // condition true at Len()==n
			okBlock = b.Succs[0]
		} else {
			okBlock = b.Succs[1]
		}
		if cmpAt(op, n-1, n, right) == cmpAt(op, n, n, right) {
			continue // not a boundary at n
		}
		// reads in that block: each read at offset (bytes skipped so far) with its width
		var skipped int64
		maxEnd := int64(0)
		constSkips := 0
		for _, in := range okBlock.Instrs {
			ci, isC := in.(ssa.CallInstruction)
			if !isC {
				continue
			}
			o := model.CalleeObj(ci.Common())
			if o == nil {
				continue
			}
			if model.SameFunc(o, skip) {
				k, isK := model.ConstInt(model.Unwrap(ci.Common().Args[1]))
				if !isK {
					break
				}
				skipped += k
				constSkips++
				continue
			}
			if put, w, _, isBele := beleInfo(o); isBele && !put {
				if skipped+int64(w) > maxEnd {
					maxEnd = skipped + int64(w)
				}
			}
		}
		for _, in := range okBlock.Instrs {
			_ = in
		}
		if constSkips >= 4 {
			found = true
			r.Check(skipped <= n && maxEnd <= n, "C04.AGG", fkey(runLoop, "aggregate", "header-bytes"), p.InstrPos(iff), fmt.Sprintf("%d bytes consumed after checking Len() >= %d", skipped, n), fmt.Sprintf("the sub-message header parse consumes %d bytes (reads up to offset %d) but only Len() >= %d was checked: a truncated aggregate message indexes past the buffer", skipped, maxEnd, n))
		}
	}
	if !found {
		r.Bad("C04.AGG", "floor", p.Pos(runLoop.Pos()), "the aggregate sub-message header parse (Len() < 11 check followed by constant Skips) was not found")
	}
}

func operandsOf(in ssa.Instruction) []ssa.Value {
	var out []ssa.Value
	for _, op := range in.Operands(nil) {
		if op != nil && *op != nil {
			out = append(out, *op)
		}
	}
	return out
}

func recvName(fn *ssa.Function) string {
	fn = topFn(fn)
	if fn.Signature.Recv() == nil {
		return ""
	}
	t := fn.Signature.Recv().Type()
	if pt, ok := t.(*types.Pointer); ok {
		t = pt.Elem()
	}
	if n, ok := t.(*types.Named); ok {
		return n.Obj().Name()
	}
	return ""
}
