package rules

import (
	"lalverif/internal/model"
	"lalverif/internal/report"
)

// c18r1 is replaced by the engine-B instance once the prover is built.
func c18r1(p *model.Prog, r *report.Result) {
	r.NotDecided = append(r.NotDecided, "in-bounds proof of every index/slice in the AMF0 readers (R1, engine B not built yet)")
}
