package rules

import (
	"strings"

	"golang.org/x/tools/go/ssa"

	"lalverif/internal/model"
	"lalverif/internal/report"
)

// c18r1: every index/slice/make/division in the AMF0 readers and metadata helpers is in
// bounds for every input byte string.
func c18r1(p *model.Prog, r *report.Result) {
	r.Rule("C18.R1", "engine B: every index, slice, make and division in pkg/rtmp amf0.go / metadata.go reachable from the AMF0 entry points is proved in bounds from dominating length guards, earlier successful operations and inferred preconditions discharged at every caller; the entry points take an arbitrary byte slice")
	var roots []*ssa.Function
	for _, n := range []string{"ReadObject", "ReadArray", "ReadStrictArray", "ReadObjectOrArray", "ReadString", "ReadStringWithoutType", "ReadLongStringWithoutType", "ReadNumber", "ReadBoolean", "ReadNull", "ReadUndefinedOrUnsupported"} {
		roots = append(roots, p.Method("pkg/rtmp", "amf0", n))
	}
	roots = append(roots, p.Func("pkg/rtmp", "ParseMetadata"), p.Func("pkg/rtmp", "MetadataEnsureWithSdf"), p.Func("pkg/rtmp", "MetadataEnsureWithoutSdf"))
	_, n := runPO(p, r, poConfig{rule: "C18.R1", roots: roots, filter: func(fn *ssa.Function) bool {
		pos := p.Pos(fn.Pos())
		return strings.Contains(pos, "pkg/rtmp/amf0.go") || strings.Contains(pos, "pkg/rtmp/metadata.go") || model.IsNaza(fn)
	}, kinds: map[string]bool{"index": true, "slice": true, "make": true, "div": true, "libcall": true}})
	if n < 30 {
		r.Bad("C18.R1", "floor", "", "fewer than 30 obligations enumerated in the AMF0 readers")
	}
}
