package rules

import (
	"go/token"
	"go/types"

	"golang.org/x/tools/go/ssa"

	"lalverif/internal/model"
	"lalverif/internal/report"
)

// c19r8: the Annex-B start-code scanner counts only an unbroken run of zero bytes.
func c19r8(p *model.Prog, r *report.Result) {
	r.Rule("C19.R8", "avc.IterateNaluStartCode: the zero-run counter is, on every path around the scanning loop, either incremented by one (a zero byte) or reset to the constant 0; it is never carried over unchanged past a non-zero byte (then '00 01 00 01' inside a NAL unit would be taken for a start code and parameter sets would be split)")
	fn := p.Func("pkg/avc", "IterateNaluStartCode")
	n := 0
	for _, l := range model.Loops(fn) {
		for _, in := range l.Header.Instrs {
			ph, ok := in.(*ssa.Phi)
			if !ok || isRangeIndex(ph) {
				continue
			}
			// the counter: some leaf is phi+1
			isCounter := false
			leaves := phiLeaves(ph, l)
			for _, lf := range leaves {
				if bo, isB := lf.(*ssa.BinOp); isB && bo.Op == token.ADD && bo.X == ssa.Value(ph) {
					if k, isK := model.ConstInt(bo.Y); isK && k == 1 {
						isCounter = true
					}
				}
			}
			// the scan index of a hand-written loop is also "phi + 1": the counter is the one that is
			// reset (a constant 0 leaf) or carried over unchanged somewhere
			resets := false
			for _, lf := range leaves {
				if k, isK := model.ConstInt(lf); (isK && k == 0) || lf == ssa.Value(ph) {
					resets = true
				}
			}
			if !isCounter || !resets {
				continue
			}
			n++
			good := true
			for _, lf := range leaves {
				if k, isK := model.ConstInt(lf); isK && k == 0 {
					continue
				}
				if bo, isB := lf.(*ssa.BinOp); isB && bo.Op == token.ADD && bo.X == ssa.Value(ph) {
					continue
				}
				good = false
			}
			r.Check(good, "C19.R8", fkey(fn, "zero-run", "reset-on-nonzero"), p.Pos(ph.Pos()), "counter incremented or reset on every path", "the zero-run counter survives a non-zero byte on some path: byte patterns such as 00 01 00 01 inside a NAL unit are taken for a start code; SPS/PPS/IDR units that contain them are split and bytes dropped")
		}
	}
	if n == 0 {
		// another algorithm: the 3-byte start code is located by a library search
		// (bytes.Index(.., NaluStartCode3)); then every zero byte directly in front of the match
		// belongs to the start code, so a loop must walk back over them (position - 1 and
		// length + 1 per round) - a fixed look at one preceding byte leaves the surplus zeros of a
		// longer run in the previous NAL unit
		searches := false
		for _, ci := range model.AllCalls(fn) {
			if o := model.CalleeObj(ci.Common()); o != nil && o.Pkg() != nil && o.Pkg().Path() == "bytes" && o.Name() == "Index" {
				if g, isG := loadOfGlobal(ci.Common().Args[1]); isG && g.Name() == "NaluStartCode3" {
					searches = true
				}
			}
		}
		if searches {
			walksBack := false
			for _, l := range model.Loops(fn) {
				dec, inc := false, false
				for _, in := range l.Header.Instrs {
					ph, ok := in.(*ssa.Phi)
					if !ok {
						continue
					}
					for _, lf := range phiLeaves(ph, l) {
						if bo, isB := lf.(*ssa.BinOp); isB && bo.X == ssa.Value(ph) {
							if k, isK := model.ConstInt(bo.Y); isK && k == 1 {
								if bo.Op == token.SUB {
									dec = true
								}
								if bo.Op == token.ADD {
									inc = true
								}
							}
						}
					}
				}
				// the loop's exit test looks at a byte of the input being zero
				testsZero := false
				for b := range l.Body {
					if iff, isIf := b.Instrs[len(b.Instrs)-1].(*ssa.If); isIf {
						if x, k, op, _, okc := constCmp(iff.Cond); okc && k == 0 && (op == token.EQL || op == token.NEQ) {
							if u, isU := model.Unwrap(x).(*ssa.UnOp); isU {
								if _, isIA := u.X.(*ssa.IndexAddr); isIA {
									testsZero = true
								}
							}
						}
					}
				}
				if dec && inc && testsZero {
					walksBack = true
				}
			}
			r.Check(walksBack, "C19.R8", fkey(fn, "zero-run", "walk-back-over-all-zeros"), p.Pos(fn.Pos()), "start code found by library search, all preceding zero bytes counted by a loop", "after the 3-byte start code is found, the zero bytes in front of it are not all counted into the start code (no loop walks back over them): with four or more zero bytes before the 01, the surplus zeros stay at the end of the previous NAL unit - an SPS or PPS gains trailing 00 bytes")
			return
		}
	}
	if n != 1 {
		r.Bad("C19.R8", fkey(fn, "zero-run", "floor"), p.Pos(fn.Pos()), "the zero-run counter of the scanning loop was not found")
	}
}

// c19r9: the SDP's AAC clock rate comes from the AudioSpecificConfig, unconditionally.
func c19r9(p *model.Prog, r *report.Result) {
	r.Rule("C19.R9", "Rtmp2RtspRemuxer.doAnalyze stores the sampling frequency of the AudioSpecificConfig (AscContext.GetSamplingFrequency) into audioSampleRate - the value sdp.Pack writes into the rtpmap - without making that store depend on the field's previous value: a rate announced earlier by onMetaData never overrides the one the ASC (config=) and the RTP packer use")
	fn := p.Method("pkg/remux", "Rtmp2RtspRemuxer", "doAnalyze")
	f := p.Field("pkg/remux", "Rtmp2RtspRemuxer", "audioSampleRate")
	getSF := p.MethodObj("pkg/aac", "AscContext", "GetSamplingFrequency")
	found, cond := false, false
	for _, st := range model.FieldStores(fn, f) {
		fromAsc := model.DependsOn(st.Val, func(v ssa.Value) bool {
			c, ok := v.(*ssa.Call)
			return ok && model.SameFunc(model.CalleeObj(c.Common()), getSF)
		})
		if !fromAsc {
			continue
		}
		found = true
		if model.GuardedBy(st, func(c ssa.Value, pol bool) bool {
			return model.DependsOn(c, func(v ssa.Value) bool { return model.IsLoadOfField(v, f) })
		}) {
			cond = true
		}
	}
	r.Check(found && !cond, "C19.R9", fkey(fn, "aac-rate", "from-asc-unconditionally"), p.Pos(fn.Pos()), "audioSampleRate = ASC sampling frequency", "the ASC's sampling frequency is stored only when audioSampleRate is still unset (or not at all): metadata that announced another rate wins for the SDP while config= and the RTP time stamps follow the ASC - rtpmap and stream disagree")
}

// c19r10: the picture size takes the SPS's crop units into account.
func c19r10(p *model.Prog, r *report.Result) {
	r.Rule("C19.R10", "avc.ParseSps: the amount subtracted from the coded width depends on chroma_format_idc, and the amount subtracted from the coded height on chroma_format_idc and frame_mbs_only_flag (H.264 7.4.2.1.1: CropUnitX = SubWidthC, CropUnitY = SubHeightC * (2 - frame_mbs_only_flag)): a constant crop unit of 2 reports 1084 lines for an interlaced 1080 stream and 1072 for 4:4:4")
	fn := p.Func("pkg/avc", "ParseSps")
	wF := p.Field("pkg/avc", "Context", "Width")
	hF := p.Field("pkg/avc", "Context", "Height")
	chroma := p.Field("pkg/avc", "Sps", "ChromaFormatIdc")
	fmo := p.Field("pkg/avc", "Sps", "FrameMbsOnlyFlag")
	dataDep := func(v ssa.Value, f *types.Var) bool {
		return model.DependsOn(v, func(x ssa.Value) bool { return model.LoadedField(x) == f })
	}
	// data dependence, or selection by a branch on the field (a phi of constants chosen by a
	// switch over the field's value): the conditions between the phi's block and its immediate
	// dominator decide which edge is taken
	dep := func(v ssa.Value, f *types.Var) bool {
		if dataDep(v, f) {
			return true
		}
		found := false
		model.DependsOn(v, func(x ssa.Value) bool {
			ph, ok := x.(*ssa.Phi)
			if !ok || found {
				return false
			}
			idom := ph.Block().Idom()
			seen := map[*ssa.BasicBlock]bool{}
			var up func(b *ssa.BasicBlock)
			up = func(b *ssa.BasicBlock) {
				if b == nil || seen[b] {
					return
				}
				seen[b] = true
				if iff, isIf := b.Instrs[len(b.Instrs)-1].(*ssa.If); isIf && dataDep(iff.Cond, f) {
					found = true
				}
				if b == idom {
					return
				}
				for _, pr := range b.Preds {
					up(pr)
				}
			}
			for _, pr := range ph.Block().Preds {
				up(pr)
			}
			return false
		})
		return found
	}
	check := func(field *types.Var, name string, needs ...*types.Var) {
		sts := model.FieldStores(fn, field)
		if len(sts) != 1 {
			r.Bad("C19.R10", fkey(fn, "crop", name+"-floor"), p.Pos(fn.Pos()), "store of Context."+name+" not found")
			return
		}
		sub, ok := sts[0].Val.(*ssa.BinOp)
		good := ok && sub.Op == token.SUB
		if good {
			for _, f := range needs {
				if !dep(sub.Y, f) {
					good = false
				}
			}
		}
		r.Check(good, "C19.R10", fkey(fn, "crop", name), p.InstrPos(sts[0]), "crop amount scaled by the SPS's crop unit", "the cropping subtracted from the coded "+name+" does not depend on the chroma format"+map[bool]string{true: " and frame_mbs_only_flag", false: ""}[len(needs) > 1]+": the reported picture size is wrong for interlaced, 4:2:2, 4:4:4 and monochrome streams")
	}
	check(wF, "width", chroma)
	check(hF, "height", chroma, fmo)
}
