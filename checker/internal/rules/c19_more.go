package rules

import (
	"go/token"

	"golang.org/x/tools/go/ssa"

	"lalverif/internal/model"
	"lalverif/internal/report"
)

// c19r8: the Annex-B start-code scanner counts only an unbroken run of zero bytes.
func c19r8(p *model.Prog, r *report.Result) {
	r.Rule("C19.R8", "avc.IterateNaluStartCode: the zero-run counter is, on every path around the scanning loop, either incremented by one (a zero byte) or reset to the constant 0; it is never carried over unchanged past a non-zero byte (then '00 01 00 01' inside a NAL unit would be taken for a start code and parameter sets would be split)")
	fn := p.Func("pkg/avc", "IterateNaluStartCode")
	n := 0
	for _, l := range model.Loops(fn) {
		for _, in := range l.Header.Instrs {
			ph, ok := in.(*ssa.Phi)
			if !ok || isRangeIndex(ph) {
				continue
			}
			// the counter: some leaf is phi+1
			isCounter := false
			leaves := phiLeaves(ph, l)
			for _, lf := range leaves {
				if bo, isB := lf.(*ssa.BinOp); isB && bo.Op == token.ADD && bo.X == ssa.Value(ph) {
					if k, isK := model.ConstInt(bo.Y); isK && k == 1 {
						isCounter = true
					}
				}
			}
			if !isCounter {
				continue
			}
			n++
			good := true
			for _, lf := range leaves {
				if k, isK := model.ConstInt(lf); isK && k == 0 {
					continue
				}
				if bo, isB := lf.(*ssa.BinOp); isB && bo.Op == token.ADD && bo.X == ssa.Value(ph) {
					continue
				}
				good = false
			}
			r.Check(good, "C19.R8", fkey(fn, "zero-run", "reset-on-nonzero"), p.Pos(ph.Pos()), "counter incremented or reset on every path", "the zero-run counter survives a non-zero byte on some path: byte patterns such as 00 01 00 01 inside a NAL unit are taken for a start code; SPS/PPS/IDR units that contain them are split and bytes dropped")
		}
	}
	if n != 1 {
		r.Bad("C19.R8", fkey(fn, "zero-run", "floor"), p.Pos(fn.Pos()), "the zero-run counter of the scanning loop was not found")
	}
}

// c19r9: the SDP's AAC clock rate comes from the AudioSpecificConfig, unconditionally.
func c19r9(p *model.Prog, r *report.Result) {
	r.Rule("C19.R9", "Rtmp2RtspRemuxer.doAnalyze stores the sampling frequency of the AudioSpecificConfig (AscContext.GetSamplingFrequency) into audioSampleRate - the value sdp.Pack writes into the rtpmap - without making that store depend on the field's previous value: a rate announced earlier by onMetaData never overrides the one the ASC (config=) and the RTP packer use")
	fn := p.Method("pkg/remux", "Rtmp2RtspRemuxer", "doAnalyze")
	f := p.Field("pkg/remux", "Rtmp2RtspRemuxer", "audioSampleRate")
	getSF := p.MethodObj("pkg/aac", "AscContext", "GetSamplingFrequency")
	found, cond := false, false
	for _, st := range model.FieldStores(fn, f) {
		fromAsc := model.DependsOn(st.Val, func(v ssa.Value) bool {
			c, ok := v.(*ssa.Call)
			return ok && model.SameFunc(model.CalleeObj(c.Common()), getSF)
		})
		if !fromAsc {
			continue
		}
		found = true
		if model.GuardedBy(st, func(c ssa.Value, pol bool) bool {
			return model.DependsOn(c, func(v ssa.Value) bool { return model.IsLoadOfField(v, f) })
		}) {
			cond = true
		}
	}
	r.Check(found && !cond, "C19.R9", fkey(fn, "aac-rate", "from-asc-unconditionally"), p.Pos(fn.Pos()), "audioSampleRate = ASC sampling frequency", "the ASC's sampling frequency is stored only when audioSampleRate is still unset (or not at all): metadata that announced another rate wins for the SDP while config= and the RTP time stamps follow the ASC - rtpmap and stream disagree")
}
