package rules

import (
	"fmt"
	"go/constant"
	"go/token"
	"go/types"
	"math"

	"golang.org/x/tools/go/ssa"

	"lalverif/internal/model"
	"lalverif/internal/report"
)

func init() { register("C11", c11) }

// evalChain follows, from the entry block, every If whose condition compares the value
// `subject` (recognised by isSubject) with a constant, deciding it for subject==v; it stops at
// the first block whose terminator is not such an If and returns the visited block list.
func evalChain(fn *ssa.Function, isSubject func(ssa.Value) bool, v int64) []*ssa.BasicBlock {
	var path []*ssa.BasicBlock
	b := fn.Blocks[0]
	for steps := 0; steps < 64; steps++ {
		path = append(path, b)
		iff, ok := b.Instrs[len(b.Instrs)-1].(*ssa.If)
		if !ok {
			if len(b.Succs) == 1 {
				// plain jump: only follow while the chain has not decided anything yet
				nxt := b.Succs[0]
				if _, isIf := nxt.Instrs[len(nxt.Instrs)-1].(*ssa.If); isIf && len(path) < 4 {
					b = nxt
					continue
				}
			}
			return path
		}
		x, k, op, right, ok := constCmp(iff.Cond)
		if !ok || !isSubject(x) {
			return path
		}
		if cmpAt(op, v, k, right) {
			b = b.Succs[0]
		} else {
			b = b.Succs[1]
		}
	}
	return path
}

// phiValueVia returns the operand a phi takes when its block is entered from one of the
// given blocks (the last one on the path that is a predecessor).
func phiValueVia(phi *ssa.Phi, path []*ssa.BasicBlock) ssa.Value {
	blk := phi.Block()
	for i := len(path) - 1; i >= 0; i-- {
		for pi, pred := range blk.Preds {
			if pred == path[i] {
				return phi.Edges[pi]
			}
		}
	}
	return nil
}

// maxSubmissions computes the largest number of write-queue submissions (conn.Write /
// conn.Writev on a naza connection, or calls of functions that submit) on any path of fn;
// math.MaxInt32 when a submission sits in a loop.
func maxSubmissions(p *model.Prog, fn *ssa.Function, connWrite, connWritev *types.Func, depth int, memo map[*ssa.Function]int) int {
	if v, ok := memo[fn]; ok {
		return v
	}
	if depth > 4 || len(fn.Blocks) == 0 {
		return 0
	}
	memo[fn] = 0
	weight := map[*ssa.BasicBlock]int{}
	loops := model.Loops(fn)
	for _, b := range fn.Blocks {
		for _, in := range b.Instrs {
			ci, ok := in.(ssa.CallInstruction)
			if !ok {
				continue
			}
			w := 0
			o := model.CalleeObj(ci.Common())
			if model.SameFunc(o, connWrite) || model.SameFunc(o, connWritev) {
				w = 1
			} else if callee := ci.Common().StaticCallee(); callee != nil && model.IsLal(callee) && callee != fn {
				w = maxSubmissions(p, callee, connWrite, connWritev, depth+1, memo)
			}
			if w > 0 {
				for _, l := range loops {
					if l.Body[b] {
						w = math.MaxInt32
					}
				}
				if weight[b] < math.MaxInt32 {
					weight[b] += w
					if weight[b] < 0 || w == math.MaxInt32 {
						weight[b] = math.MaxInt32
					}
				}
			}
		}
	}
	// longest path over the DAG obtained by ignoring back edges
	best := map[*ssa.BasicBlock]int{}
	var visit func(b *ssa.BasicBlock, onStack map[*ssa.BasicBlock]bool) int
	visit = func(b *ssa.BasicBlock, onStack map[*ssa.BasicBlock]bool) int {
		if v, ok := best[b]; ok {
			return v
		}
		onStack[b] = true
		m := 0
		for _, s := range b.Succs {
			if onStack[s] || s.Dominates(b) {
				continue
			}
			if v := visit(s, onStack); v > m {
				m = v
			}
		}
		onStack[b] = false
		r := weight[b] + m
		if weight[b] == math.MaxInt32 || m == math.MaxInt32 {
			r = math.MaxInt32
		}
		best[b] = r
		return r
	}
	res := visit(fn.Blocks[0], map[*ssa.BasicBlock]bool{})
	memo[fn] = res
	return res
}

func c11(p *model.Prog, r *report.Result) {
	r.Explanation = "Decides the agreement conditions of FLV/WebSocket output that are visible in constants, comparisons and fixed offsets: MakeWsFrameHeader classifies the payload lengths 125/126/65535/65536 into the 7-bit/16-bit/64-bit forms with header sizes 2/4/10 and writes the extended length with the matching width, and ReadWsPayload uses the same markers and widths (R1); every unit a WebSocket-capable session writes is one write-queue submission (R2); FLV tag fields have the same (offset,width,byte order) in PackHttpflvTag, ModTagTimestamp and parseTagHeader, the stream id bytes are zero and the trailing previous-tag-size is written at 11+len(body) with that value (R3); the FLV file header constant is 'FLV' 01 05 00000009 00000000 (R4)."
	r.NotDecided = []string{"round trip through the readers as a function of values", "timestamps across 2^24 as values", "that every tag lal emits has a type/body consistent with its content"}
	r.Count("functions_analysed", 8)

	// ---------------------------------------------------------------- R1
	r.Rule("C11.R1", "base.MakeWsFrameHeader: lengths 0,125 -> 7-bit form (size 2); 126,65535 -> marker 126 (size 4, 16-bit BE length at 2); 65536,2^32 -> marker 127 (size 10, 64-bit BE length at 2); base.ReadWsPayload reads 2 bytes for marker 126 and 8 bytes for marker 127")
	mk := p.Func("pkg/base", "MakeWsFrameHeader")
	plF := p.Field("pkg/base", "WsHeader", "PayloadLength")
	isPL := func(v ssa.Value) bool { return model.IsLoadOfField(model.Unwrap(v), plF) }
	var payloadPhi, sizePhi *ssa.Phi
	model.EachInstr(mk, func(in ssa.Instruction) {
		if ph, ok := in.(*ssa.Phi); ok {
			switch ph.Comment {
			case "payload":
				if payloadPhi == nil {
					payloadPhi = ph
				}
			case "headerSize":
				if sizePhi == nil {
					sizePhi = ph
				}
			}
		}
	})
	if payloadPhi == nil || sizePhi == nil {
		r.Bad("C11.R1", fkey(mk, "forms", "shape"), p.Pos(mk.Pos()), "MakeWsFrameHeader no longer selects a length marker and a header size by comparing PayloadLength with constants")
	} else {
		type want struct {
			v      int64
			marker int64 // -1: the length itself
			size   int64
		}
		for _, w := range []want{{0, -1, 2}, {125, -1, 2}, {126, 126, 4}, {65535, 126, 4}, {65536, 127, 10}, {1 << 32, 127, 10}} {
			path := evalChain(mk, isPL, w.v)
			pv := phiValueVia(payloadPhi, path)
			sv := phiValueVia(sizePhi, path)
			okM := false
			if w.marker < 0 {
				okM = pv != nil && isPL(pv)
			} else if k, isK := model.ConstInt(pv); isK {
				okM = k == w.marker
			}
			sz, okS := maxIntValue(sv, 0)
			r.Check(okM && okS && sz == w.size, "C11.R1", fkey(mk, "forms", fmt.Sprintf("len=%d", w.v)), p.Pos(mk.Pos()),
				fmt.Sprintf("length %d -> marker %s, header size %d", w.v, describeMarker(pv, isPL), sz),
				fmt.Sprintf("length %d selects marker %s / header size %d, expected marker %d / size %d: the declared length form does not match the payload", w.v, describeMarker(pv, isPL), sz, w.marker, w.size))
		}
		// the extended length is written with the width the marker announces
		wl := writerLayout(mk)
		var w16, w64 bool
		for _, it := range wl {
			if it.Field != "PayloadLength" || it.Off != 2 {
				continue
			}
			guard := func(k int64) bool {
				return model.GuardedBy(it.In, func(c ssa.Value, pol bool) bool {
					x, kk, op, _, ok := constCmp(c)
					return ok && x == ssa.Value(payloadPhi) && kk == k && ((op == token.EQL) == pol)
				})
			}
			if it.Width == 2 && it.Endian == "be" && guard(126) {
				w16 = true
			}
			if it.Width == 8 && it.Endian == "be" && guard(127) {
				w64 = true
			}
		}
		r.Check(w16 && w64, "C11.R1", fkey(mk, "forms", "extended-length-width"), p.Pos(mk.Pos()), "marker 126 -> 16-bit BE @2, marker 127 -> 64-bit BE @2", "the extended payload length is not written with the width its marker announces")
	}
	rd := p.Func("pkg/base", "ReadWsPayload")
	readN := map[int64]int64{}
	for _, b := range rd.Blocks {
		iff, ok := b.Instrs[len(b.Instrs)-1].(*ssa.If)
		if !ok {
			continue
		}
		_, k, op, _, ok := constCmp(iff.Cond)
		if !ok || op != token.EQL || (k != 126 && k != 127) {
			continue
		}
		for _, in := range b.Succs[0].Instrs {
			if ms, ok := in.(*ssa.MakeSlice); ok {
				if n, isK := model.ConstInt(ms.Len); isK {
					readN[k] = n
				}
			}
			if al, ok := in.(*ssa.Alloc); ok {
				if pt, ok := al.Type().Underlying().(*types.Pointer); ok {
					if at, ok := pt.Elem().Underlying().(*types.Array); ok {
						readN[k] = at.Len()
					}
				}
			}
		}
	}
	r.Check(readN[126] == 2 && readN[127] == 8, "C11.R1", fkey(rd, "forms", "reader-widths"), p.Pos(rd.Pos()), "reader: marker 126 -> 2 bytes, 127 -> 8 bytes", fmt.Sprintf("reader consumes %d bytes for marker 126 and %d for 127", readN[126], readN[127]))

	// ---------------------------------------------------------------- R2
	r.Rule("C11.R2", "BasicHttpSubSession.Write, rtsp.ServerCommandSession.write and WriteInterleavedPacket perform at most one connection.Write/Writev on any path (a WebSocket frame header and its payload are one queue entry)")
	connT := p.Named("naza/pkg/connection", "Connection")
	lookup := func(m string) *types.Func {
		o, _, _ := types.LookupFieldOrMethod(connT, true, connT.Obj().Pkg(), m)
		f, _ := o.(*types.Func)
		if f == nil {
			model.Undecidedf("anchor: connection.Connection.%s", m)
		}
		return f
	}
	cw, cwv := lookup("Write"), lookup("Writev")
	memo := map[*ssa.Function]int{}
	for _, fn := range []*ssa.Function{
		p.Method("pkg/base", "BasicHttpSubSession", "Write"),
		p.Method("pkg/rtsp", "ServerCommandSession", "write"),
		p.Method("pkg/rtsp", "ServerCommandSession", "WriteInterleavedPacket"),
		p.Method("pkg/httpflv", "SubSession", "Write"),
		p.Method("pkg/httpts", "SubSession", "Write"),
	} {
		n := maxSubmissions(p, fn, cw, cwv, 0, memo)
		r.Check(n == 1, "C11.R2", fkey(fn, "unit", "one-submission"), p.Pos(fn.Pos()), "exactly one queue submission per unit on the longest path", fmt.Sprintf("up to %d separate queue submissions per unit: when the queue fills between them the peer receives a frame header without its body (or a body without header)", n))
	}
	// who may write to the rtsp command connection: only through ServerCommandSession.write (plus the handshake / non-websocket pub replies)
	scsConn := p.Field("pkg/rtsp", "ServerCommandSession", "conn")
	for _, fn := range lalFuncsIn(p, "pkg/rtsp") {
		if fn.Signature.Recv() == nil || !(len(fn.Name()) > 6 && fn.Name()[:6] == "handle") {
			continue // request handlers only; connection set-up and the loop itself write several units
		}
		for _, ci := range model.CallsTo(fn, cw, cwv) {
			if !model.IsLoadOfField(receiver(ci.Common()), scsConn) {
				continue
			}
			n := maxSubmissions(p, fn, cw, cwv, 0, memo)
			r.Check(n <= 1, "C11.R2", fkey(fn, "unit", "command-conn-write"), p.InstrPos(ci), "at most one submission per call", fmt.Sprintf("%d submissions on the command connection in one handler", n))
		}
	}

	// ---------------------------------------------------------------- R3
	r.Rule("C11.R3", "FLV tag header: type @0/1, data size @1/3 BE, timestamp low @4/3 BE, timestamp ext @7/1, stream id bytes 8..10 constant zero, in PackHttpflvTag (writer), ModTagTimestamp (writer) and parseTagHeader (reader); previous-tag-size is a 4-byte BE value written at offset 11+len(body) and equal to 11+len(body)")
	pack := p.Func("pkg/httpflv", "PackHttpflvTag")
	parse := p.Func("pkg/httpflv", "parseTagHeader")
	mod := p.Method("pkg/httpflv", "Tag", "ModTagTimestamp")
	wl := writerLayoutDeep(pack)
	rl := readerLayout(parse)
	ml := writerLayoutDeep(mod)
	pairs := []struct{ w, r string }{{"t", "Type"}, {"len(in)", "DataSize"}, {"timestamp", "Timestamp"}}
	abs := func(it layoutItem) bool { return it.Base == nil }
	for _, pr := range pairs {
		w, rdS := layoutSet(wl, pr.w, abs), layoutSet(rl, pr.r, nil)
		r.Check(w != "" && w == rdS, "C11.R3", fkey(pack, "layout", pr.r), p.Pos(pack.Pos()), "writer "+w+" == reader "+rdS, "tag field "+pr.r+" is written at "+w+" but read at "+rdS)
	}
	// every header write of the two writers happens on every path (a byte that is written only
	// for some values keeps what the buffer held before)
	for _, wfn := range []*ssa.Function{pack, mod} {
		for _, it := range writerLayoutDeep(wfn) {
			if it.Base != nil {
				continue
			}
			in := it.In
			host := in.Parent()
			skip := model.PathQuery{Stop: func(x ssa.Instruction) bool { return x == in }, Target: func(x ssa.Instruction) bool {
				_, isRet := x.(*ssa.Return)
				return isRet
			}}.Find(host)
			r.Check(skip == nil, "C11.R3", fkey(wfn, "unconditional", it.String()), p.InstrPos(in), "written on every path", "the tag header byte(s) "+it.String()+" are written only on some paths: for the other values the field keeps its previous content (re-stamping a tag whose old timestamp was >= 2^24 to a small one leaves the old extension byte, and the tag reads back with a different timestamp)")
		}
	}
	mts := layoutSet(ml, "timestamp", nil)
	r.Check(mts == layoutSet(rl, "Timestamp", nil), "C11.R3", fkey(mod, "layout", "Timestamp"), p.Pos(mod.Pos()), "ModTagTimestamp rewrites "+mts, "ModTagTimestamp writes the timestamp at "+mts+" but the reader reads "+layoutSet(rl, "Timestamp", nil))
	// bit-level content: bytes 4..6 carry timestamp bits 0..23, byte 7 carries bits 24..31
	// (what parseTagHeader reassembles), in both writers
	for _, wfn := range []*ssa.Function{pack, mod} {
		var tsParam ssa.Value
		for _, prm := range wfn.Params {
			if prm.Name() == "timestamp" {
				tsParam = prm
			}
		}
		var low, high uint64
		for _, it := range writerLayoutDeep(wfn) {
			if it.Base != nil || tsParam == nil {
				continue
			}
			src := tsParam
			if it.Bind != nil {
				// the helper's parameter that receives the timestamp
				src = nil
				for q, a := range it.Bind {
					if ua := model.Unwrap(a); ua == tsParam || (paramCell(ua) != nil && paramCell(ua) == paramCell(tsParam)) {
						src = q
					}
				}
				if src == nil {
					continue
				}
			}
			var val ssa.Value
			switch x := it.In.(type) {
			case ssa.CallInstruction:
				val = x.Common().Args[1]
			case *ssa.Store:
				val = x.Val
			}
			if val == nil {
				continue
			}
			m, ok := valueBits(val, src)
			if !ok {
				continue
			}
			if it.Off == 4 && it.Width == 3 {
				low |= m
			}
			if it.Off == 7 && it.Width == 1 {
				high |= m
			}
		}
		r.Check(low == 0x00FFFFFF && high == 0xFF000000, "C11.R3", fkey(wfn, "bits", "Timestamp"), p.Pos(wfn.Pos()),
			"bytes 4..6 carry timestamp bits 0..23 and byte 7 bits 24..31", fmt.Sprintf("timestamp bits written: low field %#x (want 0xffffff), extension byte %#x (want 0xff000000): timestamps >= 2^24 ms are not representable in the emitted tag", low, high))
	}
	zeros := layoutSet(wl, "const:0", abs)
	r.Check(zeros == "@10/1,@8/1,@9/1", "C11.R3", fkey(pack, "layout", "StreamId"), p.Pos(pack.Pos()), "stream id bytes 8..10 are constant zero", "stream id bytes are "+zeros+" (expected zero at 8,9,10)")
	okPrev := false
	for _, it := range wl {
		if it.Width == 4 && it.Endian == "be" && it.Base != nil {
			// value written == offset expression
			ci := it.In.(ssa.CallInstruction)
			vb, vo := linear(model.Unwrap(ci.Common().Args[1]))
			l1, isLen1 := lenOf(it.Base)
			l2, isLen2 := lenOf(vb)
			if isLen1 && isLen2 && vo == it.Off && it.Off == 11 && paramCell(l1) != nil && paramCell(l1) == paramCell(l2) {
				okPrev = true
			}
		}
	}
	r.Check(okPrev, "C11.R3", fkey(pack, "layout", "PrevTagSize"), p.Pos(pack.Pos()), "previous-tag-size = 11+len(in), written at 11+len(in), 4 bytes BE", "the trailing previous-tag-size is not 11+len(body) written right after the body")
	// allocation = 11 + len(in) + 4
	okAlloc := false
	model.EachInstr(pack, func(in ssa.Instruction) {
		if ms, ok := in.(*ssa.MakeSlice); ok {
			b, off := linear(ms.Len)
			if l, isLen := lenOf(b); isLen && paramCell(l) != nil && off == 15 {
				okAlloc = true
			}
		}
	})
	r.Check(okAlloc, "C11.R3", fkey(pack, "layout", "alloc"), p.Pos(pack.Pos()), "buffer = 11 + len(body) + 4", "the tag buffer is not sized 11+len(body)+4")
	// reader consumes DataSize + 4 after the 11-byte header
	rt := p.Func("pkg/httpflv", "ReadTag")
	okNeed := false
	model.EachInstr(rt, func(in ssa.Instruction) {
		if b, ok := in.(*ssa.BinOp); ok && b.Op == token.ADD {
			base, off := linear(b)
			if base != nil && off == 4 {
				if f := model.LoadedField(model.Unwrap(base)); f != nil && f.Name() == "DataSize" {
					okNeed = true
				}
			}
		}
	})
	if !okNeed {
		// or: one buffer of 11 + DataSize + 4 bytes whose part behind the header is read in full
		model.EachInstr(rt, func(in ssa.Instruction) {
			ms, ok := in.(*ssa.MakeSlice)
			if !ok {
				return
			}
			base, off := linear(ms.Len)
			f := model.LoadedField(model.Unwrap(base))
			if base == nil || off != 15 || f == nil || f.Name() != "DataSize" {
				return
			}
			for _, ci := range model.AllCalls(rt) {
				o := model.CalleeObj(ci.Common())
				if o == nil || o.Pkg() == nil || o.Pkg().Path() != "io" || (o.Name() != "ReadFull" && o.Name() != "ReadAtLeast") {
					continue
				}
				if o.Name() == "ReadAtLeast" {
					// only when the minimum is the whole remainder (body + 4)
					mb, moff := linear(ci.Common().Args[2])
					mf := model.LoadedField(model.Unwrap(mb))
					if mb == nil || moff != 4 || mf == nil || mf.Name() != "DataSize" {
						continue
					}
				}
				if sl, isSl := ci.Common().Args[1].(*ssa.Slice); isSl && sl.High == nil {
					if k, isK := model.ConstInt(sl.Low); isK && k == 11 {
						if ld, isLd := sl.X.(*ssa.UnOp); isLd {
							// tag.Raw, stored from this make
							for _, st := range model.FieldStores(rt, model.LoadedField(ld)) {
								if st.Val == ssa.Value(ms) {
									okNeed = true
								}
							}
						} else if sl.X == ssa.Value(ms) {
							okNeed = true
						}
					}
				}
			}
		})
	}
	r.Check(okNeed, "C11.R3", fkey(rt, "layout", "needed"), p.Pos(rt.Pos()), "reader consumes DataSize+4 bytes after the header", "ReadTag no longer consumes body plus the 4-byte previous-tag-size")

	w5CacheKind(p, r, "C11.R8")
	w6FlvTsBits(p, r, "C11.R9")
	w7ReadAtLeastWhole(p, r, "C11.R10")
	w8HttpHeaderOnlyOnce(p, r, "C11.R11")
	w9WebSocketDetect(p, r, "C11.R12")

	// ---------------------------------------------------------------- R4
	r.Rule("C11.R4", "httpflv.FlvHeader is initialised to 46 4c 56 01 05 00 00 00 09 00 00 00 00 (13 bytes = flvHeaderSize) and nothing else stores to it")
	want := []int64{0x46, 0x4c, 0x56, 0x01, 0x05, 0, 0, 0, 9, 0, 0, 0, 0}
	g := p.Global("pkg/httpflv", "FlvHeader")
	initFn := p.SPkg("pkg/httpflv").Func("init")
	got := map[int64]int64{}
	var arr *ssa.Alloc
	nStores := 0
	for _, fn := range p.LalFuncs() {
		model.EachInstr(fn, func(in ssa.Instruction) {
			if st, ok := in.(*ssa.Store); ok && st.Addr == ssa.Value(g) {
				nStores++
			}
		})
	}
	model.EachInstr(initFn, func(in ssa.Instruction) {
		st, ok := in.(*ssa.Store)
		if !ok {
			return
		}
		if st.Addr == ssa.Value(g) {
			nStores++
			if sl, ok := st.Val.(*ssa.Slice); ok {
				arr, _ = sl.X.(*ssa.Alloc)
			}
		}
	})
	if arr != nil {
		model.EachInstr(initFn, func(in ssa.Instruction) {
			st, ok := in.(*ssa.Store)
			if !ok {
				return
			}
			if ia, ok := st.Addr.(*ssa.IndexAddr); ok && ia.X == ssa.Value(arr) {
				i, _ := model.ConstInt(ia.Index)
				v, _ := model.ConstInt(st.Val)
				got[i] = v
			}
		})
	}
	okHdr := arr != nil && nStores == 1
	if arr != nil {
		if at, ok := arr.Type().Underlying().(*types.Pointer).Elem().Underlying().(*types.Array); !ok || at.Len() != int64(len(want)) {
			okHdr = false
		}
	}
	for i, w := range want {
		if got[int64(i)] != w {
			okHdr = false
		}
	}
	hs, _ := constant.Int64Val(p.Const("pkg/httpflv", "flvHeaderSize").Val())
	r.Check(okHdr && hs == int64(len(want)), "C11.R4", "httpflv|const|FlvHeader", p.Pos(g.Pos()), "FLV header bytes as specified, single initialisation", fmt.Sprintf("FlvHeader bytes %v / stores %d / flvHeaderSize %d differ from the 13-byte FLV header with audio+video flags and a zero back-pointer", got, nStores, hs))
	c11r5(p, r)
	c11r67(p, r)
}

func describeMarker(v ssa.Value, isPL func(ssa.Value) bool) string {
	if v == nil {
		return "?"
	}
	if isPL(v) {
		return "len"
	}
	if k, ok := model.ConstInt(v); ok {
		return fmt.Sprint(k)
	}
	return v.String()
}
