package rules

import (
	"fmt"
	"go/token"
	"go/types"
	"os"
	"strings"

	"golang.org/x/tools/go/ssa"

	"lalverif/internal/model"
	"lalverif/internal/report"
)

func init() { register("C13", c13) }

// c13Surface: a group of entry points a remote peer drives directly.
type c13Surface struct {
	name  string
	roots []*ssa.Function
}

func c13Surfaces(p *model.Prog) []c13Surface {
	m := func(pkg, typ string, names ...string) []*ssa.Function {
		var out []*ssa.Function
		for _, n := range names {
			out = append(out, p.Method(pkg, typ, n))
		}
		return out
	}
	return []c13Surface{
		{"rtsp-command", append(m("pkg/rtsp", "Server", "handleTcpConnect"), m("pkg/rtsp", "WebsocketServer", "HandleWebsocket")...)},
		{"rtsp-rtp-rtcp", m("pkg/rtsp", "BaseInSession", "onReadRtpPacket", "onReadRtcpPacket", "HandleInterleavedPacket")},
		{"rtsp-out-rtcp", m("pkg/rtsp", "BaseOutSession", "onReadRtpPacket", "onReadRtcpPacket", "HandleInterleavedPacket")},
		{"gb28181", m("pkg/gb28181", "PubSession", "runLoopUdp", "runLoopTcp")},
		{"websocket-http-sub", m("pkg/logic", "HttpServerHandler", "ServeSubSession")},
		{"rtmp-client", m("pkg/rtmp", "ClientSession", "Start", "connect")},
		{"rtsp-client", m("pkg/rtsp", "ClientCommandSession", "Start")},
		{"httpflv-client", m("pkg/httpflv", "PullSession", "Start")},
	}
}

var c13Files = []string{
	"pkg/rtsp/", "pkg/sdp/", "pkg/rtprtcp/rtp_packet.go", "pkg/rtprtcp/rtcp", "pkg/rtprtcp/rtp_unpacker", "pkg/rtprtcp/rtp_unpack", "pkg/rtprtcp/rtp_packet_list.go", "pkg/rtprtcp/rtp.go",
	"pkg/gb28181/", "pkg/base/websocket.go", "pkg/base/url.go", "pkg/base/http_sub_session.go", "pkg/base/basic_http_sub_session.go",
	"pkg/rtmp/client_session.go", "pkg/rtmp/client_pull_session.go", "pkg/rtmp/client_push_session.go", "pkg/rtmp/handshake.go",
	"pkg/httpflv/client_pull_session.go", "pkg/httpflv/tag.go", "pkg/httpflv/server_sub_session.go", "pkg/httpts/", "pkg/avc/", "pkg/hevc/", "pkg/aac/", "pkg/h2645/", "pkg/base/avpacket",
}

func c13(p *model.Prog, r *report.Result) {
	r.Explanation = "Decides, per network surface other than the RTMP server (RTSP command channel incl. WebSocket, RTP/RTCP of RTSP sessions, GB28181 PS/RTP, WebSocket framing of HTTP subscribers, and the RTMP / RTSP / HTTP-FLV client sides), the structural clauses of 'no input terminates the process': every index, slice, allocation size, division, unchecked type assertion, library length precondition and explicit terminator reachable from the surface's read entry points with arbitrary bytes is proved from dominating guards / preconditions discharged at every caller, or listed; call-graph cycles reachable from them are depth- or state-guarded."
	r.NotDecided = []string{"HTTP-API and HLS file handlers beyond fatal kinds (net/http recovers handler panics per request)", "nil dereferences in general", "memory growth", "liveness", "naza connection/nazabytes internals (trusted)"}
	r.Assumptions = []string{"64-bit int", "loads of the same field path are identified when the function does not assign the field", "Log.Assert does not terminate under the default assert_behavior"}
	var roots []*ssa.Function
	for _, s := range c13Surfaces(p) {
		roots = append(roots, s.roots...)
		r.Count("surface_"+s.name+"_roots", len(s.roots))
	}
	// the group fan-out (C05) and the RTMP server (C04) are cut: their obligations are decided there
	cut := map[*ssa.Function]bool{}
	for _, f := range fanoutRoots(p) {
		cut[f] = true
	}
	reach := p.Reachable(roots, false, func(f *ssa.Function) bool { return !cut[f] && (model.IsLal(f) || model.IsNaza(f)) })
	r.Count("functions_analysed", len(reach))
	r.Rule("C13.PO", "engine B over the functions reachable from the read entry points of each surface (group fan-out cut: C05): index<len, 0<=low<=high<=cap, divisor>=1, make size bounded, no unchecked type assertion, library length preconditions, no process terminator")
	if os.Getenv("LALCHECK_C13_SCOPE") != "" {
		for f := range reach {
			if model.IsLal(f) && !inFiles(p, f, c13Files) {
				fmt.Println("C13-OUT-OF-FILTER", p.Pos(f.Pos()), f.String())
			}
		}
	}
	_, n := runPO(p, r, poConfig{rule: "C13.PO", roots: roots, filter: func(fn *ssa.Function) bool { return inFiles(p, fn, c13Files) }, cut: func(f *ssa.Function) bool { return cut[f] }})
	if n < 300 {
		r.Bad("C13.PO", "floor", "", "fewer than 300 obligations enumerated for the surfaces")
	}
	r.Rule("C13.REC", "every call-graph cycle reachable from the surfaces' entry points is depth-guarded, state-guarded, or guarded by a retry counter that is tested against a constant and incremented before every call back into the cycle")
	for _, s := range recursiveSCCs(p, roots) {
		in := false
		for _, f := range s.Funcs {
			if inFiles(p, f, c13Files) {
				in = true
			}
			if cut[f] {
				in = false
				break
			}
		}
		if !in {
			continue
		}
		ok, why := s.depthGuarded()
		if !ok {
			if ok2, why2 := s.stateGuarded(p); ok2 {
				ok, why = true, why2
			} else if ok3, why3 := s.counterGuarded(p); ok3 {
				ok, why = true, why3
			} else {
				why = why + "; " + why2 + "; " + why3
			}
		}
		name := s.Name()
		if len(name) > 300 {
			name = name[:300] + "…"
		}
		r.Check(ok, "C13.REC", "scc|"+name, p.Pos(s.Funcs[0].Pos()), why, "recursion reachable from peer input: "+why)
	}
	_ = strings.Contains
	c13Factory(p, r)
	c13Stap(p, r)
	c13Guards(p, r)
	c13List(p, r)
	c13RtpHdr(p, r)
	r.Rule("C13.NILF", "fields that lal itself compares with nil somewhere (unset until a later protocol step, or cleared at teardown) are, in every function reachable from the surfaces' entry points, dereferenced only behind the non-nil edge of a test of the same field expression or a dominating non-nil store; reviewed exceptions are listed per (function, field)")
	var scope []*ssa.Function
	for f := range reach {
		if model.IsLal(f) && inFiles(p, f, c13Files) {
			scope = append(scope, f)
		}
	}
	nilFieldRule(p, r, "C13.NILF", scope, c13NilExceptions, 10, 10)
	w7ParseAuPremise(p, r, "C13.AUHDR")
	w8MsgLenBeforeRead(p, r, "C13.MSGLEN")
	w6NilLocal(p, r, "C13.NILL", 3, "pkg/sdp", "pkg/rtsp", "pkg/rtprtcp", "pkg/gb28181", "pkg/base", "pkg/httpflv", "pkg/hls", "pkg/rtmp", "pkg/logic", "pkg/avc", "pkg/hevc", "pkg/aac", "pkg/mpegts", "pkg/remux", "pkg/httpts")
}

var c13NilExceptions = []nilFieldException{
	{"gb28181.PubSession.runLoopTcp", "PubSession.listener", "Listen() sets isTcpFlag together with the listener; RunLoop dispatches on the same flag and its only caller (Group.StartRtpPub) starts it only after Listen succeeded; the field is never cleared (the nil test is Dispose's 'not started' answer)"},
	{"gb28181.PubSession.runLoopUdp", "PubSession.udpConn", "as for listener: set by Listen() for the UDP mode RunLoop dispatches to; never cleared"},
	{"httpflv.PullSession.pullContext$1", "PullSession.conn", "the goroutine is started by pullContext after connect() assigned conn and returned nil; the nil test is Dispose before Start"},
	{"httpflv.PullSession.readFlvHeader", "PullSession.conn", "called from the read loop that pullContext starts after connect() assigned conn"},
	{"httpflv.PullSession.writeHttpRequest", "PullSession.conn", "called by pullContext right after connect() assigned conn and returned nil"},
	{"rtmp.ClientSession.WaitChan", "ClientSession.conn", "API contract: called after Start() returned nil (logic does so); tcpConnect assigned conn by then"},
	{"rtmp.ClientSession.dealErrorMessage", "ClientSession.conn", "runs inside the read loop, which starts after tcpConnect assigned conn"},
	{"rtmp.ClientSession.notifyDoResultSucc", "ClientSession.conn", "runs inside the read loop, which starts after tcpConnect assigned conn"},
	{"rtmp.ClientSession.writeAcknowledgementIfNeeded", "ClientSession.conn", "runs inside the read loop, which starts after tcpConnect assigned conn"},
	{"rtprtcp.RtpPacketList.PeekFirst", "RtpPacketListItem.Next", "documented contract 'caller guarantees the list is not empty'; the callers test Size > 0 or Head.Next first, and Size == number of items is decided by C13.LIST / C07.R3"},
	{"rtprtcp.RtpPacketList.PopFirst", "RtpPacketListItem.Next", "as PeekFirst"},
	{"rtsp.BaseInSession.SetObserver$1", "BaseInSession.observer", "the goroutine is started right after SetObserver stored the (non-nil) observer"},
	{"rtsp.BaseInSession.handleRtpPacket", "BaseInSession.observer", "PullSession constructs the session with its observer; for PubSession Group.AddRtspPubSession installs it while ANNOUNCE is handled, before SETUP/RECORD create any RTP source (UDP read loops, interleaved channel)"},
	{"rtsp.BaseInSession.onAvPacketUnpacked", "BaseInSession.observer", "as handleRtpPacket (called from it through the unpackers)"},
	{"rtsp.BaseInSession.onAvPacket", "BaseInSession.observer", "as handleRtpPacket (called from it through the AvPacketQueue)"},
	{"rtsp.ClientCommandSession.WaitChan", "ClientCommandSession.conn", "API contract: called after Start() returned nil; connect() assigned conn by then"},
	{"rtsp.ClientCommandSession.runReadLoop", "ClientCommandSession.conn", "started by doContext after connect() assigned conn and returned nil"},
	{"rtsp.ClientCommandSession.writeCmd", "ClientCommandSession.conn", "every command is written by doContext after connect() assigned conn and returned nil"},
	{"rtsp.PushSession.push", "PushSession.sdpCtx", "Start() returns an error for a nil sdpCtx before it calls push()"},
	{"rtsp.ServerCommandSession.feedSdp", "ServerCommandSession.subSession", "handleDescribe assigns subSession before calling it; the exported FeedSdp is called only by that SubSession itself (SubSession.FeedSdp)"},
}

// c13Factory: the unpacker factory terminates the process for a payload type it does not know;
// its callers consult a predicate first, and the predicate accepts only types the factory handles.
func c13Factory(p *model.Prog, r *report.Result) {
	r.Rule("C13.FACT", "every call of rtprtcp.DefaultRtpUnpackerFactory (Log.Fatalf on an unknown payload type) lies on the true edge of LogicContext.IsAudioUnpackable()/IsVideoUnpackable(), and every payload-type constant those predicates accept is a case of the factory's switch")
	fact := p.Func("pkg/rtprtcp", "DefaultRtpUnpackerFactory")
	factObj := p.FuncObj("pkg/rtprtcp", "DefaultRtpUnpackerFactory")
	preds := []*ssa.Function{p.Method("pkg/sdp", "LogicContext", "IsAudioUnpackable"), p.Method("pkg/sdp", "LogicContext", "IsVideoUnpackable")}
	isPred := func(f *types.Func) bool {
		for _, pf := range preds {
			if model.SameFunc(f, pf.Object().(*types.Func)) {
				return true
			}
		}
		return false
	}
	n := 0
	for _, fn := range p.LalFuncs() {
		for _, ci := range model.CallsTo(fn, factObj) {
			n++
			ok := model.GuardedBy(ci, func(c ssa.Value, pol bool) bool {
				call, isC := c.(*ssa.Call)
				return isC && pol && isPred(model.CalleeObj(call.Common()))
			})
			r.Check(ok, "C13.FACT", fkey(fn, "factory", "guarded"), p.InstrPos(ci), "factory called only for unpackable types", "DefaultRtpUnpackerFactory is called without the IsAudioUnpackable/IsVideoUnpackable check: a payload type from the peer's SDP that the factory does not know reaches Log.Fatalf")
		}
	}
	// constants handled by the factory: the case constants compared with its first parameter
	handled := map[int64]bool{}
	model.EachInstr(fact, func(in ssa.Instruction) {
		if x, k, op, _, ok := constCmp(valueOf(in)); ok && op == token.EQL && x == ssa.Value(fact.Params[0]) {
			handled[k] = true
		}
	})
	for _, pf := range preds {
		model.EachInstr(pf, func(in ssa.Instruction) {
			x, k, op, _, ok := constCmp(valueOf(in))
			if !ok || op != token.EQL {
				return
			}
			if f := model.LoadedField(x); f == nil || !strings.Contains(f.Name(), "PayloadTypeBase") {
				return
			}
			r.Check(handled[k], "C13.FACT", fkey(pf, "factory", fmt.Sprintf("type-%d", k)), p.InstrPos(in), "accepted type is a case of the factory", fmt.Sprintf("the predicate accepts payload type %d, which DefaultRtpUnpackerFactory does not handle: an SDP announcing it terminates the process", k))
		})
	}
	if n < 2 || len(handled) < 5 {
		r.Bad("C13.FACT", "floor", "", fmt.Sprintf("%d factory call sites / %d handled types found", n, len(handled)))
	}
}

// c13Stap: the two-pass de-aggregation of STAP-A / AP packets copies without checks in its
// second pass; that is sound only if the first pass accepted exactly the same offsets.
func c13Stap(p *model.Prog, r *report.Result) {
	r.Rule("C13.STAP", "in RtpUnpackerAvcHevc.TryUnpackOne the validating loop over an aggregation packet continues while i != len(buf) (so an overshooting size field reaches the check), returns when fewer than 2 bytes remain, and dominates the copying loop, which steps through buf the same way")
	fn := p.Method("pkg/rtprtcp", "RtpUnpackerAvcHevc", "TryUnpackOne")
	put32 := p.FuncObj("naza/pkg/bele", "BePutUint32")
	var validating, copying *model.Loop
	var vIf *ssa.If
	for _, l := range model.Loops(fn) {
		iff, ok := l.Header.Instrs[len(l.Header.Instrs)-1].(*ssa.If)
		if !ok {
			continue
		}
		cmp, ok := iff.Cond.(*ssa.BinOp)
		if !ok {
			continue
		}
		_, isPhi := cmp.X.(*ssa.Phi)
		if _, isLen := lenOf(cmp.Y); !isPhi || !isLen {
			continue
		}
		hasPut, hasRet := false, false
		for b := range l.Body {
			for _, in := range b.Instrs {
				if ci, ok := in.(ssa.CallInstruction); ok && model.SameFunc(model.CalleeObj(ci.Common()), put32) {
					hasPut = true
				}
				if _, ok := in.(*ssa.Return); ok {
					hasRet = true
				}
			}
			for _, s := range b.Succs {
				if !l.Body[s] && len(s.Instrs) > 0 {
					if _, ok := s.Instrs[len(s.Instrs)-1].(*ssa.Return); ok && s != l.Header {
						hasRet = true
					}
				}
			}
		}
		switch {
		case hasPut:
			copying = l
		case hasRet:
			validating, vIf = l, iff
		}
	}
	if validating == nil || copying == nil {
		r.Bad("C13.STAP", fkey(fn, "stap", "shape"), p.Pos(fn.Pos()), "the validating and the copying loop of the aggregation branch were not both found")
		return
	}
	cmp := vIf.Cond.(*ssa.BinOp)
	r.Check(cmp.Op == token.NEQ, "C13.STAP", fkey(fn, "stap", "exact-landing"), p.InstrPos(vIf), "the validating pass continues while i != len(buf)", "the validating pass stops as soon as i >= len(buf): a size field that overshoots the packet ends the pass silently and the copying pass slices out of range")
	// the short-remainder check inside the validating loop
	short := false
	for b := range validating.Body {
		iff, ok := b.Instrs[len(b.Instrs)-1].(*ssa.If)
		if !ok || b == validating.Header {
			continue
		}
		x, k, op, right, ok := constCmp(iff.Cond)
		if !ok {
			continue
		}
		if sub, isSub := model.Unwrap(x).(*ssa.BinOp); isSub && sub.Op == token.SUB {
			if _, isLen := lenOf(sub.X); isLen && cmpAt(op, 1, k, right) && !cmpAt(op, 2, k, right) {
				short = true
			}
		}
	}
	r.Check(short, "C13.STAP", fkey(fn, "stap", "remainder-check"), p.InstrPos(vIf), "fewer than 2 remaining bytes end the pass with an error", "the validating pass does not reject a remainder shorter than the 2-byte size field")
	r.Check(validating.Header.Dominates(copying.Header), "C13.STAP", fkey(fn, "stap", "order"), p.InstrPos(vIf), "validation precedes copying", "the copying pass is reachable without the validating pass")
}

// c13Guards: premises of reviewed invariants that are visible as guards and are re-checked here.
func c13Guards(p *model.Prog, r *report.Result) {
	r.Rule("C13.GUARD", "premises of the reviewed invariants that are plain guards: the WebSocket payload allocation lies behind a comparison of the announced length with a constant <= 64 MiB; in the AAC unpacker every bounded slice of the RTP body lies behind a comparison that involves the body length and the AU size, and every read of parseAu lies behind a comparison with len(b)")
	// websocket
	ws := p.Func("pkg/base", "ReadWsPayload")
	plen := p.Field("pkg/base", "WsHeader", "PayloadLength")
	nMk := 0
	model.EachInstr(ws, func(in ssa.Instruction) {
		mk, ok := in.(*ssa.MakeSlice)
		if !ok || !model.DependsOn(mk.Len, func(v ssa.Value) bool { return model.IsLoadOfField(v, plen) }) {
			return
		}
		nMk++
		ok = model.GuardedBy(mk, func(c ssa.Value, pol bool) bool {
			x, k, op, right, isCmp := constCmp(c)
			if !isCmp || !model.IsLoadOfField(model.Unwrap(x), plen) || k > 1<<26 || k < 0 {
				return false
			}
			// on this edge the length is <= k: the comparison is false for k+1 ... and true for k (relative to polarity)
			return cmpAt(op, k+1, k, right) != pol && cmpAt(op, k, k, right) == pol
		})
		r.Check(ok, "C13.GUARD", fkey(ws, "ws", "payload-length-bounded"), p.InstrPos(mk), "allocation behind PayloadLength <= constant", "the peer's 64-bit payload length reaches make() unchecked: a frame header announcing 2^63 bytes terminates the process")
	})
	if nMk != 1 {
		r.Bad("C13.GUARD", "floor-ws", p.Pos(ws.Pos()), "expected exactly one allocation sized by WsHeader.PayloadLength")
	}
	// aac unpacker
	aacFn := p.Method("pkg/rtprtcp", "RtpUnpackerAac", "TryUnpackOne")
	bodyM := p.MethodObj("pkg/rtprtcp", "RtpPacket", "Body")
	sizeF := p.Field("pkg/rtprtcp", "au", "size")
	isBody := func(v ssa.Value) bool {
		c, ok := v.(*ssa.Call)
		return ok && model.SameFunc(model.CalleeObj(c.Common()), bodyM)
	}
	depLen := func(v ssa.Value) bool {
		return model.DependsOn(v, func(x ssa.Value) bool {
			l, ok := lenOf(x)
			if !ok {
				return false
			}
			for i := 0; i < 4; i++ {
				if sl, isSl := l.(*ssa.Slice); isSl {
					l = sl.X
				}
			}
			return isBody(l)
		})
	}
	depSize := func(v ssa.Value) bool {
		return model.DependsOn(v, func(x ssa.Value) bool { return model.LoadedField(x) == sizeF })
	}
	nSl := 0
	model.EachInstr(aacFn, func(in ssa.Instruction) {
		sl, ok := in.(*ssa.Slice)
		if !ok || sl.High == nil || !isBody(sl.X) {
			return
		}
		nSl++
		ok = model.GuardedBy(sl, func(c ssa.Value, pol bool) bool { return depLen(c) && depSize(c) })
		r.Check(ok, "C13.GUARD", fkey(aacFn, "aac", "au-inside-body"), p.InstrPos(sl), "AU slice behind a size-vs-body-length comparison", "an access unit is sliced out of the RTP body without comparing its announced size with the bytes present: an AU-header announcing more than the packet holds slices out of range")
	})
	if nSl < 2 {
		r.Bad("C13.GUARD", "floor-aac", p.Pos(aacFn.Pos()), "expected the single-AU and multi-AU slices of the RTP body")
	}
	pa := p.Func("pkg/rtprtcp", "parseAu")
	b := pa.Params[0]
	nIdx := 0
	model.EachInstr(pa, func(in ssa.Instruction) {
		ia, ok := in.(*ssa.IndexAddr)
		if !ok || ia.X != ssa.Value(b) {
			return
		}
		nIdx++
		ok = model.GuardedBy(ia, func(c ssa.Value, pol bool) bool {
			return model.DependsOn(c, func(x ssa.Value) bool { l, isL := lenOf(x); return isL && l == ssa.Value(b) })
		})
		r.Check(ok, "C13.GUARD", fkey(pa, "aac", "header-inside-body"), p.InstrPos(ia), "read behind a comparison with len(b)", "parseAu reads the AU-header section without comparing it with the body length")
	})
	if nIdx < 4 {
		r.Bad("C13.GUARD", "floor-parseAu", p.Pos(pa.Pos()), "expected the four byte reads of parseAu")
	}
}
