package rules

import (
	"fmt"
	"go/constant"
	"go/token"
	"go/types"
	"strings"

	"golang.org/x/tools/go/ssa"

	"lalverif/internal/model"
	"lalverif/internal/report"
)

// c10r8: EXT-X-TARGETDURATION is the longest duration rounded to the nearest second.
func c10r8(p *model.Prog, r *report.Result) {
	r.Rule("C10.R8", "every integer written behind '#EXT-X-TARGETDURATION:' in pkg/hls is int(M + 0.5) (or math.Round/Ceil of M), converted at that point, where no value ever assigned to the accumulator M already contains a rounding offset: comparing a duration with an accumulator that holds 'duration + 0.5', or truncating a configured non-integral fragment duration, lets the target fall below a listed segment's duration rounded to the nearest second")
	isHalf := func(v ssa.Value) bool {
		c, ok := v.(*ssa.Const)
		if !ok || c.Value == nil || c.Value.Kind() != constant.Float {
			return false
		}
		f, _ := constant.Float64Val(c.Value)
		return f == 0.5
	}
	isFloatConst := func(v ssa.Value) bool {
		c, ok := v.(*ssa.Const)
		return ok && c.Value != nil && c.Value.Kind() == constant.Float
	}
	// the values ever stored into an accumulator (a local cell, possibly captured, or a field)
	accumStores := func(fn *ssa.Function, acc ssa.Value) []ssa.Value {
		var out []ssa.Value
		ld, ok := acc.(*ssa.UnOp)
		if !ok || ld.Op != token.MUL {
			if ph, isPhi := acc.(*ssa.Phi); isPhi {
				return append(out, ph.Edges...)
			}
			return []ssa.Value{acc}
		}
		if f := model.FieldOf(ld.X); f != nil {
			for _, g := range lalFuncsIn(p, "pkg/hls") {
				for _, st := range model.FieldStores(g, f) {
					out = append(out, st.Val)
				}
			}
			return out
		}
		cell, isAlloc := ld.X.(*ssa.Alloc)
		if !isAlloc {
			return []ssa.Value{acc}
		}
		for _, ref := range *cell.Referrers() {
			switch x := ref.(type) {
			case *ssa.Store:
				if x.Addr == ssa.Value(cell) {
					out = append(out, x.Val)
				}
			case *ssa.MakeClosure:
				anon := x.Fn.(*ssa.Function)
				for i, b := range x.Bindings {
					if b != ssa.Value(cell) {
						continue
					}
					fv := anon.FreeVars[i]
					model.EachInstr(anon, func(in ssa.Instruction) {
						if st, ok := in.(*ssa.Store); ok && st.Addr == ssa.Value(fv) {
							out = append(out, st.Val)
						}
					})
				}
			}
		}
		return out
	}
	var checkInt func(fn *ssa.Function, v ssa.Value, site ssa.Instruction, depth int)
	n := 0
	checkInt = func(fn *ssa.Function, v ssa.Value, site ssa.Instruction, depth int) {
		if mi, ok := v.(*ssa.MakeInterface); ok {
			v = mi.X
		}
		switch x := v.(type) {
		case *ssa.Parameter:
			if depth > 2 {
				return
			}
			idx := -1
			for i, pa := range fn.Params {
				if pa == x {
					idx = i
				}
			}
			for _, ed := range p.Callers(fn) {
				if ed.Site == nil || !model.IsLal(ed.Caller.Func) {
					continue
				}
				args := ed.Site.Common().Args
				if idx >= 0 && idx < len(args) {
					checkInt(ed.Caller.Func, args[idx], ed.Site, depth+1)
				}
			}
			return
		case *ssa.Call:
			// the integer comes out of a helper of the package: each of its returns is judged
			if ce := x.Call.StaticCallee(); ce != nil && model.IsLal(ce) && len(ce.Blocks) > 0 && depth <= 2 {
				for _, ret := range model.ReturnsOf(ce) {
					if rv := model.ReturnValues(ret); len(rv) >= 1 {
						checkInt(ce, stripIntConv(rv[0]), site, depth+1)
					}
				}
			}
			return
		case *ssa.Convert:
			if bt, ok := x.X.Type().Underlying().(*types.Basic); ok && bt.Info()&types.IsFloat != 0 {
				n++
				key := fkey(fn, "target", "rounded-max")
				var acc ssa.Value
				switch y := x.X.(type) {
				case *ssa.BinOp:
					if y.Op == token.ADD && isHalf(y.Y) {
						acc = y.X
					} else if y.Op == token.ADD && isHalf(y.X) {
						acc = y.Y
					}
				case *ssa.Call:
					if o := model.CalleeObj(y.Common()); o != nil && o.Pkg() != nil && o.Pkg().Path() == "math" && (o.Name() == "Round" || o.Name() == "Ceil") {
						acc = y.Call.Args[0]
					}
				}
				if acc == nil {
					r.Bad("C10.R8", key, p.InstrPos(site), "the target duration is a truncated float (int(x)) that is not x = M + 0.5 at the point of conversion: for a configured fragment duration that is not a whole number of seconds, or at the .5 boundary, the tag is smaller than a listed segment's duration rounded to the nearest second")
					return
				}
				bad := ""
				for _, sv := range accumStores(fn, acc) {
					if bo, ok := sv.(*ssa.BinOp); ok && (bo.Op == token.ADD || bo.Op == token.SUB) && (isFloatConst(bo.X) || isFloatConst(bo.Y)) {
						bad = "a value with a constant offset is stored into the maximum"
					}
				}
				r.Check(bad == "", "C10.R8", key, p.InstrPos(site), "int(max + 0.5) with a clean maximum", "the maximum that is rounded already contains a rounding offset ("+bad+"): later durations are compared with 'longest + 0.5', so a segment up to half a second longer than the longest one does not raise the target")
				return
			}
		}
		// anything else: an int that does not come from a float conversion here (e.g. parsed back) - not this rule's concern
	}
	for _, fn := range lalFuncsIn(p, "pkg/hls") {
		for _, ci := range model.AllCalls(fn) {
			o := model.CalleeObj(ci.Common())
			if o == nil || o.Pkg() == nil || o.Pkg().Path() != "fmt" || o.Name() != "Sprintf" {
				continue
			}
			args := ci.Common().Args
			f, ok := model.ConstString(args[0])
			if !ok || !strings.Contains(f, "#EXT-X-TARGETDURATION:%d") {
				continue
			}
			// the single variadic element
			sl, isS := args[1].(*ssa.Slice)
			if !isS {
				continue
			}
			arr, isA := sl.X.(*ssa.Alloc)
			if !isA {
				continue
			}
			for _, ref := range *arr.Referrers() {
				ia, isIA := ref.(*ssa.IndexAddr)
				if !isIA {
					continue
				}
				for _, r2 := range *ia.Referrers() {
					if st, isSt := r2.(*ssa.Store); isSt {
						checkInt(fn, st.Val, ci, 0)
					}
				}
			}
		}
	}
	// the same integer formatted without Sprintf: strconv.Itoa / FormatInt / AppendInt in a
	// function that also holds the tag text
	for _, fn := range lalFuncsIn(p, "pkg/hls") {
		hasTag := false
		model.EachInstr(fn, func(in ssa.Instruction) {
			for _, op := range in.Operands(nil) {
				if *op == nil {
					continue
				}
				if cs, ok := model.ConstString(*op); ok && strings.Contains(cs, "#EXT-X-TARGETDURATION:") && !strings.Contains(cs, "#EXT-X-TARGETDURATION:%d") {
					hasTag = true
				}
			}
		})
		if !hasTag {
			continue
		}
		for _, ci := range model.AllCalls(fn) {
			o := model.CalleeObj(ci.Common())
			if o == nil || o.Pkg() == nil || o.Pkg().Path() != "strconv" {
				continue
			}
			args := ci.Common().Args
			switch o.Name() {
			case "Itoa", "FormatInt":
				checkInt(fn, stripIntConv(args[0]), ci, 0)
			case "AppendInt":
				checkInt(fn, stripIntConv(args[1]), ci, 0)
			}
		}
	}
	if n < 3 {
		r.Bad("C10.R8", "floor", "", fmt.Sprintf("only %d target-duration conversions found (live playlist, record playlist new/updated)", n))
	}
}

// stripIntConv removes integer-to-integer conversions (int64(x) for FormatInt).
func stripIntConv(v ssa.Value) ssa.Value {
	for {
		c, ok := v.(*ssa.Convert)
		if !ok || !isInteger(c.X.Type()) {
			return v
		}
		v = c.X
	}
}
