package rules

import (
	"fmt"
	"go/constant"
	"go/token"
	"go/types"
	"sort"
	"strings"

	"golang.org/x/tools/go/ssa"

	"lalverif/internal/model"
	"lalverif/internal/report"
)

func init() { register("C08", c08) }

// cmpAt evaluates `x OP k` at x == v for an integer comparison whose constant side is k.
// constOnRight tells which side the constant is on.
func cmpAt(op token.Token, v, k int64, constOnRight bool) bool {
	a, b := v, k
	if !constOnRight {
		a, b = k, v
	}
	switch op {
	case token.LSS:
		return a < b
	case token.LEQ:
		return a <= b
	case token.GTR:
		return a > b
	case token.GEQ:
		return a >= b
	case token.EQL:
		return a == b
	case token.NEQ:
		return a != b
	}
	return false
}

// constCmp recognises a comparison of some value against an integer constant.
func constCmp(v ssa.Value) (other ssa.Value, k int64, op token.Token, constOnRight bool, ok bool) {
	b, isB := v.(*ssa.BinOp)
	if !isB {
		return
	}
	switch b.Op {
	case token.LSS, token.LEQ, token.GTR, token.GEQ, token.EQL, token.NEQ:
	default:
		return
	}
	if c, isK := model.ConstInt(b.Y); isK {
		return b.X, c, b.Op, true, true
	}
	if c, isK := model.ConstInt(b.X); isK {
		return b.Y, c, b.Op, false, true
	}
	return
}

// maxIntValue computes an upper bound of an int SSA value built from constants, additions of
// constants and phis (acyclic); ok=false for anything else.
func maxIntValue(v ssa.Value, depth int) (int64, bool) {
	if depth > 200 {
		return 0, false
	}
	switch x := v.(type) {
	case *ssa.Const:
		return model.ConstInt(x)
	case *ssa.Phi:
		var m int64
		for i, e := range x.Edges {
			c, ok := maxIntValue(e, depth+1)
			if !ok {
				return 0, false
			}
			if i == 0 || c > m {
				m = c
			}
		}
		return m, true
	case *ssa.BinOp:
		if x.Op == token.ADD {
			a, ok1 := maxIntValue(x.X, depth+1)
			b, ok2 := maxIntValue(x.Y, depth+1)
			return a + b, ok1 && ok2
		}
	}
	return 0, false
}

func c08(p *model.Prog, r *report.Result) {
	r.Explanation = "Decides writer/reader agreement conditions of the RTMP chunk stream that are visible in the code's constants and comparisons: the class of the timestamp value 0xFFFFFF (extended field present) is the same in calcHeader and in ChunkComposer.RunLoop (R1); the longest chunk header calcHeader can emit fits the per-chunk allowance used to size the output buffer (R2); the chunk-stream-id forms the writer selects are exactly the ranges the reader's 1- and 2-byte forms decode (R3); field layouts agree (R4); first header byte composition, absolute/delta flag typestate, aggregate payload and base time stamp (R5-R9); the chunk read size is the remaining part of the message or the peer's chunk size, so a Set Chunk Size between two chunks of a message cannot mis-size the continuation (R10); a zero-length message still yields a header-only chunk and every header is followed by its payload copy (R11, R12); the format bits come from the first basic-header byte and the remembered delta is never reset (R13, R14)."
	r.NotDecided = []string{"the round trip itself for all sizes and chunkings (a function of values)", "delta accumulation over fmt1/fmt2 chains beyond the flag typestate", "aggregate message splitting beyond R7/R9", "Set Chunk Size changes mid-stream beyond R10 (e.g. a shrinking chunk size)"}
	maxTs, _ := constant.Int64Val(p.Const("pkg/rtmp", "maxTimestampInMessageHeader").Val())
	calc := p.Func("pkg/rtmp", "calcHeader")
	runLoop := p.Method("pkg/rtmp", "ChunkComposer", "RunLoop")
	r.Count("functions_analysed", 4)

	// ---------------------------------------------------------------- R1
	r.Rule("C08.R1", "every comparison of the outgoing timestamp with maxTimestampInMessageHeader that selects the 0xFFFFFF marker or the 4-byte extended field in calcHeader, and the comparison that makes the reader consume the extended field, put the value 0xFFFFFF itself in the 'extended field present' class")
	bePut24 := p.FuncObj("naza/pkg/bele", "BePutUint24")
	bePut32 := p.FuncObj("naza/pkg/bele", "BePutUint32")
	nW := 0
	for _, b := range calc.Blocks {
		iff, ok := b.Instrs[len(b.Instrs)-1].(*ssa.If)
		if !ok {
			continue
		}
		_, k, op, right, ok := constCmp(iff.Cond)
		if !ok || k != maxTs {
			continue
		}
		// what does the true edge do?
		trueBlk := b.Succs[0]
		marker, ext := false, false
		for _, in := range trueBlk.Instrs {
			ci, isC := in.(ssa.CallInstruction)
			if !isC {
				continue
			}
			o := model.CalleeObj(ci.Common())
			if model.SameFunc(o, bePut24) {
				if c, isK := model.ConstInt(ci.Common().Args[1]); isK && c == maxTs {
					marker = true
				}
			}
			if model.SameFunc(o, bePut32) {
				ext = true
			}
		}
		nW++
		what := "marker"
		if ext {
			what = "extended-field"
		}
		if !marker && !ext {
			// the choice between absolute timestamp (extended field repeated on continuation
			// chunks) and delta: must classify 0xFFFFFF like the two field comparisons do
			what = "absolute-on-continuation"
		}
		atEq := cmpAt(op, maxTs, maxTs, right)
		r.Check(atEq, "C08.R1", fkey(calc, "boundary", what), p.InstrPos(iff),
			"writer: timestamp==0xFFFFFF takes the '"+what+"' branch", "writer: a timestamp of exactly 0xFFFFFF is written as a plain 24-bit value without the "+what+", but the reader treats 0xFFFFFF as 'extended field follows': the message is misparsed")
	}
	if nW < 3 {
		r.Bad("C08.R1", fkey(calc, "boundary", "floor"), p.Pos(calc.Pos()), "calcHeader no longer selects the marker and the extended field by comparing with maxTimestampInMessageHeader")
	}
	tsField := p.Field("pkg/rtmp", "Stream", "timestamp")
	nR := 0
	for _, b := range runLoop.Blocks {
		iff, ok := b.Instrs[len(b.Instrs)-1].(*ssa.If)
		if !ok {
			continue
		}
		x, k, op, right, ok := constCmp(iff.Cond)
		if !ok || k != maxTs || !model.IsLoadOfField(x, tsField) {
			continue
		}
		nR++
		atEq := cmpAt(op, maxTs, maxTs, right)
		above := cmpAt(op, maxTs+1, maxTs, right) // not representable in 24 bits but keeps the direction honest
		below := cmpAt(op, maxTs-1, maxTs, right)
		r.Check(atEq && !below, "C08.R1", fkey(runLoop, "boundary", "reader-extended-field"), p.InstrPos(iff),
			fmt.Sprintf("reader: 0xFFFFFF -> extended field read (below:%v above:%v)", below, above), "reader: the 24-bit value 0xFFFFFF does not select the extended timestamp field (or smaller values do)")
	}
	if nR != 1 {
		r.Bad("C08.R1", fkey(runLoop, "boundary", "floor"), p.Pos(runLoop.Pos()), "reader comparison of Stream.timestamp with maxTimestampInMessageHeader not found exactly once")
	}

	// ---------------------------------------------------------------- R2
	r.Rule("C08.R2", "the largest value calcHeader can return (sum of its constant index increments on the longest path) is <= maxHeaderSize, and message2Chunks/message2ChunksV size their output with chunkSize+maxHeaderSize per chunk")
	maxHdr, _ := constant.Int64Val(p.Const("pkg/rtmp", "maxHeaderSize").Val())
	worst := int64(-1)
	okAll := true
	for _, ret := range model.ReturnsOf(calc) {
		v, ok := maxIntValue(model.ReturnValues(ret)[0], 0)
		if !ok {
			okAll = false
			continue
		}
		if v > worst {
			worst = v
		}
	}
	r.Check(okAll && worst >= 0 && worst <= maxHdr, "C08.R2", fkey(calc, "bound", "header-size"), p.Pos(calc.Pos()),
		fmt.Sprintf("longest header = %d bytes <= maxHeaderSize = %d", worst, maxHdr), fmt.Sprintf("calcHeader can emit %d header bytes but only %d are reserved per chunk: the output buffer is overrun", worst, maxHdr))
	for _, name := range []string{"message2Chunks", "message2ChunksV"} {
		fn := p.Func("pkg/rtmp", name)
		// every "chunk payload size + K" expression (base: the chunkSize parameter or len%chunkSize)
		// that is not itself extended by a further constant must have K >= the longest header
		found := false
		bad := false
		model.EachInstr(fn, func(in ssa.Instruction) {
			b, ok := in.(*ssa.BinOp)
			if !ok || (b.Op != token.ADD && b.Op != token.SUB) {
				return
			}
			base, off := linear(b)
			if base == nil {
				return
			}
			isChunk := false
			if prm, isP := base.(*ssa.Parameter); isP && prm.Name() == "chunkSize" {
				isChunk = true
			}
			if rem, isR := base.(*ssa.BinOp); isR && rem.Op == token.REM {
				isChunk = true
			}
			if ph, isPhi := base.(*ssa.Phi); isPhi && ph.Comment == "lastChunkSize" {
				isChunk = true
			}
			if !isChunk || off == 0 {
				return
			}
			// outermost only
			if refs := b.Referrers(); refs != nil {
				for _, ref := range *refs {
					if b2, ok := ref.(*ssa.BinOp); ok && (b2.Op == token.ADD || b2.Op == token.SUB) {
						if _, isK := model.ConstInt(b2.Y); isK {
							return
						}
					}
				}
			}
			found = true
			if off < worst {
				bad = true
			}
		})
		found = found && !bad
		r.Check(found, "C08.R2", fkey(fn, "bound", "chunkSize+maxHeaderSize"), p.Pos(fn.Pos()), "output sized with chunkSize+maxHeaderSize per chunk", "the output buffer is no longer sized with the header allowance per chunk")
	}

	// ---------------------------------------------------------------- R3
	r.Rule("C08.R3", "calcHeader's csid partition uses the boundaries 2..63 | 64..319 | rest, and the reader decodes form 0 as 64+b0 and form 1 as 64+b0+b1*256, i.e. 319 = 64+255 and both sides subtract/add the same base")
	csidF := p.Field("pkg/base", "RtmpHeader", "Csid")
	bounds := map[int64]bool{}
	subBase := map[int64]bool{}
	model.EachInstr(calc, func(in ssa.Instruction) {
		if x, k, _, _, ok := constCmp(valueOf(in)); ok && model.IsLoadOfField(x, csidF) {
			bounds[k] = true
		}
		if b, ok := in.(*ssa.BinOp); ok && b.Op == token.SUB && model.IsLoadOfField(b.X, csidF) {
			if k, isK := model.ConstInt(b.Y); isK {
				subBase[k] = true
			}
		}
	})
	okW := bounds[2] && bounds[63] && bounds[64] && bounds[319] && len(subBase) == 1 && subBase[64]
	r.Check(okW, "C08.R3", fkey(calc, "csid", "writer-forms"), p.Pos(calc.Pos()), "writer boundaries {2,63,64,319}, base 64", fmt.Sprintf("writer csid boundaries %v / base %v differ from the 1-, 2- and 3-byte forms", keysOf(bounds), keysOf(subBase)))
	addBase := map[int64]int{}
	mul256 := false
	readerGroup := model.StaticGroup(runLoop, 2)
	eachReader := func(f func(ssa.Instruction)) {
		for _, g := range readerGroup {
			model.EachInstr(g, f)
		}
	}
	eachReader(func(in ssa.Instruction) {
		if b, ok := in.(*ssa.BinOp); ok {
			if b.Op == token.ADD {
				if k, isK := model.ConstInt(b.X); isK {
					addBase[k]++
				}
			}
			if b.Op == token.MUL {
				if k, isK := model.ConstInt(b.Y); isK && k == 256 {
					mul256 = true
				}
			}
		}
	})
	r.Check(addBase[64] >= 2 && mul256 && 319 == 64+255, "C08.R3", fkey(runLoop, "csid", "reader-forms"), p.Pos(runLoop.Pos()), "reader decodes 64+b0 and 64+b0+b1*256", "reader csid decoding no longer uses base 64 / the 256 multiplier")

	// ---------------------------------------------------------------- R4
	r.Rule("C08.R4", "the message-header fields are written by calcHeader at the same (offset, width, byte order) relative to the start of the message header as ChunkComposer.RunLoop reads them from its header buffer: timestamp @0/3 BE, MsgLen @3/3 BE, MsgTypeId @6/1, MsgStreamId @7/4 LE, extended timestamp 4 BE")
	wl := writerLayout(calc)
	rl := readerLayout(runLoop)
	// reader: only the accesses to the bootstrap header buffer (a make([]byte, 11) in RunLoop)
	isBootstrap := func(it layoutItem) bool {
		switch it.Buf.(type) {
		case *ssa.MakeSlice, *ssa.Alloc:
			return true
		}
		return false
	}
	// writer side by paths: constant propagation over calcHeader gives, on every path, the absolute
	// position of each header write; positions are taken relative to the time stamp write of the
	// same path (the start of the message header), whatever the shape of the branches
	wpaths := c08WriterPaths(p, calc)
	for _, f := range []string{"MsgLen", "MsgTypeId", "MsgStreamId"} {
		w, rd := wpaths[f], layoutSet(rl, f, isBootstrap)
		if w == "" {
			w = layoutSet(wl, f, nil)
		}
		r.Check(w != "" && w == rd, "C08.R4", fkey(calc, "layout", f), p.Pos(calc.Pos()), "writer "+w+" == reader "+rd, "field "+f+" is written at "+w+" but read at "+rd)
	}
	wts := layoutSet(wl, "timestamp", nil)
	rts := layoutSet(rl, "timestamp", func(it layoutItem) bool { return isBootstrap(it) && it.Width > 1 })
	r.Check(wts != "" && wts == rts, "C08.R4", fkey(calc, "layout", "timestamp"), p.Pos(calc.Pos()), "writer "+wts+" == reader "+rts, "timestamp is written at "+wts+" but read at "+rts)
	// the number of header bytes the reader consumes per format equals what the writer emits: 11/7/3
	sizes := map[int64]bool{}
	readAtLeast := p.FuncObj("io", "ReadAtLeast")
	for _, g := range readerGroup {
		for _, ci := range model.CallsTo(g, readAtLeast) {
			if k, ok := model.ConstInt(ci.Common().Args[2]); ok {
				sizes[k] = true
			}
		}
	}
	r.Check(sizes[11] && sizes[7] && sizes[3] && sizes[4], "C08.R4", fkey(runLoop, "layout", "header-sizes"), p.Pos(runLoop.Pos()), "reader consumes 11/7/3 header bytes and 4 extended bytes", "the reader's per-format header sizes differ from 11/7/3(+4)")
	c08r56(p, r, calc, runLoop)
	c08r7(p, r, runLoop)
	c08r89(p, r, calc, runLoop)
	c08r1011(p, r, runLoop)
	w5PackerMsgLen(p, r, "C08.R15")
	w5CsidForms(p, r, "C08.R16")
	w6CopyBuffers(p, r, "C08.R17")
	w6PeerChunkSize(p, r, "C08.R18")
	w7PeerChunkSizeDefault(p, r, "C08.R19")
	c08r1314(p, r, runLoop)
}

// c08r56 adds the basic-header byte rule (R5) and the reader's absolute/delta typestate (R6).
func c08r56(p *model.Prog, r *report.Result, calc, runLoop *ssa.Function) {
	// ---------------------------------------------------------------- R5
	r.Rule("C08.R5", "in calcHeader the first header byte is defined once as <format> << 6 and afterwards only OR-ed with a value confined to the low six bits (a constant <= 63, or the csid behind a guard that excludes 64): on every path to the return the two format bits written are the format chosen")
	out := calc.Params[2]
	isByte0 := func(addr ssa.Value) bool {
		ia, ok := addr.(*ssa.IndexAddr)
		if !ok || ia.X != ssa.Value(out) {
			return false
		}
		b, k := linear(ia.Index)
		return b == nil && k == 0
	}
	csidFld := p.Field("pkg/base", "RtmpHeader", "Csid")
	var defs, kills []*ssa.Store
	nPres := 0
	// classify a stored value: 'f' carries <format> << 6 (other operands confined to the low six
	// bits), 'p' keeps the previous byte and ORs low bits in, 'l' low bits only, 'x' anything else
	var classify func(v ssa.Value, at ssa.Instruction, d int) byte
	classify = func(v ssa.Value, at ssa.Instruction, d int) byte {
		if d > 8 {
			return 'x'
		}
		if k, isK := model.ConstInt(v); isK {
			if k >= 0 && k <= 63 {
				return 'l'
			}
			return 'x'
		}
		switch y := v.(type) {
		case *ssa.UnOp:
			if y.Op == token.MUL && isByte0(y.X) {
				return 'p'
			}
		case *ssa.Convert:
			if model.IsLoadOfField(model.Unwrap(y), csidFld) && model.GuardedBy(at, func(c ssa.Value, pol bool) bool {
				x, k, op, right, ok := constCmp(c)
				return ok && model.IsLoadOfField(x, csidFld) && cmpAt(op, 63, k, right) == pol && cmpAt(op, 64, k, right) != pol
			}) {
				return 'l'
			}
		case *ssa.BinOp:
			switch y.Op {
			case token.SHL:
				if k, isK := model.ConstInt(y.Y); isK && k == 6 {
					if _, isC := y.X.(*ssa.Const); !isC {
						return 'f'
					}
				}
			case token.OR, token.ADD:
				a, b := classify(y.X, at, d+1), classify(y.Y, at, d+1)
				if a == 'x' || b == 'x' || (y.Op == token.ADD && (a == 'p' || b == 'p') && a != 'l' && b != 'l') {
					return 'x'
				}
				switch {
				case a == 'f' || b == 'f':
					if a == b {
						return 'x'
					}
					return 'f'
				case a == 'p' || b == 'p':
					return 'p'
				}
				return 'l'
			}
		}
		return 'x'
	}
	model.EachInstr(calc, func(in ssa.Instruction) {
		st, ok := in.(*ssa.Store)
		if !ok || !isByte0(st.Addr) {
			return
		}
		switch classify(st.Val, st, 0) {
		case 'f':
			defs = append(defs, st)
		case 'p':
			nPres++
		default:
			kills = append(kills, st)
		}
	})
	isDef := func(in ssa.Instruction) bool {
		for _, d := range defs {
			if in == ssa.Instruction(d) {
				return true
			}
		}
		return false
	}
	isRet := func(in ssa.Instruction) bool { _, ok := in.(*ssa.Return); return ok }
	noDefPath := model.PathQuery{Stop: isDef, Target: isRet}.Find(calc)
	r.Check(len(defs) > 0 && noDefPath == nil, "C08.R5", fkey(calc, "byte0", "format-defined"), p.Pos(calc.Pos()), fmt.Sprintf("out[0] = fmt<<6 on every path; %d low-bit OR updates", nPres), "a path returns without out[0] having been set to <format> << 6")
	for _, k := range kills {
		bad := model.PathQuery{From: k, Stop: isDef, Target: isRet}.Find(calc)
		r.Check(bad == nil, "C08.R5", fkey(calc, "byte0", "overwrite"), p.InstrPos(k), "overwritten again by fmt<<6 before returning", "the first header byte is overwritten after the format bits were placed and the function can return with that value: every chunk of this csid form goes out as format 0 (or with stray format bits), so the reader parses payload as an 11-byte message header")
	}
	r.Count("byte0_stores", len(defs)+len(kills)+nPres)
	if len(defs)+nPres < 3 {
		r.Bad("C08.R5", "floor", p.Pos(calc.Pos()), "expected stores of out[0] for the format bits and for the 1-byte and 3-byte csid forms")
	}

	// ---------------------------------------------------------------- R6
	r.Rule("C08.R6", "typestate of Stream.absTsFlag in ChunkComposer.RunLoop: set to true only on the format-0 edge; set to false only behind the message-complete test, on every path from that test to the next chunk; TimestampAbs += timestamp happens only on the false edge of the flag, behind the message-complete test")
	flag := p.Field("pkg/rtmp", "Stream", "absTsFlag")
	msgLenF := p.Field("pkg/base", "RtmpHeader", "MsgLen")
	tsAbsF := p.Field("pkg/base", "RtmpHeader", "TimestampAbs")
	tsF := p.Field("pkg/rtmp", "Stream", "timestamp")
	isComplete := func(c ssa.Value, pol bool) bool {
		b, ok := c.(*ssa.BinOp)
		if !ok || b.Op != token.EQL || !pol {
			return false
		}
		isLen := func(v ssa.Value) bool {
			call, ok := v.(*ssa.Call)
			return ok && model.CalleeObj(call.Common()) != nil && model.CalleeObj(call.Common()).Name() == "Len"
		}
		return (isLen(b.X) && model.IsLoadOfField(b.Y, msgLenF)) || (isLen(b.Y) && model.IsLoadOfField(b.X, msgLenF))
	}
	// the format value: (bootstrap[0] >> 6) & 3
	isFmt0 := func(c ssa.Value, pol bool) bool {
		x, k, op, _, ok := constCmp(c)
		if !ok || op != token.EQL || k != 0 || !pol {
			return false
		}
		return model.DependsOnDeep(x, func(v ssa.Value) bool {
			b, ok := v.(*ssa.BinOp)
			if !ok || b.Op != token.SHR {
				return false
			}
			k, isK := model.ConstInt(b.Y)
			return isK && k == 6
		})
	}
	var falses []*ssa.Store
	nTrue := 0
	for _, st := range model.FieldStores(runLoop, flag) {
		v, isK := model.ConstBool(st.Val)
		switch {
		case !isK:
			r.Bad("C08.R6", fkey(runLoop, "flag", "non-constant"), p.InstrPos(st), "absTsFlag assigned a computed value")
		case v:
			nTrue++
			r.Check(model.GuardedBy(st, isFmt0), "C08.R6", fkey(runLoop, "flag", "set"), p.InstrPos(st), "set on the format-0 edge", "absTsFlag is set outside the format-0 header branch: deltas of format 1/2 chunks are dropped")
		default:
			falses = append(falses, st)
			r.Check(model.GuardedBy(st, isComplete), "C08.R6", fkey(runLoop, "flag", "clear"), p.InstrPos(st), "cleared behind the message-complete test", "absTsFlag is cleared before the message is complete: a format-1/2/3 chunk following a format-0 message on the same chunk stream, or a later chunk of a multi-chunk message, adds its delta to an absolute timestamp / loses the delta")
		}
	}
	if nTrue == 0 || len(falses) == 0 {
		r.Bad("C08.R6", "floor", p.Pos(runLoop.Pos()), "absTsFlag is never set or never cleared")
	}
	// every path from the complete edge back to the chunk loop passes a clear
	for _, b := range runLoop.Blocks {
		iff, ok := b.Instrs[len(b.Instrs)-1].(*ssa.If)
		if !ok || !isComplete(iff.Cond, true) {
			continue
		}
		region := b.Succs[0]
		leak := model.PathQuery{FromBlock: region, Stop: func(in ssa.Instruction) bool {
			for _, f := range falses {
				if in == ssa.Instruction(f) {
					return true
				}
			}
			return false
		}, Target: func(in ssa.Instruction) bool {
			return !region.Dominates(in.Block()) && in.Block() != region
		}}.Find(runLoop)
		r.Check(leak == nil, "C08.R6", fkey(runLoop, "flag", "clear-on-every-path"), p.InstrPos(iff), "every path out of the message-complete region clears the flag", "a path leaves the message-complete region with absTsFlag still set: the next message's delta is ignored")
	}
	// accumulation
	nAcc := 0
	for _, st := range model.FieldStores(runLoop, tsAbsF) {
		add, ok := st.Val.(*ssa.BinOp)
		if !ok || add.Op != token.ADD || !(model.IsLoadOfField(add.X, tsAbsF) && model.IsLoadOfField(add.Y, tsF)) {
			continue
		}
		nAcc++
		okFlag := model.GuardedBy(st, func(c ssa.Value, pol bool) bool { return model.IsLoadOfField(c, flag) && !pol })
		r.Check(okFlag && model.GuardedBy(st, isComplete), "C08.R6", fkey(runLoop, "flag", "accumulate"), p.InstrPos(st), "delta added once per complete message, only when no absolute timestamp was read", "the delta is added outside the (message complete, no absolute timestamp) condition")
	}
	if nAcc != 1 {
		r.Bad("C08.R6", "floor-acc", p.Pos(runLoop.Pos()), fmt.Sprintf("expected exactly one TimestampAbs += timestamp, found %d", nAcc))
	}
}

// c08r7: a buffer that only references bytes (naza NewBufferRefBytes leaves read and write
// positions at zero) is marked readable before the sub-message is handed to the callback.
func c08r7(p *model.Prog, r *report.Result, runLoop *ssa.Function) {
	r.Rule("C08.R7", "in ChunkComposer.RunLoop a StreamMsg.buff that is built by a nazabytes constructor which does not set the write position (NewBufferRefBytes: only 'core' is initialised, so Len()==0) is advanced by Flush(<sub-message length>) on every path before the message callback: an aggregate sub-message is delivered with its payload, not with an empty one")
	ctor := p.FuncObj("naza/pkg/nazabytes", "NewBufferRefBytes")
	ctorFn := p.Func("naza/pkg/nazabytes", "NewBufferRefBytes")
	// does the constructor itself set wpos? (re-derived from the dependency's source on every run)
	setsW := false
	model.EachInstr(ctorFn, func(in ssa.Instruction) {
		if st, ok := in.(*ssa.Store); ok {
			if f := model.FieldOf(st.Addr); f != nil && f.Name() == "wpos" {
				setsW = true
			}
		}
	})
	buffF := p.Field("pkg/rtmp", "StreamMsg", "buff")
	flush := p.MethodObj("naza/pkg/nazabytes", "Buffer", "Flush")
	n := 0
	for _, st := range model.FieldStores(runLoop, buffF) {
		call, ok := st.Val.(*ssa.Call)
		if !ok || !model.SameFunc(model.CalleeObj(call.Common()), ctor) {
			continue
		}
		n++
		if setsW {
			r.Ok("C08.R7", fkey(runLoop, "aggregate", "payload-readable"), p.InstrPos(st), "the constructor sets the write position itself")
			continue
		}
		owner := storeBase(st) // &X.msg
		bad := model.PathQuery{From: st, Stop: func(in ssa.Instruction) bool {
			ci, ok := in.(ssa.CallInstruction)
			if !ok || !model.SameFunc(model.CalleeObj(ci.Common()), flush) {
				return false
			}
			rc := receiver(ci.Common())
			fp, ok := loadPath(rc)
			_ = owner
			return ok && fp.Fields[len(fp.Fields)-1] == buffF
		}, Target: func(in ssa.Instruction) bool {
			ci, ok := in.(ssa.CallInstruction)
			return ok && !ci.Common().IsInvoke() && ci.Common().Value == ssa.Value(runLoop.Params[2])
		}}.Find(runLoop)
		r.Check(bad == nil, "C08.R7", fkey(runLoop, "aggregate", "payload-readable"), p.InstrPos(st), "Flush(n) marks the referenced bytes readable before the callback", "the sub-message buffer references the payload bytes but its write position stays 0: the callback receives a message whose payload is empty (Len()==0) although the header says MsgLen bytes")
	}
	if n < 1 {
		r.Bad("C08.R7", "floor", p.Pos(runLoop.Pos()), "no StreamMsg.buff built from NewBufferRefBytes found in the aggregate branch")
	}
}

func valueOf(in ssa.Instruction) ssa.Value {
	if v, ok := in.(ssa.Value); ok {
		return v
	}
	return nil
}

func keysOf(m map[int64]bool) []int64 {
	var out []int64
	for k := range m {
		out = append(out, k)
	}
	return out
}

// c08WriterPaths: for each message-header field the set of (offset relative to the time stamp
// write, width, byte order) over all paths of calcHeader, formatted like layoutSet.
func c08WriterPaths(p *model.Prog, calc *ssa.Function) map[string]string {
	msgLenF := p.Field("pkg/base", "RtmpHeader", "MsgLen")
	typeF := p.Field("pkg/base", "RtmpHeader", "MsgTypeId")
	msidF := p.Field("pkg/base", "RtmpHeader", "MsgStreamId")
	dep := func(v ssa.Value, f *types.Var) bool {
		return model.DependsOn(v, func(x ssa.Value) bool { return model.LoadedField(x) == f })
	}
	ev := &cEval{fn: calc, maxPaths: 20000,
		observe: func(in ssa.Instruction, val func(ssa.Value) (int64, bool)) string {
			switch x := in.(type) {
			case ssa.CallInstruction:
				put, w, e, ok := beleInfo(model.CalleeObj(x.Common()))
				if !ok || !put {
					return ""
				}
				sl, isSl := x.Common().Args[0].(*ssa.Slice)
				if !isSl || sl.Low == nil {
					return ""
				}
				off, known := val(sl.Low)
				if !known {
					return ""
				}
				name := "ts"
				switch {
				case dep(x.Common().Args[1], msgLenF):
					name = "MsgLen"
				case dep(x.Common().Args[1], msidF):
					name = "MsgStreamId"
				case w == 4:
					name = "ext"
				}
				return fmt.Sprintf("%s %d %d %s", name, off, w, e)
			case *ssa.Store:
				ia, ok := x.Addr.(*ssa.IndexAddr)
				if !ok || !dep(x.Val, typeF) {
					return ""
				}
				if off, known := val(ia.Index); known {
					return fmt.Sprintf("MsgTypeId %d 1 ", off)
				}
			}
			return ""
		}}
	ev.run()
	out := map[string]string{}
	if ev.undecided != "" {
		return out
	}
	sets := map[string]map[string]bool{}
	for _, pa := range ev.paths {
		base := int64(-1)
		for _, e := range pa.events {
			var name, en string
			var off, w int64
			fmt.Sscanf(e, "%s %d %d %s", &name, &off, &w, &en)
			if name == "ts" && base < 0 {
				base = off
			}
		}
		for _, e := range pa.events {
			var name, en string
			var off, w int64
			n, _ := fmt.Sscanf(e, "%s %d %d %s", &name, &off, &w, &en)
			if n < 3 || name == "ts" || name == "ext" {
				continue
			}
			if sets[name] == nil {
				sets[name] = map[string]bool{}
			}
			if base < 0 {
				sets[name]["no time stamp before it"] = true
				continue
			}
			sets[name][fmt.Sprintf("@%d/%d%s", off-base, w, en)] = true
		}
	}
	for name, set := range sets {
		var ks []string
		for k := range set {
			ks = append(ks, k)
		}
		sort.Strings(ks)
		out[name] = strings.Join(ks, ",")
	}
	return out
}
