package rules

import (
	"fmt"
	"go/constant"
	"go/token"

	"golang.org/x/tools/go/ssa"

	"lalverif/internal/model"
	"lalverif/internal/report"
)

func init() { register("C08", c08) }

// cmpAt evaluates `x OP k` at x == v for an integer comparison whose constant side is k.
// constOnRight tells which side the constant is on.
func cmpAt(op token.Token, v, k int64, constOnRight bool) bool {
	a, b := v, k
	if !constOnRight {
		a, b = k, v
	}
	switch op {
	case token.LSS:
		return a < b
	case token.LEQ:
		return a <= b
	case token.GTR:
		return a > b
	case token.GEQ:
		return a >= b
	case token.EQL:
		return a == b
	case token.NEQ:
		return a != b
	}
	return false
}

// constCmp recognises a comparison of some value against an integer constant.
func constCmp(v ssa.Value) (other ssa.Value, k int64, op token.Token, constOnRight bool, ok bool) {
	b, isB := v.(*ssa.BinOp)
	if !isB {
		return
	}
	switch b.Op {
	case token.LSS, token.LEQ, token.GTR, token.GEQ, token.EQL, token.NEQ:
	default:
		return
	}
	if c, isK := model.ConstInt(b.Y); isK {
		return b.X, c, b.Op, true, true
	}
	if c, isK := model.ConstInt(b.X); isK {
		return b.Y, c, b.Op, false, true
	}
	return
}

// maxIntValue computes an upper bound of an int SSA value built from constants, additions of
// constants and phis (acyclic); ok=false for anything else.
func maxIntValue(v ssa.Value, depth int) (int64, bool) {
	if depth > 200 {
		return 0, false
	}
	switch x := v.(type) {
	case *ssa.Const:
		return model.ConstInt(x)
	case *ssa.Phi:
		var m int64
		for i, e := range x.Edges {
			c, ok := maxIntValue(e, depth+1)
			if !ok {
				return 0, false
			}
			if i == 0 || c > m {
				m = c
			}
		}
		return m, true
	case *ssa.BinOp:
		if x.Op == token.ADD {
			a, ok1 := maxIntValue(x.X, depth+1)
			b, ok2 := maxIntValue(x.Y, depth+1)
			return a + b, ok1 && ok2
		}
	}
	return 0, false
}

func c08(p *model.Prog, r *report.Result) {
	r.Explanation = "Decides writer/reader agreement conditions of the RTMP chunk stream that are visible in the code's constants and comparisons: the class of the timestamp value 0xFFFFFF (extended field present) is the same in calcHeader and in ChunkComposer.RunLoop (R1); the longest chunk header calcHeader can emit fits the per-chunk allowance used to size the output buffer (R2); the chunk-stream-id forms the writer selects are exactly the ranges the reader's 1- and 2-byte forms decode (R3)."
	r.NotDecided = []string{"the round trip itself for all sizes and chunkings (a function of values)", "delta accumulation over fmt1/fmt2 chains", "aggregate message splitting", "Set Chunk Size changes mid-stream"}
	maxTs, _ := constant.Int64Val(p.Const("pkg/rtmp", "maxTimestampInMessageHeader").Val())
	calc := p.Func("pkg/rtmp", "calcHeader")
	runLoop := p.Method("pkg/rtmp", "ChunkComposer", "RunLoop")
	r.Count("functions_analysed", 4)

	// ---------------------------------------------------------------- R1
	r.Rule("C08.R1", "every comparison of the outgoing timestamp with maxTimestampInMessageHeader that selects the 0xFFFFFF marker or the 4-byte extended field in calcHeader, and the comparison that makes the reader consume the extended field, put the value 0xFFFFFF itself in the 'extended field present' class")
	bePut24 := p.FuncObj("naza/pkg/bele", "BePutUint24")
	bePut32 := p.FuncObj("naza/pkg/bele", "BePutUint32")
	nW := 0
	for _, b := range calc.Blocks {
		iff, ok := b.Instrs[len(b.Instrs)-1].(*ssa.If)
		if !ok {
			continue
		}
		_, k, op, right, ok := constCmp(iff.Cond)
		if !ok || k != maxTs {
			continue
		}
		// what does the true edge do?
		trueBlk := b.Succs[0]
		marker, ext := false, false
		for _, in := range trueBlk.Instrs {
			ci, isC := in.(ssa.CallInstruction)
			if !isC {
				continue
			}
			o := model.CalleeObj(ci.Common())
			if model.SameFunc(o, bePut24) {
				if c, isK := model.ConstInt(ci.Common().Args[1]); isK && c == maxTs {
					marker = true
				}
			}
			if model.SameFunc(o, bePut32) {
				ext = true
			}
		}
		nW++
		what := "marker"
		if ext {
			what = "extended-field"
		}
		if !marker && !ext {
			// the choice between absolute timestamp (extended field repeated on continuation
			// chunks) and delta: must classify 0xFFFFFF like the two field comparisons do
			what = "absolute-on-continuation"
		}
		atEq := cmpAt(op, maxTs, maxTs, right)
		r.Check(atEq, "C08.R1", fkey(calc, "boundary", what), p.InstrPos(iff),
			"writer: timestamp==0xFFFFFF takes the '"+what+"' branch", "writer: a timestamp of exactly 0xFFFFFF is written as a plain 24-bit value without the "+what+", but the reader treats 0xFFFFFF as 'extended field follows': the message is misparsed")
	}
	if nW < 3 {
		r.Bad("C08.R1", fkey(calc, "boundary", "floor"), p.Pos(calc.Pos()), "calcHeader no longer selects the marker and the extended field by comparing with maxTimestampInMessageHeader")
	}
	tsField := p.Field("pkg/rtmp", "Stream", "timestamp")
	nR := 0
	for _, b := range runLoop.Blocks {
		iff, ok := b.Instrs[len(b.Instrs)-1].(*ssa.If)
		if !ok {
			continue
		}
		x, k, op, right, ok := constCmp(iff.Cond)
		if !ok || k != maxTs || !model.IsLoadOfField(x, tsField) {
			continue
		}
		nR++
		atEq := cmpAt(op, maxTs, maxTs, right)
		above := cmpAt(op, maxTs+1, maxTs, right) // not representable in 24 bits but keeps the direction honest
		below := cmpAt(op, maxTs-1, maxTs, right)
		r.Check(atEq && !below, "C08.R1", fkey(runLoop, "boundary", "reader-extended-field"), p.InstrPos(iff),
			fmt.Sprintf("reader: 0xFFFFFF -> extended field read (below:%v above:%v)", below, above), "reader: the 24-bit value 0xFFFFFF does not select the extended timestamp field (or smaller values do)")
	}
	if nR != 1 {
		r.Bad("C08.R1", fkey(runLoop, "boundary", "floor"), p.Pos(runLoop.Pos()), "reader comparison of Stream.timestamp with maxTimestampInMessageHeader not found exactly once")
	}

	// ---------------------------------------------------------------- R2
	r.Rule("C08.R2", "the largest value calcHeader can return (sum of its constant index increments on the longest path) is <= maxHeaderSize, and message2Chunks/message2ChunksV size their output with chunkSize+maxHeaderSize per chunk")
	maxHdr, _ := constant.Int64Val(p.Const("pkg/rtmp", "maxHeaderSize").Val())
	worst := int64(-1)
	okAll := true
	for _, ret := range model.ReturnsOf(calc) {
		v, ok := maxIntValue(model.ReturnValues(ret)[0], 0)
		if !ok {
			okAll = false
			continue
		}
		if v > worst {
			worst = v
		}
	}
	r.Check(okAll && worst >= 0 && worst <= maxHdr, "C08.R2", fkey(calc, "bound", "header-size"), p.Pos(calc.Pos()),
		fmt.Sprintf("longest header = %d bytes <= maxHeaderSize = %d", worst, maxHdr), fmt.Sprintf("calcHeader can emit %d header bytes but only %d are reserved per chunk: the output buffer is overrun", worst, maxHdr))
	for _, name := range []string{"message2Chunks", "message2ChunksV"} {
		fn := p.Func("pkg/rtmp", name)
		// every "chunk payload size + K" expression (base: the chunkSize parameter or len%chunkSize)
		// that is not itself extended by a further constant must have K >= the longest header
		found := false
		bad := false
		model.EachInstr(fn, func(in ssa.Instruction) {
			b, ok := in.(*ssa.BinOp)
			if !ok || (b.Op != token.ADD && b.Op != token.SUB) {
				return
			}
			base, off := linear(b)
			if base == nil {
				return
			}
			isChunk := false
			if prm, isP := base.(*ssa.Parameter); isP && prm.Name() == "chunkSize" {
				isChunk = true
			}
			if rem, isR := base.(*ssa.BinOp); isR && rem.Op == token.REM {
				isChunk = true
			}
			if ph, isPhi := base.(*ssa.Phi); isPhi && ph.Comment == "lastChunkSize" {
				isChunk = true
			}
			if !isChunk || off == 0 {
				return
			}
			// outermost only
			if refs := b.Referrers(); refs != nil {
				for _, ref := range *refs {
					if b2, ok := ref.(*ssa.BinOp); ok && (b2.Op == token.ADD || b2.Op == token.SUB) {
						if _, isK := model.ConstInt(b2.Y); isK {
							return
						}
					}
				}
			}
			found = true
			if off < worst {
				bad = true
			}
		})
		found = found && !bad
		r.Check(found, "C08.R2", fkey(fn, "bound", "chunkSize+maxHeaderSize"), p.Pos(fn.Pos()), "output sized with chunkSize+maxHeaderSize per chunk", "the output buffer is no longer sized with the header allowance per chunk")
	}

	// ---------------------------------------------------------------- R3
	r.Rule("C08.R3", "calcHeader's csid partition uses the boundaries 2..63 | 64..319 | rest, and the reader decodes form 0 as 64+b0 and form 1 as 64+b0+b1*256, i.e. 319 = 64+255 and both sides subtract/add the same base")
	csidF := p.Field("pkg/base", "RtmpHeader", "Csid")
	bounds := map[int64]bool{}
	subBase := map[int64]bool{}
	model.EachInstr(calc, func(in ssa.Instruction) {
		if x, k, _, _, ok := constCmp(valueOf(in)); ok && model.IsLoadOfField(x, csidF) {
			bounds[k] = true
		}
		if b, ok := in.(*ssa.BinOp); ok && b.Op == token.SUB && model.IsLoadOfField(b.X, csidF) {
			if k, isK := model.ConstInt(b.Y); isK {
				subBase[k] = true
			}
		}
	})
	okW := bounds[2] && bounds[63] && bounds[64] && bounds[319] && len(subBase) == 1 && subBase[64]
	r.Check(okW, "C08.R3", fkey(calc, "csid", "writer-forms"), p.Pos(calc.Pos()), "writer boundaries {2,63,64,319}, base 64", fmt.Sprintf("writer csid boundaries %v / base %v differ from the 1-, 2- and 3-byte forms", keysOf(bounds), keysOf(subBase)))
	addBase := map[int64]int{}
	mul256 := false
	model.EachInstr(runLoop, func(in ssa.Instruction) {
		if b, ok := in.(*ssa.BinOp); ok {
			if b.Op == token.ADD {
				if k, isK := model.ConstInt(b.X); isK {
					addBase[k]++
				}
			}
			if b.Op == token.MUL {
				if k, isK := model.ConstInt(b.Y); isK && k == 256 {
					mul256 = true
				}
			}
		}
	})
	r.Check(addBase[64] >= 2 && mul256 && 319 == 64+255, "C08.R3", fkey(runLoop, "csid", "reader-forms"), p.Pos(runLoop.Pos()), "reader decodes 64+b0 and 64+b0+b1*256", "reader csid decoding no longer uses base 64 / the 256 multiplier")

	// ---------------------------------------------------------------- R4
	r.Rule("C08.R4", "the message-header fields are written by calcHeader at the same (offset, width, byte order) relative to the start of the message header as ChunkComposer.RunLoop reads them from its header buffer: timestamp @0/3 BE, MsgLen @3/3 BE, MsgTypeId @6/1, MsgStreamId @7/4 LE, extended timestamp 4 BE")
	wl := writerLayout(calc)
	rl := readerLayout(runLoop)
	// reader: only the accesses to the bootstrap header buffer (a make([]byte, 11) in RunLoop)
	isBootstrap := func(it layoutItem) bool {
		switch it.Buf.(type) {
		case *ssa.MakeSlice, *ssa.Alloc:
			return true
		}
		return false
	}
	for _, f := range []string{"MsgLen", "MsgTypeId", "MsgStreamId"} {
		w, rd := layoutSet(wl, f, nil), layoutSet(rl, f, isBootstrap)
		r.Check(w != "" && w == rd, "C08.R4", fkey(calc, "layout", f), p.Pos(calc.Pos()), "writer "+w+" == reader "+rd, "field "+f+" is written at "+w+" but read at "+rd)
	}
	wts := layoutSet(wl, "timestamp", nil)
	rts := layoutSet(rl, "timestamp", func(it layoutItem) bool { return isBootstrap(it) && it.Width > 1 })
	r.Check(wts != "" && wts == rts, "C08.R4", fkey(calc, "layout", "timestamp"), p.Pos(calc.Pos()), "writer "+wts+" == reader "+rts, "timestamp is written at "+wts+" but read at "+rts)
	// the number of header bytes the reader consumes per format equals what the writer emits: 11/7/3
	sizes := map[int64]bool{}
	readAtLeast := p.FuncObj("io", "ReadAtLeast")
	for _, ci := range model.CallsTo(runLoop, readAtLeast) {
		if k, ok := model.ConstInt(ci.Common().Args[2]); ok {
			sizes[k] = true
		}
	}
	r.Check(sizes[11] && sizes[7] && sizes[3] && sizes[4], "C08.R4", fkey(runLoop, "layout", "header-sizes"), p.Pos(runLoop.Pos()), "reader consumes 11/7/3 header bytes and 4 extended bytes", "the reader's per-format header sizes differ from 11/7/3(+4)")
}

func valueOf(in ssa.Instruction) ssa.Value {
	if v, ok := in.(ssa.Value); ok {
		return v
	}
	return nil
}

func keysOf(m map[int64]bool) []int64 {
	var out []int64
	for k := range m {
		out = append(out, k)
	}
	return out
}

