package rules

import (
	"fmt"
	"go/token"

	"golang.org/x/tools/go/ssa"

	"lalverif/internal/model"
	"lalverif/internal/report"
)

// c08r1011: the size of one chunk read; zero-length messages.
func c08r1011(p *model.Prog, r *report.Result, runLoop *ssa.Function) {
	r.Rule("C08.R10", "in ChunkComposer.RunLoop the number of bytes read for one chunk (the argument of buff.ReserveBytes / msg.Flush) is, on every path, either MsgLen minus what the message already holds or the peer's chunk size - never the whole MsgLen regardless of what was received (Set Chunk Size may arrive between two chunks of one message)")
	reserve := p.MethodObj("naza/pkg/nazabytes", "Buffer", "ReserveBytes")
	msgLenF := p.Field("pkg/base", "RtmpHeader", "MsgLen")
	peerF := p.Field("pkg/rtmp", "ChunkComposer", "peerChunkSize")
	lenObj := p.MethodObj("pkg/rtmp", "StreamMsg", "Len")
	n := 0
	for _, ci := range model.CallsTo(runLoop, reserve) {
		n++
		arg := model.Unwrap(ci.Common().Args[len(ci.Common().Args)-1])
		var leaves []ssa.Value
		seen := map[ssa.Value]bool{}
		// parameters of a helper the computation was moved to, bound to what RunLoop passes
		bind := map[*ssa.Parameter]ssa.Value{}
		resolve := func(v ssa.Value) ssa.Value {
			for i := 0; i < 4; i++ {
				prm, ok := model.Unwrap(v).(*ssa.Parameter)
				if !ok {
					break
				}
				a, bound := bind[prm]
				if !bound {
					break
				}
				v = a
			}
			return model.Unwrap(v)
		}
		var walk func(v ssa.Value)
		walk = func(v ssa.Value) {
			v = model.Unwrap(v)
			if seen[v] {
				return
			}
			seen[v] = true
			if ph, ok := v.(*ssa.Phi); ok {
				for _, e := range ph.Edges {
					walk(e)
				}
				return
			}
			// the computation extracted into a helper: its returned values are the leaves
			if c, ok := v.(*ssa.Call); ok {
				if ce := c.Call.StaticCallee(); ce != nil && model.IsLal(ce) && ce.Blocks != nil && !model.SameFunc(model.CalleeObj(c.Common()), lenObj) {
					if len(ce.Params) == len(c.Call.Args) {
						for k, prm := range ce.Params {
							bind[prm] = c.Call.Args[k]
						}
					}
					for _, ret := range model.ReturnsOf(ce) {
						for _, rv := range model.ReturnValues(ret) {
							walk(rv)
						}
					}
					return
				}
			}
			leaves = append(leaves, v)
		}
		walk(arg)
		for _, l := range leaves {
			ok := false
			what := "an unrecognised value"
			switch {
			case model.IsLoadOfField(l, peerF):
				ok = true
			case model.IsLoadOfField(l, msgLenF):
				what = "the whole message length"
			default:
				if bo, isB := l.(*ssa.BinOp); isB && bo.Op == token.SUB && model.IsLoadOfField(bo.X, msgLenF) {
					if c, isC := resolve(bo.Y).(*ssa.Call); isC && model.SameFunc(model.CalleeObj(c.Common()), lenObj) {
						ok = true
					}
				}
			}
			r.Check(ok, "C08.R10", fkey(runLoop, "chunk-size", "remaining-or-peer"), p.InstrPos(ci), "remaining bytes or the peer's chunk size", "the size of a chunk read is "+what+": when the peer raises its chunk size between two chunks of a message (Set Chunk Size on another chunk stream), the continuation chunk is read with the whole message length instead of the remaining bytes; the reader swallows the following chunks and never completes the message")
		}
	}
	if n != 1 {
		r.Bad("C08.R10", fkey(runLoop, "chunk-size", "floor"), p.Pos(runLoop.Pos()), fmt.Sprintf("expected one ReserveBytes call in RunLoop, found %d", n))
	}

	r.Rule("C08.R11", "message2Chunks / message2ChunksV emit at least one chunk header for a zero-length message: constant propagation with len(message) = 0 (any chunk size) reaches every return through at least one calcHeader call")
	calcObj := p.FuncObj("pkg/rtmp", "calcHeader")
	for _, name := range []string{"message2Chunks", "message2ChunksV"} {
		fn := p.Func("pkg/rtmp", name)
		msgP := fn.Params[0]
		ev := &cEval{fn: fn,
			lenOf: func(x ssa.Value) (int64, bool) {
				if x == ssa.Value(msgP) {
					return 0, true
				}
				return 0, false
			},
			seed: func(v ssa.Value) (int64, bool) {
				if c, ok := v.(*ssa.Call); ok {
					if b, isB := c.Call.Value.(*ssa.Builtin); isB && b.Name() == "len" && c.Call.Args[0] == ssa.Value(msgP) {
						return 0, true
					}
				}
				return 0, false
			},
			event: func(in ssa.Instruction) string {
				if c, ok := in.(ssa.CallInstruction); ok && model.SameFunc(model.CalleeObj(c.Common()), calcObj) {
					return "calcHeader"
				}
				return ""
			}}
		ev.run()
		if ev.undecided != "" {
			r.Bad("C08.R11", fkey(fn, "zero-length", "undecided"), p.Pos(fn.Pos()), "constant propagation did not terminate: "+ev.undecided)
			continue
		}
		bad, rets := 0, 0
		for _, pa := range ev.paths {
			if pa.ret == nil {
				continue
			}
			rets++
			if pa.counts["calcHeader"] < 1 {
				bad++
			}
		}
		r.Check(bad == 0 && rets > 0, "C08.R11", fkey(fn, "zero-length", "one-header"), p.Pos(fn.Pos()), fmt.Sprintf("every one of the %d return paths for len(message)=0 writes a chunk header", rets), "for a zero-length message no chunk at all is produced (the chunk count is len/chunkSize = 0): the message disappears from the chunk stream instead of being sent as a header-only chunk, so the reader never reconstructs it")
	}

	r.Rule("C08.R12", "in message2Chunks / message2ChunksV every call of calcHeader is followed, before the next calcHeader or the return, by a copy of payload bytes into the output (the copy builtin, directly or inside the called helper): no chunk leaves with a header and an unwritten body")
	var copies func(fn *ssa.Function, depth int) bool
	copies = func(fn *ssa.Function, depth int) bool {
		found := false
		model.EachInstr(fn, func(in ssa.Instruction) {
			c, ok := in.(*ssa.Call)
			if !ok {
				return
			}
			if b, isB := c.Call.Value.(*ssa.Builtin); isB && b.Name() == "copy" {
				found = true
			}
			if depth < 2 {
				if ce := c.Call.StaticCallee(); ce != nil && model.IsLal(ce) && ce.Blocks != nil && copies(ce, depth+1) {
					found = true
				}
			}
		})
		return found
	}
	isCopy := func(in ssa.Instruction) bool {
		c, ok := in.(*ssa.Call)
		if !ok {
			return false
		}
		if b, isB := c.Call.Value.(*ssa.Builtin); isB && b.Name() == "copy" {
			return true
		}
		if ce := c.Call.StaticCallee(); ce != nil && model.IsLal(ce) && ce.Blocks != nil && ce.Name() != "calcHeader" {
			return copies(ce, 0)
		}
		return false
	}
	for _, name := range []string{"message2Chunks", "message2ChunksV"} {
		fn := p.Func("pkg/rtmp", name)
		sites := model.CallsTo(fn, calcObj)
		for _, ci := range sites {
			if emptyOnly(fn, ci) {
				continue // a header-only chunk for the empty message has no body to copy
			}
			miss := model.PathQuery{From: ci, Stop: isCopy, StopEdge: emptyEdge(fn), Target: func(in ssa.Instruction) bool {
				if _, isR := in.(*ssa.Return); isR {
					return true
				}
				c, ok := in.(ssa.CallInstruction)
				return ok && model.SameFunc(model.CalleeObj(c.Common()), calcObj)
			}}.Find(fn)
			r.Check(miss == nil, "C08.R12", fkey(fn, "chunk", "payload-copied"), p.InstrPos(ci), "payload copied behind every header", "a chunk header is written but no payload bytes are copied behind it (the helper that should copy is empty): the chunk body is sent as zeroes")
		}
		if len(sites) < 1 {
			r.Bad("C08.R12", fkey(fn, "chunk", "floor"), p.Pos(fn.Pos()), "no calcHeader call found")
		}
	}
}

// c08r1314: the chunk format comes from the first basic-header byte; the remembered time stamp
// field is only ever filled from the wire.
func c08r1314(p *model.Prog, r *report.Result, runLoop *ssa.Function) {
	r.Rule("C08.R13", "in ChunkComposer.RunLoop the chunk format (bootstrap[0] >> 6) is taken from the scratch buffer before any later read refills it: the load that feeds the '>> 6' is not reachable, within one iteration, from any io.ReadAtLeast into the buffer other than the first one of the iteration (the 2- and 3-byte chunk-stream-id forms re-use bootstrap[0] for the id bytes)")
	// the function that holds the format load (RunLoop, or the helper the basic-header parsing
	// was extracted into)
	holder := runLoop
	for _, g := range model.StaticGroup(runLoop, 2) {
		model.EachInstr(g, func(in ssa.Instruction) {
			if bo, ok := in.(*ssa.BinOp); ok && bo.Op == token.SHR {
				if k, isK := model.ConstInt(bo.Y); isK && k == 6 {
					if ld, isL := bo.X.(*ssa.UnOp); isL {
						if _, isIA := ld.X.(*ssa.IndexAddr); isIA {
							holder = g
						}
					}
				}
			}
		})
	}
	var reads []ssa.CallInstruction
	for _, ci := range model.AllCalls(holder) {
		if o := model.CalleeObj(ci.Common()); o != nil && o.Pkg() != nil && o.Pkg().Path() == "io" && (o.Name() == "ReadAtLeast" || o.Name() == "ReadFull") {
			reads = append(reads, ci)
		}
	}
	var first ssa.CallInstruction
	for _, c := range reads {
		dominatesAll := true
		for _, d := range reads {
			if d != c && !model.InstrDominates(c, d) {
				dominatesAll = false
			}
		}
		if dominatesAll {
			first = c
		}
	}
	var fmtLoads []ssa.Instruction
	model.EachInstr(holder, func(in ssa.Instruction) {
		bo, ok := in.(*ssa.BinOp)
		if !ok || bo.Op != token.SHR {
			return
		}
		if k, isK := model.ConstInt(bo.Y); !isK || k != 6 {
			return
		}
		if ld, isL := bo.X.(*ssa.UnOp); isL && ld.Op == token.MUL {
			if ia, isIA := ld.X.(*ssa.IndexAddr); isIA {
				if k0, isK0 := model.ConstInt(ia.Index); isK0 && k0 == 0 {
					fmtLoads = append(fmtLoads, ld)
				}
			}
		}
	})
	if first == nil || len(fmtLoads) == 0 {
		r.Bad("C08.R13", fkey(holder, "format", "floor"), p.Pos(holder.Pos()), "the first read of the iteration or the format load was not found")
	} else {
		hdr := loopHeaderOf(holder, first.Block())
		for _, ld := range fmtLoads {
			stale := false
			for _, rd := range reads {
				if rd == first {
					continue
				}
				if (model.PathQuery{From: rd, LoopHeader: hdr, Target: func(in ssa.Instruction) bool { return in == ld }}).Find(holder) != nil {
					stale = true
				}
			}
			r.Check(!stale, "C08.R13", fkey(holder, "format", "from-first-byte"), p.InstrPos(ld), "format taken before the buffer is refilled", "the chunk format is taken from bootstrap[0] after a later read may have overwritten it (the extra chunk-stream-id bytes of the 2- and 3-byte forms land in bootstrap[0]): for csid >= 64 the format comes from the id byte and the chunk header is parsed with the wrong layout")
		}
	}

	r.Rule("C08.R14", "Stream.timestamp - the value a format-3 chunk that starts a new message inherits (RTMP 5.3.1.2.4) - is never stored with a constant in ChunkComposer.RunLoop: it is only filled from header bytes")
	tsF := p.Field("pkg/rtmp", "Stream", "timestamp")
	n := 0
	for _, st := range model.FieldStores(runLoop, tsF) {
		n++
		_, isK := model.ConstInt(st.Val)
		r.Check(!isK, "C08.R14", fkey(runLoop, "delta", "kept"), p.InstrPos(st), "filled from the wire", "the remembered time stamp / delta of the chunk stream is reset to a constant: a following message that starts with a format-3 chunk (same delta, as ffmpeg sends for constant-rate audio) gets delta 0 instead of the previous delta")
	}
	if n < 4 {
		r.Bad("C08.R14", fkey(runLoop, "delta", "floor"), p.Pos(runLoop.Pos()), fmt.Sprintf("only %d stores of Stream.timestamp found", n))
	}
}

// isEmptyTest: cond is "<something derived from the message parameter> == 0" (or != 0);
// returns the successor index on which the message is empty.
func isEmptyTest(fn *ssa.Function, b *ssa.BasicBlock) (int, bool) {
	iff, ok := b.Instrs[len(b.Instrs)-1].(*ssa.If)
	if !ok {
		return 0, false
	}
	bo, isB := iff.Cond.(*ssa.BinOp)
	if !isB || (bo.Op != token.EQL && bo.Op != token.NEQ) {
		return 0, false
	}
	var other ssa.Value
	if k, isK := model.ConstInt(bo.Y); isK && k == 0 {
		other = bo.X
	} else if k, isK := model.ConstInt(bo.X); isK && k == 0 {
		other = bo.Y
	}
	if other == nil || !model.DependsOn(other, func(v ssa.Value) bool { return v == ssa.Value(fn.Params[0]) }) {
		return 0, false
	}
	if bo.Op == token.EQL {
		return 0, true
	}
	return 1, true
}

// emptyEdge blocks the edges on which the message is known to be empty.
func emptyEdge(fn *ssa.Function) func(b *ssa.BasicBlock, k int) bool {
	return func(b *ssa.BasicBlock, k int) bool {
		e, ok := isEmptyTest(fn, b)
		return ok && e == k
	}
}

// emptyOnly: the instruction is reached only over an "message is empty" edge.
func emptyOnly(fn *ssa.Function, in ssa.Instruction) bool {
	hit := model.PathQuery{StopEdge: emptyEdge(fn), Target: func(x ssa.Instruction) bool { return x == in }}.Find(fn)
	return hit == nil
}
