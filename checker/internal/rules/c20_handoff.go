package rules

import (
	"fmt"
	"go/token"
	"go/types"
	"sort"
	"strings"

	"golang.org/x/tools/go/ssa"

	"lalverif/internal/model"
	"lalverif/internal/report"
)

// c20Handoff: memory handed to a connection's write queue is shared with the writer goroutine
// from that moment on; the sender must not write it again. Decided structurally: what is handed
// over never aliases the storage of a buffer the sender re-uses.
func c20Handoff(p *model.Prog, r *report.Result) {
	r.Rule("C20.R5", "hand-off to the writer goroutine: at every call that can reach naza connection.Write / Writev (which, once the connection is in asynchronous mode, only queue a reference) the bytes passed do not alias a re-usable buffer of the sender - the storage of an rtmp.Buffer / nazabytes.Buffer, or a []byte field that the code truncates and refills (x = x[:0] ...). Arguments are followed through phis, slices, local arrays, append's first operand, the results of lal callees and, for parameters, up to four levels of callers; the elements of a list of buffers that comes from a field or a call are not followed")
	// sinks: calls whose possible callees include connection.(*connection).Write/Writev
	isConnWrite := func(fn *ssa.Function) bool {
		if fn == nil || fn.Pkg == nil || !strings.HasSuffix(fn.Pkg.Pkg.Path(), "naza/pkg/connection") {
			return false
		}
		return (fn.Name() == "Write" || fn.Name() == "Writev") && fn.Signature.Recv() != nil
	}
	// reusable []byte fields: some store assigns the field a zero-length re-slice of itself
	reused := map[*types.Var]bool{}
	for _, fn := range p.LalFuncs() {
		model.EachInstr(fn, func(in ssa.Instruction) {
			st, ok := in.(*ssa.Store)
			if !ok {
				return
			}
			f := model.FieldOf(st.Addr)
			if f == nil {
				return
			}
			ft, isSl := f.Type().Underlying().(*types.Slice)
			if !isSl {
				return
			}
			// only byte buffers: truncating a list of buffers re-uses the list, not the buffers in it
			if eb, isB := ft.Elem().Underlying().(*types.Basic); !isB || eb.Kind() != types.Uint8 {
				return
			}
			val := st.Val
			if c, isC := val.(*ssa.Call); isC { // x = append(x[:0], ...)
				if b, isB := c.Call.Value.(*ssa.Builtin); isB && b.Name() == "append" {
					val = c.Call.Args[0]
				}
			}
			sl, isS := val.(*ssa.Slice)
			if !isS || !model.IsLoadOfField(sl.X, f) || sl.High == nil {
				return
			}
			if k, isK := model.ConstInt(sl.High); isK && k == 0 {
				reused[f] = true
			}
		})
	}
	isBufferType := func(t types.Type) bool {
		if pt, ok := t.(*types.Pointer); ok {
			t = pt.Elem()
		}
		n, ok := t.(*types.Named)
		if !ok || n.Obj().Pkg() == nil {
			return false
		}
		pp := n.Obj().Pkg().Path()
		return n.Obj().Name() == "Buffer" && (strings.HasSuffix(pp, "/pkg/rtmp") || strings.HasSuffix(pp, "naza/pkg/nazabytes"))
	}
	type res struct {
		bad    string
		params []int // parameter indices of the enclosing function the value may come from
	}
	var walkFn func(fn *ssa.Function, v ssa.Value, seen map[ssa.Value]bool, depth int, out *res)
	walkFn = func(fn *ssa.Function, v ssa.Value, seen map[ssa.Value]bool, depth int, out *res) {
		if v == nil || seen[v] || out.bad != "" {
			return
		}
		seen[v] = true
		switch x := v.(type) {
		case *ssa.Parameter:
			for i, pa := range fn.Params {
				if pa == x {
					out.params = append(out.params, i)
				}
			}
		case *ssa.Slice:
			walkFn(fn, x.X, seen, depth, out)
		case *ssa.Convert:
			walkFn(fn, x.X, seen, depth, out)
		case *ssa.ChangeType:
			walkFn(fn, x.X, seen, depth, out)
		case *ssa.MakeInterface:
			walkFn(fn, x.X, seen, depth, out)
		case *ssa.Phi:
			for _, e := range x.Edges {
				walkFn(fn, e, seen, depth, out)
			}
		case *ssa.Extract:
			walkFn(fn, x.Tuple, seen, depth, out)
		case *ssa.Alloc:
			for _, ref := range *x.Referrers() {
				switch y := ref.(type) {
				case *ssa.Store:
					if y.Addr == ssa.Value(x) {
						walkFn(fn, y.Val, seen, depth, out)
					}
				case *ssa.IndexAddr:
					for _, r2 := range *y.Referrers() {
						if st, ok := r2.(*ssa.Store); ok && st.Addr == ssa.Value(y) {
							walkFn(fn, st.Val, seen, depth, out)
						}
					}
				}
			}
		case *ssa.UnOp:
			if x.Op != token.MUL {
				return
			}
			if a, ok := x.X.(*ssa.Alloc); ok {
				walkFn(fn, a, seen, depth, out)
				return
			}
			if f := model.LoadedField(v); f != nil && reused[f] {
				out.bad = "the re-used buffer field " + f.Name()
			}
			// an element of a list of buffers that is not a local array: what the list holds is not
			// visible here; not followed (stated in the rule text)
		case *ssa.Call:
			if b, ok := x.Call.Value.(*ssa.Builtin); ok {
				if b.Name() == "append" {
					walkFn(fn, x.Call.Args[0], seen, depth, out)
				}
				return
			}
			o := model.CalleeObj(x.Common())
			if o != nil && !x.Call.IsInvoke() {
				if sig, _ := o.Type().(*types.Signature); sig != nil && sig.Recv() != nil && isBufferType(sig.Recv().Type()) {
					if _, isSl := x.Type().Underlying().(*types.Slice); isSl {
						out.bad = "the storage of a " + types.TypeString(sig.Recv().Type(), func(p *types.Package) string { return p.Name() }) + " (" + o.Name() + "())"
						return
					}
				}
			}
			if ce := x.Call.StaticCallee(); ce != nil && model.IsLal(ce) && ce.Blocks != nil && depth < 3 {
				for _, ret := range model.ReturnsOf(ce) {
					for _, rv := range model.ReturnValues(ret) {
						if _, isSl := rv.Type().Underlying().(*types.Slice); !isSl {
							continue
						}
						sub := &res{}
						walkFn(ce, rv, map[ssa.Value]bool{}, depth+1, sub)
						if sub.bad != "" {
							out.bad = sub.bad + " (returned by " + model.FnName(ce) + ")"
							return
						}
						// a parameter of the callee flowing to its result: follow the actual argument
						for _, pi := range sub.params {
							ai := pi
							if ai < len(x.Call.Args) {
								walkFn(fn, x.Call.Args[ai], seen, depth, out)
							}
						}
					}
				}
			}
		}
	}
	type site struct {
		fn   *ssa.Function
		call ssa.CallInstruction
		args []ssa.Value
		via  string
	}
	var work []site
	nSinks := 0
	for _, fn := range p.LalFuncs() {
		for _, ci := range model.AllCalls(fn) {
			c := ci.Common()
			name := ""
			if c.IsInvoke() {
				name = c.Method.Name()
			} else if o := model.CalleeObj(c); o != nil {
				name = o.Name()
			}
			if name != "Write" && name != "Writev" {
				continue
			}
			hit := false
			for _, ce := range p.Callees(ci) {
				if isConnWrite(ce) {
					hit = true
				}
			}
			if !hit {
				continue
			}
			nSinks++
			args := c.Args
			if !c.IsInvoke() && len(args) > 0 {
				args = args[1:]
			}
			work = append(work, site{fn, ci, args, ""})
		}
	}
	type key struct {
		fn  *ssa.Function
		idx int
	}
	doneParam := map[key]bool{}
	nChecked := 0
	var bads []string
	for depth := 0; depth <= 4 && len(work) > 0; depth++ {
		var next []site
		for _, s := range work {
			for _, a := range s.args {
				if _, isSl := a.Type().Underlying().(*types.Slice); !isSl {
					if _, isI := a.Type().Underlying().(*types.Interface); !isI {
						continue
					}
				}
				nChecked++
				out := &res{}
				walkFn(s.fn, a, map[ssa.Value]bool{}, 0, out)
				if out.bad != "" {
					msg := fmt.Sprintf("%s|%s", fkey(s.fn, "handoff", "not-a-reused-buffer"), p.InstrPos(s.call))
					bads = append(bads, msg)
					via := ""
					if s.via != "" {
						via = " (reaches the connection through " + s.via + ")"
					}
					r.Bad("C20.R5", fkey(s.fn, "handoff", "not-a-reused-buffer"), p.InstrPos(s.call), "the bytes handed to the connection's write queue are "+out.bad+via+": once the connection writes asynchronously the writer goroutine reads them while the sender refills the same buffer for the next message - a data race, and the queued message goes out with the next one's bytes")
					continue
				}
				for _, pi := range out.params {
					k := key{s.fn, pi}
					if doneParam[k] {
						continue
					}
					doneParam[k] = true
					for _, ed := range p.Callers(s.fn) {
						cf := ed.Caller.Func
						if !model.IsLal(cf) || ed.Site == nil {
							continue
						}
						cargs := ed.Site.Common().Args
						ai := pi
						if ed.Site.Common().IsInvoke() {
							ai = pi - 1 // the receiver is not among Args of an invoke
						}
						if ai < 0 || ai >= len(cargs) {
							continue
						}
						next = append(next, site{cf, ed.Site, []ssa.Value{cargs[ai]}, model.FnName(s.fn)})
					}
				}
			}
		}
		work = next
	}
	sort.Strings(bads)
	if len(bads) == 0 {
		r.Ok("C20.R5", "handoff|all", "", fmt.Sprintf("%d connection write sites, %d argument values followed: none aliases a re-used buffer", nSinks, nChecked))
	}
	r.Count("handoff_sinks", nSinks)
	r.Count("handoff_values_followed", nChecked)
	if nSinks < 8 {
		r.Bad("C20.R5", "floor", "", fmt.Sprintf("only %d connection write sites found", nSinks))
	}
}
