package rules

import (
	"fmt"
	"go/types"
	"sort"
	"strings"

	"golang.org/x/tools/go/ssa"

	"lalverif/internal/model"
	"lalverif/internal/report"
)

// configFlag recognises a condition that is the load of a boolean configuration flag of the
// group (group.config.<...>.<flag>, or group.pushEnable which is copied from the configuration
// once at construction).
func configFlag(c ssa.Value) (string, bool) {
	fp, ok := loadPath(c)
	if !ok || paramCell(fp.Base) == nil && !isParam(fp.Base) {
		return "", false
	}
	if b, isB := c.Type().Underlying().(*types.Basic); !isB || b.Kind() != types.Bool {
		return "", false
	}
	if fp.Fields[0].Name() == "config" || (len(fp.Fields) == 1 && fp.Fields[0].Name() == "pushEnable") {
		return fp.String(), true
	}
	return "", false
}

func isParam(v ssa.Value) bool { _, ok := v.(*ssa.Parameter); return ok }

// reachableUnder reports whether target is reachable from fn's entry when every If on a
// configuration flag follows the given assignment (other conditions are free).
func reachableUnder(fn *ssa.Function, target ssa.Instruction, sigma map[string]bool) bool {
	return model.PathQuery{Target: func(in ssa.Instruction) bool { return in == target }, StopEdge: func(b *ssa.BasicBlock, k int) bool {
		iff, ok := b.Instrs[len(b.Instrs)-1].(*ssa.If)
		if !ok {
			return false
		}
		c, pol := model.StripNot(iff.Cond, k == 0)
		name, isFlag := configFlag(c)
		if !isFlag {
			return false
		}
		v, known := sigma[name]
		return known && v != pol
	}}.Find(fn) != nil
}

func flagsTested(fn *ssa.Function, into map[string]bool) {
	for _, b := range fn.Blocks {
		if iff, ok := b.Instrs[len(b.Instrs)-1].(*ssa.If); ok {
			c, _ := model.StripNot(iff.Cond, true)
			if n, ok := configFlag(c); ok {
				into[n] = true
			}
		}
	}
}

// c16r6: a per-input resource is released under every configuration under which it can have
// been created.
func c16r6(p *model.Prog, r *report.Result) {
	r.Rule("C16.R6", "for every Group field holding a disposable per-input resource: for every assignment of the boolean configuration flags tested in its creating and its releasing method, if the creating store is reachable under the assignment then the Dispose() call is reachable under it too (truth table over the flags; nil tests and other conditions left free)")
	group := p.Named("pkg/logic", "Group")
	st := group.Underlying().(*types.Struct)
	var methods []*ssa.Function
	for _, fn := range lalFuncsIn(p, "pkg/logic") {
		if fn.Signature.Recv() != nil && fn.Parent() == nil {
			if pt, ok := fn.Signature.Recv().Type().(*types.Pointer); ok && types.Identical(pt.Elem(), group) {
				methods = append(methods, fn)
			}
		}
	}
	nPairs := 0
	for i := 0; i < st.NumFields(); i++ {
		f := st.Field(i)
		pt, ok := f.Type().(*types.Pointer)
		if !ok {
			continue
		}
		nm, ok := pt.Elem().(*types.Named)
		if !ok {
			continue
		}
		var dispose *types.Func
		for j := 0; j < nm.NumMethods(); j++ {
			if nm.Method(j).Name() == "Dispose" {
				dispose = nm.Method(j)
			}
		}
		if dispose == nil {
			continue
		}
		type site struct {
			fn *ssa.Function
			in ssa.Instruction
		}
		var creates, releases []site
		for _, fn := range methods {
			for _, s := range model.FieldStores(fn, f) {
				if !model.IsNilConst(s.Val) && len(fn.Params) > 0 && sameRoot(storeBase(s), fn.Params[0]) {
					if _, fromLoad := loadPath(s.Val); !fromLoad {
						creates = append(creates, site{fn, s})
					}
				}
			}
			for _, c := range model.CallsTo(fn, dispose) {
				if rc := receiver(c.Common()); rc != nil && model.IsLoadOfField(rc, f) {
					releases = append(releases, site{fn, c})
				}
			}
		}
		if len(creates) == 0 || len(releases) == 0 {
			continue
		}
		for _, cr := range creates {
			flags := map[string]bool{}
			flagsTested(cr.fn, flags)
			for _, rl := range releases {
				flagsTested(rl.fn, flags)
			}
			var names []string
			for n := range flags {
				names = append(names, n)
			}
			sort.Strings(names)
			if len(names) > 8 {
				r.Bad("C16.R6", fkey(cr.fn, "pair", f.Name()), p.InstrPos(cr.in), "more than 8 configuration flags: truth table not enumerated")
				continue
			}
			nPairs++
			bad := ""
			for m := 0; m < 1<<uint(len(names)); m++ {
				sigma := map[string]bool{}
				var desc []string
				for k, n := range names {
					sigma[n] = m&(1<<uint(k)) != 0
					desc = append(desc, fmt.Sprintf("%s=%v", n, sigma[n]))
				}
				if !reachableUnder(cr.fn, cr.in, sigma) {
					continue
				}
				rel := false
				for _, rl := range releases {
					if reachableUnder(rl.fn, rl.in, sigma) {
						rel = true
					}
				}
				if !rel && bad == "" {
					bad = strings.Join(desc, ", ")
				}
			}
			var relNames []string
			for _, rl := range releases {
				relNames = append(relNames, model.FnName(rl.fn))
			}
			r.Check(bad == "", "C16.R6", fkey(cr.fn, "pair", f.Name()), p.InstrPos(cr.in),
				fmt.Sprintf("created under a subset of the flag assignments (%d flags) under which %s disposes it", len(names), strings.Join(relNames, "/")),
				fmt.Sprintf("with %s the resource Group.%s is created here but no Dispose() of it is reachable in %s: it outlives its input (open file / unfinished playlist / leaked muxer per publish cycle)", bad, f.Name(), strings.Join(relNames, "/")))
		}
	}
	r.Count("create_release_pairs", nPairs)
	if nPairs < 3 {
		r.Bad("C16.R6", "floor", "", fmt.Sprintf("only %d create/release pairs found (hlsMuxer, recordFlv, recordMpegts expected)", nPairs))
	}
}
