package rules

import (
	"go/token"
	"go/types"
	"strings"

	"golang.org/x/tools/go/ssa"

	"lalverif/internal/model"
	"lalverif/internal/report"
)

func init() { register("C03", c03) }

// inputFields are the Group / pullProxy fields that hold the accepted input.
func inputFields(p *model.Prog) []*types.Var {
	return []*types.Var{
		p.Field("pkg/logic", "Group", "rtmpPubSession"),
		p.Field("pkg/logic", "Group", "rtspPubSession"),
		p.Field("pkg/logic", "Group", "customizePubSession"),
		p.Field("pkg/logic", "Group", "psPubSession"),
		p.Field("pkg/logic", "pullProxy", "rtmpSession"),
		p.Field("pkg/logic", "pullProxy", "rtspSession"),
	}
}

func isInputField(fs []*types.Var, f *types.Var) bool {
	for _, x := range fs {
		if x == f {
			return true
		}
	}
	return false
}

// errEdge returns, for a call whose (last) result is an error, the blocks entered when that
// error is non-nil (ok=false when no such test exists in the function).
// errValuesOf returns the SSA values holding a call's error result (the call itself, the
// error-typed Extracts of a tuple, and phis/locals they are directly copied through).
func errValuesOf(call ssa.Value) []ssa.Value {
	var errVals []ssa.Value
	errT := types.Universe.Lookup("error").Type()
	if refs := call.Referrers(); refs != nil {
		if _, isTuple := call.Type().(*types.Tuple); isTuple {
			for _, r := range *refs {
				if ex, ok := r.(*ssa.Extract); ok && types.Identical(ex.Type(), errT) {
					errVals = append(errVals, ex)
				}
			}
		} else if types.Identical(call.Type(), errT) {
			errVals = append(errVals, call)
		}
	}
	// one hop through a named-result / local cell: *cell = err ... t = *cell
	for _, ev := range append([]ssa.Value(nil), errVals...) {
		if refs := ev.Referrers(); refs != nil {
			for _, r := range *refs {
				if st, ok := r.(*ssa.Store); ok && st.Val == ev {
					if cell, ok := st.Addr.(*ssa.Alloc); ok && cell.Referrers() != nil {
						for _, r2 := range *cell.Referrers() {
							if ld, ok := r2.(*ssa.UnOp); ok && ld.Op == token.MUL && ld.Block() == st.Block() && model.InstrDominates(st, ld) {
								// only loads not separated from the store by another store in the block
								sep := false
								for _, x := range st.Block().Instrs {
									if s2, ok := x.(*ssa.Store); ok && s2.Addr == st.Addr && s2 != st && model.InstrDominates(st, s2) && model.InstrDominates(s2, ld) {
										sep = true
									}
								}
								if !sep {
									errVals = append(errVals, ld)
								}
							}
						}
					}
				}
			}
		}
	}
	return errVals
}

func errNonNilEdges(call ssa.Value) (edges []*ssa.BasicBlock) {
	errVals := errValuesOf(call)
	for _, ev := range errVals {
		refs := ev.Referrers()
		if refs == nil {
			continue
		}
		for _, r := range *refs {
			b, ok := r.(*ssa.BinOp)
			if !ok {
				continue
			}
			x, trueIsNonNil, ok := nilTest(b)
			if !ok || x != ev {
				continue
			}
			if brefs := b.Referrers(); brefs != nil {
				for _, br := range *brefs {
					if iff, ok := br.(*ssa.If); ok {
						if trueIsNonNil {
							edges = append(edges, iff.Block().Succs[0])
						} else {
							edges = append(edges, iff.Block().Succs[1])
						}
					}
				}
			}
		}
	}
	return
}

func c03(p *model.Prog, r *report.Result) {
	r.Explanation = "Decides the structural clauses of 'one input per stream': every store of an input into a Group is dominated by the refusing hasInSession() test whose true edge attaches nothing (R1); every teardown (delIn) is cut off from entry by an identity comparison with the current input, Group.Dispose excepted (R2); no protocol server can emit OnDel* for a session whose OnNew* was refused (R3, per server, four accepted idioms); the relay-pull goroutine reports exactly one stop on every path (R4); GetStat lists only the group's own current input fields and session sets (R5)."
	r.NotDecided = []string{"interleavings of arrivals/departures (only the lock discipline of C20)", "that delivery is undisturbed as values", "media of a departed RTSP/UDP input still arriving (OnRtpPacket has no identity check)", "a second DESCRIBE on one RTSP connection orphaning the first SubSession"}
	r.Assumptions = []string{"Group methods with lower-case names are only called with Group.mutex held (C20.guarded-by)", "rtmp: a second publish/play on one connection is refused before OnNew* (C04.R-term)"}
	inF := inputFields(p)
	hasIn := p.MethodObj("pkg/logic", "Group", "hasInSession")
	addIn := p.MethodObj("pkg/logic", "Group", "addIn")
	delIn := p.MethodObj("pkg/logic", "Group", "delIn")
	logicFns := lalFuncsIn(p, "pkg/logic")
	r.Count("functions_analysed", len(p.LalFuncs()))

	// guardedByNoInput: instruction dominated by the false edge of hasInSession().
	guardedByNoInput := func(in ssa.Instruction) bool {
		return model.GuardedBy(in, func(c ssa.Value, pol bool) bool {
			call, ok := c.(*ssa.Call)
			return ok && model.SameFunc(model.CalleeObj(call.Common()), hasIn) && !pol
		})
	}

	// ---------------------------------------------------------------- R1
	r.Rule("C03.R1", "every store of a non-nil value to an input field of Group/pullProxy (directly, or in a setter whose every call site is) is dominated by the false edge of hasInSession(); on the true edge of that test no input store, observer registration or addIn is reachable")
	nStore := 0
	var checkStore func(fn *ssa.Function, at ssa.Instruction, what string, depth int)
	checkStore = func(fn *ssa.Function, at ssa.Instruction, what string, depth int) {
		if guardedByNoInput(at) {
			r.Ok("C03.R1", fkey(fn, "admit", what), p.InstrPos(at), "dominated by !hasInSession()")
			return
		}
		// setter: lift to callers
		callers := p.Callers(fn)
		if depth < 2 && len(callers) > 0 {
			for _, e := range callers {
				if e.Site == nil || !model.IsLal(e.Caller.Func) {
					continue
				}
				checkStore(e.Caller.Func, e.Site, what+" via "+model.FnName(fn), depth+1)
			}
			return
		}
		r.Bad("C03.R1", fkey(fn, "admit", what), p.InstrPos(at), "an input is attached without the refusing hasInSession() test: a second input replaces or joins the accepted one")
	}
	for _, fn := range logicFns {
		for _, f := range inF {
			for _, st := range model.FieldStores(fn, f) {
				if model.IsNilConst(st.Val) {
					continue
				}
				nStore++
				checkStore(fn, st, f.Name(), 0)
			}
		}
		// true edge of hasInSession(): nothing is attached
		for _, ci := range model.CallsTo(fn, hasIn) {
			call, ok := ci.(*ssa.Call)
			if !ok || call.Referrers() == nil {
				continue
			}
			for _, ref := range *call.Referrers() {
				iff, ok := ref.(*ssa.If)
				if !ok {
					continue
				}
				trueSucc, falseSucc := iff.Block().Succs[0], iff.Block().Succs[1]
				_ = falseSucc
				bad := model.PathQuery{FromBlock: trueSucc,
					// the refused path may rejoin nothing: once it reaches a block the false edge
					// also reaches we cannot tell them apart, so a join is a violation by itself
					Target: func(in ssa.Instruction) bool {
						if st, ok := in.(*ssa.Store); ok {
							if f := model.FieldOf(st.Addr); f != nil && isInputField(inF, f) && !model.IsNilConst(st.Val) {
								return true
							}
						}
						if c2, ok := in.(ssa.CallInstruction); ok {
							o := model.CalleeObj(c2.Common())
							if model.SameFunc(o, addIn) {
								return true
							}
							if o != nil && (o.Name() == "SetObserver" || o.Name() == "SetPubSessionObserver" || o.Name() == "WithOnRtmpMsg" || o.Name() == "WithOnAvPacket") {
								return true
							}
						}
						return false
					}}.Find(fn)
				r.Check(bad == nil, "C03.R1", fkey(fn, "refuse", "hasInSession-true-edge"), p.InstrPos(iff),
					"the refusing edge attaches nothing", "after hasInSession() reported an accepted input the function still attaches the new one")
			}
		}
	}
	if nStore < 6 {
		r.Bad("C03.R1", "floor", "", "fewer than 6 input stores found")
	}

	// ---------------------------------------------------------------- R2
	r.Rule("C03.R2", "every call of Group.delIn (except in Group.Dispose) is unreachable from function entry without crossing an edge on which a value derived from a parameter equals the corresponding current-input field")
	nDel := 0
	for _, fn := range logicFns {
		for _, ci := range model.CallsTo(fn, delIn) {
			nDel++
			key := fkey(fn, "teardown", "delIn")
			if fn == p.Method("pkg/logic", "Group", "Dispose") {
				r.Trivial("C03.R2", key, p.InstrPos(ci), "listed exception: the whole group is disposed")
				continue
			}
			bad := model.PathQuery{
				StopEdge: func(b *ssa.BasicBlock, k int) bool {
					iff, ok := b.Instrs[len(b.Instrs)-1].(*ssa.If)
					if !ok {
						return false
					}
					cond, pol := model.StripNot(iff.Cond, k == 0)
					cmp, ok := cond.(*ssa.BinOp)
					if !ok || (cmp.Op != token.EQL && cmp.Op != token.NEQ) {
						return false
					}
					isCur := func(v ssa.Value) bool {
						f := model.LoadedField(model.Unwrap(v))
						return f != nil && isInputField(inF, f)
					}
					fromParam := func(v ssa.Value) bool {
						return model.DependsOn(model.Unwrap(v), func(x ssa.Value) bool { _, ok := x.(*ssa.Parameter); return ok && x.Name() != fn.Params[0].Name() })
					}
					match := (isCur(cmp.X) && fromParam(cmp.Y)) || (isCur(cmp.Y) && fromParam(cmp.X))
					if !match {
						return false
					}
					equalOnThisEdge := (cmp.Op == token.EQL) == pol
					return equalOnThisEdge
				},
				Target: func(in ssa.Instruction) bool { return in == ci },
			}.Find(fn)
			r.Check(bad == nil, "C03.R2", key, p.InstrPos(ci),
				"delIn only reachable across an identity-with-current-input edge", "delIn is reachable for a session that is not the accepted input: a foreign departure tears the stream down")
		}
	}
	if nDel < 6 {
		r.Bad("C03.R2", "floor", "", "fewer than 6 delIn call sites found")
	}

	// ---------------------------------------------------------------- R6
	r.Rule("C03.R6", "a departed customize input can no longer feed the stream: delCustomizePubSession calls CustomizePubSessionContext.Dispose() before delIn, and every forwarding call in the context's Feed* methods is dominated by the false edge of disposeFlag.Load()")
	dcp := p.Method("pkg/logic", "Group", "delCustomizePubSession")
	ctxDispose := p.MethodObj("pkg/logic", "CustomizePubSessionContext", "Dispose")
	okDisp := false
	for _, d := range model.CallsTo(dcp, delIn) {
		for _, c := range model.CallsTo(dcp, ctxDispose) {
			if model.InstrDominates(c, d) {
				okDisp = true
			}
		}
	}
	r.Check(okDisp, "C03.R6", fkey(dcp, "departed", "ctx.Dispose"), p.Pos(dcp.Pos()), "the context is disposed before teardown", "a removed customize publisher keeps its callback into the group: media of a departed input is still forwarded")
	disposeFlagF := p.Field("pkg/logic", "CustomizePubSessionContext", "disposeFlag")
	onRtmpMsgF := p.Field("pkg/logic", "CustomizePubSessionContext", "onRtmpMsg")
	remuxerF := p.Field("pkg/logic", "CustomizePubSessionContext", "remuxer")
	nFeed := 0
	for _, fn := range logicFns {
		if fn.Signature.Recv() == nil || !strings.HasPrefix(fn.Name(), "Feed") || !strings.Contains(fn.Signature.Recv().Type().String(), "CustomizePubSessionContext") {
			continue
		}
		for _, ci := range model.AllCalls(fn) {
			forwards := false
			if model.IsLoadOfField(ci.Common().Value, onRtmpMsgF) {
				forwards = true
			}
			if rv := receiver(ci.Common()); rv != nil && model.IsLoadOfField(rv, remuxerF) {
				forwards = true
			}
			if !forwards {
				continue
			}
			nFeed++
			ok := model.GuardedBy(ci, func(c ssa.Value, pol bool) bool {
				call, isCall := c.(*ssa.Call)
				if !isCall || pol {
					return false
				}
				rv := receiver(call.Common())
				fa, isFa := rv.(*ssa.FieldAddr)
				return isFa && model.FieldOf(fa) == disposeFlagF
			})
			r.Check(ok, "C03.R6", fkey(fn, "forward", "after-dispose-check"), p.InstrPos(ci), "forwarding dominated by !disposeFlag.Load()", "a disposed customize publisher can still forward media into the group")
		}
	}
	if nFeed < 3 {
		r.Bad("C03.R6", "floor", "", "fewer than 3 forwarding calls in CustomizePubSessionContext.Feed* found")
	}

	// ---------------------------------------------------------------- R3
	r.Rule("C03.R3", "per protocol server: OnDel* is never reached for a session whose OnNew* was refused — idioms accepted: (a) no path from the refusal edge to OnDel* in the serving function; (b) refusal edge stores true to a session flag and OnDel* is dominated by flag==false; (c) refusal edge stores nil to the session-link field and OnDel* is dominated by field!=nil; (d) refusal edge deletes the map entry OnDel* sessions are taken from")
	c03r3(p, r)

	// ---------------------------------------------------------------- R4
	r.Rule("C03.R4", "the relay-pull goroutine started in Group.pullIfNeeded passes exactly one DelRtmpPullSession/DelRtspPullSession on every path from entry to return")
	pullIf := p.Method("pkg/logic", "Group", "pullIfNeeded")
	delPullR := p.MethodObj("pkg/logic", "Group", "DelRtmpPullSession")
	delPullS := p.MethodObj("pkg/logic", "Group", "DelRtspPullSession")
	nGo := 0
	model.EachInstr(pullIf, func(in ssa.Instruction) {
		g, ok := in.(*ssa.Go)
		if !ok {
			return
		}
		var body *ssa.Function
		switch v := g.Call.Value.(type) {
		case *ssa.MakeClosure:
			body, _ = v.Fn.(*ssa.Function)
		case *ssa.Function:
			body = v
		}
		if body == nil {
			r.Bad("C03.R4", fkey(pullIf, "go", "pull-goroutine"), p.InstrPos(g), "cannot resolve the goroutine body")
			return
		}
		nGo++
		isDel := func(in ssa.Instruction) bool {
			ci, ok := in.(ssa.CallInstruction)
			if !ok {
				return false
			}
			o := model.CalleeObj(ci.Common())
			return model.SameFunc(o, delPullR) || model.SameFunc(o, delPullS)
		}
		isRet := func(in ssa.Instruction) bool { _, ok := in.(*ssa.Return); return ok }
		none := model.PathQuery{Stop: isDel, Target: isRet}.Find(body)
		r.Check(none == nil, "C03.R4", fkey(body, "stop-at-least-once", "Del*PullSession"), p.InstrPos(g), "every path to return passes a Del*PullSession", "a pull attempt can end without reporting its stop (isSessionPulling stays set: no retry, no stop notification)")
		model.EachInstr(body, func(x ssa.Instruction) {
			if !isDel(x) {
				return
			}
			twice := model.PathQuery{From: x, Target: isDel}.Find(body)
			r.Check(twice == nil, "C03.R4", fkey(body, "stop-at-most-once", "Del*PullSession"), p.InstrPos(x), "no second Del*PullSession reachable", "a pull attempt can report two stops")
		})
	})
	if nGo != 1 {
		r.Bad("C03.R4", "floor", "", "expected exactly one goroutine started by pullIfNeeded")
	}

	// ---------------------------------------------------------------- R5
	r.Rule("C03.R5", "in Group.GetStat every session handed to Session2StatPub/Sub/Pull is a load of a current-input field or the range variable over one of the group's session sets")
	getStat := p.Method("pkg/logic", "Group", "GetStat")
	statFns := []*types.Func{p.FuncObj("pkg/base", "Session2StatPub"), p.FuncObj("pkg/base", "Session2StatSub"), p.FuncObj("pkg/base", "Session2StatPull")}
	nStat := 0
	for _, fn := range []*ssa.Function{getStat, p.Method("pkg/logic", "Group", "getStatPull")} {
		for _, ci := range model.CallsTo(fn, statFns...) {
			nStat++
			arg := model.Unwrap(ci.Common().Args[0])
			ok := false
			if f := model.LoadedField(arg); f != nil && isInputField(inF, f) {
				ok = true
			}
			if rf := rangedField(iterOrigin(arg)); rf != nil && rf.Pkg() != nil && rf.Pkg().Path() == model.LalPath+"/pkg/logic" {
				ok = true
			}
			r.Check(ok, "C03.R5", fkey(fn, "stat", "Session2Stat*"), p.InstrPos(ci), "session comes from the group's own attached state", "the stat API can list a session that is not attached to the group")
		}
	}
	if nStat < 10 {
		r.Bad("C03.R5", "floor", "", "fewer than 10 stat conversions found")
	}
	c03r7(p, r)
	c03r8(p, r)
	c03r9(p, r)
	c03r10(p, r)
	c03r11(p, r)
	w6PullAlive(p, r, "C03.R12")
	w7StatPubEveryCall(p, r, "C03.R13")
	w8NotifySessionId(p, r, "C03.R14")
}

// c03r3 checks the notification pairing per protocol server.
func c03r3(p *model.Prog, r *report.Result) {
	type pair struct {
		name     string
		newIface *types.Func // OnNew* on the observer interface the session/server calls
		delIface *types.Func
		pkgs     []string // where call sites are searched
	}
	iface := func(pkg, typ, m string) *types.Func {
		n := p.Named(pkg, typ)
		o, _, _ := types.LookupFieldOrMethod(n, true, n.Obj().Pkg(), m)
		f, ok := o.(*types.Func)
		if !ok {
			model.Undecidedf("anchor: interface method %s.%s.%s not found", pkg, typ, m)
		}
		return f
	}
	pairs := []pair{
		{"rtmp-pub", iface("pkg/rtmp", "IServerSessionObserver", "OnNewRtmpPubSession"), iface("pkg/rtmp", "IServerObserver", "OnDelRtmpPubSession"), []string{"pkg/rtmp"}},
		{"rtmp-sub", iface("pkg/rtmp", "IServerSessionObserver", "OnNewRtmpSubSession"), iface("pkg/rtmp", "IServerObserver", "OnDelRtmpSubSession"), []string{"pkg/rtmp"}},
		{"rtsp-pub", iface("pkg/rtsp", "IServerCommandSessionObserver", "OnNewRtspPubSession"), iface("pkg/rtsp", "IServerObserver", "OnDelRtspPubSession"), []string{"pkg/rtsp"}},
		{"rtsp-sub", iface("pkg/rtsp", "IServerCommandSessionObserver", "OnNewRtspSubSessionDescribe"), iface("pkg/rtsp", "IServerObserver", "OnDelRtspSubSession"), []string{"pkg/rtsp"}},
		{"httpflv-sub", iface("pkg/logic", "IHttpServerHandlerObserver", "OnNewHttpflvSubSession"), iface("pkg/logic", "IHttpServerHandlerObserver", "OnDelHttpflvSubSession"), []string{"pkg/logic"}},
		{"httpts-sub", iface("pkg/logic", "IHttpServerHandlerObserver", "OnNewHttptsSubSession"), iface("pkg/logic", "IHttpServerHandlerObserver", "OnDelHttptsSubSession"), []string{"pkg/logic"}},
		{"hls-sub", iface("pkg/hls", "IHlsServerHandlerObserver", "OnNewHlsSubSession"), iface("pkg/hls", "IHlsServerHandlerObserver", "OnDelHlsSubSession"), []string{"pkg/hls"}},
	}
	isForwarder := func(fn *ssa.Function, obj *types.Func) bool {
		// a method with the same name as the callback that only forwards it
		return fn.Name() == obj.Name()
	}
	for _, pr := range pairs {
		fns := lalFuncsIn(p, pr.pkgs...)
		type site struct {
			fn *ssa.Function
			ci ssa.CallInstruction
		}
		var news, dels []site
		for _, fn := range fns {
			for _, ci := range model.CallsTo(fn, pr.newIface) {
				if !isForwarder(fn, pr.newIface) {
					news = append(news, site{fn, ci})
				}
			}
			for _, ci := range model.CallsTo(fn, pr.delIface) {
				if !isForwarder(fn, pr.delIface) {
					dels = append(dels, site{fn, ci})
				}
			}
		}
		if len(news) == 0 || len(dels) == 0 {
			r.Bad("C03.R3", "floor|"+pr.name, "", "no OnNew*/OnDel* call site found for this server")
			continue
		}
		for _, n := range news {
			call, _ := n.ci.(*ssa.Call)
			var refusal []*ssa.BasicBlock
			if call != nil {
				refusal = errNonNilEdges(call)
				if len(refusal) == 0 {
					// (ok bool, sdp) form: refusal is the false edge of the extracted bool
					if refs := call.Referrers(); refs != nil {
						for _, ref := range *refs {
							if ex, ok := ref.(*ssa.Extract); ok && ex.Index == 0 && ex.Referrers() != nil {
								for _, r2 := range *ex.Referrers() {
									if iff, ok := r2.(*ssa.If); ok {
										refusal = append(refusal, iff.Block().Succs[1])
									}
								}
							}
						}
					}
				}
			}
			key := fkey(n.fn, "pairing", pr.name)
			if len(refusal) == 0 {
				r.Bad("C03.R3", key, p.InstrPos(n.ci), "the result of OnNew* is not tested: a refused session cannot be told from an accepted one")
				continue
			}
			sessArg := n.ci.Common().Args[len(n.ci.Common().Args)-1]
			// idiom (a): same function, no path from refusal to OnDel*
			okAll := true
			var how string
			for _, d := range dels {
				ok := false
				if d.fn == n.fn {
					reach := false
					for _, rb := range refusal {
						if (model.PathQuery{FromBlock: rb, Target: func(in ssa.Instruction) bool { return in == d.ci }}).Find(n.fn) != nil {
							reach = true
						}
					}
					if !reach {
						ok, how = true, "(a) no path from the refusal edge to OnDel*"
					}
				}
				if !ok {
					// idiom (b)/(c): a field F of the session (or of its owner) stored on every refusal path; OnDel* guarded by the opposite test
					// collect stores that cut every path from the refusal edge to a return
					cands := map[*types.Var]string{}
					for _, rb := range refusal {
						for _, b := range n.fn.Blocks {
							if !(rb == b || rb.Dominates(b)) {
								continue
							}
							for _, in := range b.Instrs {
								st, ok := in.(*ssa.Store)
								if !ok {
									continue
								}
								f := model.FieldOf(st.Addr)
								if f == nil {
									continue
								}
								if v, isB := model.ConstBool(st.Val); isB && v {
									cands[f] = "flag"
								}
								if model.IsNilConst(st.Val) {
									cands[f] = "nil"
								}
							}
						}
					}
					for f, kind := range cands {
						// every refusal path to return passes the store
						passes := true
						for _, rb := range refusal {
							if (model.PathQuery{FromBlock: rb,
								Stop: func(in ssa.Instruction) bool {
									st, ok := in.(*ssa.Store)
									return ok && model.FieldOf(st.Addr) == f
								},
								Target: func(in ssa.Instruction) bool { _, ok := in.(*ssa.Return); return ok }}).Find(n.fn) != nil {
								passes = false
							}
						}
						if !passes {
							continue
						}
						guarded := model.GuardedBy(d.ci, func(c ssa.Value, pol bool) bool {
							if kind == "flag" {
								return model.IsLoadOfField(c, f) && !pol
							}
							x, trueIsNonNil, ok := nilTest(c)
							return ok && model.IsLoadOfField(x, f) && pol == trueIsNonNil
						})
						if guarded {
							ok = true
							if kind == "flag" {
								how = "(b) refusal sets " + f.Name() + "=true; OnDel* dominated by " + f.Name() + "==false"
							} else {
								how = "(c) refusal sets " + f.Name() + "=nil; OnDel* dominated by " + f.Name() + "!=nil"
							}
						}
					}
				}
				if !ok {
					// idiom (d): refusal edge deletes from a map; OnDel* argument is looked up in / ranged from that map
					for _, rb := range refusal {
						for _, b := range n.fn.Blocks {
							if !(rb == b || rb.Dominates(b)) {
								continue
							}
							for _, in := range b.Instrs {
								call, isCall := in.(*ssa.Call)
								if !isCall {
									continue
								}
								bi, isB := call.Call.Value.(*ssa.Builtin)
								if !isB || bi.Name() != "delete" {
									continue
								}
								mf := model.LoadedField(call.Call.Args[0])
								if mf == nil {
									continue
								}
								arg := d.ci.Common().Args[len(d.ci.Common().Args)-1]
								fromMap := model.DependsOn(arg, func(v ssa.Value) bool {
									switch x := v.(type) {
									case *ssa.Lookup:
										return model.IsLoadOfField(x.X, mf)
									case *ssa.Range:
										return model.IsLoadOfField(x.X, mf)
									}
									return false
								})
								if fromMap {
									ok, how = true, "(d) refusal deletes the "+mf.Name()+" entry OnDel* sessions are taken from"
								}
							}
						}
					}
				}
				if !ok {
					okAll = false
					r.Bad("C03.R3", key, p.InstrPos(d.ci), "OnDel* at this site can be reached for a session whose OnNew* (at "+p.InstrPos(n.ci)+") was refused: a stop notification without a start")
				}
			}
			_ = sessArg
			if okAll {
				r.Ok("C03.R3", key, p.InstrPos(n.ci), how)
			}
		}
	}
}
