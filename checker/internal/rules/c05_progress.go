package rules

import (
	"fmt"
	"go/token"

	"golang.org/x/tools/go/ssa"

	"lalverif/internal/model"
	"lalverif/internal/report"
)

// phiLeaves flattens the values a loop-header phi receives over its back edges, through the
// phis that merge the paths of the loop body.
func phiLeaves(ph *ssa.Phi, loop *model.Loop) []ssa.Value {
	var out []ssa.Value
	seen := map[ssa.Value]bool{ph: true}
	var rec func(v ssa.Value)
	rec = func(v ssa.Value) {
		if q, ok := v.(*ssa.Phi); ok && q != ph && loop.Body[q.Block()] {
			if seen[q] {
				return
			}
			seen[q] = true
			for _, e := range q.Edges {
				rec(e)
			}
			return
		}
		out = append(out, v)
	}
	for i, pred := range ph.Block().Preds {
		if loop.Body[pred] { // back edge
			rec(ph.Edges[i])
		}
	}
	return out
}

// c05Progress: scans over peer-supplied bytes advance on every path around the loop.
func c05Progress(p *model.Prog, r *report.Result, rule string, pkgs []string, floor int) {
	r.Rule(rule, "every hand-written scanning loop (not a range loop) in the parsers whose exit test compares a loop-carried position with a length or bound: no path around the loop hands the position back unchanged (a 'continue' that forgets to advance spins for ever on the publisher's goroutine, with the group lock held)")
	n := 0
	for _, fn := range lalFuncsIn(p, pkgs...) {
		for _, l := range model.Loops(fn) {
			// exit tests: Ifs inside the loop with one successor outside
			var cands []*ssa.Phi
			for b := range l.Body {
				iff, ok := b.Instrs[len(b.Instrs)-1].(*ssa.If)
				if !ok {
					continue
				}
				exits := false
				for _, s := range b.Succs {
					if !l.Body[s] {
						exits = true
					}
				}
				if !exits {
					continue
				}
				bo, isB := iff.Cond.(*ssa.BinOp)
				if !isB {
					continue
				}
				switch bo.Op {
				case token.LSS, token.LEQ, token.GTR, token.GEQ, token.NEQ, token.EQL:
				default:
					continue
				}
				for _, side := range []ssa.Value{bo.X, bo.Y} {
					// the position itself or position + constant
					terms, _ := linTerms(side)
					for v := range terms {
						if ph, isP := v.(*ssa.Phi); isP && ph.Block() == l.Header {
							cands = append(cands, ph)
						}
					}
				}
			}
			if len(cands) == 0 {
				continue
			}
			// the loop ends as long as one of its exit tests watches a position that every path
			// around the loop advances (a range index always does)
			n++
			var stuckPhi *ssa.Phi
			progress := false
			for _, ph := range cands {
				stuck := false
				if !isRangeIndex(ph) {
					for _, leaf := range phiLeaves(ph, l) {
						if leaf == ssa.Value(ph) {
							stuck = true
						}
					}
				}
				if stuck {
					stuckPhi = ph
				} else {
					progress = true
				}
			}
			if stuckPhi == nil {
				stuckPhi = cands[0]
			}
			r.Check(progress, rule, fkey(fn, "scan", "advances|"+valueToken(stuckPhi)), p.Pos(stuckPhi.Pos()), "some exit test watches a position that every path around the loop advances", "every exit test of this loop depends on a position that some path around the loop hands back unchanged: on the input that takes this path the loop never ends")
		}
	}
	r.Count("scan_loops_checked", n)
	if n < floor {
		r.Bad(rule, "floor", "", fmt.Sprintf("only %d scanning loops found", n))
	}
}

// isRangeIndex: the phi is the hidden index of a range loop (incremented by exactly one on its
// single back edge; go/ssa names it "rangeindex").
func isRangeIndex(ph *ssa.Phi) bool {
	return ph.Comment == "rangeindex"
}

type progressSite struct {
	phi  *ssa.Phi
	next ssa.Value
}

// scanProgressSites: for loops whose every exit test watches positions (no range index among
// them), the back-edge values of those positions that are not "position + positive constant",
// keyed by the terminator of the back edge's source block.
func scanProgressSites(p *model.Prog, pkgs []string) map[ssa.Instruction][]progressSite {
	out := map[ssa.Instruction][]progressSite{}
	for _, fn := range lalFuncsIn(p, pkgs...) {
		for _, l := range model.Loops(fn) {
			var cands []*ssa.Phi
			hasRange := false
			downward := false
			for b := range l.Body {
				iff, ok := b.Instrs[len(b.Instrs)-1].(*ssa.If)
				if !ok {
					continue
				}
				exits := false
				for _, s := range b.Succs {
					if !l.Body[s] {
						exits = true
					}
				}
				bo, isB := iff.Cond.(*ssa.BinOp)
				if !exits || !isB {
					continue
				}
				for si, side := range []ssa.Value{bo.X, bo.Y} {
					terms, _ := linTerms(side)
					for v := range terms {
						if ph, isP := v.(*ssa.Phi); isP && ph.Block() == l.Header {
							if isRangeIndex(ph) {
								hasRange = true
							} else {
								cands = append(cands, ph)
								// the loop goes on while the position is above a bound: it counts down
								stays := b.Succs[0]
								contOnTrue := l.Body[stays]
								op := bo.Op
								if !contOnTrue {
									switch op {
									case token.GTR:
										op = token.LEQ
									case token.GEQ:
										op = token.LSS
									case token.LSS:
										op = token.GEQ
									case token.LEQ:
										op = token.GTR
									}
								}
								if (si == 0 && (op == token.GTR || op == token.GEQ)) || (si == 1 && (op == token.LSS || op == token.LEQ)) {
									downward = true
								}
							}
						}
					}
				}
			}
			if hasRange || len(cands) != 1 {
				continue // a range index bounds the loop; several positions: left to C05.PROGRESS
			}
			ph := cands[0]
			for i, pred := range l.Header.Preds {
				if !l.Body[pred] {
					continue
				}
				next := ph.Edges[i]
				terms, k := linTerms(next)
				if len(terms) == 1 && terms[ph] == 1 && (k >= 1 || (downward && k <= -1)) {
					continue // position + positive constant (or minus a constant in a loop that counts down to a bound)
				}
				term := pred.Instrs[len(pred.Instrs)-1]
				out[term] = append(out[term], progressSite{ph, next})
			}
		}
	}
	return out
}
