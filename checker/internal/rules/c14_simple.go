package rules

import (
	"go/token"

	"golang.org/x/tools/go/ssa"

	"lalverif/internal/model"
	"lalverif/internal/report"
)

// c14r7: the built-in secret check (SimpleAuthCtx.check) admits only behind an equality between
// the presented secret and an expected one, and never lets an empty expected secret match.
func c14r7(p *model.Prog, r *report.Result) {
	r.Rule("C14.R7", "in SimpleAuthCtx.check every 'return nil' is dominated by the true edge of <presented secret> == E with E = SimpleAuthCalcSecret(Key, streamName) or E = config.DangerousLalSecret; an equality with DangerousLalSecret additionally lies behind len(DangerousLalSecret) != 0 or behind the rejection of an empty presented secret; OnPubStart/OnSubStart/OnHls return nil without check() only on the false edge of their enable condition")
	check := p.Method("pkg/logic", "SimpleAuthCtx", "check")
	calc := p.FuncObj("pkg/logic", "SimpleAuthCalcSecret")
	danger := p.Field("pkg/logic", "SimpleAuthConfig", "DangerousLalSecret")
	fromGet := func(v ssa.Value) bool {
		return model.DependsOn(v, func(x ssa.Value) bool {
			c, ok := x.(*ssa.Call)
			return ok && model.CalleeObj(c.Common()) != nil && model.CalleeObj(c.Common()).Name() == "Get" && model.CalleeObj(c.Common()).Pkg().Path() == "net/url"
		})
	}
	isCalc := func(v ssa.Value) bool {
		c, ok := v.(*ssa.Call)
		return ok && model.SameFunc(model.CalleeObj(c.Common()), calc)
	}
	n := 0
	for _, ret := range model.ReturnsOf(check) {
		rvs := model.ReturnValues(ret)
		if len(rvs) != 1 || !model.IsNilConst(rvs[0]) {
			continue
		}
		n++
		viaCalc, viaDanger, caseMismatch := false, false, false
		for _, g := range model.Guards(ret.Block()) {
			c, pol := model.StripNot(g.Cond, g.Polarity)
			if !pol {
				continue
			}
			var x, y ssa.Value
			fold := false
			switch b := c.(type) {
			case *ssa.BinOp:
				if b.Op != token.EQL {
					continue
				}
				x, y = b.X, b.Y
			case *ssa.Call:
				// strings.EqualFold(a, b): equality up to letter case
				o := model.CalleeObj(b.Common())
				if o == nil || o.Pkg() == nil || o.Pkg().Path() != "strings" || o.Name() != "EqualFold" {
					continue
				}
				x, y, fold = b.Call.Args[0], b.Call.Args[1], true
			default:
				continue
			}
			if !fromGet(x) {
				x, y = y, x
			}
			if !fromGet(x) {
				continue
			}
			if isCalc(y) {
				viaCalc = true
			}
			yRaw := y
			if c, isC := y.(*ssa.Call); isC && caseNormalised(y) && len(c.Call.Args) == 1 {
				yRaw = c.Call.Args[0] // strings.ToLower(config.DangerousLalSecret)
			}
			if model.IsLoadOfField(yRaw, danger) {
				viaDanger = true
				// a case-normalised presented value compared byte for byte with the raw configured value
				if !fold && caseNormalised(x) && !caseNormalised(y) {
					caseMismatch = true
				}
			}
		}
		nonEmpty := model.GuardedBy(ret, func(c ssa.Value, pol bool) bool {
			b, ok := c.(*ssa.BinOp)
			if !ok {
				return false
			}
			// len(DangerousLalSecret) != 0   /  DangerousLalSecret != ""  /  presented == "" (false edge)
			if x, k, op, right, ok := constCmp(c); ok {
				if l, isLen := lenOf(x); isLen && (model.IsLoadOfField(l, danger) || fromGet(l)) {
					return cmpAt(op, 0, k, right) != pol
				}
			}
			if s, isS := model.ConstString(b.Y); isS && s == "" && (model.IsLoadOfField(b.X, danger) || fromGet(b.X)) {
				return (b.Op == token.EQL && !pol) || (b.Op == token.NEQ && pol)
			}
			return false
		})
		switch {
		case viaCalc:
			r.Ok("C14.R7", fkey(check, "admit", "calc-secret"), p.InstrPos(ret), "admits behind presented == SimpleAuthCalcSecret(Key, streamName)")
		case viaDanger && caseMismatch:
			r.Bad("C14.R7", fkey(check, "admit", "dangerous-secret-case"), p.InstrPos(ret), "the presented secret is lower-cased before it is compared byte for byte with the configured DangerousLalSecret, which is not: a configured override secret containing an upper-case letter can never be presented successfully")
		case viaDanger:
			r.Check(nonEmpty, "C14.R7", fkey(check, "admit", "dangerous-secret"), p.InstrPos(ret), "admits behind presented == DangerousLalSecret with the empty value excluded", "the presented secret is compared with DangerousLalSecret although either may be empty: with the default (empty) dangerous_lal_secret a request without lal_secret is admitted")
		default:
			r.Bad("C14.R7", fkey(check, "admit", "unguarded"), p.InstrPos(ret), "check() admits on a path that does not compare the presented secret with an expected value")
		}
	}
	if n < 2 {
		r.Bad("C14.R7", fkey(check, "admit", "floor"), p.Pos(check.Pos()), "expected the two admitting returns of SimpleAuthCtx.check")
	}
	// the three hooks: a nil return that does not come from check() lies on the false edge of an If
	for _, name := range []string{"OnPubStart", "OnSubStart", "OnHls"} {
		fn := p.Method("pkg/logic", "SimpleAuthCtx", name)
		calls := model.CallsTo(fn, p.MethodObj("pkg/logic", "SimpleAuthCtx", "check"))
		r.Check(len(calls) == 1, "C14.R7", fkey(fn, "hook", "calls-check"), p.Pos(fn.Pos()), "delegates to check()", "the hook no longer calls check()")
		for _, ret := range model.ReturnsOf(fn) {
			rvs := model.ReturnValues(ret)
			if len(rvs) != 1 || !model.IsNilConst(rvs[0]) {
				continue
			}
			// reachable from the entry only through at least one false edge, and not reachable from the check() block's true-edge chain
			ok := len(calls) == 1 && !calls[0].Block().Dominates(ret.Block()) && model.PathQuery{FromBlock: calls[0].Block(), Target: func(in ssa.Instruction) bool { return in == ssa.Instruction(ret) }}.Find(fn) == nil
			r.Check(ok, "C14.R7", fkey(fn, "hook", "nil-return"), p.InstrPos(ret), "unauthenticated nil only when the protocol's enable condition is false", "the hook admits after the enable condition held without the result of check()")
		}
	}
}

// caseNormalised: the value went through strings.ToLower / ToUpper.
func caseNormalised(v ssa.Value) bool {
	return model.DependsOn(v, func(x ssa.Value) bool {
		c, ok := x.(*ssa.Call)
		if !ok {
			return false
		}
		o := model.CalleeObj(c.Common())
		return o != nil && o.Pkg() != nil && o.Pkg().Path() == "strings" && (o.Name() == "ToLower" || o.Name() == "ToUpper")
	})
}
