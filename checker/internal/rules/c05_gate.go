package rules

import (
	"fmt"
	"go/token"
	"go/types"

	"golang.org/x/tools/go/ssa"

	"lalverif/internal/model"
	"lalverif/internal/report"
)

// c05Gate: the length gate of the RTMP->RTSP remuxer that the reviewed invariants of
// Rtmp2RtspRemuxer.remux (msg.Payload[1:], [2:], [5:]) rest on. The requirement of remux is
// conditional on the message type, which precondition lifting cannot express, so the gate is
// decided structurally here: remux only ever sees messages that passed FeedRtmpMsg's guards.
func c05Gate(p *model.Prog, r *report.Result) {
	r.Rule("C05.GATE", "Rtmp2RtspRemuxer.remux is called only from FeedRtmpMsg (on its own message) and doAnalyze (on r.msgCache entries); doAnalyze is called only from FeedRtmpMsg; r.msgCache is appended to only in FeedRtmpMsg with the message or its Clone(); and in FeedRtmpMsg every path from entry to one of those three uses either establishes MsgTypeId != audio or len(Payload) >= 2, and either MsgTypeId != video or len(Payload) >= 5, with the message parameter never reassigned")
	feed := p.Method("pkg/remux", "Rtmp2RtspRemuxer", "FeedRtmpMsg")
	remux := p.Method("pkg/remux", "Rtmp2RtspRemuxer", "remux")
	remuxObj := p.MethodObj("pkg/remux", "Rtmp2RtspRemuxer", "remux")
	ana := p.Method("pkg/remux", "Rtmp2RtspRemuxer", "doAnalyze")
	anaObj := p.MethodObj("pkg/remux", "Rtmp2RtspRemuxer", "doAnalyze")
	cacheF := p.Field("pkg/remux", "Rtmp2RtspRemuxer", "msgCache")
	payloadF := p.Field("pkg/base", "RtmpMsg", "Payload")
	typeF := p.Field("pkg/base", "RtmpHeader", "MsgTypeId")
	audioK := constU(p, "pkg/base", "RtmpTypeIdAudio")
	videoK := constU(p, "pkg/base", "RtmpTypeIdVideo")

	// who calls remux / doAnalyze
	for _, ed := range p.Callers(remux) {
		fn := ed.Caller.Func
		if fn != feed && fn != ana {
			r.Bad("C05.GATE", fkey(fn, "caller", "remux"), p.InstrPos(ed.Site), "Rtmp2RtspRemuxer.remux is called from outside FeedRtmpMsg/doAnalyze: the message did not pass the length gate, remux slices msg.Payload[2:] / [5:] unconditionally")
		}
	}
	for _, ed := range p.Callers(ana) {
		if fn := ed.Caller.Func; fn != feed {
			r.Bad("C05.GATE", fkey(fn, "caller", "doAnalyze"), p.InstrPos(ed.Site), "Rtmp2RtspRemuxer.doAnalyze is called from outside FeedRtmpMsg")
		}
	}
	// the message parameter of FeedRtmpMsg and its spill cell
	var msgP *ssa.Parameter
	for _, pa := range feed.Params {
		if n, ok := pa.Type().(*types.Named); ok && n.Obj().Name() == "RtmpMsg" {
			msgP = pa
		}
	}
	if msgP == nil {
		model.Undecidedf("C05.GATE: FeedRtmpMsg has no RtmpMsg parameter")
	}
	var cell *ssa.Alloc
	model.EachInstr(feed, func(in ssa.Instruction) {
		if st, ok := in.(*ssa.Store); ok && st.Val == ssa.Value(msgP) {
			if a, isA := st.Addr.(*ssa.Alloc); isA {
				cell = a
			}
		}
	})
	var rooted func(v ssa.Value) bool // v is an address inside / the value of the parameter
	rooted = func(v ssa.Value) bool {
		switch x := v.(type) {
		case *ssa.Parameter:
			return x == msgP
		case *ssa.Alloc:
			return cell != nil && x == cell
		case *ssa.FieldAddr:
			return rooted(x.X)
		case *ssa.Field:
			return rooted(x.X)
		case *ssa.UnOp:
			return x.Op == token.MUL && rooted(x.X)
		}
		return false
	}
	// no store into the parameter other than the spill
	model.EachInstr(feed, func(in ssa.Instruction) {
		if st, ok := in.(*ssa.Store); ok && rooted(st.Addr) && !(st.Addr == ssa.Value(cell) && st.Val == ssa.Value(msgP)) {
			r.Bad("C05.GATE", fkey(feed, "store", "msg"), p.InstrPos(st), "FeedRtmpMsg modifies its message parameter: the length gate no longer describes the message that reaches remux")
		}
	})
	isField := func(v ssa.Value, f *types.Var) bool {
		switch x := v.(type) {
		case *ssa.UnOp:
			if fa, ok := x.X.(*ssa.FieldAddr); ok && x.Op == token.MUL {
				return model.FieldOf(fa) == f && rooted(fa.X)
			}
		case *ssa.Field:
			st, _ := x.X.Type().Underlying().(*types.Struct)
			return st != nil && st.Field(x.Field) == f && rooted(x.X)
		}
		return false
	}
	isLenPayload := func(v ssa.Value) bool {
		c, ok := v.(*ssa.Call)
		if !ok {
			return false
		}
		b, isB := c.Call.Value.(*ssa.Builtin)
		return isB && b.Name() == "len" && isField(c.Call.Args[0], payloadF)
	}
	// edgeFacts: what following the k-th successor of b establishes
	notType := func(b *ssa.BasicBlock, k int, T int64) bool {
		iff, ok := b.Instrs[len(b.Instrs)-1].(*ssa.If)
		if !ok {
			return false
		}
		c, pol := model.StripNot(iff.Cond, k == 0)
		bo, isB := c.(*ssa.BinOp)
		if !isB || (bo.Op != token.EQL && bo.Op != token.NEQ) {
			return false
		}
		var kv int64
		var okK bool
		switch {
		case isField(bo.X, typeF):
			kv, okK = model.ConstInt(bo.Y)
		case isField(bo.Y, typeF):
			kv, okK = model.ConstInt(bo.X)
		}
		if !okK {
			return false
		}
		eq := pol == (bo.Op == token.EQL) // the edge establishes MsgTypeId == kv
		if eq {
			return kv != T
		}
		return kv == T
	}
	lenAtLeast := func(b *ssa.BasicBlock, k int, N int64) bool {
		iff, ok := b.Instrs[len(b.Instrs)-1].(*ssa.If)
		if !ok {
			return false
		}
		c, pol := model.StripNot(iff.Cond, k == 0)
		bo, isB := c.(*ssa.BinOp)
		if !isB {
			return false
		}
		op := bo.Op
		var kv int64
		var okK bool
		switch {
		case isLenPayload(bo.X):
			kv, okK = model.ConstInt(bo.Y)
		case isLenPayload(bo.Y):
			kv, okK = model.ConstInt(bo.X)
			switch op { // mirror: c op len  ==  len op' c
			case token.LSS:
				op = token.GTR
			case token.LEQ:
				op = token.GEQ
			case token.GTR:
				op = token.LSS
			case token.GEQ:
				op = token.LEQ
			}
		}
		if !okK {
			return false
		}
		if !pol { // negate
			switch op {
			case token.LSS:
				op = token.GEQ
			case token.LEQ:
				op = token.GTR
			case token.GTR:
				op = token.LEQ
			case token.GEQ:
				op = token.LSS
			case token.EQL:
				op = token.NEQ
			case token.NEQ:
				op = token.EQL
			}
		}
		switch op {
		case token.GEQ:
			return kv >= N
		case token.GTR:
			return kv+1 >= N
		case token.EQL:
			return kv >= N
		}
		return false
	}
	type use struct {
		in   ssa.Instruction
		what string
	}
	var uses []use
	for _, ci := range model.CallsTo(feed, remuxObj) {
		arg := ci.Common().Args[len(ci.Common().Args)-1]
		if !rooted(arg) {
			r.Bad("C05.GATE", fkey(feed, "arg", "remux"), p.InstrPos(ci), "FeedRtmpMsg passes something other than its own (gated) message to remux")
		}
		uses = append(uses, use{ci, "remux"})
	}
	for _, ci := range model.CallsTo(feed, anaObj) {
		uses = append(uses, use{ci, "doAnalyze"})
	}
	nApp := 0
	for _, fn := range lalFuncsIn(p, "pkg/remux") {
		for _, st := range model.FieldStores(fn, cacheF) {
			if model.IsNilConst(st.Val) {
				continue
			}
			nApp++
			if fn != feed {
				r.Bad("C05.GATE", fkey(fn, "store", "msgCache"), p.InstrPos(st), "r.msgCache is filled outside FeedRtmpMsg: its entries are replayed through remux without having passed the length gate")
				continue
			}
			// append(r.msgCache, X) with X = msg or msg.Clone()
			good := false
			if c, ok := st.Val.(*ssa.Call); ok {
				if b, isB := c.Call.Value.(*ssa.Builtin); isB && b.Name() == "append" && model.IsLoadOfField(c.Call.Args[0], cacheF) {
					good = appendedFromMsg(c.Call.Args[1], rooted)
				}
			}
			r.Check(good, "C05.GATE", fkey(fn, "append", "msgCache"), p.InstrPos(st), "cache entry is the gated message or its Clone()", "r.msgCache receives something other than the gated message / its Clone(): doAnalyze replays it through remux, which slices Payload[2:] / [5:] unconditionally")
			uses = append(uses, use{st, "msgCache append"})
		}
	}
	// in doAnalyze, remux is only fed r.msgCache entries
	for _, ci := range model.CallsTo(ana, remuxObj) {
		arg := ci.Common().Args[len(ci.Common().Args)-1]
		ok := false
		if ld, isL := arg.(*ssa.UnOp); isL && ld.Op == token.MUL {
			if ia, isI := ld.X.(*ssa.IndexAddr); isI && model.IsLoadOfField(ia.X, cacheF) {
				ok = true
			}
		}
		r.Check(ok, "C05.GATE", fkey(ana, "arg", "remux"), p.InstrPos(ci), "replays a cache entry", "doAnalyze passes remux something other than an r.msgCache entry")
	}
	for _, u := range uses {
		for _, need := range []struct {
			T    int64
			N    int64
			name string
		}{{audioK, 2, "audio"}, {videoK, 5, "video"}} {
			hit := model.PathQuery{
				StopEdge: func(b *ssa.BasicBlock, k int) bool { return notType(b, k, need.T) || lenAtLeast(b, k, need.N) },
				Target:   func(in ssa.Instruction) bool { return in == u.in },
			}.Find(feed)
			r.Check(hit == nil, "C05.GATE", fkey(feed, "gate", u.what+" "+need.name), p.InstrPos(u.in), "gated", fmt.Sprintf("a path through FeedRtmpMsg reaches %s with an %s message whose payload may be shorter than %d bytes: remux slices it without a check and panics", u.what, need.name, need.N))
		}
	}
	r.Count("gate_uses", len(uses))
	if len(uses) < 3 || nApp < 1 {
		r.Bad("C05.GATE", "floor", "", fmt.Sprintf("only %d gated uses / %d cache appends found", len(uses), nApp))
	}
}

// appendedFromMsg: the variadic argument of append holds exactly one element, the gated message
// or the result of Clone() on it.
func appendedFromMsg(v ssa.Value, rooted func(ssa.Value) bool) bool {
	sl, ok := v.(*ssa.Slice)
	if !ok {
		return false
	}
	arr, isA := sl.X.(*ssa.Alloc)
	if !isA {
		return false
	}
	n, good := 0, true
	for _, ref := range *arr.Referrers() {
		ia, isIA := ref.(*ssa.IndexAddr)
		if !isIA {
			continue
		}
		for _, r2 := range *ia.Referrers() {
			st, isS := r2.(*ssa.Store)
			if !isS {
				continue
			}
			n++
			switch x := st.Val.(type) {
			case *ssa.Call:
				o := model.CalleeObj(x.Common())
				if o == nil || o.Name() != "Clone" || len(x.Call.Args) == 0 || !rooted(x.Call.Args[0]) {
					good = false
				}
			default:
				if !rooted(st.Val) {
					good = false
				}
			}
		}
	}
	return n == 1 && good
}

// c05Split: the NAL lists produced by avc.SplitNaluAnnexb / SplitNaluAvcc are looked at only when
// the split reported no error. IterateNaluAnnexb hands its whole (possibly empty) input to the
// handler when it finds no start code and then returns an error; the users index nal[0].
func c05Split(p *model.Prog, r *report.Result) {
	r.Rule("C05.SPLIT", "at every call of avc.SplitNaluAnnexb / SplitNaluAvcc (direct, or through a function value whose only possible targets are these two) the returned list is used only in blocks dominated by the err == nil edge of a test of the error returned by the same call(s)")
	targets := map[*ssa.Function]bool{p.Func("pkg/avc", "SplitNaluAnnexb"): true, p.Func("pkg/avc", "SplitNaluAvcc"): true}
	n := 0
	for _, fn := range p.LalFuncs() {
		if targets[fn] {
			continue
		}
		var sites []*ssa.Call
		for _, ci := range model.AllCalls(fn) {
			c, ok := ci.(*ssa.Call)
			if !ok {
				continue
			}
			cs := p.Callees(c)
			hit, other := false, false
			for _, ce := range cs {
				if targets[ce] {
					hit = true
				} else {
					other = true
				}
			}
			if hit && !other {
				sites = append(sites, c)
			} else if hit {
				r.Bad("C05.SPLIT", fkey(fn, "site", "split"), p.InstrPos(c), "a call may reach SplitNalu* or something else: the error discipline of the list cannot be decided")
			}
		}
		if len(sites) == 0 {
			continue
		}
		// lists and errors: extracts of the sites and phis that merge only those
		lists, errs := map[ssa.Value]bool{}, map[ssa.Value]bool{}
		for _, c := range sites {
			for _, ref := range *c.Referrers() {
				if ex, ok := ref.(*ssa.Extract); ok {
					if ex.Index == 0 {
						lists[ex] = true
					} else {
						errs[ex] = true
					}
				}
			}
		}
		grow := func(set map[ssa.Value]bool) {
			for changed := true; changed; {
				changed = false
				for v := range set {
					for _, ref := range *v.Referrers() {
						ph, ok := ref.(*ssa.Phi)
						if !ok || set[ph] {
							continue
						}
						all := true
						for _, e := range ph.Edges {
							if !set[e] && !model.IsNilConst(e) {
								all = false
							}
						}
						if all {
							set[ph] = true
							changed = true
						}
					}
				}
			}
		}
		grow(lists)
		grow(errs)
		// blocks entered only over an "err == nil" edge
		var okBlocks []*ssa.BasicBlock
		for _, b := range fn.Blocks {
			iff, ok := b.Instrs[len(b.Instrs)-1].(*ssa.If)
			if !ok {
				continue
			}
			c, pol := model.StripNot(iff.Cond, true)
			bo, isB := c.(*ssa.BinOp)
			if !isB || (bo.Op != token.EQL && bo.Op != token.NEQ) {
				continue
			}
			var e ssa.Value
			switch {
			case model.IsNilConst(bo.Y):
				e = bo.X
			case model.IsNilConst(bo.X):
				e = bo.Y
			}
			if e == nil || !errs[e] {
				continue
			}
			nilOnTrue := pol == (bo.Op == token.EQL)
			succ := b.Succs[1]
			if nilOnTrue {
				succ = b.Succs[0]
			}
			if len(succ.Preds) == 1 {
				okBlocks = append(okBlocks, succ)
			}
		}
		for l := range lists {
			for _, ref := range *l.Referrers() {
				if ph, ok := ref.(*ssa.Phi); ok && lists[ph] {
					continue
				}
				if _, ok := ref.(*ssa.DebugRef); ok {
					continue
				}
				n++
				dom := false
				for _, ob := range okBlocks {
					if ob.Dominates(ref.Block()) {
						dom = true
					}
				}
				r.Check(dom, "C05.SPLIT", fkey(fn, "use", "nal list"), p.InstrPos(ref), "list used behind err == nil", "the NAL list returned by SplitNalu* is used without (or before) checking the error of the same call: on an input with no start code the list holds the whole, possibly empty, input and nal[0] panics")
			}
		}
	}
	r.Count("split_list_uses", n)
	if n < 4 {
		r.Bad("C05.SPLIT", "floor", "", fmt.Sprintf("only %d uses of SplitNalu* lists found", n))
	}
}
