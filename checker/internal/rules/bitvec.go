package rules

import (
	"go/token"
	"go/types"

	"golang.org/x/tools/go/ssa"

	"lalverif/internal/model"
)

// Symbolic bit vectors: the value of an integer expression as 64 bit terms, each a constant,
// a named bit of a source value, or unknown. Enough for shift/mask/or packing code.

type bvBit struct {
	Kind byte // '0', '1', 's' (source bit), '?' unknown
	Src  int  // index of the source
	Bit  int
}

type bitvec [64]bvBit

func bvConst(k uint64) bitvec {
	var v bitvec
	for i := 0; i < 64; i++ {
		if k&(1<<uint(i)) != 0 {
			v[i] = bvBit{Kind: '1'}
		} else {
			v[i] = bvBit{Kind: '0'}
		}
	}
	return v
}

func bvUnknown() bitvec {
	var v bitvec
	for i := range v {
		v[i] = bvBit{Kind: '?'}
	}
	return v
}

func typeWidth(t types.Type) int {
	if b, ok := t.Underlying().(*types.Basic); ok {
		switch b.Kind() {
		case types.Uint8, types.Int8:
			return 8
		case types.Uint16, types.Int16:
			return 16
		case types.Uint32, types.Int32:
			return 32
		}
	}
	return 64
}

func bvTrunc(v bitvec, w int) bitvec {
	for i := w; i < 64; i++ {
		v[i] = bvBit{Kind: '0'}
	}
	return v
}

// bvEval evaluates v; srcs lists the source values (matched by identity or parameter cell).
func bvEval(v ssa.Value, srcs []ssa.Value, d int) bitvec {
	if d > 40 {
		return bvUnknown()
	}
	for si, s := range srcs {
		if v == s || (paramCell(v) != nil && paramCell(v) == paramCell(s)) {
			var out bitvec
			w := typeWidth(s.Type())
			for i := 0; i < 64; i++ {
				if i < w {
					out[i] = bvBit{Kind: 's', Src: si, Bit: i}
				} else {
					out[i] = bvBit{Kind: '0'}
				}
			}
			return out
		}
	}
	if k, ok := model.ConstInt(v); ok {
		return bvTrunc(bvConst(uint64(k)), typeWidth(v.Type()))
	}
	switch x := v.(type) {
	case *ssa.Convert:
		in := bvEval(x.X, srcs, d+1)
		w := typeWidth(x.Type())
		if typeWidth(x.X.Type()) < w {
			w = typeWidth(x.X.Type()) // zero extension of unsigned values (the packers use unsigned types)
		}
		return bvTrunc(in, w)
	case *ssa.ChangeType:
		return bvEval(x.X, srcs, d+1)
	case *ssa.BinOp:
		w := typeWidth(x.Type())
		switch x.Op {
		case token.SHL, token.SHR:
			k, ok := model.ConstInt(x.Y)
			if !ok || k < 0 || k > 63 {
				return bvUnknown()
			}
			in := bvEval(x.X, srcs, d+1)
			var out bitvec
			for i := 0; i < 64; i++ {
				out[i] = bvBit{Kind: '0'}
			}
			for i := 0; i < 64; i++ {
				j := i + int(k)
				if x.Op == token.SHR {
					j = i - int(k)
				}
				if j >= 0 && j < 64 {
					out[j] = in[i]
				}
			}
			return bvTrunc(out, w)
		case token.AND, token.OR, token.XOR:
			a, b := bvEval(x.X, srcs, d+1), bvEval(x.Y, srcs, d+1)
			var out bitvec
			for i := 0; i < 64; i++ {
				p, q := a[i], b[i]
				switch x.Op {
				case token.AND:
					switch {
					case p.Kind == '0' || q.Kind == '0':
						out[i] = bvBit{Kind: '0'}
					case p.Kind == '1':
						out[i] = q
					case q.Kind == '1':
						out[i] = p
					case p == q:
						out[i] = p
					default:
						out[i] = bvBit{Kind: '?'}
					}
				case token.OR:
					switch {
					case p.Kind == '1' || q.Kind == '1':
						out[i] = bvBit{Kind: '1'}
					case p.Kind == '0':
						out[i] = q
					case q.Kind == '0':
						out[i] = p
					case p == q:
						out[i] = p
					default:
						out[i] = bvBit{Kind: '?'}
					}
				default:
					switch {
					case p.Kind == '0':
						out[i] = q
					case q.Kind == '0':
						out[i] = p
					default:
						out[i] = bvBit{Kind: '?'}
					}
				}
			}
			return bvTrunc(out, w)
		}
	}
	return bvUnknown()
}

// byteStores evaluates, for a function that fills out[k] (k constant) with straight-line stores,
// the final bit vector of every stored byte (the last store per index in block order wins; only
// single-block functions are handled, ok=false otherwise).
func byteStores(fn *ssa.Function, out ssa.Value, srcs []ssa.Value) (map[int64]bitvec, bool) {
	if len(fn.Blocks) != 1 {
		return nil, false
	}
	res := map[int64]bitvec{}
	for _, in := range fn.Blocks[0].Instrs {
		st, ok := in.(*ssa.Store)
		if !ok {
			continue
		}
		ia, ok := st.Addr.(*ssa.IndexAddr)
		if !ok || ia.X != out {
			continue
		}
		k, isK := model.ConstInt(ia.Index)
		if !isK {
			return nil, false
		}
		res[k] = bvTrunc(bvEval(st.Val, srcs, 0), 8)
	}
	return res, true
}
