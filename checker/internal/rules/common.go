package rules

import (
	"fmt"
	"go/token"
	"go/types"
	"strings"

	"golang.org/x/tools/go/ssa"

	"lalverif/internal/model"
)

// fkey builds the construct part of an obligation key: function name + kind + expression.
func fkey(fn *ssa.Function, kind, expr string) string {
	return model.FnName(fn) + "|" + kind + "|" + expr
}

// paramCell resolves v to the *ssa.Parameter it denotes: the parameter itself, or the local
// cell the parameter was spilled into (go/ssa spills address-taken parameters at entry).
func paramCell(v ssa.Value) *ssa.Parameter {
	switch x := v.(type) {
	case *ssa.Parameter:
		return x
	case *ssa.Alloc:
		var p *ssa.Parameter
		n := 0
		if refs := x.Referrers(); refs != nil {
			for _, r := range *refs {
				if st, ok := r.(*ssa.Store); ok && st.Addr == x {
					n++
					if pp, ok := st.Val.(*ssa.Parameter); ok {
						p = pp
					}
				}
			}
		}
		if n == 1 {
			return p
		}
	case *ssa.UnOp:
		if x.Op == token.MUL {
			return paramCell(x.X)
		}
	}
	return nil
}

// fieldPath describes a load `base.f1.f2...` (through FieldAddr/Field chains and loads).
type fieldPath struct {
	Base   ssa.Value
	Fields []*types.Var
}

func (fp fieldPath) String() string {
	var s []string
	for _, f := range fp.Fields {
		s = append(s, f.Name())
	}
	return strings.Join(s, ".")
}

// loadPath decomposes a value that is a load of a (nested) struct field.
func loadPath(v ssa.Value) (fieldPath, bool) {
	var fields []*types.Var
	cur := v
	for {
		switch x := cur.(type) {
		case *ssa.UnOp:
			if x.Op != token.MUL {
				goto done
			}
			cur = x.X
		case *ssa.FieldAddr:
			fields = append([]*types.Var{model.FieldOf(x)}, fields...)
			cur = x.X
		case *ssa.Field:
			fields = append([]*types.Var{model.FieldOf(x)}, fields...)
			cur = x.X
		default:
			goto done
		}
	}
done:
	if len(fields) == 0 {
		return fieldPath{}, false
	}
	return fieldPath{Base: cur, Fields: fields}, true
}

// isLoadOfPath reports whether v loads exactly base.fields... where base resolves to the
// given root value (or the cell the root parameter was spilled to).
func isLoadOfPath(v ssa.Value, root ssa.Value, fields ...*types.Var) bool {
	fp, ok := loadPath(v)
	if !ok || len(fp.Fields) != len(fields) {
		return false
	}
	for i := range fields {
		if fp.Fields[i] != fields[i] {
			return false
		}
	}
	return sameRoot(fp.Base, root)
}

func sameRoot(a, b ssa.Value) bool {
	if a == b {
		return true
	}
	pa, pb := paramCell(a), paramCell(b)
	return pa != nil && pa == pb
}

// nilTest recognises `x != nil` / `x == nil` and returns x and whether the true edge means non-nil.
func nilTest(cond ssa.Value) (x ssa.Value, trueIsNonNil bool, ok bool) {
	b, isb := cond.(*ssa.BinOp)
	if !isb || (b.Op != token.NEQ && b.Op != token.EQL) {
		return nil, false, false
	}
	var other ssa.Value
	switch {
	case model.IsNilConst(b.Y):
		other = b.X
	case model.IsNilConst(b.X):
		other = b.Y
	default:
		return nil, false, false
	}
	return other, b.Op == token.NEQ, true
}

// iterOrigin traces a value back (through loads, field addresses, extracts) to the
// `next` instruction of the range loop that produced it.
func iterOrigin(v ssa.Value) *ssa.Next {
	for i := 0; i < 20 && v != nil; i++ {
		switch x := v.(type) {
		case *ssa.Next:
			return x
		case *ssa.Extract:
			v = x.Tuple
		case *ssa.UnOp:
			v = x.X
		case *ssa.FieldAddr:
			v = x.X
		case *ssa.Field:
			v = x.X
		default:
			return nil
		}
	}
	return nil
}

// rangedField returns the struct field a `next` iterates over (range over a load of the field).
func rangedField(n *ssa.Next) *types.Var {
	if n == nil {
		return nil
	}
	r, ok := n.Iter.(*ssa.Range)
	if !ok {
		return nil
	}
	return model.LoadedField(r.X)
}

// receiver returns the receiver argument of a method call (static or invoke).
func receiver(c *ssa.CallCommon) ssa.Value {
	if c.IsInvoke() {
		return c.Value
	}
	if len(c.Args) > 0 && c.Signature().Recv() != nil {
		return c.Args[0]
	}
	return nil
}

// boolFieldTest: cond (after stripping NOT) is a load of a bool field; returns field and base.
func boolFieldTest(cond ssa.Value) (field *types.Var, base ssa.Value, ok bool) {
	fp, isLoad := loadPath(cond)
	if !isLoad {
		return nil, nil, false
	}
	// the base of the last hop
	switch x := cond.(type) {
	case *ssa.UnOp:
		if fa, ok := x.X.(*ssa.FieldAddr); ok {
			return fp.Fields[len(fp.Fields)-1], fa.X, true
		}
	case *ssa.Field:
		return fp.Fields[len(fp.Fields)-1], x.X, true
	}
	return nil, nil, false
}

// guardedByFieldFlag reports whether in is dominated by an edge on which base.field == want.
func guardedByFieldFlag(in ssa.Instruction, field *types.Var, base ssa.Value, want bool) bool {
	return model.GuardedBy(in, func(c ssa.Value, pol bool) bool {
		f, b, ok := boolFieldTest(c)
		if ok && f == field && sameValue(b, base) && pol == want {
			return true
		}
		// the test sits in a predicate helper of lal, pred(base): on its false edge the field is
		// false when pred returns true on every path on which the field is true
		if call, isC := c.(*ssa.Call); isC && !want && !pol && len(call.Call.Args) == 1 && sameValue(call.Call.Args[0], base) {
			if ce := call.Call.StaticCallee(); ce != nil && model.IsLal(ce) && len(ce.Blocks) > 0 {
				return predicateTrueWhenField(ce, field)
			}
		}
		return false
	})
}

// predicateTrueWhenField: the one-argument boolean function returns true on every path when the
// given boolean field (of its argument) is true - path enumeration with the field's loads fixed.
func predicateTrueWhenField(fn *ssa.Function, field *types.Var) bool {
	used := false
	ev := &cEval{fn: fn, maxVisits: 3, maxPaths: 256}
	ev.seed = func(v ssa.Value) (int64, bool) {
		if f := model.LoadedField(v); f != nil && f == field {
			used = true
			return 1, true
		}
		return 0, false
	}
	ev.run()
	if ev.undecided != "" {
		return false
	}
	n := 0
	for _, pa := range ev.paths {
		if pa.ret == nil {
			continue
		}
		rv := model.ReturnValues(pa.ret)
		if len(rv) != 1 {
			return false
		}
		if v, known := ev.val(pa.env, rv[0]); !known || v != 1 {
			return false
		}
		n++
	}
	return n > 0 && used
}

// sameValue: identical SSA value, or both loads of the same field path from the same root
// with no obvious aliasing concern (used for session pointers re-loaded from a struct).
func sameValue(a, b ssa.Value) bool {
	if a == b {
		return true
	}
	pa, oka := loadPath(a)
	pb, okb := loadPath(b)
	if oka && okb && len(pa.Fields) == len(pb.Fields) && sameRoot(pa.Base, pb.Base) {
		for i := range pa.Fields {
			if pa.Fields[i] != pb.Fields[i] {
				return false
			}
		}
		return true
	}
	return false
}

func storeBase(st *ssa.Store) ssa.Value {
	if fa, ok := st.Addr.(*ssa.FieldAddr); ok {
		return fa.X
	}
	return nil
}

func describe(v ssa.Value) string {
	if v == nil {
		return "<nil>"
	}
	if fp, ok := loadPath(v); ok {
		return fmt.Sprintf("%s.%s", v0name(fp.Base), fp.String())
	}
	return v.Name() + "=" + v.String()
}

func v0name(v ssa.Value) string {
	if p := paramCell(v); p != nil {
		return p.Name()
	}
	return v.Name()
}

// lenOf recognises len(x) builtin calls.
func lenOf(v ssa.Value) (ssa.Value, bool) {
	c, ok := v.(*ssa.Call)
	if !ok {
		return nil, false
	}
	b, ok := c.Call.Value.(*ssa.Builtin)
	if !ok || b.Name() != "len" || len(c.Call.Args) != 1 {
		return nil, false
	}
	return c.Call.Args[0], true
}

// lalFuncsIn returns the source functions (and closures) of the given lal packages.
func lalFuncsIn(p *model.Prog, pkgs ...string) []*ssa.Function {
	var out []*ssa.Function
	for _, f := range p.LalFuncs() {
		pk := model.FnPkg(f)
		for _, s := range pkgs {
			if pk.Path() == model.LalPath+"/"+s {
				out = append(out, f)
			}
		}
	}
	return out
}
