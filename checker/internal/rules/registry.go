// Package rules holds the rule instances per property.
package rules

import (
	"sort"

	"lalverif/internal/model"
	"lalverif/internal/report"
)

type PropFunc func(p *model.Prog, r *report.Result)

var registry = map[string]PropFunc{}

func register(id string, f PropFunc) {
	registry[id] = func(p *model.Prog, r *report.Result) {
		f(p, r)
		w6Counterpart(p, r, id)
		w7DeadLocal(p, r, id)
		w7NilOnErr(p, r, id)
	}
}

func Get(id string) PropFunc { return registry[id] }

func IDs() []string {
	var out []string
	for k := range registry {
		out = append(out, k)
	}
	sort.Strings(out)
	return out
}
