// Package rules holds the rule instances per property.
package rules

import (
	"sort"

	"lalverif/internal/model"
	"lalverif/internal/report"
)

type PropFunc func(p *model.Prog, r *report.Result)

var registry = map[string]PropFunc{}

func register(id string, f PropFunc) { registry[id] = f }

func Get(id string) PropFunc { return registry[id] }

func IDs() []string {
	var out []string
	for k := range registry {
		out = append(out, k)
	}
	sort.Strings(out)
	return out
}
