package rules

import (
	"fmt"

	"golang.org/x/tools/go/ssa"

	"lalverif/internal/model"
	"lalverif/internal/report"
)

var retentionCache = map[*model.Prog]*retention{}

type retRoot struct {
	fn  *ssa.Function
	prm int
}

// retentionRule reports every long-lived store that may keep a reference into the buffer of the
// message / packet handed to one of the roots. The expected number of reports is zero; the rule
// fails as well when the propagation visited fewer functions than confirmed by hand.
func retentionRule(p *model.Prog, r *report.Result, rule string, roots []retRoot, minReached int) {
	rt := retentionCache[p]
	if rt == nil {
		rt = &retention{p: p}
		rt.computeAlias()
		retentionCache[p] = rt
	}
	total := 0
	for _, rr := range roots {
		evs := rt.run(rr.fn, rr.prm, nil)
		total += rt.Reached
		for _, ev := range evs {
			r.Bad(rule, fkey(ev.Fn, "retain", ev.What), p.InstrPos(ev.Store),
				"a reference into the caller's buffer (parameter "+rr.fn.Params[rr.prm].Name()+" of "+model.FnName(rr.fn)+") is stored in "+ev.What+" and outlives the call: the producer re-uses that buffer for its next message (rtmp pull sessions, rtp receive buffers), so the retained bytes change under the holder")
		}
		r.Ok(rule, fkey(rr.fn, "retain", "propagated"), p.Pos(rr.fn.Pos()), fmt.Sprintf("%d functions reached with a reference to the buffer; %d long-lived stores of it", rt.Reached, len(evs)))
	}
	r.Count("retention_functions_reached", total)
	if total < minReached {
		r.Bad(rule, "floor", "", fmt.Sprintf("the buffer reference reached only %d functions (at least %d expected): the propagation is not seeing the fan-out", total, minReached))
	}
}
