package rules

import (
	"fmt"
	"go/token"
	"go/types"

	"golang.org/x/tools/go/ssa"

	"lalverif/internal/model"
	"lalverif/internal/report"
)

// c04Buf: the class invariant of rtmp.Buffer (0 <= readPos <= writePos <= len(core)) that engine B
// takes as a reviewed invariant, decided store by store.
func c04Buf(p *model.Prog, r *report.Result) {
	r.Rule("C04.BUF", "rtmp.Buffer's fields core/readPos/writePos are stored only by the type's own methods and NewBuffer, and every store has one of the invariant-preserving forms: core = make([]byte, n); a position = 0; writePos += k directly after grow(k) (k = len(p) or 1) in the same function; readPos += m where the function panics for m > Len(); writePos = writePos-readPos together with readPos = 0 and a fresh core in grow; writePos = c in ModWritePos, whose callers all pass a constant not above the constant size every NewBuffer call allocates")
	coreF := p.Field("pkg/rtmp", "Buffer", "core")
	rposF := p.Field("pkg/rtmp", "Buffer", "readPos")
	wposF := p.Field("pkg/rtmp", "Buffer", "writePos")
	growObj := p.MethodObj("pkg/rtmp", "Buffer", "grow")
	lenObj := p.MethodObj("pkg/rtmp", "Buffer", "Len")
	mwp := p.Method("pkg/rtmp", "Buffer", "ModWritePos")
	mwpObj := p.MethodObj("pkg/rtmp", "Buffer", "ModWritePos")
	newBuf := p.Func("pkg/rtmp", "NewBuffer")
	newBufObj := p.FuncObj("pkg/rtmp", "NewBuffer")
	bufT := p.Named("pkg/rtmp", "Buffer")

	isBufMethod := func(fn *ssa.Function) bool {
		if fn == newBuf {
			return true
		}
		rc := fn.Signature.Recv()
		if rc == nil {
			return false
		}
		t := rc.Type()
		if pt, ok := t.(*types.Pointer); ok {
			t = pt.Elem()
		}
		return types.Identical(t, bufT)
	}
	isLoad := func(v ssa.Value, f *types.Var) bool { return model.IsLoadOfField(v, f) }
	// grewBy: a call b.grow(k) dominates st, with k the same value as add
	grewBy := func(fn *ssa.Function, st ssa.Instruction, add ssa.Value) bool {
		for _, g := range model.CallsTo(fn, growObj) {
			if !model.InstrDominates(g, st) {
				continue
			}
			a := g.Common().Args[1]
			if a == add {
				return true
			}
			if k1, ok1 := model.ConstInt(a); ok1 {
				if k2, ok2 := model.ConstInt(add); ok2 && k1 == k2 {
					return true
				}
			}
			// len(p) computed twice
			if c1, ok1 := a.(*ssa.Call); ok1 {
				if c2, ok2 := add.(*ssa.Call); ok2 {
					b1, isB1 := c1.Call.Value.(*ssa.Builtin)
					b2, isB2 := c2.Call.Value.(*ssa.Builtin)
					if isB1 && isB2 && b1.Name() == "len" && b2.Name() == "len" && c1.Call.Args[0] == c2.Call.Args[0] {
						return true
					}
				}
			}
		}
		return false
	}
	nStores := 0
	for _, fn := range p.LalFuncs() {
		for _, f := range []*types.Var{coreF, rposF, wposF} {
			for _, st := range model.FieldStores(fn, f) {
				nStores++
				key := fkey(fn, "store", f.Name())
				if !isBufMethod(fn) {
					r.Bad("C04.BUF", key, p.InstrPos(st), "rtmp.Buffer."+f.Name()+" is stored outside the type's methods: 0 <= readPos <= writePos <= len(core) is no longer maintained by the type, and Bytes()/Write index core with these positions")
					continue
				}
				ok := false
				why := ""
				switch f {
				case coreF:
					_, isMake := st.Val.(*ssa.MakeSlice)
					ok = isMake
					if isMake {
						ms := st.Val.(*ssa.MakeSlice)
						ok = ms.Len == ms.Cap
					}
					why = "core must be a fresh make([]byte, n) with len == cap"
				case rposF, wposF:
					if k, isK := model.ConstInt(st.Val); isK {
						ok = k == 0
						why = "a constant position other than 0"
						break
					}
					if bo, isB := st.Val.(*ssa.BinOp); isB {
						switch {
						case bo.Op == token.ADD && f == wposF && isLoad(bo.X, wposF):
							ok = grewBy(fn, st, bo.Y)
							why = "writePos advanced by an amount that no dominating grow() call made room for"
						case bo.Op == token.ADD && f == rposF && isLoad(bo.X, rposF):
							// readPos += m: the function compares m with Len() and panics when it is larger
							ok = false
							for _, b := range fn.Blocks {
								iff, isIf := b.Instrs[len(b.Instrs)-1].(*ssa.If)
								if !isIf {
									continue
								}
								c, isC := iff.Cond.(*ssa.BinOp)
								if !isC || c.Op != token.GTR || c.X != bo.Y {
									continue
								}
								lc, isL := c.Y.(*ssa.Call)
								if !isL || !model.SameFunc(model.CalleeObj(lc.Common()), lenObj) {
									continue
								}
								// the true branch panics (ssa.Panic or the logger's Panicf, which does not return)
								panics := false
								for _, in := range b.Succs[0].Instrs {
									if _, isP := in.(*ssa.Panic); isP {
										panics = true
									}
									if ci, isC := in.(ssa.CallInstruction); isC {
										if n := calleeName(ci.Common()); n == "Panicf" || n == "Panic" {
											panics = true
										}
									}
								}
								if panics && b.Dominates(st.Block()) {
									ok = true
								}
							}
							why = "readPos advanced by an amount not checked against Len()"
						case bo.Op == token.SUB && f == wposF && isLoad(bo.X, wposF) && isLoad(bo.Y, rposF):
							// compaction in grow: needs the fresh core and readPos = 0 in the same block
							hasCore, hasZero := false, false
							for _, in := range st.Block().Instrs {
								if s2, isS := in.(*ssa.Store); isS {
									if model.FieldOf(s2.Addr) == coreF {
										hasCore = true
									}
									if model.FieldOf(s2.Addr) == rposF {
										if k, isK := model.ConstInt(s2.Val); isK && k == 0 {
											hasZero = true
										}
									}
								}
							}
							ok = hasCore && hasZero
							why = "writePos = writePos-readPos without the matching readPos = 0 and fresh core"
						default:
							why = "a position computed in an unrecognised way"
						}
						break
					}
					if _, isP := st.Val.(*ssa.Parameter); isP && fn == mwp && f == wposF {
						ok = true // the callers are checked below
						break
					}
					why = "a position computed in an unrecognised way"
				}
				r.Check(ok, "C04.BUF", key, p.InstrPos(st), "invariant-preserving store", "rtmp.Buffer."+f.Name()+": "+why+": Bytes()/Write/WriteTo slice core with the positions and panic once writePos exceeds len(core) or readPos exceeds writePos")
			}
		}
	}
	// ModWritePos(c) callers and NewBuffer(n) callers
	minNew := int64(-1)
	nNew := 0
	for _, fn := range p.LalFuncs() {
		for _, ci := range model.CallsTo(fn, newBufObj) {
			nNew++
			k, isK := model.ConstInt(ci.Common().Args[0])
			if !isK {
				r.Bad("C04.BUF", fkey(fn, "new", "NewBuffer"), p.InstrPos(ci), "NewBuffer is called with a non-constant size: the room ModWritePos(12) relies on is not established")
				continue
			}
			if minNew < 0 || k < minNew {
				minNew = k
			}
		}
	}
	nMod := 0
	for _, fn := range p.LalFuncs() {
		for _, ci := range model.CallsTo(fn, mwpObj) {
			nMod++
			k, isK := model.ConstInt(ci.Common().Args[1])
			r.Check(isK && k >= 0 && k <= minNew, "C04.BUF", fkey(fn, "modwritepos", "arg"), p.InstrPos(ci), "constant position inside the initial allocation", fmt.Sprintf("ModWritePos is called with a position that is not a constant within the smallest NewBuffer allocation (%d bytes): writePos may exceed len(core)", minNew))
		}
	}
	// grow(n): the doubling loop ends only when the new capacity minus what is buffered holds n
	grow := p.Method("pkg/rtmp", "Buffer", "grow")
	growOK := false
	for _, l := range model.Loops(grow) {
		iff, ok := l.Header.Instrs[len(l.Header.Instrs)-1].(*ssa.If)
		if !ok {
			continue
		}
		bo, isB := iff.Cond.(*ssa.BinOp)
		if !isB || bo.Op != token.LSS || bo.Y != ssa.Value(grow.Params[1]) {
			continue
		}
		terms, _ := linTerms(bo.X)
		hasNew, hasLen := false, false
		for v, c := range terms {
			if ph, isP := v.(*ssa.Phi); isP && ph.Block() == l.Header && c == 1 {
				hasNew = true
			}
			if call, isC := v.(*ssa.Call); isC && c == -1 && model.SameFunc(model.CalleeObj(call.Common()), lenObj) {
				hasLen = true
			}
			if c == -1 && model.IsLoadOfField(v, wposF) {
				hasLen = true
			}
		}
		growOK = hasNew && hasLen
	}
	r.Check(growOK, "C04.BUF", fkey(grow, "grow", "room-for-buffered-plus-n"), p.Pos(grow.Pos()), "loop ends when newLen - Len() >= n", "grow()'s enlarging loop does not subtract what the buffer already holds: for a write that fits the new capacity alone but not together with the buffered bytes, Write copies short and writePos passes the capacity (slice bounds panic in the packer for stream names of 481..512, 993..1024 ... bytes)")
	r.Count("buffer_field_stores", nStores)
	r.Count("modwritepos_sites", nMod)
	if nStores < 9 || nMod < 10 || nNew < 1 {
		r.Bad("C04.BUF", "floor", "", fmt.Sprintf("only %d Buffer field stores / %d ModWritePos sites / %d NewBuffer sites found", nStores, nMod, nNew))
	}
}

func calleeName(c *ssa.CallCommon) string {
	if c.IsInvoke() {
		return c.Method.Name()
	}
	if o := model.CalleeObj(c); o != nil {
		return o.Name()
	}
	return ""
}
