package rules

import (
	"fmt"
	"go/token"
	"go/types"
	"sort"

	"golang.org/x/tools/go/ssa"

	"lalverif/internal/model"
	"lalverif/internal/report"
)

func init() { register("C18", c18) }

func c18(p *model.Prog, r *report.Result) {
	r.Explanation = "Decides the structural clauses of 'AMF0 exact, total, bounded': every index/slice in the AMF0 readers is proved in bounds by dominating length guards (R1, engine B); the recursive container readers form a depth-guarded cycle (R2); every type marker the writers can put inside a container has a case in the reader's dispatch (R3); the peer-chosen element counts of ECMA/strict arrays drive loops whose every iteration passes a reader that fails on an exhausted input (R4); stripping @setDataFrame returns the input from exactly the consumed length of the leading string, adding it leaves the input bytes unmodified behind the prefix (R5)."
	r.NotDecided = []string{"value round trip (numbers, strings, nesting)", "that decoding consumes exactly the encoded length as a value", "that every successful element read consumes at least one byte (read off the constant lengths 9/2/1/3+ by inspection; assumed)"}
	amfT := p.Named("pkg/rtmp", "amf0")
	_ = amfT
	r.Count("functions_analysed", len(lalFuncsIn(p, "pkg/rtmp")))

	// ---------------------------------------------------------------- R1 (engine B)
	c18r1(p, r)

	// ---------------------------------------------------------------- R2
	r.Rule("C18.R2", "every call-graph cycle reachable from the AMF0 entry points (ReadObject, ReadArray, ReadStrictArray, ReadObjectOrArray, ParseMetadata) is depth-guarded: a depth parameter is threaded through every in-cycle call, tested against a constant with an early return, and increased round every cycle")
	var roots []*ssa.Function
	for _, n := range []string{"ReadObject", "ReadArray", "ReadStrictArray", "ReadObjectOrArray"} {
		roots = append(roots, p.Method("pkg/rtmp", "amf0", n))
	}
	roots = append(roots, p.Func("pkg/rtmp", "ParseMetadata"))
	sccs := recursiveSCCs(p, roots)
	for _, s := range sccs {
		ok, why := s.depthGuarded()
		r.Check(ok, "C18.R2", "scc|"+s.Name(), p.Pos(s.Funcs[0].Pos()), why, "unbounded recursion: "+why+" — nesting depth is chosen by the peer (3 bytes per level), the goroutine stack is exhausted")
	}
	if len(sccs) < 1 {
		r.Bad("C18.R2", "floor", "", "no recursive cycle found among the AMF0 readers: the container readers this rule anchors on are gone")
	}
	r.Count("recursive_sccs", len(sccs))

	// ---------------------------------------------------------------- R3
	r.Rule("C18.R3", "the set of type markers the value writers called from WriteObject can emit (constant first bytes of WriteString, WriteNumber, WriteBoolean, WriteNull) is a subset of the markers amf0.read dispatches on")
	readFn := p.Method("pkg/rtmp", "amf0", "read")
	cases := map[int64]bool{}
	model.EachInstr(readFn, func(in ssa.Instruction) {
		if _, k, op, _, ok := constCmp(valueOf(in)); ok && op == token.EQL {
			cases[k] = true
		}
	})
	writeObj := p.Method("pkg/rtmp", "amf0", "WriteObject")
	emitted := map[int64]string{}
	seenW := map[*ssa.Function]bool{}
	var collect func(fn *ssa.Function, top bool)
	collect = func(fn *ssa.Function, top bool) {
		if seenW[fn] || len(fn.Blocks) == 0 {
			return
		}
		seenW[fn] = true
		if !top {
			// constant bytes stored at index 0 of a 1-byte array that is then written
			model.EachInstr(fn, func(in ssa.Instruction) {
				st, ok := in.(*ssa.Store)
				if !ok {
					return
				}
				ia, ok := st.Addr.(*ssa.IndexAddr)
				if !ok {
					return
				}
				al, ok := ia.X.(*ssa.Alloc)
				if !ok {
					return
				}
				at, ok := al.Type().Underlying().(*types.Pointer).Elem().Underlying().(*types.Array)
				if !ok || at.Len() != 1 {
					return
				}
				if k, isK := model.ConstInt(st.Val); isK {
					emitted[k] = model.FnName(fn)
				}
			})
		}
		for _, ci := range model.AllCalls(fn) {
			if callee := ci.Common().StaticCallee(); callee != nil && callee.Signature.Recv() != nil && model.FnPkg(callee) == model.FnPkg(fn) && len(callee.Name()) > 5 && callee.Name()[:5] == "Write" {
				collect(callee, false)
			}
		}
	}
	collect(writeObj, true)
	var ks []int64
	for k := range emitted {
		ks = append(ks, k)
	}
	sort.Slice(ks, func(i, j int) bool { return ks[i] < ks[j] })
	for _, k := range ks {
		r.Check(cases[k], "C18.R3", fmt.Sprintf("rtmp.amf0.read|marker|0x%02x", k), p.Pos(readFn.Pos()), fmt.Sprintf("marker 0x%02x (emitted by %s) has a case in amf0.read", k, emitted[k]), fmt.Sprintf("marker 0x%02x emitted by %s inside objects has no case in amf0.read: a value lal itself encoded cannot be decoded", k, emitted[k]))
	}
	if len(ks) < 4 {
		r.Bad("C18.R3", "floor", "", "fewer than 4 writer markers found")
	}

	// ---------------------------------------------------------------- R4
	r.Rule("C18.R4", "in readArray/readStrictArray the loop bounded by the peer-chosen 32-bit count passes, on every iteration, a call of amf0.read (or ReadStringWithoutType) whose error result leaves the loop; amf0.read starts with a remaining-length test that fails on an exhausted input")
	readStr := p.MethodObj("pkg/rtmp", "amf0", "ReadStringWithoutType")
	readObj := p.MethodObj("pkg/rtmp", "amf0", "read")
	// an element reader: amf0.read / ReadStringWithoutType, or a helper of the package in which
	// every path to a success return (nil error) passes such a call (the key/value read extracted
	// into a function)
	var isReader func(ci ssa.CallInstruction, d int) bool
	isReader = func(ci ssa.CallInstruction, d int) bool {
		o := model.CalleeObj(ci.Common())
		if model.SameFunc(o, readObj) || model.SameFunc(o, readStr) {
			return true
		}
		ce := ci.Common().StaticCallee()
		if ce == nil || ce.Blocks == nil || !model.IsLal(ce) || d >= 2 {
			return false
		}
		res := ce.Signature.Results()
		if res.Len() == 0 || res.At(res.Len()-1).Type().String() != "error" {
			return false
		}
		hasReader := false
		for _, c2 := range model.AllCalls(ce) {
			if isReader(c2, d+1) {
				hasReader = true
			}
		}
		if !hasReader {
			return false
		}
		miss := model.PathQuery{
			Stop: func(in ssa.Instruction) bool { c2, ok := in.(ssa.CallInstruction); return ok && isReader(c2, d+1) },
			Target: func(in ssa.Instruction) bool {
				ret, ok := in.(*ssa.Return)
				if !ok {
					return false
				}
				rv := model.ReturnValues(ret)
				return len(rv) > 0 && model.IsNilConst(rv[len(rv)-1])
			}}.Find(ce)
		return miss == nil
	}
	for _, name := range []string{"readArray", "readStrictArray"} {
		fn := p.Method("pkg/rtmp", "amf0", name)
		n := 0
		for _, l := range model.Loops(fn) {
			n++
			// from the loop body entry (successor of header inside the body) back to the header without an element reader
			bad := false
			for _, s := range l.Header.Succs {
				if !l.Body[s] || s == l.Header {
					continue
				}
				found := model.PathQuery{FromBlock: s,
					Stop: func(in ssa.Instruction) bool {
						ci, ok := in.(ssa.CallInstruction)
						return ok && isReader(ci, 0)
					},
					Target: func(in ssa.Instruction) bool { return in.Block() == l.Header }}.Find(fn)
				if found != nil {
					bad = true
				}
			}
			// error edges of the element readers do not return to the loop
			for _, ci := range model.AllCalls(fn) {
				if !l.Body[ci.Block()] || !isReader(ci, 0) {
					continue
				}
				call, isCall := ci.(*ssa.Call)
				if !isCall {
					continue
				}
				edges := errNonNilEdges(call)
				if len(edges) == 0 {
					bad = true
				}
				for _, e := range edges {
					if (model.PathQuery{FromBlock: e, Target: func(in ssa.Instruction) bool { return in.Block() == l.Header }}).Find(fn) != nil {
						bad = true
					}
				}
			}
			r.Check(!bad, "C18.R4", fkey(fn, "count-loop", "element-reader-every-iteration"), p.Pos(l.Header.Instrs[0].Pos()), "every iteration reads an element or leaves the loop on its error", "an iteration of the peer-counted loop can complete without consuming input: a 32-bit count spins the loop 4 billion times")
		}
		if n != 1 {
			r.Bad("C18.R4", fkey(fn, "count-loop", "floor"), p.Pos(fn.Pos()), "expected exactly one loop")
		}
	}
	// amf0.read fails on an exhausted input: its first branch separates "no byte left"
	// (len(b) - index <= 0, in whatever form it is written) from the rest and returns an error for it
	okFirst := false
	if iff, ok := readFn.Blocks[0].Instrs[len(readFn.Blocks[0].Instrs)-1].(*ssa.If); ok {
		c, pol := model.StripNot(iff.Cond, true)
		if bo, isB := c.(*ssa.BinOp); isB {
			tx, kx := linTerms(bo.X)
			ty, ky := linTerms(bo.Y)
			// d = X - Y as coefficient of (len(b) - index) plus a constant
			coef, k, shape := 0, kx-ky, true
			for v, cnt := range tx {
				ty[v] -= cnt
			}
			for v, cnt := range ty {
				cnt = -cnt
				if cnt == 0 {
					continue
				}
				switch {
				case isLenOf(v, readFn.Params[1]):
					coef += cnt
				case v == ssa.Value(readFn.Params[2]):
					coef -= cnt
				default:
					shape = false
				}
			}
			// both len(b) and index must occur with opposite unit coefficients
			if shape && (coef == 2 || coef == -2) {
				unit := int64(coef / 2)
				at := func(delta int64) bool { // value of the condition when len(b)-index == delta
					v := unit*delta + k
					var res bool
					switch bo.Op {
					case token.LSS:
						res = v < 0
					case token.LEQ:
						res = v <= 0
					case token.GTR:
						res = v > 0
					case token.GEQ:
						res = v >= 0
					case token.EQL:
						res = v == 0
					default:
						return false
					}
					return res == pol
				}
				errSucc := -1
				if at(0) && !at(1) {
					errSucc = 0
				} else if !at(0) && at(1) {
					errSucc = 1
				}
				if errSucc >= 0 {
					sb := iff.Block().Succs[errSucc]
					if ret, isRet := sb.Instrs[len(sb.Instrs)-1].(*ssa.Return); isRet {
						rv := model.ReturnValues(ret)
						okFirst = len(rv) == 3 && !model.IsNilConst(rv[2])
					}
				}
			}
		}
	}
	r.Check(okFirst, "C18.R4", fkey(readFn, "count-loop", "fails-on-empty"), p.Pos(readFn.Pos()), "amf0.read returns an error when no byte is left", "amf0.read no longer fails on an exhausted input: counted loops are not bounded by the input length")

	// ---------------------------------------------------------------- R5
	r.Rule("C18.R5", "MetadataEnsureWithoutSdf returns b[l:] appended to an empty slice where l is the consumed length ReadString(b) returned for the same b; MetadataEnsureWithSdf writes the constant \"@setDataFrame\" string and then the parameter b unmodified")
	wo := p.Func("pkg/rtmp", "MetadataEnsureWithoutSdf")
	readString := p.MethodObj("pkg/rtmp", "amf0", "ReadString")
	okWo := false
	// consumed(v, b): v is the consumed length ReadString returned for b - directly, or as the
	// result of a same-package helper that returns it (zero on its error returns)
	var consumed func(v, b ssa.Value, d int) bool
	consumed = func(v, b ssa.Value, d int) bool {
		ex, ok := v.(*ssa.Extract)
		if !ok || d > 2 {
			return false
		}
		call, ok := ex.Tuple.(*ssa.Call)
		if !ok {
			return false
		}
		if model.SameFunc(model.CalleeObj(call.Common()), readString) {
			return ex.Index == 1 && len(call.Call.Args) == 2 && call.Call.Args[1] == b
		}
		ce := call.Call.StaticCallee()
		if ce == nil || ce.Blocks == nil || ce.Pkg != wo.Pkg || len(ce.Params) != len(call.Call.Args) {
			return false
		}
		var inner ssa.Value
		for k, a := range call.Call.Args {
			if a == b {
				inner = ce.Params[k]
			}
		}
		if inner == nil {
			return false
		}
		some := false
		for _, ret := range model.ReturnsOf(ce) {
			rvs := model.ReturnValues(ret)
			if ex.Index >= len(rvs) {
				return false
			}
			rv := rvs[ex.Index]
			if k, isK := model.ConstInt(rv); isK && k == 0 {
				continue
			}
			if !consumed(rv, inner, d+1) {
				return false
			}
			some = true
		}
		return some
	}
	if len(wo.Params) == 1 {
		model.EachInstr(wo, func(in ssa.Instruction) {
			sl, ok := in.(*ssa.Slice)
			if ok && sl.X == ssa.Value(wo.Params[0]) && sl.High == nil && sl.Low != nil && consumed(sl.Low, wo.Params[0], 0) {
				okWo = true
			}
		})
	}
	r.Check(okWo, "C18.R5", fkey(wo, "prefix", "strip"), p.Pos(wo.Pos()), "strips exactly the consumed length of the leading string", "the stripped metadata does not start at the consumed length of the @setDataFrame string")
	ws := p.Func("pkg/rtmp", "MetadataEnsureWithSdf")
	writeString := p.MethodObj("pkg/rtmp", "amf0", "WriteString")
	okWs := false
	for _, w := range model.CallsTo(ws, writeString) {
		if s, isS := model.ConstString(w.Common().Args[2]); isS && s == "@setDataFrame" {
			// followed by buf.Write(b)
			nxt := model.PathQuery{From: w, Target: func(in ssa.Instruction) bool {
				ci, ok := in.(ssa.CallInstruction)
				if !ok {
					return false
				}
				o := model.CalleeObj(ci.Common())
				if o == nil || o.Name() != "Write" {
					return false
				}
				args := ci.Common().Args
				return len(args) >= 1 && args[len(args)-1] == ssa.Value(ws.Params[0])
			}}.Find(ws)
			if nxt != nil {
				okWs = true
			}
		}
	}
	r.Check(okWs, "C18.R5", fkey(ws, "prefix", "add"), p.Pos(ws.Pos()), "prefix string then the original bytes", "the metadata bytes behind the added @setDataFrame prefix are not the unmodified input")
	c18r6(p, r)
	w5MetaErr(p, r, "C18.R7")
	w5BuildMeta(p, r, "C18.R8")
	w8GrowBeforeCopy(p, r, "C18.R9")
}

// isLenOf: v is len(<param>).
func isLenOf(v ssa.Value, prm *ssa.Parameter) bool {
	c, ok := v.(*ssa.Call)
	if !ok {
		return false
	}
	b, isB := c.Call.Value.(*ssa.Builtin)
	return isB && b.Name() == "len" && c.Call.Args[0] == ssa.Value(prm)
}
