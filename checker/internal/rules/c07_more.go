package rules

import (
	"golang.org/x/tools/go/ssa"

	"lalverif/internal/model"
	"lalverif/internal/report"
)

// c07r56: PS continuation packets keep the frame's time stamp; duplicates are stale.
func c07r56(p *model.Prog, r *report.Result) {
	r.Rule("C07.R5", "in PsUnpacker.parseAvStream the value written back to preVideoPts (and to preAudioPts) can be the previous value of that field: a continuation PES packet without PTS keeps the time stamp of the frame it continues (both siblings, audio and video, agree)")
	fn := p.Method("pkg/gb28181", "PsUnpacker", "parseAvStream")
	for _, name := range []string{"preVideoPts", "preAudioPts"} {
		f := p.Field("pkg/gb28181", "PsUnpacker", name)
		sts := model.FieldStores(fn, f)
		ok := false
		for _, st := range sts {
			if model.DependsOn(st.Val, func(v ssa.Value) bool { return model.IsLoadOfField(v, f) }) {
				ok = true
			}
		}
		pos := p.Pos(fn.Pos())
		if len(sts) > 0 {
			pos = p.InstrPos(sts[len(sts)-1])
		}
		r.Check(ok && len(sts) > 0, "C07.R5", fkey(fn, "carry", name), pos, "the field can carry its previous value over a PES packet without PTS", "a PES packet without PTS resets "+name+" to 'unknown' instead of keeping the frame's time stamp: the start of the next frame is not recognised, a frame split over several PES packets is merged with the following one and emitted with that frame's time stamp")
	}
	staleBoundary(p, r, "C07.R6")
}
