package rules

import (
	"fmt"
	"go/constant"
	"go/token"
	"go/types"
	"strings"

	"golang.org/x/tools/go/ssa"

	"lalverif/internal/model"
	"lalverif/internal/report"
)

// Rules added after the ninth round of seeded changes (suffix Q/R).

// w9SetMetadata: each cached metadata variant is stored from its own argument.
func w9SetMetadata(p *model.Prog, r *report.Result, rule string) {
	r.Rule(rule, "remux.GopCache.SetMetadata stores its first argument into MetadataEnsureWithSetDataFrame and its second into MetadataEnsureWithoutSetDataFrame: the prologue of a relay push gets the @setDataFrame form, the prologue of a player the stripped form")
	fn := p.Method("pkg/remux", "GopCache", "SetMetadata")
	if len(fn.Params) != 3 {
		r.Bad(rule, fkey(fn, "metadata", "floor"), p.Pos(fn.Pos()), "unexpected signature")
		return
	}
	for i, name := range []string{"MetadataEnsureWithSetDataFrame", "MetadataEnsureWithoutSetDataFrame"} {
		f := p.Field("pkg/remux", "GopCache", name)
		sts := model.FieldStores(fn, f)
		ok := len(sts) >= 1
		for _, st := range sts {
			if model.Unwrap(st.Val) != ssa.Value(fn.Params[i+1]) {
				ok = false
			}
		}
		r.Check(ok, rule, fkey(fn, "metadata", name), p.Pos(fn.Pos()), "own argument stored", "the cached "+name+" is not the argument meant for it: relay-push targets get metadata without @setDataFrame in their prologue (or players get it with)")
	}
}

// w9CacheConfigOfOwnProtocol: each GOP cache is sized by its own protocol's configuration.
func w9CacheConfigOfOwnProtocol(p *model.Prog, r *report.Result, rule string) {
	r.Rule(rule, "in logic.NewGroup the constructor call whose result becomes rtmpGopCache / httpflvGopCache / httptsGopCache takes all its configuration values from one protocol section of the config, the one named like the cache (RtmpConfig / HttpflvConfig / HttptsConfig): the replay a late joiner of one protocol gets is governed by that protocol's gop_num")
	fn := p.Func("pkg/logic", "NewGroup")
	want := map[string]string{"rtmpGopCache": "rtmp", "httpflvGopCache": "httpflv", "httptsGopCache": "httpts"}
	n := 0
	for name, proto := range want {
		f := p.Field("pkg/logic", "Group", name)
		for _, st := range model.FieldStores(fn, f) {
			call, ok := st.Val.(*ssa.Call)
			if !ok {
				continue
			}
			n++
			sections := map[string]bool{}
			for _, a := range call.Call.Args {
				model.DependsOn(a, func(v ssa.Value) bool {
					fa, isFa := v.(*ssa.FieldAddr)
					if !isFa {
						return false
					}
					if fld := model.FieldOf(fa); fld != nil && strings.HasSuffix(fld.Name(), "Config") && fld.Name() != "Config" {
						if _, isStruct := fld.Type().Underlying().(*types.Struct); isStruct {
							sections[strings.ToLower(strings.TrimSuffix(fld.Name(), "Config"))] = true
						}
					}
					return false
				})
			}
			ok = len(sections) == 1 && sections[proto]
			got := []string{}
			for s := range sections {
				got = append(got, s)
			}
			r.Check(ok, rule, fkey(fn, "cache-config", name), p.InstrPos(st), "configured from its own section", "the "+name+" is built with values of the config section(s) "+strings.Join(got, ",")+": its ring size follows another protocol's gop_num - late joiners are replayed more GOPs than configured, or none")
		}
	}
	if n < 3 {
		r.Bad(rule, fkey(fn, "cache-config", "floor"), p.Pos(fn.Pos()), fmt.Sprintf("only %d cache constructions found in NewGroup", n))
	}
}

// w9ExtensionBytes: every payload byte of an extension descriptor is written.
func w9ExtensionBytes(p *model.Prog, r *report.Result, rule string) {
	r.Rule(rule, "mpegts.PsiSection.writeDescriptorExtension, for a descriptor whose Unknown payload is one byte long (path enumeration with that length fixed), writes two bytes - the tag and the payload byte - on every path: the declared descriptor length (computed from len(Unknown)) and the bytes written agree; the Opus channel-config byte is that one-byte case")
	fn := p.Method("pkg/mpegts", "PsiSection", "writeDescriptorExtension")
	used := false
	ev := &cEval{fn: fn, maxVisits: 4, maxPaths: 256}
	ev.lenOf = func(x ssa.Value) (int64, bool) {
		if fieldOfValue(x) == "Unknown" {
			used = true
			return 1, true
		}
		return 0, false
	}
	ev.event = func(in ssa.Instruction) string {
		if ci, ok := in.(ssa.CallInstruction); ok {
			if o := model.CalleeObj(ci.Common()); o != nil && o.Name() == "WriteBits8" {
				return "w8"
			}
		}
		return ""
	}
	ev.run()
	bad := ""
	nRet := 0
	for _, pa := range ev.paths {
		if pa.ret == nil {
			continue
		}
		nRet++
		if pa.counts["w8"] != 2 {
			bad = fmt.Sprintf("%d", pa.counts["w8"])
		}
	}
	r.Check(ev.undecided == "" && bad == "" && nRet > 0 && used, rule, fkey(fn, "extension", "one-byte-payload"), p.Pos(fn.Pos()), "tag + 1 byte written", "for a one-byte extension payload "+bad+" byte(s) are written instead of 2: the payload byte is skipped while the lengths still count it - the PMT stays well-formed but declares another Opus channel configuration")
}

// w9CutsetMisuse: a literal meant as a suffix / prefix is not handed to a cutset function.
func w9CutsetMisuse(p *model.Prog, r *report.Result, rule string, pkgs ...string) {
	r.Rule(rule, "in "+strings.Join(pkgs, ", ")+": no call of strings/bytes Trim, TrimLeft or TrimRight is given a constant cutset with a repeated character (a word such as \"#EXT-X-ENDLIST\\n\" is a suffix, not a set of characters: the cutset form also eats the newline that ends the last segment line of record.m3u8)")
	n := 0
	for _, fn := range lalFuncsIn(p, pkgs...) {
		for _, ci := range model.AllCalls(fn) {
			o := model.CalleeObj(ci.Common())
			if o == nil || o.Pkg() == nil || (o.Pkg().Path() != "strings" && o.Pkg().Path() != "bytes") {
				continue
			}
			switch o.Name() {
			case "Trim", "TrimLeft", "TrimRight":
			case "TrimSuffix", "TrimPrefix":
				n++
				r.Check(true, rule, fkey(fn, "cutset", o.Name()), p.InstrPos(ci), "word removed as a word", "")
				continue
			default:
				continue
			}
			n++
			s, isS := model.ConstString(ci.Common().Args[1])
			if !isS {
				continue
			}
			seen := map[rune]bool{}
			dup := false
			for _, c := range s {
				if seen[c] {
					dup = true
				}
				seen[c] = true
			}
			r.Check(!dup, rule, fkey(fn, "cutset", o.Name()), p.InstrPos(ci), "cutset without repeated characters", "a word is handed to "+o.Name()+" as a cutset: every trailing character that occurs in it is removed, not just the word - the line end before the marker goes too and the next entry is glued to the previous segment name")
		}
	}
	if n < 1 {
		r.Bad(rule, "floor", "", "no Trim* call found")
	}
}

// w9WebSocketDetect: a request is a WebSocket request only with both headers.
func w9WebSocketDetect(p *model.Prog, r *report.Result, rule string) {
	r.Rule(rule, "logic.HttpServerHandler.ServeSubSession reads Sec-WebSocket-Key (the block that marks the session as WebSocket) only behind both tests - Connection contains Upgrade, and Upgrade == websocket: a plain HTTP-FLV request that offers another upgrade (h2c) gets a plain FLV body, not WebSocket frames")
	fn := p.Method("pkg/logic", "HttpServerHandler", "ServeSubSession")
	n := 0
	var gets []ssa.CallInstruction
	for _, g := range model.StaticGroup(fn, 1) { // the detection may live in a helper of the handler
		gets = append(gets, model.AllCalls(g)...)
	}
	for _, ci := range gets {
		o := model.CalleeObj(ci.Common())
		if o == nil || o.Name() != "Get" || len(ci.Common().Args) != 2 {
			continue
		}
		if s, isS := model.ConstString(ci.Common().Args[1]); !isS || s != "Sec-WebSocket-Key" {
			continue
		}
		n++
		hasContains := model.GuardedBy(ci, func(c ssa.Value, pol bool) bool {
			call, isC := c.(*ssa.Call)
			if !isC || !pol {
				return false
			}
			co := model.CalleeObj(call.Common())
			return co != nil && co.Name() == "Contains"
		})
		hasEq := model.GuardedBy(ci, func(c ssa.Value, pol bool) bool {
			b, isB := c.(*ssa.BinOp)
			if !isB || b.Op != token.EQL || !pol {
				return false
			}
			s, isS := model.ConstString(b.Y)
			return isS && s == "websocket"
		})
		r.Check(hasContains && hasEq, rule, fkey(fn, "websocket", "both-headers"), p.InstrPos(ci), "behind both header tests", "the session is treated as WebSocket when only one of 'Connection: Upgrade' / 'Upgrade: websocket' is present: an ordinary HTTP client that offers an h2c upgrade is answered with 101 and its FLV body is wrapped in WebSocket frames")
	}
	if n < 1 {
		r.Bad(rule, fkey(fn, "websocket", "floor"), p.Pos(fn.Pos()), "the Sec-WebSocket-Key read was not found in ServeSubSession")
	}
}

// w9SubWriteTimeout: the write deadline is set for the subscriber role.
func w9SubWriteTimeout(p *model.Prog, r *report.Result, rule string) {
	r.Rule(rule, "in rtmp.ServerSession.modConnProps the call ModWriteTimeoutMs lies behind the comparison of the session's base type with base.SessionBaseTypeSubStr (the role a play session has): a player that stops reading is cut by its write deadline, not only by the liveness sweep minutes later")
	fn := p.Method("pkg/rtmp", "ServerSession", "modConnProps")
	sub := constant.StringVal(p.Const("pkg/base", "SessionBaseTypeSubStr").Val())
	n := 0
	for _, ci := range model.AllCalls(fn) {
		o := model.CalleeObj(ci.Common())
		if o == nil || o.Name() != "ModWriteTimeoutMs" {
			continue
		}
		n++
		ok := model.GuardedBy(ci, func(c ssa.Value, pol bool) bool {
			b, isB := c.(*ssa.BinOp)
			if !isB || b.Op != token.EQL || !pol {
				return false
			}
			for _, side := range []ssa.Value{b.X, b.Y} {
				if s, isS := model.ConstString(side); isS && s == sub {
					return true
				}
			}
			return false
		})
		r.Check(ok, rule, fkey(fn, "write-timeout", "for-sub"), p.InstrPos(ci), "set for the SUB role", "the write deadline is set under another role than SUB (a server session is never PULL/PUSH): an RTMP player gets its queue but no deadline, its writer goroutine blocks for ever on a stalled peer")
	}
	if n < 1 {
		r.Bad(rule, fkey(fn, "write-timeout", "floor"), p.Pos(fn.Pos()), "no ModWriteTimeoutMs call in modConnProps")
	}
}

// w9NotifyOnce: the 'result already delivered' flag is set whenever the result is delivered.
func w9NotifyOnce(p *model.Prog, r *report.Result, rule string) {
	r.Rule(rule, "rtmp.ClientSession.notifyDoResultSucc: every path from the entry to a return either leaves through the 'already notified' test (hasNotifyDoResultSucc true) or stores hasNotifyDoResultSucc = true: a second onStatus(Play.Start / Publish.Start) from the peer cannot deliver success twice - for a pull that would re-add the attached session, fail as a duplicate input and tear the pull down")
	fn := p.Method("pkg/rtmp", "ClientSession", "notifyDoResultSucc")
	f := p.Field("pkg/rtmp", "ClientSession", "hasNotifyDoResultSucc")
	miss := model.PathQuery{
		Stop: func(in ssa.Instruction) bool {
			st, ok := in.(*ssa.Store)
			if !ok || model.FieldOf(st.Addr) != f {
				return false
			}
			b, isB := model.ConstBool(st.Val)
			return isB && b
		},
		StopEdge: func(b *ssa.BasicBlock, k int) bool {
			iff, ok := b.Instrs[len(b.Instrs)-1].(*ssa.If)
			if !ok {
				return false
			}
			c, pol := model.StripNot(iff.Cond, k == 0)
			return pol && model.IsLoadOfField(c, f)
		},
		Target: func(in ssa.Instruction) bool { _, ok := in.(*ssa.Return); return ok },
	}.Find(fn)
	pos := p.Pos(fn.Pos())
	if miss != nil {
		pos = p.InstrPos(miss)
	}
	r.Check(miss == nil && len(model.FieldStores(fn, f)) >= 1, rule, fkey(fn, "notify-once", "flag-set-on-every-delivery"), pos, "flag set on every path that delivers", "a path delivers the success result without setting the 'already notified' flag (it is set only under a configuration test): an origin that repeats Play.Start makes a relay pull add itself twice and dispose itself")
}

// w9MsClock: a time stamp compared in milliseconds is taken in milliseconds.
func w9MsClock(p *model.Prog, r *report.Result, rule string) {
	r.Rule(rule, "logic.Group.tickPullModule stores into pullProxy.lastHasOutTs a value that derives from time.Now().UnixNano() (or UnixMilli()): shouldAutoStopPull subtracts it from a millisecond clock, so a seconds value would make every window look expired at the first tick without a consumer")
	fn := p.Method("pkg/logic", "Group", "tickPullModule")
	f := p.Field("pkg/logic", "pullProxy", "lastHasOutTs")
	for _, st := range model.FieldStores(fn, f) {
		ok := model.DependsOn(st.Val, func(v ssa.Value) bool {
			c, isC := v.(*ssa.Call)
			if !isC {
				return false
			}
			o := model.CalleeObj(c.Common())
			return o != nil && (o.Name() == "UnixNano" || o.Name() == "UnixMilli")
		})
		r.Check(ok, rule, fkey(fn, "last-has-out", "millisecond-clock"), p.InstrPos(st), "UnixNano-based", "the 'last consumer seen' stamp is taken in seconds but compared with milliseconds: an auto-stop window of t ms is over at the first tick after the last consumer left")
	}
}
