package rules

import (
	"go/token"
	"go/types"

	"golang.org/x/tools/go/ssa"

	"lalverif/internal/model"
	"lalverif/internal/report"
)

// c14r1011: RTSP credentials: Basic user:password splits at the first colon only; a Digest
// response is accepted only when it was computed over the nonce this server issued.
func c14r1011(p *model.Prog, r *report.Result) {
	r.Rule("C14.R10", "Auth.ParseAuthorization separates user-id and password of Basic credentials at the first colon only (strings.SplitN(.., \":\", 2), strings.Cut, or Index + slicing): an unbounded strings.Split on \":\" rejects or truncates every password that contains a colon (RFC 7617 allows them)")
	parse := p.Method("pkg/rtsp", "Auth", "ParseAuthorization")
	nSplit, nOk := 0, 0
	for _, ci := range model.AllCalls(parse) {
		o := model.CalleeObj(ci.Common())
		if o == nil || o.Pkg() == nil || o.Pkg().Path() != "strings" {
			continue
		}
		args := ci.Common().Args
		sepIsColon := func(i int) bool {
			if i >= len(args) {
				return false
			}
			s, ok := model.ConstString(args[i])
			return ok && s == ":"
		}
		switch o.Name() {
		case "Split":
			if sepIsColon(1) {
				nSplit++
				r.Bad("C14.R10", fkey(parse, "basic", "first-colon"), p.InstrPos(ci), "Basic credentials are split on every ':': a valid password containing a colon is rejected (or cut), although the property requires valid credentials to be accepted always")
			}
		case "SplitN":
			if sepIsColon(1) {
				if k, ok := model.ConstInt(args[2]); ok && k == 2 {
					nOk++
					r.Ok("C14.R10", fkey(parse, "basic", "first-colon"), p.InstrPos(ci), "SplitN(.., \":\", 2)")
				} else {
					nSplit++
					r.Bad("C14.R10", fkey(parse, "basic", "first-colon"), p.InstrPos(ci), "Basic credentials are split into more than two parts")
				}
			}
		case "Cut", "Index", "IndexByte":
			if sepIsColon(1) {
				nOk++
				r.Ok("C14.R10", fkey(parse, "basic", "first-colon"), p.InstrPos(ci), o.Name()+" at the first colon")
			}
		}
	}
	if nSplit+nOk == 0 {
		r.Bad("C14.R10", fkey(parse, "basic", "floor"), p.Pos(parse.Pos()), "no separation of Basic credentials at ':' found in ParseAuthorization")
	}

	r.Rule("C14.R11", "Digest: Auth.MakeAuthenticate stores the nonce it issues in a field of Auth, and in Auth.CheckAuthorization every 'return true' of the Digest case lies behind a comparison of that field with the nonce taken from the request: a response computed over a nonce of the client's choosing (a captured header replayed in another session) is not accepted")
	mk := p.Method("pkg/rtsp", "Auth", "MakeAuthenticate")
	chk := p.Method("pkg/rtsp", "Auth", "CheckAuthorization")
	nonceFn := p.MethodObj("pkg/rtsp", "Auth", "nonce")
	issued := map[*types.Var]bool{}
	model.EachInstr(mk, func(in ssa.Instruction) {
		st, ok := in.(*ssa.Store)
		if !ok {
			return
		}
		f := model.FieldOf(st.Addr)
		if f == nil {
			return
		}
		if model.DependsOn(st.Val, func(v ssa.Value) bool {
			c, isC := v.(*ssa.Call)
			return isC && model.SameFunc(model.CalleeObj(c.Common()), nonceFn)
		}) {
			issued[f] = true
		}
	})
	if len(issued) == 0 {
		r.Bad("C14.R11", fkey(mk, "digest", "nonce-kept"), p.Pos(mk.Pos()), "the nonce sent in the Digest challenge is not kept anywhere: CheckAuthorization can only use the nonce the client sends back, so any nonce (and any captured Authorization header) is accepted")
	} else {
		r.Ok("C14.R11", fkey(mk, "digest", "nonce-kept"), p.Pos(mk.Pos()), "issued nonce stored")
	}
	typF := p.Field("pkg/rtsp", "Auth", "Typ")
	nTrue := 0
	for _, ret := range model.ReturnsOf(chk) {
		rvs := model.ReturnValues(ret)
		if len(rvs) != 1 {
			continue
		}
		if b, ok := model.ConstBool(rvs[0]); !ok || !b {
			continue
		}
		// Digest case: guarded by Typ == "Digest"
		isDigest := model.GuardedBy(ret, func(c ssa.Value, pol bool) bool {
			bo, ok := c.(*ssa.BinOp)
			if !ok || bo.Op != token.EQL || !pol {
				return false
			}
			s, isS := model.ConstString(bo.Y)
			return isS && s == "Digest" && model.IsLoadOfField(bo.X, typF)
		})
		if !isDigest {
			continue
		}
		nTrue++
		bound := false
		for f := range issued {
			ff := f
			// non-equality with the issued nonce leads away (false edge of !=, or true edge of ==)
			if model.GuardedBy(ret, func(c ssa.Value, pol bool) bool {
				bo, ok := c.(*ssa.BinOp)
				if !ok || (bo.Op != token.EQL && bo.Op != token.NEQ) {
					return false
				}
				if !(model.IsLoadOfField(bo.X, ff) || model.IsLoadOfField(bo.Y, ff)) {
					return false
				}
				if model.ConstStringIs(bo.X, "") || model.ConstStringIs(bo.Y, "") {
					return false // a test for emptiness is not the binding
				}
				return (bo.Op == token.EQL) == pol
			}) {
				bound = true
			}
		}
		r.Check(bound, "C14.R11", fkey(chk, "digest", "bound-to-issued-nonce"), p.InstrPos(ret), "accepts only for the issued nonce", "a Digest response is accepted without comparing the request's nonce with the one this server issued: the response is verified over whatever nonce (and realm) the client supplies, so a header captured once is valid for ever and on every connection")
	}
	if nTrue < 1 {
		r.Bad("C14.R11", fkey(chk, "digest", "floor"), p.Pos(chk.Pos()), "the accepting return of the Digest case was not found")
	}
}
