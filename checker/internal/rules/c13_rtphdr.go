package rules

import (
	"fmt"
	"go/token"

	"golang.org/x/tools/go/ssa"

	"lalverif/internal/model"
	"lalverif/internal/report"
)

// edgeImpliesLess: following the edge (cond, pol) establishes a < b.
func edgeImpliesLess(cond ssa.Value, pol bool, a, b func(ssa.Value) bool) bool {
	c, pol := model.StripNot(cond, pol)
	bo, ok := c.(*ssa.BinOp)
	if !ok {
		return false
	}
	switch {
	case a(bo.X) && b(bo.Y):
		return (pol && bo.Op == token.LSS) || (!pol && bo.Op == token.GEQ)
	case b(bo.X) && a(bo.Y):
		return (pol && bo.Op == token.GTR) || (!pol && bo.Op == token.LEQ)
	}
	return false
}

// c13RtpHdr: the premise of the reviewed invariant "payloadOffset + paddingLength < len(Raw)":
// it is what makes RtpPacket.Body() in range and non-empty for every parsed packet.
func c13RtpHdr(p *model.Prog, r *report.Result) {
	r.Rule("C13.RTPHDR", "rtprtcp.ParseRtpHeader: the value stored into payloadOffset is the offset that the dominating false edge of 'offset >= len(b)' (strictly: offset < len(b)) was taken for; every path from the store of paddingLength to a return passes an edge that establishes offset + paddingLength < len(b) strictly (a non-strict test lets the padding cover the whole payload, Body() is empty and the position detection indexes body[0]); no other lal function stores these two fields except with constants")
	fn := p.Func("pkg/rtprtcp", "ParseRtpHeader")
	offF := p.Field("pkg/rtprtcp", "RtpHeader", "payloadOffset")
	padF := p.Field("pkg/rtprtcp", "RtpHeader", "paddingLength")
	bParam := fn.Params[0]
	isLenB := func(v ssa.Value) bool {
		c, ok := v.(*ssa.Call)
		if !ok {
			return false
		}
		bi, isB := c.Call.Value.(*ssa.Builtin)
		return isB && bi.Name() == "len" && c.Call.Args[0] == ssa.Value(bParam)
	}
	offStores := model.FieldStores(fn, offF)
	padStores := model.FieldStores(fn, padF)
	if len(offStores) != 1 || len(padStores) != 1 {
		r.Bad("C13.RTPHDR", fkey(fn, "shape", "stores"), p.Pos(fn.Pos()), fmt.Sprintf("expected one store each of payloadOffset and paddingLength, found %d / %d", len(offStores), len(padStores)))
		return
	}
	offV := model.Unwrap(offStores[0].Val) // the int offset before the conversion
	isOff := func(v ssa.Value) bool { return v == offV }
	okOff := model.GuardedBy(offStores[0], func(c ssa.Value, pol bool) bool { return edgeImpliesLess(c, pol, isOff, isLenB) })
	r.Check(okOff, "C13.RTPHDR", fkey(fn, "offset", "strictly-inside"), p.InstrPos(offStores[0]), "payloadOffset < len(b)", "payloadOffset is stored without the strict test offset < len(b) on the same value: a packet that ends with its header gives an empty or out-of-range Body()")
	padV := padStores[0].Val
	isSum := func(v ssa.Value) bool {
		bo, ok := v.(*ssa.BinOp)
		if !ok || bo.Op != token.ADD {
			return false
		}
		isPad := func(x ssa.Value) bool { return x == padV || model.LoadedField(x) == padF }
		return (isOff(bo.X) && isPad(bo.Y)) || (isOff(bo.Y) && isPad(bo.X))
	}
	miss := model.PathQuery{From: padStores[0],
		StopEdge: func(b *ssa.BasicBlock, k int) bool {
			iff, ok := b.Instrs[len(b.Instrs)-1].(*ssa.If)
			return ok && edgeImpliesLess(iff.Cond, k == 0, isSum, isLenB)
		},
		Target: func(in ssa.Instruction) bool {
			ret, ok := in.(*ssa.Return)
			if !ok {
				return false
			}
			// a return that hands back an error constant is not a success
			rvs := model.ReturnValues(ret)
			if len(rvs) == 2 {
				if _, isLoad := rvs[1].(*ssa.UnOp); isLoad {
					if g, isG := rvs[1].(*ssa.UnOp).X.(*ssa.Global); isG && g != nil {
						return false
					}
				}
			}
			return true
		}}.Find(fn)
	r.Check(miss == nil, "C13.RTPHDR", fkey(fn, "padding", "strictly-inside"), p.InstrPos(padStores[0]), "offset + paddingLength < len(b) before every successful return", "a packet whose padding count covers the whole payload (offset + paddingLength == len(b)) is accepted: Body() is empty, calcPositionIfNeededAvc/Hevc index body[0], and one datagram terminates the process")
	// who may write
	n := 0
	for _, g := range p.LalFuncs() {
		if g == fn {
			continue
		}
		for _, f := range []*ssa.Store(nil) {
			_ = f
		}
		for _, st := range append(model.FieldStores(g, offF), model.FieldStores(g, padF)...) {
			n++
			_, isK := model.ConstInt(st.Val)
			r.Check(isK, "C13.RTPHDR", fkey(g, "writer", model.FieldOf(st.Addr).Name()), p.InstrPos(st), "constant", "payloadOffset/paddingLength is stored outside ParseRtpHeader with a computed value: the relation with len(Raw) is no longer established in one place")
		}
	}
	r.Count("rtp_header_offset_other_writers", n)
}
