package rules

import (
	"go/token"
	"go/types"

	"golang.org/x/tools/go/ssa"

	"lalverif/internal/model"
	"lalverif/internal/report"
)

func init() { register("C17", c17) }

func goBody(g *ssa.Go) *ssa.Function {
	switch v := g.Call.Value.(type) {
	case *ssa.MakeClosure:
		f, _ := v.Fn.(*ssa.Function)
		return f
	case *ssa.Function:
		return v
	}
	return nil
}

func c17(p *model.Prog, r *report.Result) {
	r.Explanation = "Decides the structural clauses of the relay rules: a pull session is started only by the goroutine Group.pullIfNeeded creates behind the true edge of shouldStartPull(), after recording the attempt (isSessionPulling, startCount), and pullIfNeeded has exactly the three triggers (R1); every end of an attempt clears isSessionPulling (R2, with C03.R4); a push goroutine is started only with push enabled, a publisher present and the target not already pushing, marks the target, and always reports its end, which clears the mark so a later tick retries (R3); API responses report success only on the success edge of the group call (R4); the start predicate consults every rule input (R5); rtmp.Buffer.grow enlarges until the write fits (R6)."
	r.NotDecided = []string{"the timed state machine as values (auto-stop windows, retry budgets, tick arithmetic)", "that a retried push target eventually connects"}
	r.Assumptions = []string{"Group methods run under Group.mutex (C20)"}
	logicFns := lalFuncsIn(p, "pkg/logic")
	r.Count("functions_analysed", len(logicFns))
	pullIf := p.Method("pkg/logic", "Group", "pullIfNeeded")
	pullIfObj := p.MethodObj("pkg/logic", "Group", "pullIfNeeded")
	shouldStart := p.MethodObj("pkg/logic", "Group", "shouldStartPull")

	// ---------------------------------------------------------------- R1
	r.Rule("C17.R1", "rtmp/rtsp PullSession.Start is called in pkg/logic only inside the goroutine created by Group.pullIfNeeded; that `go` is unreachable without crossing the true edge of shouldStartPull() and is dominated by isSessionPulling=true and startCount++; pullIfNeeded is called only from addSub, tickPullModule and StartPull")
	startR := p.MethodObj("pkg/rtmp", "PullSession", "Start")
	startS := p.MethodObj("pkg/rtsp", "PullSession", "Start")
	var gos []*ssa.Go
	model.EachInstr(pullIf, func(in ssa.Instruction) {
		if g, ok := in.(*ssa.Go); ok {
			gos = append(gos, g)
		}
	})
	var body *ssa.Function
	if len(gos) == 1 {
		body = goBody(gos[0])
	}
	if body == nil {
		r.Bad("C17.R1", fkey(pullIf, "go", "pull-goroutine"), p.Pos(pullIf.Pos()), "pullIfNeeded no longer starts exactly one goroutine")
	}
	nStart := 0
	for _, fn := range logicFns {
		for _, ci := range model.CallsTo(fn, startR, startS) {
			nStart++
			r.Check(fn == body, "C17.R1", fkey(fn, "who-may-start", "PullSession.Start"), p.InstrPos(ci), "started by the pull goroutine only", "a pull session is started outside the goroutine guarded by shouldStartPull()")
		}
	}
	if nStart < 2 {
		r.Bad("C17.R1", "floor", "", "PullSession.Start call sites not found")
	}
	if body != nil {
		g := gos[0]
		// shouldStartPull true edge: cond is extract #0 of the call
		passes := model.PathQuery{
			StopEdge: func(b *ssa.BasicBlock, k int) bool {
				iff, ok := b.Instrs[len(b.Instrs)-1].(*ssa.If)
				if !ok {
					return false
				}
				c, pol := model.StripNot(iff.Cond, k == 0)
				ex, ok := c.(*ssa.Extract)
				if !ok || ex.Index != 0 {
					return false
				}
				call, ok := ex.Tuple.(*ssa.Call)
				return ok && pol && model.SameFunc(model.CalleeObj(call.Common()), shouldStart)
			},
			Target: func(x ssa.Instruction) bool { return x == g }}.Find(pullIf)
		r.Check(passes == nil, "C17.R1", fkey(pullIf, "guard", "shouldStartPull"), p.InstrPos(g), "the goroutine is created only across the true edge of shouldStartPull()", "a pull attempt can be started although shouldStartPull() said no (input present, attempt in flight, disabled, budget exhausted or auto-stop due)")
		pulling := p.Field("pkg/logic", "pullProxy", "isSessionPulling")
		startCount := p.Field("pkg/logic", "pullProxy", "startCount")
		okP, okC := false, false
		for _, st := range model.FieldStores(pullIf, pulling) {
			if v, isc := model.ConstBool(st.Val); isc && v && model.InstrDominates(st, g) {
				okP = true
			}
		}
		for _, st := range model.FieldStores(pullIf, startCount) {
			if b, ok := st.Val.(*ssa.BinOp); ok && b.Op == token.ADD && model.IsLoadOfField(b.X, startCount) && model.InstrDominates(st, g) {
				if k, isK := model.ConstInt(b.Y); isK && k == 1 {
					okC = true
				}
			}
		}
		r.Check(okP, "C17.R1", fkey(pullIf, "record", "isSessionPulling=true"), p.InstrPos(g), "the attempt is marked in flight before the goroutine starts", "the attempt is not marked in flight: a second attempt can start concurrently")
		r.Check(okC, "C17.R1", fkey(pullIf, "record", "startCount++"), p.InstrPos(g), "the attempt is counted against the retry budget", "the attempt is not counted: the retry budget is never exhausted")
	}
	allowed := map[string]bool{"addSub": true, "tickPullModule": true, "StartPull": true}
	nTrig := 0
	for _, fn := range p.LalFuncs() {
		for _, ci := range model.CallsTo(fn, pullIfObj) {
			nTrig++
			r.Check(allowed[fn.Name()] && fn.Signature.Recv() != nil, "C17.R1", fkey(fn, "trigger", "pullIfNeeded"), p.InstrPos(ci), "listed trigger", "pullIfNeeded has a trigger outside subscriber arrival, tick and API start")
		}
	}
	if nTrig != 3 {
		r.Bad("C17.R1", "floor|triggers", "", "expected exactly three triggers of pullIfNeeded")
	}
	// tickPullModule: stopPull on the auto-stop edge, pullIfNeeded on the other
	tick := p.Method("pkg/logic", "Group", "tickPullModule")
	autoStop := p.MethodObj("pkg/logic", "Group", "shouldAutoStopPull")
	stopPull := p.MethodObj("pkg/logic", "Group", "stopPull")
	isAutoStop := func(pol bool) func(ssa.Value, bool) bool {
		return func(c ssa.Value, p2 bool) bool {
			call, ok := c.(*ssa.Call)
			return ok && p2 == pol && model.SameFunc(model.CalleeObj(call.Common()), autoStop)
		}
	}
	okTick := false
	for _, sp := range model.CallsTo(tick, stopPull) {
		for _, pi := range model.CallsTo(tick, pullIfObj) {
			if model.GuardedBy(sp, isAutoStop(true)) && model.GuardedBy(pi, isAutoStop(false)) {
				okTick = true
			}
		}
	}
	r.Check(okTick, "C17.R1", fkey(tick, "tick", "auto-stop-xor-pull"), p.Pos(tick.Pos()), "tick stops the pull when auto-stop is due and (re)starts it otherwise", "the tick no longer stops an idle pull / retries a needed one on the right edges")

	// ---------------------------------------------------------------- R2
	r.Rule("C17.R2", "every path of Group.delPullSession stores isSessionPulling=false (directly or via resetRelayPullSession), so the next tick may retry")
	dps := p.Method("pkg/logic", "Group", "delPullSession")
	pullingF := p.Field("pkg/logic", "pullProxy", "isSessionPulling")
	rrp := p.Method("pkg/logic", "Group", "resetRelayPullSession")
	rrpClears := false
	for _, st := range model.FieldStores(rrp, pullingF) {
		if v, isc := model.ConstBool(st.Val); isc && !v {
			all := true
			for _, ret := range model.ReturnsOf(rrp) {
				if !model.InstrDominates(st, ret) {
					all = false
				}
			}
			rrpClears = all
		}
	}
	bad := model.PathQuery{
		Stop: func(x ssa.Instruction) bool {
			if st, ok := x.(*ssa.Store); ok && model.FieldOf(st.Addr) == pullingF {
				v, isc := model.ConstBool(st.Val)
				return isc && !v
			}
			if ci, ok := x.(ssa.CallInstruction); ok && rrpClears && ci.Common().StaticCallee() == rrp {
				return true
			}
			return false
		},
		Target: func(x ssa.Instruction) bool { _, ok := x.(*ssa.Return); return ok }}.Find(dps)
	r.Check(bad == nil, "C17.R2", fkey(dps, "clear", "isSessionPulling=false"), p.Pos(dps.Pos()), "every end of an attempt clears the in-flight mark", "an attempt can end with isSessionPulling still set: the pull is never retried")

	// ---------------------------------------------------------------- R3
	r.Rule("C17.R3", "in Group.startPushIfNeeded the `go` is dominated by pushEnable, by the publisher-present test and by !isPushing of the target, and by isPushing=true; the goroutine reaches DelRtmpPushSession on every path; DelRtmpPushSession clears isPushing; startPushIfNeeded is called from addIn and Tick")
	sp := p.Method("pkg/logic", "Group", "startPushIfNeeded")
	pushEnable := p.Field("pkg/logic", "Group", "pushEnable")
	isPushing := p.Field("pkg/logic", "pushProxy", "isPushing")
	rtmpPub := p.Field("pkg/logic", "Group", "rtmpPubSession")
	rtspPub := p.Field("pkg/logic", "Group", "rtspPubSession")
	delPush := p.MethodObj("pkg/logic", "Group", "DelRtmpPushSession")
	var pgos []*ssa.Go
	model.EachInstr(sp, func(in ssa.Instruction) {
		if g, ok := in.(*ssa.Go); ok {
			pgos = append(pgos, g)
		}
	})
	if len(pgos) != 1 {
		r.Bad("C17.R3", fkey(sp, "go", "push-goroutine"), p.Pos(sp.Pos()), "startPushIfNeeded no longer starts exactly one goroutine per target")
	} else {
		g := pgos[0]
		okEn := model.GuardedBy(g, func(c ssa.Value, pol bool) bool { return model.IsLoadOfField(c, pushEnable) && pol })
		r.Check(okEn, "C17.R3", fkey(sp, "guard", "pushEnable"), p.InstrPos(g), "push only when enabled", "a push session can be started with relay push disabled")
		// publisher test: unreachable when both rtmpPubSession and rtspPubSession are nil
		noPub := model.PathQuery{
			StopEdge: func(b *ssa.BasicBlock, k int) bool {
				iff, ok := b.Instrs[len(b.Instrs)-1].(*ssa.If)
				if !ok {
					return false
				}
				c, pol := model.StripNot(iff.Cond, k == 0)
				x, trueIsNonNil, ok := nilTest(c)
				if !ok || !(model.IsLoadOfField(x, rtmpPub) || model.IsLoadOfField(x, rtspPub)) {
					return false
				}
				return pol == trueIsNonNil // a publisher is known to exist on this edge
			},
			Target: func(x ssa.Instruction) bool { return x == g }}.Find(sp)
		r.Check(noPub == nil, "C17.R3", fkey(sp, "guard", "publisher-present"), p.InstrPos(g), "push only once a publisher is accepted", "a push session can be started for a stream without an RTMP/RTSP publisher")
		okNot := model.GuardedBy(g, func(c ssa.Value, pol bool) bool { return model.IsLoadOfField(c, isPushing) && !pol })
		r.Check(okNot, "C17.R3", fkey(sp, "guard", "!isPushing"), p.InstrPos(g), "one session per target", "a second push session can be opened for a target that is already pushing")
		okMark := false
		for _, st := range model.FieldStores(sp, isPushing) {
			if v, isc := model.ConstBool(st.Val); isc && v && model.InstrDominates(st, g) {
				okMark = true
			}
		}
		r.Check(okMark, "C17.R3", fkey(sp, "record", "isPushing=true"), p.InstrPos(g), "target marked before the goroutine starts", "target not marked: every tick opens another session to it")
		if b := goBody(g); b != nil {
			none := model.PathQuery{Stop: func(x ssa.Instruction) bool {
				ci, ok := x.(ssa.CallInstruction)
				return ok && model.SameFunc(model.CalleeObj(ci.Common()), delPush)
			}, Target: func(x ssa.Instruction) bool { _, ok := x.(*ssa.Return); return ok }}.Find(b)
			r.Check(none == nil, "C17.R3", fkey(b, "end", "DelRtmpPushSession"), p.InstrPos(g), "every end of the push goroutine reports the session gone", "a failed or finished push can leave isPushing set: the target is never retried")
		}
	}
	dp := p.Method("pkg/logic", "Group", "DelRtmpPushSession")
	okClr := false
	for _, st := range model.FieldStores(dp, isPushing) {
		if v, isc := model.ConstBool(st.Val); isc && !v {
			okClr = true
		}
	}
	r.Check(okClr, "C17.R3", fkey(dp, "clear", "isPushing=false"), p.Pos(dp.Pos()), "the mark is cleared when the session is gone", "DelRtmpPushSession no longer clears isPushing")
	spObj := p.MethodObj("pkg/logic", "Group", "startPushIfNeeded")
	callers := map[string]bool{}
	for _, fn := range logicFns {
		if len(model.CallsTo(fn, spObj)) > 0 {
			callers[fn.Name()] = true
		}
	}
	r.Check(callers["addIn"] && callers["Tick"], "C17.R3", "Group|trigger|startPushIfNeeded", p.Pos(sp.Pos()), "push is (re)started on input arrival and on every tick", "push is no longer started on input arrival or retried on tick")

	// ---------------------------------------------------------------- R4
	r.Rule("C17.R4", "ServerManager.CtrlStartRelayPull / CtrlStopRelayPull / CtrlKickSession store ErrorCodeSucc only on the success edge of the group call (err==nil / session id != \"\" / KickSession()==true)")
	errCode := p.Field("pkg/base", "ApiRespBasic", "ErrorCode")
	type api struct {
		fn    string
		guard func(fn *ssa.Function) func(ssa.Value, bool) bool
	}
	apis := []api{
		{"CtrlStartRelayPull", func(fn *ssa.Function) func(ssa.Value, bool) bool {
			var errVals []ssa.Value
			for _, ci := range model.CallsTo(fn, p.MethodObj("pkg/logic", "Group", "StartPull")) {
				errVals = append(errVals, errValuesOf(ci.(*ssa.Call))...)
			}
			return func(c ssa.Value, pol bool) bool {
				x, trueIsNonNil, ok := nilTest(c)
				if !ok {
					return false
				}
				for _, ev := range errVals {
					if x == ev {
						return pol != trueIsNonNil
					}
				}
				return false
			}
		}},
		{"CtrlStopRelayPull", func(fn *ssa.Function) func(ssa.Value, bool) bool {
			return func(c ssa.Value, pol bool) bool {
				b, ok := c.(*ssa.BinOp)
				if !ok || (b.Op != token.EQL && b.Op != token.NEQ) {
					return false
				}
				s, isS := model.ConstString(b.Y)
				if !isS || s != "" {
					return false
				}
				dep := model.DependsOn(b.X, func(v ssa.Value) bool {
					call, ok := v.(*ssa.Call)
					return ok && model.SameFunc(model.CalleeObj(call.Common()), p.MethodObj("pkg/logic", "Group", "StopPull"))
				})
				// the session id is stored into ret.Data.SessionId and re-loaded; accept a load of that field
				if !dep {
					if f := model.LoadedField(b.X); f != nil && f.Name() == "SessionId" {
						dep = true
					}
				}
				return dep && ((b.Op == token.NEQ) == pol)
			}
		}},
		{"CtrlKickSession", func(fn *ssa.Function) func(ssa.Value, bool) bool {
			return func(c ssa.Value, pol bool) bool {
				call, ok := c.(*ssa.Call)
				return ok && pol && model.SameFunc(model.CalleeObj(call.Common()), p.MethodObj("pkg/logic", "Group", "KickSession"))
			}
		}},
	}
	for _, a := range apis {
		fn := p.Method("pkg/logic", "ServerManager", a.fn)
		n := 0
		for _, st := range model.FieldStores(fn, errCode) {
			k, isK := model.ConstInt(st.Val)
			if !isK || k != 0 {
				continue
			}
			n++
			r.Check(model.GuardedBy(st, a.guard(fn)), "C17.R4", fkey(fn, "api-result", "ErrorCodeSucc"), p.InstrPos(st), "success reported only on the success edge", "the API reports success although the group call failed / found nothing")
		}
		if n == 0 {
			r.Bad("C17.R4", fkey(fn, "api-result", "floor"), p.Pos(fn.Pos()), "the API never reports success")
		}
	}

	// ---------------------------------------------------------------- R5
	r.Rule("C17.R5", "Group.shouldStartPull consults every rule input: hasInSession(), isSessionPulling, the two enable flags, shouldAutoStopPull(), pullRetryNum and startCount, each deciding a false return; shouldAutoStopPull consults autoStopPullAfterNoOutMs, hasOutSession() and lastHasOutTs")
	ssp := p.Method("pkg/logic", "Group", "shouldStartPull")
	consults := func(fn *ssa.Function, what string, pred func(ssa.Value) bool) {
		found := false
		for _, b := range fn.Blocks {
			iff, ok := b.Instrs[len(b.Instrs)-1].(*ssa.If)
			if !ok {
				continue
			}
			if model.DependsOn(iff.Cond, pred) {
				found = true
			}
		}
		r.Check(found, "C17.R5", fkey(fn, "consults", what), p.Pos(fn.Pos()), "a branch depends on "+what, what+" no longer influences the decision")
	}
	isCallTo := func(o *types.Func) func(ssa.Value) bool {
		return func(v ssa.Value) bool {
			c, ok := v.(*ssa.Call)
			return ok && model.SameFunc(model.CalleeObj(c.Common()), o)
		}
	}
	isLoad := func(typ, f string) func(ssa.Value) bool {
		fv := p.Field("pkg/logic", typ, f)
		return func(v ssa.Value) bool { return model.IsLoadOfField(v, fv) }
	}
	consults(ssp, "hasInSession()", isCallTo(p.MethodObj("pkg/logic", "Group", "hasInSession")))
	consults(ssp, "isSessionPulling", isLoad("pullProxy", "isSessionPulling"))
	consults(ssp, "staticRelayPullEnable", isLoad("pullProxy", "staticRelayPullEnable"))
	consults(ssp, "apiEnable", isLoad("pullProxy", "apiEnable"))
	consults(ssp, "shouldAutoStopPull()", isCallTo(autoStop))
	consults(ssp, "pullRetryNum", isLoad("pullProxy", "pullRetryNum"))
	consults(ssp, "startCount", isLoad("pullProxy", "startCount"))
	sasp := p.Method("pkg/logic", "Group", "shouldAutoStopPull")
	consults(sasp, "autoStopPullAfterNoOutMs", isLoad("pullProxy", "autoStopPullAfterNoOutMs"))
	consults(sasp, "hasOutSession()", isCallTo(p.MethodObj("pkg/logic", "Group", "hasOutSession")))
	// lastHasOutTs is used in the final return expression
	usesLast := false
	model.EachInstr(sasp, func(in ssa.Instruction) {
		if v, ok := in.(ssa.Value); ok && model.IsLoadOfField(v, p.Field("pkg/logic", "pullProxy", "lastHasOutTs")) {
			usesLast = true
		}
	})
	r.Check(usesLast, "C17.R5", fkey(sasp, "consults", "lastHasOutTs"), p.Pos(sasp.Pos()), "the idle window is measured from lastHasOutTs", "lastHasOutTs no longer influences auto-stop")
	// input present => (false, error): on the true edge of hasInSession() the function returns false
	for _, ci := range model.CallsTo(ssp, p.MethodObj("pkg/logic", "Group", "hasInSession")) {
		call := ci.(*ssa.Call)
		ok := false
		if call.Referrers() != nil {
			for _, ref := range *call.Referrers() {
				if iff, isIf := ref.(*ssa.If); isIf {
					ret := model.PathQuery{FromBlock: iff.Block().Succs[0], Target: func(x ssa.Instruction) bool { _, o := x.(*ssa.Return); return o }}.Find(ssp)
					if rr, isRet := ret.(*ssa.Return); isRet {
						v, isc := model.ConstBool(model.ReturnValues(rr)[0])
						ok = isc && !v
					}
				}
			}
		}
		r.Check(ok, "C17.R5", fkey(ssp, "decides", "hasInSession=>false"), p.InstrPos(ci), "an accepted input forbids a pull", "a pull may start although the stream has an input")
	}

	// boundary classes of the rule inputs (embedded specification: a retry budget n >= 0 allows
	// the first attempt plus n retries, a negative budget retries forever; auto-stop < 0 never,
	// == 0 immediately, > 0 after that many ms)
	retryF := p.Field("pkg/logic", "pullProxy", "pullRetryNum")
	startCountF := p.Field("pkg/logic", "pullProxy", "startCount")
	isBudgetCmp := func(in ssa.Instruction) bool {
		iff, ok := in.(*ssa.If)
		if !ok {
			return false
		}
		cmp, ok := iff.Cond.(*ssa.BinOp)
		if !ok {
			return false
		}
		return (model.IsLoadOfField(cmp.X, startCountF) && model.IsLoadOfField(cmp.Y, retryF)) || (model.IsLoadOfField(cmp.Y, startCountF) && model.IsLoadOfField(cmp.X, retryF))
	}
	nB := 0
	for _, b := range ssp.Blocks {
		iff, ok := b.Instrs[len(b.Instrs)-1].(*ssa.If)
		if !ok {
			continue
		}
		if x, k, op, right, ok := constCmp(iff.Cond); ok && model.IsLoadOfField(x, retryF) && k == 0 {
			nB++
			edge := func(v int64) *ssa.BasicBlock {
				if cmpAt(op, v, k, right) {
					return b.Succs[0]
				}
				return b.Succs[1]
			}
			at0 := model.PathQuery{FromBlock: edge(0), Target: isBudgetCmp}.Find(ssp) != nil
			atNeg := model.PathQuery{FromBlock: edge(-1), Target: isBudgetCmp}.Find(ssp) != nil
			r.Check(at0 && !atNeg, "C17.R5", fkey(ssp, "boundary", "pullRetryNum==0 is a budget, <0 is forever"), p.InstrPos(iff),
				"budget 0 is checked against startCount, negative budgets are not", "the retry budget boundary is misplaced: a budget of 0 ('never retry') is treated as 'retry forever' (or a negative budget is limited)")
		}
		if isBudgetCmp(iff) {
			nB++
			cmp := iff.Cond.(*ssa.BinOp)
			op := cmp.Op
			if model.IsLoadOfField(cmp.Y, startCountF) { // retry OP startCount -> startCount OP' retry
				switch op {
				case token.LSS:
					op = token.GTR
				case token.LEQ:
					op = token.GEQ
				case token.GTR:
					op = token.LSS
				case token.GEQ:
					op = token.LEQ
				}
			}
			// the refusing edge is the one that returns false; at startCount == budget the start is still allowed
			refuseAtEq := cmpAt(op, 5, 5, true)
			refuseAbove := cmpAt(op, 6, 5, true)
			var refuseEdge *ssa.BasicBlock
			if refuseAbove {
				refuseEdge = b.Succs[0]
			} else {
				refuseEdge = b.Succs[1]
			}
			refuses := false
			if ret, ok := (model.PathQuery{FromBlock: refuseEdge, Target: func(x ssa.Instruction) bool { _, o := x.(*ssa.Return); return o }}).Find(ssp).(*ssa.Return); ok {
				if v, isc := model.ConstBool(model.ReturnValues(ret)[0]); isc && !v {
					refuses = true
				}
			}
			r.Check(refuseAbove && !refuseAtEq && refuses, "C17.R5", fkey(ssp, "boundary", "startCount vs pullRetryNum"), p.InstrPos(iff),
				"refused exactly when startCount exceeds the budget", "the retry budget is off by one (or never enforced): n retries must allow n+1 attempts in total")
		}
	}
	if nB < 2 {
		r.Bad("C17.R5", fkey(ssp, "boundary", "floor"), p.Pos(ssp.Pos()), "retry budget comparisons not found")
	}
	autoF := p.Field("pkg/logic", "pullProxy", "autoStopPullAfterNoOutMs")
	nA := 0
	for _, b := range sasp.Blocks {
		iff, ok := b.Instrs[len(b.Instrs)-1].(*ssa.If)
		if !ok {
			continue
		}
		x, k, op, right, ok := constCmp(iff.Cond)
		if !ok || !model.IsLoadOfField(x, autoF) || k != 0 {
			continue
		}
		nA++
		retOn := func(v int64) (bool, bool) { // (returns a constant, its value) on the edge taken for v
			e := b.Succs[1]
			if cmpAt(op, v, k, right) {
				e = b.Succs[0]
			}
			first := e.Instrs[len(e.Instrs)-1]
			if ret, ok := first.(*ssa.Return); ok {
				if val, isc := model.ConstBool(model.ReturnValues(ret)[0]); isc {
					return true, val
				}
			}
			return false, false
		}
		switch op {
		case token.LSS, token.GEQ: // the "never" test
			cNeg, vNeg := retOn(-1)
			c0, _ := retOn(0)
			r.Check(cNeg && !vNeg && !c0, "C17.R5", fkey(sasp, "boundary", "autoStop<0 never"), p.InstrPos(iff), "negative means never, 0 does not", "the auto-stop 'never' boundary is misplaced: 0 ('stop immediately') is treated as never, or a negative value as a timeout")
		case token.EQL, token.NEQ:
			c0, v0 := retOn(0)
			c1, _ := retOn(1)
			r.Check(c0 && v0 && !c1, "C17.R5", fkey(sasp, "boundary", "autoStop==0 immediately"), p.InstrPos(iff), "0 stops immediately, positive values wait", "auto-stop 0 no longer stops immediately (or positive values do)")
		}
	}
	if nA < 2 {
		r.Bad("C17.R5", fkey(sasp, "boundary", "floor"), p.Pos(sasp.Pos()), "auto-stop boundary comparisons not found")
	}

	// ---------------------------------------------------------------- R6
	r.Rule("C17.R6", "rtmp.Buffer.grow: the new capacity is produced by a loop that exits only when newLen-Len() >= n, so Write/WriteByte never index past the buffer whatever the length of the relayed URL parameters")
	grow := p.Method("pkg/rtmp", "Buffer", "grow")
	hasLoop := false
	for _, l := range model.Loops(grow) {
		// loop exit condition compares against parameter n
		for b := range l.Body {
			if iff, ok := b.Instrs[len(b.Instrs)-1].(*ssa.If); ok {
				if cmp, ok := iff.Cond.(*ssa.BinOp); ok && len(grow.Params) == 2 {
					if cmp.Y == ssa.Value(grow.Params[1]) || cmp.X == ssa.Value(grow.Params[1]) {
						hasLoop = true
					}
				}
			}
		}
	}
	r.Check(hasLoop, "C17.R6", fkey(grow, "grow", "until-fits"), p.Pos(grow.Pos()), "capacity grows in a loop bounded by the requested size", "grow enlarges the buffer a fixed number of times: a long enough string (URL parameters forwarded by relay push) overruns it")
	c17r7(p, r)
	c17r8(p, r, "C17.R8")
	c17r9(p, r)
	c17r10(p, r)
	w5PullName(p, r, "C17.R11")
	w7LastHasOutTs(p, r, "C17.R12")
	w8KickDisablesApiPull(p, r, "C17.R13")
	w8StartPullDefaults(p, r, "C17.R14")
	w9NotifyOnce(p, r, "C17.R15")
	w9MsClock(p, r, "C17.R16")
}
