package rules

import (
	"fmt"
	"os"
	"sort"
	"strings"

	"golang.org/x/tools/go/ssa"

	"lalverif/internal/model"
	"lalverif/internal/po"
	"lalverif/internal/report"
)

// poScopePkg: packages whose functions are analysed by engine B (lal pkg/ plus the naza
// byte/bit helper packages, whose preconditions are inferred rather than trusted).
func poScopePkg(fn *ssa.Function) bool {
	pk := model.FnPkg(fn)
	if pk == nil || len(fn.Blocks) == 0 {
		return false
	}
	path := pk.Path()
	if strings.HasSuffix(path, "/innertest") {
		return false
	}
	if strings.HasPrefix(path, model.LalPath+"/pkg/") {
		return true
	}
	// nazabytes.Buffer keeps its bounds in heap fields (rpos<=wpos<=cap(core)), which this prover
	// cannot see: it is trusted in the quick tier (DESIGN 2.2)
	for _, n := range []string{"bele", "nazabits", "nazastring"} {
		if path == model.NazaPath+"/pkg/"+n {
			return true
		}
	}
	return false
}

type poConfig struct {
	rule   string
	roots  []*ssa.Function
	filter func(fn *ssa.Function) bool // which functions' obligations are reported under this rule (nil = all in scope)
	// contained: roots whose goroutine recovers panics (net/http handlers); index/slice
	// obligations reached only from them are reported as info
	kinds map[string]bool // nil = all kinds
	// cut: functions at which reachability stops (they and everything only reachable through
	// them stay outside the engine's scope)
	cut func(fn *ssa.Function) bool
	// extra: rule-specific obligations (see po.Engine.Extra)
	extra func(fn *ssa.Function, in ssa.Instruction, lin func(ssa.Value) po.Lin, seqLen func(ssa.Value) po.Lin) []po.ExtraOb
}

// runPO runs engine B from the given roots and records every obligation in r.
func runPO(p *model.Prog, r *report.Result, cfg poConfig) (*po.Engine, int) {
	reach := p.Reachable(cfg.roots, false, func(f *ssa.Function) bool {
		return poScopePkg(f) && (cfg.cut == nil || !cfg.cut(f))
	})
	e := po.New(p)
	for f := range reach {
		if poScopePkg(f) {
			e.Scope[f] = true
		}
	}
	roots := map[*ssa.Function]bool{}
	for _, f := range cfg.roots {
		roots[f] = true
	}
	e.Extra = cfg.extra
	e.Run(roots)
	obs := e.Obs
	sort.SliceStable(obs, func(i, j int) bool {
		a, b := obs[i], obs[j]
		if model.FnName(a.Fn) != model.FnName(b.Fn) {
			return model.FnName(a.Fn) < model.FnName(b.Fn)
		}
		return a.Instr.Pos() < b.Instr.Pos()
	})
	n := 0
	for _, ob := range obs {
		if os.Getenv("LALCHECK_PO_DEBUG") != "" {
			fmt.Printf("POOB %s %s %s status=%d proof=%s fails=%d\n", model.FnName(ob.Fn), ob.Kind, ob.Expr, ob.Status, ob.Proof, len(ob.Fails))
		}
		ffn := ob.Fn
		if model.IsNaza(ffn) && ob.FailFn != nil {
			ffn = ob.FailFn // a helper's failing precondition is attributed to the caller that cannot establish it
		}
		if len(ob.Fails) > 0 && cfg.filter != nil {
			// requirements failing at callers: in scope when the function itself or any failing caller is
			keep := cfg.filter(ob.Fn)
			for _, f := range ob.Fails {
				if cfg.filter(f.Fn) {
					keep = true
				}
			}
			if !keep {
				continue
			}
		} else if cfg.filter != nil && !cfg.filter(ffn) {
			continue
		}
		if cfg.kinds != nil && !cfg.kinds[ob.Kind] {
			continue
		}
		n++
		key := fkey(ob.Fn, ob.Kind, ob.Expr)
		pos := p.InstrPos(ob.Instr)
		switch ob.Status {
		case po.Proved:
			if ob.Trivial || ob.Proof == "" || ob.Proof == "constant" {
				r.Trivial(cfg.rule, key, pos, "in bounds by construction")
			} else {
				r.Ok(cfg.rule, key, pos, "proved: "+ob.Proof)
			}
		case po.Lifted:
			r.Ok(cfg.rule, key, pos, "precondition discharged at every caller: "+ob.Proof)
		case po.Unproved:
			if len(ob.Fails) > 0 {
				// one finding per caller that cannot establish the requirement
				for _, f := range ob.Fails {
					if cfg.filter != nil && !cfg.filter(f.Fn) && !(cfg.filter(ob.Fn) && !model.IsNaza(ob.Fn)) {
						continue
					}
					r.BadReq(cfg.rule, key+"@"+model.FnName(f.Fn), pos, f.Proof+" [fails at "+p.InstrPos(f.At)+"] via "+model.PathTo(reach, ob.Fn), model.FnName(f.Fn)+"#"+p.InstrPos(f.At), f.Form, f.K)
				}
				break
			}
			where := ""
			if ob.FailAt != nil && ob.FailAt != ob.Instr {
				where = " [fails at " + p.InstrPos(ob.FailAt) + "]"
			}
			r.Bad(cfg.rule, key, pos, ob.Proof+where+" via "+model.PathTo(reach, ob.Fn))
		}
	}
	r.Count("po_functions_in_scope", len(e.Scope))
	r.Count("po_obligations", n)
	_ = fmt.Sprint
	return e, n
}
