package rules

import (
	"fmt"
	"go/token"
	"go/types"
	"strings"

	"golang.org/x/tools/go/ssa"

	"lalverif/internal/model"
	"lalverif/internal/report"
)

// More rules from the second round of seeded changes.

// c18r6: the AMF0 value reader advances its index by exactly what the sub-reader consumed from
// exactly the offset it was given.
func c18r6(p *model.Prog, r *report.Result) {
	r.Rule("C18.R6", "in amf0.read, for every sub-reader called on b[index+d:], the index is advanced to index+d+<consumed length returned by that call>: the consumed length reported for a container element is exact for every value type (short and long strings included)")
	fn := p.Method("pkg/rtmp", "amf0", "read")
	b, index := fn.Params[1], fn.Params[2]
	n := 0
	model.EachInstr(fn, func(in ssa.Instruction) {
		call, ok := in.(*ssa.Call)
		if !ok || len(call.Common().Args) < 2 {
			return
		}
		sl, ok := call.Common().Args[1].(*ssa.Slice)
		if !ok || sl.X != ssa.Value(b) || sl.High != nil || sl.Low == nil {
			return
		}
		// the consumed-length result: the int-typed Extract
		var consumed *ssa.Extract
		if call.Referrers() != nil {
			for _, ref := range *call.Referrers() {
				if ex, ok := ref.(*ssa.Extract); ok && isInteger(ex.Type()) {
					if bt, isB := ex.Type().Underlying().(*types.Basic); isB && bt.Kind() == types.Int {
						consumed = ex
					}
				}
			}
		}
		if consumed == nil || consumed.Referrers() == nil {
			return
		}
		n++
		lowT, lowK := linTerms(sl.Low)
		good := false
		for _, ref := range *consumed.Referrers() {
			add, ok := ref.(*ssa.BinOp)
			if !ok || add.Op != token.ADD {
				continue
			}
			t, k := linTerms(add)
			// expect t - lowT == {consumed: 1}, k == lowK
			diff := map[ssa.Value]int{}
			for v, c := range t {
				diff[v] += c
			}
			for v, c := range lowT {
				diff[v] -= c
				if diff[v] == 0 {
					delete(diff, v)
				}
			}
			if len(diff) == 1 && diff[consumed] == 1 && k == lowK {
				good = true
			}
		}
		name := "reader"
		if o := model.CalleeObj(call.Common()); o != nil {
			name = o.Name()
		}
		_ = index
		r.Check(good, "C18.R6", fkey(fn, "consumed", name), p.InstrPos(call), "index advanced by the consumed length from the offset the reader was given", "after "+name+" the index is not advanced to <offset passed> + <consumed length>: the type-marker byte (or another offset) is lost, so the next element of an object/array is decoded from the wrong position and the reported consumed length is wrong")
	})
	if n < 8 {
		r.Bad("C18.R6", fkey(fn, "consumed", "floor"), p.Pos(fn.Pos()), fmt.Sprintf("only %d sub-reader calls found in amf0.read", n))
	}
}

// c12r67: RTP time stamp arithmetic is not done in 32 bits; fragment continuity uses the
// wrap-aware distance.
func c12r6(p *model.Prog, r *report.Result) {
	r.Rule("C12.R6", "in RtpPacker.Pack the product of the millisecond time stamp and the clock rate is computed in floating point or 64 bits before it is narrowed to the 32-bit RTP time stamp (a 32-bit product wraps after 2^32/clockRate ms: 47.7 s at 90 kHz)")
	pack := p.Method("pkg/rtprtcp", "RtpPacker", "Pack")
	clk := p.Field("pkg/rtprtcp", "RtpPacker", "clockRate")
	n := 0
	model.EachInstr(pack, func(in ssa.Instruction) {
		b, ok := in.(*ssa.BinOp)
		if !ok || b.Op != token.MUL {
			return
		}
		if !model.DependsOn(b, func(v ssa.Value) bool { return model.IsLoadOfField(v, clk) }) {
			return
		}
		n++
		wide := typeWidth(b.Type()) == 64
		if bt, isB := b.Type().Underlying().(*types.Basic); isB && bt.Info()&types.IsFloat != 0 {
			wide = true
		}
		r.Check(wide, "C12.R6", fkey(pack, "rtp-ts", "wide-product"), p.InstrPos(b), "time stamp scaled in float64 / 64 bits", "the time stamp is multiplied by the clock rate in 32 bits: the RTP time stamp drops back to ~0 every 2^32/clockRate ms and audio and video drift apart")
	})
	if n < 1 {
		r.Bad("C12.R6", fkey(pack, "rtp-ts", "floor"), p.Pos(pack.Pos()), "no multiplication by the clock rate found in RtpPacker.Pack")
	}
}

// c19r67: parameter-set caches are replaced, not appended to; 16-bit length fields are written
// from the value they describe.
func c19r67(p *model.Prog, r *report.Result) {
	r.Rule("C19.R6", "every store to AvPacket2RtmpRemuxer.sps / pps / vps in pkg/remux is nil or append(<empty>, b...): the cached parameter set is replaced by a copy of the new one, never concatenated with the previous one and never the caller's slice itself")
	for _, name := range []string{"sps", "pps", "vps"} {
		fld := p.Field("pkg/remux", "AvPacket2RtmpRemuxer", name)
		nCopy := 0
		for _, fn := range lalFuncsIn(p, "pkg/remux") {
			for _, st := range model.FieldStores(fn, fld) {
				if model.IsNilConst(st.Val) || isEmptyValue(st.Val) {
					continue // emptied
				}
				ok := false
				isReplacingAppend := func(v ssa.Value) bool {
					call, isCall := v.(*ssa.Call)
					if !isCall {
						return false
					}
					bi, isB := call.Call.Value.(*ssa.Builtin)
					if !isB || bi.Name() != "append" {
						return false
					}
					first := call.Call.Args[0]
					if isEmptyValue(first) {
						return true
					}
					w := fwdLoadRules(first)
					return w != nil && isEmptyValue(w)
				}
				// through a helper of the package whose every return is such an append
				if call, isCall := st.Val.(*ssa.Call); isCall {
					if ce := call.Call.StaticCallee(); ce != nil && ce.Pkg == fn.Pkg && allReturnsSatisfy(ce, 0, isReplacingAppend) {
						ok = true
					}
				}
				if call, isCall := st.Val.(*ssa.Call); isCall {
					if bi, isB := call.Call.Value.(*ssa.Builtin); isB && bi.Name() == "append" {
						first := call.Call.Args[0]
						// the first operand is empty: nil, x[0:0], or a load of the field right after it was stored an empty value
						if isEmptyValue(first) {
							ok = true
						}
						if w := fwdLoadRules(first); w != nil && isEmptyValue(w) {
							ok = true
						}
					}
				}
				if ok {
					nCopy++
				}
				r.Check(ok, "C19.R6", fkey(fn, "cache", "replaced:"+name), p.InstrPos(st), "cache replaced by a copy", "the parameter-set cache is assigned something else than a fresh copy of the new set (appended to what it still holds: after a lost PPS or a reconfiguration the sequence header carries old||new as one set; or the caller's slice itself: it changes when the caller re-uses its buffer)")
			}
		}
		if nCopy < 1 {
			r.Bad("C19.R6", "floor|"+name, "", "no replacing store to the "+name+" cache found")
		}
	}

	r.Rule("C19.R7", "in avc.BuildSeqHeaderFromSpsPps and hevc.BuildSeqHeaderFromVpsSpsPps the two bytes of every 16-bit parameter-set length come from the length of the same slice, and that slice is the one copied right behind them")
	for _, f := range []struct{ pkg, name string }{{"pkg/avc", "BuildSeqHeaderFromSpsPps"}, {"pkg/hevc", "BuildSeqHeaderFromVpsSpsPps"}} {
		fn := p.Func(f.pkg, f.name)
		// byte stores whose value is uint8(len(X)>>8 & 0xFF) (hi) / uint8(len(X) & 0xFF) (lo)
		type lenByte struct {
			st   *ssa.Store
			src  ssa.Value
			high bool
		}
		var lbs []lenByte
		for _, b := range fn.Blocks {
			for _, in := range b.Instrs {
				st, ok := in.(*ssa.Store)
				if !ok {
					continue
				}
				if _, isIdx := st.Addr.(*ssa.IndexAddr); !isIdx {
					continue
				}
				var src ssa.Value
				high := false
				model.DependsOn(st.Val, func(v ssa.Value) bool {
					if l, isLen := lenOf(v); isLen {
						src = l
					}
					if sh, isSh := v.(*ssa.BinOp); isSh && sh.Op == token.SHR {
						if k, isK := model.ConstInt(sh.Y); isK && k == 8 {
							high = true
						}
					}
					return false
				})
				if src != nil {
					lbs = append(lbs, lenByte{st, src, high})
				}
			}
		}
		pairs := 0
		for i := 0; i+1 < len(lbs); i++ {
			if !lbs[i].high || lbs[i+1].high {
				continue
			}
			pairs++
			same := lbs[i].src == lbs[i+1].src
			// the next copy into the buffer copies that slice
			var cp *ssa.Call
			found := model.PathQuery{From: lbs[i+1].st, Target: func(in ssa.Instruction) bool {
				c, ok := in.(*ssa.Call)
				if !ok {
					return false
				}
				bi, isB := c.Call.Value.(*ssa.Builtin)
				return isB && bi.Name() == "copy"
			}}.Find(fn)
			if found != nil {
				cp = found.(*ssa.Call)
			}
			copied := cp != nil && cp.Call.Args[1] == lbs[i].src
			r.Check(same && copied, "C19.R7", fkey(fn, "length16", fmt.Sprintf("pair%d", pairs)), p.InstrPos(lbs[i].st), "both length bytes and the copied data come from one slice", "the high and the low byte of a parameter-set length are taken from different slices (or the slice copied behind them is another one): parameter sets of 256 bytes or more get a wrong length and the sequence header cannot be parsed back")
		}
		// the same field written with one 16-bit put: BePutUint16(dst, uint16(len(X))) followed by copy(.., X)
		put16 := p.FuncObj("naza/pkg/bele", "BePutUint16")
		for _, ci := range model.CallsTo(fn, put16) {
			l, isLen := lenOf(model.Unwrap(ci.Common().Args[1]))
			if !isLen {
				continue
			}
			pairs++
			var cp *ssa.Call
			found := model.PathQuery{From: ci, Target: func(in ssa.Instruction) bool {
				c, ok := in.(*ssa.Call)
				if !ok {
					return false
				}
				bi, isB := c.Call.Value.(*ssa.Builtin)
				return isB && bi.Name() == "copy"
			}}.Find(fn)
			if found != nil {
				cp = found.(*ssa.Call)
			}
			r.Check(cp != nil && cp.Call.Args[1] == l, "C19.R7", fkey(fn, "length16", fmt.Sprintf("pair%d", pairs)), p.InstrPos(ci), "length and copied data come from one slice", "the 16-bit length written describes another slice than the one copied behind it")
		}
		if pairs < 2 {
			r.Bad("C19.R7", fkey(fn, "length16", "floor"), p.Pos(fn.Pos()), fmt.Sprintf("only %d 16-bit length fields found", pairs))
		}
	}
}

// fwdLoadRules: a load of a field that the same block stored just before (no call in between).
func fwdLoadRules(v ssa.Value) ssa.Value {
	ld, ok := v.(*ssa.UnOp)
	if !ok || ld.Op != token.MUL {
		return nil
	}
	fa, ok := ld.X.(*ssa.FieldAddr)
	if !ok {
		return nil
	}
	b := ld.Block()
	pos := -1
	for i, in := range b.Instrs {
		if in == ssa.Instruction(ld) {
			pos = i
		}
	}
	for i := pos - 1; i >= 0; i-- {
		switch in := b.Instrs[i].(type) {
		case *ssa.Store:
			if sfa, ok := in.Addr.(*ssa.FieldAddr); ok && sfa.X == fa.X && sfa.Field == fa.Field {
				return in.Val
			}
		case ssa.CallInstruction:
			if _, isB := in.Common().Value.(*ssa.Builtin); !isB {
				return nil
			}
		}
	}
	return nil
}

// c11r5: what is handed to the asynchronous connection write is not a buffer the session re-uses.
func c11r5(p *model.Prog, r *report.Result) {
	r.Rule("C11.R5", "in BasicHttpSubSession.Write / write the byte slices handed to conn.Write / conn.Writev are the caller's slice or freshly built ones, never (a slice of) a buffer kept in a session field: the connection queues references, so a re-used buffer would be overwritten while an earlier frame still waits in the queue")
	n := 0
	recvT := p.Named("pkg/base", "BasicHttpSubSession")
	isOwnMethod := func(o *types.Func) bool {
		if o == nil {
			return false
		}
		sig, _ := o.Type().(*types.Signature)
		if sig == nil || sig.Recv() == nil {
			return false
		}
		t := sig.Recv().Type()
		if pt, ok := t.(*types.Pointer); ok {
			t = pt.Elem()
		}
		return types.Identical(t, recvT)
	}
	for _, name := range []string{"Write", "write", "WriteHttpResponseHeader"} {
		fn := p.Method("pkg/base", "BasicHttpSubSession", name)
		// aliasField: the session field (if any) whose buffer v may share memory with
		var aliasField func(v ssa.Value, seen map[ssa.Value]bool) string
		aliasField = func(v ssa.Value, seen map[ssa.Value]bool) string {
			if v == nil || seen[v] {
				return ""
			}
			seen[v] = true
			switch x := v.(type) {
			case *ssa.Slice:
				return aliasField(x.X, seen)
			case *ssa.Convert:
				return aliasField(x.X, seen)
			case *ssa.ChangeType:
				return aliasField(x.X, seen)
			case *ssa.MakeInterface:
				return aliasField(x.X, seen)
			case *ssa.Phi:
				for _, e := range x.Edges {
					if f := aliasField(e, seen); f != "" {
						return f
					}
				}
			case *ssa.Alloc:
				// a local array / cell: whatever was stored into it or its elements
				for _, ref := range *x.Referrers() {
					switch y := ref.(type) {
					case *ssa.Store:
						if y.Addr == ssa.Value(x) {
							if f := aliasField(y.Val, seen); f != "" {
								return f
							}
						}
					case *ssa.IndexAddr:
						for _, r2 := range *y.Referrers() {
							if st, ok := r2.(*ssa.Store); ok && st.Addr == ssa.Value(y) {
								if f := aliasField(st.Val, seen); f != "" {
									return f
								}
							}
						}
					}
				}
			case *ssa.UnOp:
				if x.Op != token.MUL {
					return ""
				}
				if a, ok := x.X.(*ssa.Alloc); ok {
					return aliasField(a, seen)
				}
				if fp, ok := loadPath(v); ok && len(fp.Fields) >= 1 {
					if _, isSl := v.Type().Underlying().(*types.Slice); isSl && sameRoot(fp.Base, fn.Params[0]) {
						return fp.String()
					}
				}
			case *ssa.Call:
				if b, ok := x.Call.Value.(*ssa.Builtin); ok && b.Name() == "append" {
					return aliasField(x.Call.Args[0], seen) // the result may re-use the first operand's array
				}
			}
			return ""
		}
		for _, ci := range model.AllCalls(fn) {
			o := model.CalleeObj(ci.Common())
			if o == nil {
				continue
			}
			var args []ssa.Value
			switch {
			case ci.Common().IsInvoke() && (o.Name() == "Write" || o.Name() == "Writev"):
				args = ci.Common().Args
			case !ci.Common().IsInvoke() && isOwnMethod(o) && (o.Name() == "write" || o.Name() == "Write" || o.Name() == "WriteHttpResponseHeader"):
				args = ci.Common().Args[1:]
			default:
				continue
			}
			n++
			bad := ""
			for _, a := range args {
				if f := aliasField(a, map[ssa.Value]bool{}); f != "" {
					bad = f
				}
			}
			r.Check(bad == "", "C11.R5", fkey(fn, "queued", "not-a-reused-buffer"), p.InstrPos(ci), "queued data is the caller's or freshly built", "the data queued for writing is (part of) the session's re-used buffer "+bad+": a frame still waiting in the write queue is overwritten by the next one")
		}
	}
	if n < 4 {
		r.Bad("C11.R5", "floor", "", "the connection writes of BasicHttpSubSession were not found")
	}
}

// c17r7: an API stop disables the pull whether or not a session object exists at that moment.
func c17r7(p *model.Prog, r *report.Result) {
	r.Rule("C17.R7", "Group.StopPull clears pullProxy.apiEnable on every path to its return (not only when a session was found): a stop that arrives between two attempts ends the retries")
	fn := p.Method("pkg/logic", "Group", "StopPull")
	f := p.Field("pkg/logic", "pullProxy", "apiEnable")
	isClear := func(in ssa.Instruction) bool {
		st, ok := in.(*ssa.Store)
		if !ok || model.FieldOf(st.Addr) != f {
			return false
		}
		v, isK := model.ConstBool(st.Val)
		return isK && !v
	}
	miss := model.PathQuery{Stop: isClear, Target: func(in ssa.Instruction) bool { _, ok := in.(*ssa.Return); return ok }}.Find(fn)
	r.Check(miss == nil && len(model.FieldStores(fn, f)) > 0, "C17.R7", fkey(fn, "stop", "apiEnable-cleared"), p.Pos(fn.Pos()), "apiEnable cleared on every path", "StopPull can return with apiEnable still set (e.g. when no session object exists between two attempts): the API answers 'not found', every later tick re-attempts the pull and the group never goes inactive")
}

// c13r: shared-list bookkeeping outside the unpackers; division guard proven, not assumed.
func c13List(p *model.Prog, r *report.Result) {
	r.Rule("C13.LIST", "in RtpPacketList.Insert every path that links a new item increases Size by one, and no path unlinks an item (the GB28181 drop loop trusts Size and dereferences the head)")
	fn := p.Method("pkg/rtprtcp", "RtpPacketList", "Insert")
	nextF := p.Field("pkg/rtprtcp", "RtpPacketListItem", "Next")
	sizeF := p.Field("pkg/rtprtcp", "RtpPacketList", "Size")
	links, unlinks := 0, 0
	// Insert and the same-package helpers it calls (the link step may be factored out; the new
	// item then arrives as a parameter): a value is fresh when it is, in Insert's terms, the
	// item allocated there
	model.EachInstrDeep(fn, 2, func(d model.DeepInstr) {
		st, ok := d.In.(*ssa.Store)
		if !ok || model.FieldOf(st.Addr) != nextF {
			return
		}
		fresh := func(v ssa.Value) bool {
			_, isAlloc := d.Resolve(v).(*ssa.Alloc)
			return isAlloc
		}
		fa, _ := st.Addr.(*ssa.FieldAddr)
		if fa != nil && fresh(fa.X) {
			return // initialising the new item's own Next
		}
		if fresh(st.Val) {
			links++
			isInc := func(in ssa.Instruction) bool {
				if s2, ok := in.(*ssa.Store); ok && model.FieldOf(s2.Addr) == sizeF {
					if add, ok := s2.Val.(*ssa.BinOp); ok && add.Op == token.ADD && model.IsLoadOfField(add.X, sizeF) {
						if k, isK := model.ConstInt(add.Y); isK && k == 1 {
							return true
						}
					}
				}
				return false
			}
			// every way from the link to the end of its function increases Size
			miss := model.PathQuery{From: st, Stop: isInc, Target: func(in ssa.Instruction) bool {
				_, isRet := in.(*ssa.Return)
				return isRet
			}}.Find(d.Fn)
			inc := miss == nil
			r.Check(inc, "C13.LIST", fkey(fn, "link", "size++"), p.InstrPos(st), "Size increased with the new item", "an item is linked without increasing Size")
			return
		}
		unlinks++
		r.Bad("C13.LIST", fkey(fn, "unlink", "in-insert"), p.InstrPos(st), "Insert re-links existing items (drops one from the list) without decreasing Size: Size grows beyond the number of items, and the GB28181 drop loop (for Size > 0 { PeekFirst() }) dereferences a nil head")
	})
	if links < 1 {
		r.Bad("C13.LIST", fkey(fn, "link", "floor"), p.Pos(fn.Pos()), "the link sites of RtpPacketList.Insert were not found")
	}
	_ = unlinks
}

// c14r89: the simple-auth switches pair each enable flag with its own protocol; re-adding a
// black-listed address never shortens or drops the ban.
func c14r89(p *model.Prog, r *report.Result) {
	r.Rule("C14.R8", "in SimpleAuthCtx.OnPubStart / OnSubStart, for every protocol with an enable switch (PubRtmpEnable~RTMP, PubRtspEnable~RTSP, SubRtmpEnable~RTMP, SubHttpflvEnable~FLV, SubHttptsEnable~TS, SubRtspEnable~RTSP) and every assignment of the direction's switches, every path of the method for a request of that protocol calls SimpleAuthCtx.check exactly when that protocol's switch is on (path enumeration with the protocol comparisons and switch loads fixed)")
	want := map[string]string{"PubRtmpEnable": "SessionProtocolRtmpStr", "PubRtspEnable": "SessionProtocolRtspStr", "SubRtmpEnable": "SessionProtocolRtmpStr", "SubHttpflvEnable": "SessionProtocolFlvStr", "SubHttptsEnable": "SessionProtocolTsStr", "SubRtspEnable": "SessionProtocolRtspStr"}
	constName := map[string]string{}
	for _, n := range []string{"SessionProtocolRtmpStr", "SessionProtocolRtspStr", "SessionProtocolFlvStr", "SessionProtocolTsStr"} {
		c := p.Const("pkg/base", n)
		constName[strings.Trim(c.Val().ExactString(), "\"")] = n
	}
	// decided by enumeration, not by the shape of the condition: for every protocol value and
	// every assignment of the direction's switches, the paths through the method (protocol
	// comparisons and switch loads fixed, everything else branching both ways) reach the secret
	// check exactly when the switch of that protocol is on
	checkFn := p.Method("pkg/logic", "SimpleAuthCtx", "check")
	dirFlags := map[string][]string{"OnPubStart": {"PubRtmpEnable", "PubRtspEnable"}, "OnSubStart": {"SubRtmpEnable", "SubHttpflvEnable", "SubHttptsEnable", "SubRtspEnable"}}
	for _, mname := range []string{"OnPubStart", "OnSubStart"} {
		fn := p.Method("pkg/logic", "SimpleAuthCtx", mname)
		flags := dirFlags[mname]
		var protoField *types.Var
		bad := map[string]string{}
		undecided := ""
		for _, fl := range flags {
			proto := want[fl]
			protoVal := ""
			for v, n := range constName {
				if n == proto {
					protoVal = v
				}
			}
			for mask := 0; mask < 1<<uint(len(flags)); mask++ {
				on := map[string]bool{}
				for i, f := range flags {
					on[f] = mask&(1<<uint(i)) != 0
				}
				ev := &cEval{fn: fn, maxVisits: 4, maxPaths: 512}
				ev.seed = func(v ssa.Value) (int64, bool) {
					if f := model.LoadedField(v); f != nil {
						if val, isFlag := on[f.Name()]; isFlag {
							return b2i(val), true
						}
					}
					if cmp, ok := v.(*ssa.BinOp); ok && (cmp.Op == token.EQL || cmp.Op == token.NEQ) {
						var other ssa.Value
						cs, isS := model.ConstString(cmp.Y)
						other = cmp.X
						if !isS {
							cs, isS = model.ConstString(cmp.X)
							other = cmp.Y
						}
						if isS {
							if f := model.LoadedField(other); f != nil && f.Name() == "Protocol" {
								protoField = f
								return b2i((cs == protoVal) == (cmp.Op == token.EQL)), true
							}
						}
					}
					return 0, false
				}
				ev.event = func(in ssa.Instruction) string {
					if c, ok := in.(ssa.CallInstruction); ok && c.Common().StaticCallee() == checkFn {
						return "check"
					}
					return ""
				}
				ev.run()
				if ev.undecided != "" {
					undecided = ev.undecided
					continue
				}
				for _, pth := range ev.paths {
					checked := pth.counts["check"] > 0
					if checked != on[fl] && bad[fl] == "" {
						if on[fl] {
							bad[fl] = fmt.Sprintf("with %s on (switches %v) a %s request reaches a return without the secret check", fl, on, proto)
						} else {
							bad[fl] = fmt.Sprintf("with %s off (switches %v) a %s request is still put through the secret check", fl, on, proto)
						}
					}
				}
			}
		}
		_ = protoField
		for _, fl := range flags {
			switch {
			case undecided != "":
				r.Bad("C14.R8", fkey(fn, "flag", fl), p.Pos(fn.Pos()), "cannot enumerate the paths of "+mname+": "+undecided)
			default:
				r.Check(bad[fl] == "", "C14.R8", fkey(fn, "flag", fl), p.Pos(fn.Pos()), fl+" decides the secret check for "+want[fl]+" requests, for every assignment of the other switches", bad[fl]+": with differing per-protocol switches one protocol is admitted unchecked (or checked although switched off)")
			}
		}
	}

	r.Rule("C14.R9", "IpBlacklist.Add stores the new expiry; an early return that keeps an existing entry is taken only when the existing expiry is at least the new one")
	add := p.Method("pkg/logic", "IpBlacklist", "Add")
	nUpd := 0
	var upd ssa.Instruction
	model.EachInstr(add, func(in ssa.Instruction) {
		if mu, ok := in.(*ssa.MapUpdate); ok {
			nUpd++
			upd = mu
		}
	})
	if nUpd != 1 {
		r.Bad("C14.R9", fkey(add, "ban", "shape"), p.Pos(add.Pos()), "expected exactly one map update in IpBlacklist.Add")
		return
	}
	untilV := upd.(*ssa.MapUpdate).Value
	okAll := true
	for _, b := range add.Blocks {
		iff, ok := b.Instrs[len(b.Instrs)-1].(*ssa.If)
		if !ok {
			continue
		}
		cmp, isCmp := iff.Cond.(*ssa.BinOp)
		if !isCmp {
			continue
		}
		var oldOnLeft bool
		switch {
		case cmp.Y == untilV && isMapLookup(cmp.X):
			oldOnLeft = true
		case cmp.X == untilV && isMapLookup(cmp.Y):
			oldOnLeft = false
		default:
			continue
		}
		// which edge skips the update?
		for k, s := range b.Succs {
			skips := (model.PathQuery{FromBlock: s, Target: func(in ssa.Instruction) bool { return in == upd }}).Find(add) == nil
			if !skips {
				continue
			}
			// evaluate the comparison for old < new (1,2): must NOT take the skipping edge
			ev := func(oldV, newV int64) bool {
				x, y := oldV, newV
				if !oldOnLeft {
					x, y = newV, oldV
				}
				var res bool
				switch cmp.Op {
				case token.LSS:
					res = x < y
				case token.LEQ:
					res = x <= y
				case token.GTR:
					res = x > y
				case token.GEQ:
					res = x >= y
				case token.EQL:
					res = x == y
				case token.NEQ:
					res = x != y
				}
				return res == (k == 0)
			}
			if ev(1, 2) {
				okAll = false
				r.Bad("C14.R9", fkey(add, "ban", "re-add"), p.InstrPos(iff), "re-adding a black-listed address with a LATER expiry keeps the earlier one: the ban ends early (or never takes effect when the old entry already lapsed)")
			}
		}
	}
	// every path to a return stores the new expiry, except over an edge that established old >= new
	goodEdge := func(b *ssa.BasicBlock, k int) bool {
		iff, ok := b.Instrs[len(b.Instrs)-1].(*ssa.If)
		if !ok {
			return false
		}
		cmp, isCmp := iff.Cond.(*ssa.BinOp)
		if !isCmp {
			return false
		}
		var oldOnLeft bool
		switch {
		case cmp.Y == untilV && isMapLookup(cmp.X):
			oldOnLeft = true
		case cmp.X == untilV && isMapLookup(cmp.Y):
			oldOnLeft = false
		default:
			return false
		}
		taken := func(oldV, newV int64) bool {
			x, y := oldV, newV
			if !oldOnLeft {
				x, y = newV, oldV
			}
			var res bool
			switch cmp.Op {
			case token.LSS:
				res = x < y
			case token.LEQ:
				res = x <= y
			case token.GTR:
				res = x > y
			case token.GEQ:
				res = x >= y
			case token.EQL:
				res = x == y
			case token.NEQ:
				res = x != y
			}
			return res == (k == 0)
		}
		return !taken(1, 2) // the edge is never taken when the old expiry is earlier
	}
	if okAll {
		skip := model.PathQuery{
			StopEdge: goodEdge,
			Stop:     func(in ssa.Instruction) bool { return in == upd },
			Target:   func(in ssa.Instruction) bool { _, isR := in.(*ssa.Return); return isR },
		}.Find(add)
		if skip != nil {
			okAll = false
			r.Bad("C14.R9", fkey(add, "ban", "re-add"), p.InstrPos(skip), "IpBlacklist.Add can return without storing the new expiry although the existing one (if any) was not shown to be at least as late: a repeated offender's ban is not extended")
		}
	}
	if okAll {
		r.Ok("C14.R9", fkey(add, "ban", "re-add"), p.Pos(add.Pos()), "a later expiry always replaces an earlier one")
	}
}

func isMapLookup(v ssa.Value) bool {
	if ex, ok := v.(*ssa.Extract); ok {
		_, isL := ex.Tuple.(*ssa.Lookup)
		return isL
	}
	_, ok := v.(*ssa.Lookup)
	return ok
}

// c15r4: write-alive accounting only for accepted writes.
func c15r4(p *model.Prog, r *report.Result) {
	r.Rule("C15.R4", "in rtsp.BaseOutSession.WriteRtpPacket the written-bytes counter (which IsAlive's write-alive verdict reads) is increased only on the err == nil edge of the write: a subscriber whose queue rejects every packet looks dead to the liveness sweep and is disconnected")
	fn := p.Method("pkg/rtsp", "BaseOutSession", "WriteRtpPacket")
	addW := p.MethodObj("pkg/base", "BasicSessionStat", "AddWriteBytes")
	n := 0
	for _, ci := range model.CallsTo(fn, addW) {
		n++
		ok := model.GuardedBy(ci, func(c ssa.Value, pol bool) bool {
			x, nonNil, isNil := nilTest(c)
			if !isNil {
				return false
			}
			if _, isErr := x.Type().Underlying().(*types.Interface); !isErr {
				return false
			}
			if nonNil == pol {
				return false
			}
			// the value tested carries the result of every write of the function (a merge of them):
			// a test of some other error variable says nothing about the write
			leaves := map[ssa.Value]bool{}
			var expand func(v ssa.Value, d int)
			expand = func(v ssa.Value, d int) {
				if leaves[v] || d > 8 {
					return
				}
				leaves[v] = true
				if ph, isPhi := v.(*ssa.Phi); isPhi {
					for _, e := range ph.Edges {
						expand(e, d+1)
					}
				}
			}
			expand(x, 0)
			for _, w := range model.AllCalls(fn) {
				name := ""
				if o := model.CalleeObj(w.Common()); o != nil {
					name = o.Name()
				} else if w.Common().IsInvoke() {
					name = w.Common().Method.Name()
				}
				if !strings.HasPrefix(name, "Write") || w.Value() == nil {
					continue
				}
				found := leaves[w.Value()]
				if refs := w.Value().Referrers(); refs != nil {
					for _, ref := range *refs {
						if ex, isEx := ref.(*ssa.Extract); isEx && leaves[ex] {
							found = true
						}
					}
				}
				if !found {
					return false
				}
			}
			return true
		})
		r.Check(ok, "C15.R4", fkey(fn, "alive", "count-accepted-only"), p.InstrPos(ci), "counted only when the write was accepted", "bytes are counted for packets the write queue rejected: a stalled interleaved subscriber keeps looking write-alive, the sweep never disconnects it and its socket, goroutine and queued packets stay attached to the stream for ever")
	}
	if n != 1 {
		r.Bad("C15.R4", fkey(fn, "alive", "floor"), p.Pos(fn.Pos()), "the AddWriteBytes call of WriteRtpPacket was not found")
	}
}

// c16r78: recordings are closed after the remuxer's final flush; a failed listen rolls the
// attached input back through delIn.
func c16r78(p *model.Prog, r *report.Result) {
	r.Rule("C16.R7", "in Group.delIn rtmp2MpegtsRemuxer.Dispose() (which flushes the pending audio through feedTsPackets) precedes stopRecordMpegtsIfNeeded(): the tail of the audio reaches the .ts recording")
	delIn := p.Method("pkg/logic", "Group", "delIn")
	disp := p.MethodObj("pkg/remux", "Rtmp2MpegtsRemuxer", "Dispose")
	stopTs := p.MethodObj("pkg/logic", "Group", "stopRecordMpegtsIfNeeded")
	isCall := func(o *types.Func) func(model.DeepInstr) bool {
		return func(d model.DeepInstr) bool {
			ci, ok := d.In.(ssa.CallInstruction)
			return ok && model.SameFunc(model.CalleeObj(ci.Common()), o)
		}
	}
	// on delIn with its same-package helpers inlined
	nD, nS := model.CountDeep(delIn, 2, isCall(disp)), model.CountDeep(delIn, 2, isCall(stopTs))
	ok := nD == 1 && nS == 1 && model.DeepPathQuery{Root: delIn, Depth: 2, From: isCall(stopTs), Target: isCall(disp)}.Find() == nil
	pos := p.Pos(delIn.Pos())
	model.EachInstrDeep(delIn, 2, func(d model.DeepInstr) {
		if isCall(stopTs)(d) {
			pos = p.InstrPos(d.In)
		}
	})
	r.Check(ok, "C16.R7", fkey(delIn, "order", "flush-before-close-recording"), pos, "remuxer disposed (flushed) before the TS recording is closed", "the TS recording is closed before the remuxer's final flush: up to 150 ms of pending audio never reach the file")

	r.Rule("C16.R8", "in Group.StartRtpPub every path from addIn() to a return goes through delPsPubSession/delIn unless the session was successfully started: a failed Listen() releases everything addIn set up (hook, recordings, muxers)")
	start := p.Method("pkg/logic", "Group", "StartRtpPub")
	addIn := p.MethodObj("pkg/logic", "Group", "addIn")
	delPs := p.MethodObj("pkg/logic", "Group", "delPsPubSession")
	delInO := p.MethodObj("pkg/logic", "Group", "delIn")
	listen := p.MethodObj("pkg/gb28181", "PubSession", "Listen")
	lcs := model.CallsTo(start, listen)
	if len(model.CallsTo(start, addIn)) != 1 || len(lcs) != 1 {
		r.Bad("C16.R8", fkey(start, "rollback", "shape"), p.Pos(start.Pos()), "addIn / Listen calls of StartRtpPub not found")
		return
	}
	call := lcs[0].(*ssa.Call)
	bad := false
	for _, e := range errNonNilEdges(call) {
		leak := model.PathQuery{FromBlock: e, Stop: func(in ssa.Instruction) bool {
			ci, ok := in.(ssa.CallInstruction)
			if !ok {
				return false
			}
			o := model.CalleeObj(ci.Common())
			return model.SameFunc(o, delPs) || model.SameFunc(o, delInO)
		}, Target: func(in ssa.Instruction) bool { _, ok := in.(*ssa.Return); return ok }}.Find(start)
		if leak != nil {
			bad = true
		}
	}
	r.Check(!bad && len(errNonNilEdges(call)) > 0, "C16.R8", fkey(start, "rollback", "listen-failure"), p.InstrPos(call), "listen failure rolls back through delIn", "when Listen() fails the input attached by addIn is not released through delIn: the hook's OnStop is never called, record files stay open and the empty stream is never removed")
}
