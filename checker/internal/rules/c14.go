package rules

import (
	"go/token"
	"go/types"
	"strings"

	"golang.org/x/tools/go/ssa"

	"lalverif/internal/model"
	"lalverif/internal/report"
)

func init() { register("C14", c14) }

func c14(p *model.Prog, r *report.Result) {
	r.Explanation = "Decides the structural clauses of access control: every attach of a network session in ServerManager runs only on the nil-error edge of the matching Authentication callback, and the HLS handler on the m3u8 branch only behind OnHls (R1); an RTSP DESCRIBE reaches the description only through handleAuthorized()==(\"\",nil) when authentication is enabled, and that result is returned only behind CheckAuthorization()==true (R2); the scheme stored by ParseAuthorization equals the scheme prefix it matched (R3); the HLS handler runs only on the not-black-listed edge (R4); KickSession reports success only after a Dispose/stopPull (R5); client-chosen stream names and request paths reach file-system sinks only through a containment check (R6)."
	r.NotDecided = []string{"the secret comparison as a function of values (letter case, duplicated query keys)", "black-list expiry timing", "digest nonce freshness / replay", "that a rejected connection receives no bytes beyond not being attached"}
	r.Assumptions = []string{"the in-process API AddCustomizePubSession and the HTTP control API start_rtp_pub are trusted callers (no simple-auth applies to them)"}
	logicFns := lalFuncsIn(p, "pkg/logic")
	r.Count("functions_analysed", len(logicFns))

	// ---------------------------------------------------------------- R1
	r.Rule("C14.R1", "every call of Group.Add{Rtmp,Rtsp}PubSession / Add{Rtmp,Httpflv,Httpts,Hls}SubSession / HandleNewRtspSubSessionDescribe in pkg/logic runs only on the nil-error edge of Authentication.OnPubStart / OnSubStart; in serveHls the m3u8 branch reaches ServeHTTP only through a successful OnHls")
	onPub := ifaceMethod(p, "pkg/logic", "IAuthentication", "OnPubStart")
	onSub := ifaceMethod(p, "pkg/logic", "IAuthentication", "OnSubStart")
	onHls := ifaceMethod(p, "pkg/logic", "IAuthentication", "OnHls")
	type attach struct {
		m    string
		auth *types.Func
	}
	attaches := []attach{
		{"AddRtmpPubSession", onPub}, {"AddRtspPubSession", onPub},
		{"AddRtmpSubSession", onSub}, {"AddHttpflvSubSession", onSub}, {"AddHttptsSubSession", onSub}, {"AddHlsSubSession", onSub},
		{"HandleNewRtspSubSessionDescribe", onSub},
	}
	nAtt := 0
	for _, a := range attaches {
		obj := p.MethodObj("pkg/logic", "Group", a.m)
		for _, fn := range logicFns {
			for _, ci := range model.CallsTo(fn, obj) {
				nAtt++
				ok := false
				for _, ac := range model.CallsTo(fn, a.auth) {
					if okEdgeDominates(fn, ac, ci) {
						ok = true
					}
				}
				r.Check(ok, "C14.R1", fkey(fn, "attach", a.m), p.InstrPos(ci), "attach only on the nil-error edge of Authentication."+a.auth.Name(), "a session is attached to the group without (or despite a failed) "+a.auth.Name()+" check")
			}
		}
	}
	if nAtt < 7 {
		r.Bad("C14.R1", "floor", "", "fewer than 7 attach sites found")
	}
	serveHls := p.Method("pkg/logic", "ServerManager", "serveHls")
	hlsServe := p.MethodObj("pkg/hls", "ServerHandler", "ServeHTTP")
	serves := model.CallsTo(serveHls, hlsServe)
	// the OnHls check itself, or a helper of the package that returns nothing but OnHls's verdict
	isOnHls := func(c ssa.CallInstruction) bool {
		if model.SameFunc(model.CalleeObj(c.Common()), onHls) {
			return true
		}
		ce := c.Common().StaticCallee()
		return ce != nil && ce.Pkg == serveHls.Pkg && allReturnsSatisfy(ce, 0, func(v ssa.Value) bool {
			call, isC := v.(*ssa.Call)
			return isC && model.SameFunc(model.CalleeObj(call.Common()), onHls)
		})
	}
	var hlsAuth []ssa.CallInstruction
	for _, c := range model.AllCalls(serveHls) {
		if isOnHls(c) {
			hlsAuth = append(hlsAuth, c)
		}
	}
	if len(serves) == 0 || len(hlsAuth) == 0 {
		r.Bad("C14.R1", fkey(serveHls, "attach", "hls"), p.Pos(serveHls.Pos()), "serveHls no longer calls OnHls / ServeHTTP")
	}
	getFileType := p.MethodObj("pkg/base", "UrlContext", "GetFileType")
	isM3u8Edge := func(b *ssa.BasicBlock, k int) bool {
		iff, ok := b.Instrs[len(b.Instrs)-1].(*ssa.If)
		if !ok {
			return false
		}
		c, pol := model.StripNot(iff.Cond, k == 0)
		cmp, ok := c.(*ssa.BinOp)
		if !ok || (cmp.Op != token.EQL && cmp.Op != token.NEQ) {
			return false
		}
		call, ok := cmp.X.(*ssa.Call)
		s, isS := model.ConstString(cmp.Y)
		if !ok || !isS || s != "m3u8" || !model.SameFunc(model.CalleeObj(call.Common()), getFileType) {
			return false
		}
		return (cmp.Op == token.EQL) == pol
	}
	for _, sv := range serves {
		okErr := true
		for _, ac := range hlsAuth {
			call := ac.(*ssa.Call)
			for _, e := range errNonNilEdges(call) {
				if (model.PathQuery{FromBlock: e, Target: func(x ssa.Instruction) bool { return x == sv }}).Find(serveHls) != nil {
					okErr = false
				}
			}
			if len(errNonNilEdges(call)) == 0 {
				okErr = false
			}
		}
		// from each m3u8-true edge, ServeHTTP is unreachable without passing OnHls
		okPass := true
		nEdge := 0
		for _, b := range serveHls.Blocks {
			for k := range b.Succs {
				if isM3u8Edge(b, k) {
					nEdge++
					if (model.PathQuery{FromBlock: b.Succs[k],
						Stop: func(x ssa.Instruction) bool {
							c2, isC := x.(ssa.CallInstruction)
							return isC && isOnHls(c2)
						},
						Target: func(x ssa.Instruction) bool { return x == sv }}).Find(serveHls) != nil {
						okPass = false
					}
				}
			}
		}
		r.Check(okErr && okPass && nEdge > 0, "C14.R1", fkey(serveHls, "attach", "hls-m3u8"), p.InstrPos(sv), "playlist requests reach the file handler only through a successful OnHls", "a playlist request can reach the HLS file handler without (or despite a failed) OnHls check")
	}

	// ---------------------------------------------------------------- R2
	r.Rule("C14.R2", "in ServerCommandSession.handleDescribe, from the AuthEnable==true edge the SubSession creation / observer callback / feedSdp are reachable only across both the err==nil and authresp==\"\" edges of handleAuthorized; handleAuthorized returns (\"\",nil) only behind CheckAuthorization()==true")
	hd := p.Method("pkg/rtsp", "ServerCommandSession", "handleDescribe")
	ha := p.MethodObj("pkg/rtsp", "ServerCommandSession", "handleAuthorized")
	authEnable := p.Field("pkg/rtsp", "ServerAuthConfig", "AuthEnable")
	newSub := p.FuncObj("pkg/rtsp", "NewSubSession")
	onDesc := ifaceMethod(p, "pkg/rtsp", "IServerCommandSessionObserver", "OnNewRtspSubSessionDescribe")
	feedSdp := p.MethodObj("pkg/rtsp", "ServerCommandSession", "feedSdp")
	var sensitive []ssa.CallInstruction
	sensitive = append(sensitive, model.CallsTo(hd, newSub, onDesc, feedSdp)...)
	if len(sensitive) < 3 {
		r.Bad("C14.R2", "floor", "", "handleDescribe no longer creates the SubSession / calls the observer / feeds the SDP")
	}
	var enableEdges []*ssa.BasicBlock
	for _, b := range hd.Blocks {
		iff, ok := b.Instrs[len(b.Instrs)-1].(*ssa.If)
		if !ok {
			continue
		}
		c, pol := model.StripNot(iff.Cond, true)
		if model.IsLoadOfField(c, authEnable) {
			if pol {
				enableEdges = append(enableEdges, b.Succs[0])
			} else {
				enableEdges = append(enableEdges, b.Succs[1])
			}
		}
	}
	haCalls := model.CallsTo(hd, ha)
	if len(enableEdges) == 0 || len(haCalls) != 1 {
		r.Bad("C14.R2", fkey(hd, "auth", "AuthEnable"), p.Pos(hd.Pos()), "handleDescribe no longer tests AuthEnable / calls handleAuthorized exactly once")
	} else {
		call := haCalls[0].(*ssa.Call)
		var respV, errV ssa.Value
		for _, ref := range *call.Referrers() {
			if ex, ok := ref.(*ssa.Extract); ok {
				if ex.Index == 0 {
					respV = ex
				} else {
					errV = ex
				}
			}
		}
		blockErrNil := func(b *ssa.BasicBlock, k int) bool {
			iff, ok := b.Instrs[len(b.Instrs)-1].(*ssa.If)
			if !ok {
				return false
			}
			c, pol := model.StripNot(iff.Cond, k == 0)
			x, trueIsNonNil, ok := nilTest(c)
			return ok && x == errV && pol != trueIsNonNil
		}
		blockRespEmpty := func(b *ssa.BasicBlock, k int) bool {
			iff, ok := b.Instrs[len(b.Instrs)-1].(*ssa.If)
			if !ok {
				return false
			}
			c, pol := model.StripNot(iff.Cond, k == 0)
			cmp, ok := c.(*ssa.BinOp)
			if !ok || (cmp.Op != token.EQL && cmp.Op != token.NEQ) || cmp.X != respV {
				return false
			}
			s, isS := model.ConstString(cmp.Y)
			return isS && s == "" && ((cmp.Op == token.EQL) == pol)
		}
		for _, sc := range sensitive {
			ok := errV != nil && respV != nil
			for _, e := range enableEdges {
				for _, blk := range []func(*ssa.BasicBlock, int) bool{blockErrNil, blockRespEmpty} {
					if (model.PathQuery{FromBlock: e, StopEdge: blk, Target: func(x ssa.Instruction) bool { return x == sc }}).Find(hd) != nil {
						ok = false
					}
				}
			}
			r.Check(ok, "C14.R2", fkey(hd, "describe", model.CalleeObj(sc.Common()).Name()), p.InstrPos(sc), "reachable with auth enabled only through handleAuthorized()==(\"\",nil)", "with RTSP auth enabled the description path is reachable without a successful credential check")
		}
	}
	haFn := p.Method("pkg/rtsp", "ServerCommandSession", "handleAuthorized")
	checkAuth := p.MethodObj("pkg/rtsp", "Auth", "CheckAuthorization")
	nOkRet := 0
	for _, ret := range model.ReturnsOf(haFn) {
		rvs := model.ReturnValues(ret)
		if len(rvs) != 2 {
			continue
		}
		s, isS := model.ConstString(rvs[0])
		if !isS || s != "" || !model.IsNilConst(rvs[1]) {
			continue
		}
		nOkRet++
		ok := model.GuardedBy(ret, func(c ssa.Value, pol bool) bool {
			call, isCall := c.(*ssa.Call)
			return isCall && pol && model.SameFunc(model.CalleeObj(call.Common()), checkAuth)
		})
		r.Check(ok, "C14.R2", fkey(haFn, "grant", "return \"\",nil"), p.InstrPos(ret), "granted only behind CheckAuthorization()==true", "handleAuthorized grants access on a path where CheckAuthorization did not return true")
	}
	if nOkRet < 1 {
		r.Bad("C14.R2", fkey(haFn, "grant", "floor"), p.Pos(haFn.Pos()), "handleAuthorized has no granting return: valid credentials are never accepted")
	}

	// ---------------------------------------------------------------- R3
	r.Rule("C14.R3", "in Auth.ParseAuthorization every store to Typ that is guarded by strings.HasPrefix(s, P) stores the constant TrimSpace(P); the handled prefixes cover every scheme MakeAuthenticate can offer (Basic, Digest)")
	pa := p.Method("pkg/rtsp", "Auth", "ParseAuthorization")
	typF := p.Field("pkg/rtsp", "Auth", "Typ")
	seen := map[string]bool{}
	for _, st := range model.FieldStores(pa, typF) {
		val, isS := model.ConstString(st.Val)
		var prefix string
		found := false
		for _, g := range model.Guards(st.Block()) {
			c, pol := model.StripNot(g.Cond, g.Polarity)
			call, ok := c.(*ssa.Call)
			if !ok || !pol {
				continue
			}
			if f := call.Common().StaticCallee(); f != nil && f.Pkg != nil && f.Pkg.Pkg.Path() == "strings" && f.Name() == "HasPrefix" {
				if s, ok := model.ConstString(call.Common().Args[1]); ok {
					prefix, found = s, true
					break
				}
			}
		}
		if !found {
			r.Bad("C14.R3", fkey(pa, "scheme", "Typ"), p.InstrPos(st), "Typ stored outside a HasPrefix(scheme) branch")
			continue
		}
		seen[strings.TrimSpace(prefix)] = true
		r.Check(isS && val == strings.TrimSpace(prefix), "C14.R3", fkey(pa, "scheme", strings.TrimSpace(prefix)), p.InstrPos(st),
			"Typ = "+val+" in the '"+prefix+"' branch", "the '"+prefix+"' branch records scheme '"+val+"': valid "+strings.TrimSpace(prefix)+" credentials are checked as the wrong scheme and never accepted")
	}
	for _, sch := range []string{p.Const("pkg/rtsp", "AuthTypeBasic").Val().ExactString(), p.Const("pkg/rtsp", "AuthTypeDigest").Val().ExactString()} {
		sch = strings.Trim(sch, `"`)
		r.Check(seen[sch], "C14.R3", fkey(pa, "scheme-covered", sch), p.Pos(pa.Pos()), "scheme handled", "scheme "+sch+" offered by MakeAuthenticate is not parsed by ParseAuthorization")
	}

	// ---------------------------------------------------------------- R4
	r.Rule("C14.R4", "in serveHls the HLS file handler runs only on the false edge of ipBlacklist.Has(remoteIp)")
	has := p.MethodObj("pkg/logic", "IpBlacklist", "Has")
	for _, sv := range serves {
		ok := model.GuardedBy(sv, func(c ssa.Value, pol bool) bool {
			call, isCall := c.(*ssa.Call)
			return isCall && !pol && model.SameFunc(model.CalleeObj(call.Common()), has)
		})
		r.Check(ok, "C14.R4", fkey(serveHls, "blacklist", "ServeHTTP"), p.InstrPos(sv), "handler dominated by !ipBlacklist.Has()", "a black-listed address can be served HLS content")
	}

	// ---------------------------------------------------------------- R5
	r.Rule("C14.R5", "Group.KickSession / kickPull return true only behind a Dispose() or stopPull() call; ServerManager.CtrlKickSession reports success only on the true edge of KickSession")
	for _, fn := range []*ssa.Function{p.Method("pkg/logic", "Group", "KickSession"), p.Method("pkg/logic", "Group", "kickPull")} {
		n := 0
		for _, ret := range model.ReturnsOf(fn) {
			rvs := model.ReturnValues(ret)
			if len(rvs) != 1 {
				continue
			}
			v, isc := model.ConstBool(rvs[0])
			if !isc || !v {
				continue
			}
			n++
			ok := false
			for _, ci := range model.AllCalls(fn) {
				o := model.CalleeObj(ci.Common())
				if o != nil && (o.Name() == "Dispose" || o.Name() == "stopPull") && ci.Block() == ret.Block() {
					ok = true
				}
			}
			r.Check(ok, "C14.R5", fkey(fn, "kick", "return true"), p.InstrPos(ret), "success returned right after disconnecting the session", "kick reports success without disconnecting the session")
		}
		if n == 0 {
			r.Bad("C14.R5", fkey(fn, "kick", "floor"), p.Pos(fn.Pos()), "kick never reports success")
		}
	}

	// ---------------------------------------------------------------- R6
	c14r6(p, r)
	c14r7(p, r)
	c14r89(p, r)
	c14r1011(p, r)
	c14r12(p, r)
	c14r13(p, r)
	w5HlsSweep(p, r, "C14.R14")
	w5HlsAuthName(p, r, "C14.R15")
	w6KickPrefixes(p, r, "C14.R16")
}

// c14r6 is defined in c14_taint.go once built; until then it records that R6 is not decided.
