package rules

import (
	"go/token"
	"go/types"
	"sort"
	"strings"

	"golang.org/x/tools/go/ssa"

	"lalverif/internal/model"
	"lalverif/internal/report"
)

func init() { register("C16", c16) }

// groupFieldPath returns the path of Group fields an address denotes when it is rooted at a
// *Group value (group.f, group.stat.VideoCodec, ...): names joined by '.'.
func groupFieldPath(addr ssa.Value, groupT *types.Named) (string, bool) {
	var names []string
	cur := addr
	for {
		fa, ok := cur.(*ssa.FieldAddr)
		if !ok {
			break
		}
		names = append([]string{model.FieldOf(fa).Name()}, names...)
		cur = fa.X
	}
	if len(names) == 0 {
		return "", false
	}
	pt, ok := cur.Type().Underlying().(*types.Pointer)
	if !ok {
		return "", false
	}
	if n, ok := pt.Elem().(*types.Named); !ok || n.Obj() != groupT.Obj() {
		return "", false
	}
	return strings.Join(names, "."), true
}

var resetMethodNames = map[string]bool{"Clear": true, "Flush": true, "Reset": true, "Dispose": true, "Close": true}
var mutatingMethodNames = map[string]bool{"Write": true, "Feed": true, "Push": true, "Add": true, "SetMetadata": true, "WriteRaw": true, "FeedRtmpMessage": true, "FeedRtmpMsg": true}

func c16(p *model.Prog, r *report.Result) {
	r.Explanation = "Decides the structural clauses of 'input end finalises every output once and the name starts clean': the per-input state of logic.Group is computed from the stores and mutating calls reachable from the input/data entry points, and each such field must be reset in delIn on every path that does not cross a nil/config edge (R1); every input kind's serving function reaches its Del* notification after the session loop (R2); in delIn the TS remuxer is disposed (audio flushed) before HLS is stopped, before patpmt and caches are cleared, the hook is stopped and push sessions are disposed (R3); closable resources opened into struct fields are closed by the owner's dispose path (R4); the tick loop disposes and erases a group exactly when IsInactive() (R5)."
	r.NotDecided = []string{"that recordings parse completely", "goroutine and descriptor counts", "idle-timeout timing", "exactly-once of finalisation as a count (only the order and presence on every path)"}
	r.Assumptions = []string{"delIn is the single teardown routine (C03.R2 shows who may call it)"}
	groupT := p.Named("pkg/logic", "Group")
	logicFns := lalFuncsIn(p, "pkg/logic")
	r.Count("functions_analysed", len(logicFns))
	delIn := p.Method("pkg/logic", "Group", "delIn")

	isGroupMethod := func(fn *ssa.Function) bool {
		if fn == nil || fn.Signature.Recv() == nil {
			return false
		}
		t := fn.Signature.Recv().Type()
		if pt, ok := t.(*types.Pointer); ok {
			t = pt.Elem()
		}
		n, ok := t.(*types.Named)
		return ok && n.Obj() == groupT.Obj()
	}

	// ---------------------------------------------------------------- R1
	r.Rule("C16.R1", "every Group field (path) stored, or mutated through a Write/Feed/Push/Add-like method, by a Group method reachable from the input/data entry points is reset (stored, or Clear/Flush/Reset/Dispose/Close called on it) in delIn or in a Group method delIn calls on every path, where a path may only bypass the reset across a nil test of that field or a configuration test; exemptions are listed with a reason")
	entryNames := []string{"addIn", "AddRtmpPubSession", "AddRtspPubSession", "AddCustomizePubSession", "StartRtpPub", "AddRtmpPullSession", "AddRtspPullSession",
		"OnReadRtmpAvMsg", "OnSdp", "OnRtpPacket", "OnAvPacket", "OnAvPacketFromPsPubSession", "OnPatPmt", "OnTsPackets", "onRtmpMsgFromRemux", "onSdpFromRemux", "onRtpPacketFromRemux", "OnFragmentOpen"}
	var roots []*ssa.Function
	for _, n := range entryNames {
		roots = append(roots, p.Method("pkg/logic", "Group", n))
	}
	reach := p.Reachable(roots, true, func(f *ssa.Function) bool {
		return isGroupMethod(f) || (f.Parent() != nil && isGroupMethod(f.Parent()))
	})
	type site struct {
		fn  *ssa.Function
		in  ssa.Instruction
		how string
	}
	perInput := map[string][]site{}
	for fn := range reach {
		if fn == delIn || len(fn.Blocks) == 0 {
			continue
		}
		model.EachInstr(fn, func(in ssa.Instruction) {
			switch x := in.(type) {
			case *ssa.Store:
				if fp, ok := groupFieldPath(x.Addr, groupT); ok {
					perInput[fp] = append(perInput[fp], site{fn, in, "store"})
				}
			case *ssa.MapUpdate:
				if f := model.LoadedField(x.Map); f != nil {
					_ = f
				}
			case ssa.CallInstruction:
				o := model.CalleeObj(x.Common())
				if o == nil || !mutatingMethodNames[o.Name()] {
					return
				}
				rv := receiver(x.Common())
				if rv == nil {
					return
				}
				if u, ok := rv.(*ssa.UnOp); ok && u.Op == token.MUL {
					if fp, ok := groupFieldPath(u.X, groupT); ok {
						perInput[fp] = append(perInput[fp], site{fn, in, "call " + o.Name()})
					}
				} else if fa, ok := rv.(*ssa.FieldAddr); ok { // value-typed container field, method on its address
					if fp, ok := groupFieldPath(fa, groupT); ok {
						perInput[fp] = append(perInput[fp], site{fn, in, "call " + o.Name()})
					}
				}
			}
		})
	}
	exempt := map[string]string{
		"inVideoFpsRecords":          "sliding statistics window keyed by wall-clock seconds; old entries age out",
		"psPubTimeoutSec":            "overwritten by the next StartRtpPub before it is read for that input",
		"psPubPrevInactiveCheckTick": "only delays the first idle check of the next GB28181 input by at most one timeout",
		"rtspPullDumpFile":           "closed and cleared by resetRelayPullSession, which delPullSession calls before delIn (checked below)",
		"stat.StatPub":               "recomputed from the current input on every GetStat",
		"stat.StatSubs":              "recomputed on every GetStat",
		"stat.StatPull":              "recomputed on every GetStat",
	}
	// reset sites: per function, instructions that reset a field path
	resetsIn := func(fn *ssa.Function, fp string) []ssa.Instruction {
		var out []ssa.Instruction
		model.EachInstr(fn, func(in ssa.Instruction) {
			switch x := in.(type) {
			case *ssa.Store:
				if g, ok := groupFieldPath(x.Addr, groupT); ok && g == fp {
					out = append(out, in)
				}
			case ssa.CallInstruction:
				o := model.CalleeObj(x.Common())
				if o == nil || !resetMethodNames[o.Name()] {
					return
				}
				rv := receiver(x.Common())
				if u, ok := rv.(*ssa.UnOp); ok && u.Op == token.MUL {
					if g, ok := groupFieldPath(u.X, groupT); ok && g == fp {
						out = append(out, in)
					}
				} else if fa, ok := rv.(*ssa.FieldAddr); ok {
					if g, ok := groupFieldPath(fa, groupT); ok && g == fp {
						out = append(out, in)
					}
				}
			}
		})
		return out
	}
	configF := p.Field("pkg/logic", "Group", "config")
	pushEnableF := p.Field("pkg/logic", "Group", "pushEnable")
	// effective(fn, fp): every entry->return path of fn passes a reset of fp, or a call to a Group
	// method for which that holds, unless it crosses a nil edge of fp or a config edge.
	var effective func(fn *ssa.Function, fp string, depth int) bool
	effective = func(fn *ssa.Function, fp string, depth int) bool {
		if depth > 3 || len(fn.Blocks) == 0 {
			return false
		}
		resets := map[ssa.Instruction]bool{}
		for _, in := range resetsIn(fn, fp) {
			resets[in] = true
		}
		for _, ci := range model.AllCalls(fn) {
			if callee := ci.Common().StaticCallee(); callee != nil && isGroupMethod(callee) && callee != fn {
				if effective(callee, fp, depth+1) {
					resets[ci] = true
				}
			}
		}
		if len(resets) == 0 {
			return false
		}
		bad := model.PathQuery{
			Stop: func(in ssa.Instruction) bool { return resets[in] },
			StopEdge: func(b *ssa.BasicBlock, k int) bool {
				iff, ok := b.Instrs[len(b.Instrs)-1].(*ssa.If)
				if !ok {
					return false
				}
				c, pol := model.StripNot(iff.Cond, k == 0)
				if x, trueIsNonNil, ok := nilTest(c); ok {
					if u, ok := x.(*ssa.UnOp); ok && u.Op == token.MUL {
						if g, ok := groupFieldPath(u.X, groupT); ok && g == fp && pol != trueIsNonNil {
							return true // field is nil on this edge: nothing to reset
						}
					}
				}
				// configuration tests: loads under group.config or group.pushEnable
				isCfg := model.DependsOn(c, func(v ssa.Value) bool {
					return model.IsLoadOfField(v, configF) || model.IsLoadOfField(v, pushEnableF)
				})
				return isCfg
			},
			Target: func(in ssa.Instruction) bool { _, ok := in.(*ssa.Return); return ok },
		}.Find(fn)
		return bad == nil
	}
	var fps []string
	for fp := range perInput {
		fps = append(fps, fp)
	}
	sort.Strings(fps)
	nField := 0
	for _, fp := range fps {
		sites := perInput[fp]
		s0 := sites[0]
		where := model.FnName(s0.fn) + " (" + s0.how + ")"
		if why, ok := exempt[fp]; ok {
			r.Trivial("C16.R1", "Group|reset|"+fp, p.InstrPos(s0.in), "exempt: "+why)
			continue
		}
		if fp == "pullProxy" || strings.HasPrefix(fp, "pullProxy.") {
			continue // relay-pull bookkeeping: C17
		}
		nField++
		r.Check(effective(delIn, fp, 0), "C16.R1", "Group|reset|"+fp, p.InstrPos(s0.in),
			"per-input state (written in "+where+") is reset by delIn on every non-nil/non-config path",
			"per-input state written in "+where+" is not reset by delIn: it survives into the next publisher of the same name")
	}
	if nField < 15 {
		r.Bad("C16.R1", "floor", "", "fewer than 15 per-input fields computed; the data-path roots are gone")
	}
	r.Count("per_input_fields", nField)
	// exemption check: rtspPullDumpFile reset dominates delIn in delPullSession
	dps := p.Method("pkg/logic", "Group", "delPullSession")
	rrp := p.MethodObj("pkg/logic", "Group", "resetRelayPullSession")
	okEx := false
	for _, d := range model.CallsTo(dps, p.MethodObj("pkg/logic", "Group", "delIn")) {
		for _, c := range model.CallsTo(dps, rrp) {
			if model.InstrDominates(c, d) && effective(p.Method("pkg/logic", "Group", "resetRelayPullSession"), "rtspPullDumpFile", 0) {
				okEx = true
			}
		}
	}
	r.Check(okEx, "C16.R1", "Group|reset|rtspPullDumpFile-via-resetRelayPullSession", p.Pos(dps.Pos()), "resetRelayPullSession (closing the dump file) dominates delIn in delPullSession", "the RTSP pull dump file is no longer closed before the pull input is torn down")

	// ---------------------------------------------------------------- R2
	r.Rule("C16.R2", "after the session loop returns, each serving function reaches its Del*/OnDel* call under no other guard than the refusal flag / session-link / role tests; the GB28181 goroutine calls DelPsPubSession on every path; each ServerManager.OnDel*PubSession reaches Group.delIn in the call graph")
	type serve struct {
		fn      *ssa.Function
		loop    *types.Func
		del     *types.Func
		allowed func(c ssa.Value) bool
	}
	flagF := p.Field("pkg/rtmp", "ServerSession", "DisposeByObserverFlag")
	pubLink := p.Field("pkg/rtsp", "ServerCommandSession", "pubSession")
	baseType := p.MethodObj("pkg/base", "BasicSessionStat", "BaseType")
	serves := []serve{
		{p.Method("pkg/rtmp", "Server", "handleTcpConnect"), p.MethodObj("pkg/rtmp", "ServerSession", "RunLoop"), ifaceMethod(p, "pkg/rtmp", "IServerObserver", "OnDelRtmpPubSession"),
			func(c ssa.Value) bool {
				if model.IsLoadOfField(c, flagF) {
					return true
				}
				if b, ok := c.(*ssa.BinOp); ok {
					if call, ok := b.X.(*ssa.Call); ok && model.SameFunc(model.CalleeObj(call.Common()), baseType) {
						return true
					}
				}
				return false
			}},
		{p.Method("pkg/rtsp", "Server", "handleTcpConnect"), p.MethodObj("pkg/rtsp", "ServerCommandSession", "RunLoop"), ifaceMethod(p, "pkg/rtsp", "IServerObserver", "OnDelRtspPubSession"),
			func(c ssa.Value) bool { x, _, ok := nilTest(c); return ok && model.IsLoadOfField(x, pubLink) }},
		{p.Method("pkg/rtsp", "WebsocketServer", "HandleWebsocket"), p.MethodObj("pkg/rtsp", "ServerCommandSession", "RunLoop"), ifaceMethod(p, "pkg/rtsp", "IServerObserver", "OnDelRtspPubSession"),
			func(c ssa.Value) bool { x, _, ok := nilTest(c); return ok && model.IsLoadOfField(x, pubLink) }},
	}
	for _, s := range serves {
		loops := model.CallsTo(s.fn, s.loop)
		dels := model.CallsTo(s.fn, s.del)
		key := fkey(s.fn, "exit->del", s.del.Name())
		if len(loops) != 1 || len(dels) < 1 {
			r.Bad("C16.R2", key, p.Pos(s.fn.Pos()), "serving function no longer runs the session loop once and notifies its end")
			continue
		}
		ok := model.InstrDominates(loops[0], dels[0])
		for _, g := range model.Guards(dels[0].Block()) {
			if !model.InstrDominates(loops[0], g.If) {
				continue // guard taken before the loop
			}
			c, _ := model.StripNot(g.Cond, g.Polarity)
			if !s.allowed(c) {
				ok = false
			}
		}
		r.Check(ok, "C16.R2", key, p.InstrPos(dels[0]), "end-of-session notification follows the loop under the refusal/link/role guards only", "the end of a publisher session can go unreported: the stream keeps its dead input and outputs are never finalised")
	}
	// gb28181 goroutine in StartRtpPub
	srp := p.Method("pkg/logic", "Group", "StartRtpPub")
	delPs := p.MethodObj("pkg/logic", "Group", "DelPsPubSession")
	nGo := 0
	model.EachInstr(srp, func(in ssa.Instruction) {
		g, ok := in.(*ssa.Go)
		if !ok {
			return
		}
		mc, ok := g.Call.Value.(*ssa.MakeClosure)
		if !ok {
			return
		}
		body := mc.Fn.(*ssa.Function)
		nGo++
		bad := model.PathQuery{Stop: func(x ssa.Instruction) bool {
			c2, isC := x.(ssa.CallInstruction)
			return isC && model.SameFunc(model.CalleeObj(c2.Common()), delPs)
		}, Target: func(x ssa.Instruction) bool { _, ok := x.(*ssa.Return); return ok }}.Find(body)
		r.Check(bad == nil, "C16.R2", fkey(body, "exit->del", "DelPsPubSession"), p.InstrPos(g), "the GB28181 goroutine always reports the session's end", "the GB28181 session loop can end without DelPsPubSession")
	})
	if nGo != 1 {
		r.Bad("C16.R2", "floor|StartRtpPub", "", "expected one goroutine in StartRtpPub")
	}
	for _, n := range []string{"OnDelRtmpPubSession", "OnDelRtspPubSession", "DelCustomizePubSession"} {
		fn := p.Method("pkg/logic", "ServerManager", n)
		via := p.Reachable([]*ssa.Function{fn}, true, model.IsLal)
		_, ok := via[delIn]
		r.Check(ok, "C16.R2", fkey(fn, "reaches", "delIn"), p.Pos(fn.Pos()), "reaches Group.delIn: "+model.PathTo(via, delIn), "the server-level end notification no longer reaches the group's teardown")
	}

	// ---------------------------------------------------------------- R3
	r.Rule("C16.R3", "in Group.delIn: rtmp2MpegtsRemuxer.Dispose() precedes stopHlsIfNeeded(); both precede the clearing of patpmt and the GOP caches; customizeHookSessionContext.OnStop(), stopPushIfNeeded(), stopRecordFlvIfNeeded(), stopRecordMpegtsIfNeeded() are called; stopPushIfNeeded disposes every push session")
	remuxDispose := p.MethodObj("pkg/remux", "Rtmp2MpegtsRemuxer", "Dispose")
	stopHls := p.MethodObj("pkg/logic", "Group", "stopHlsIfNeeded")
	// delIn with the same-package helpers it calls inlined (the teardown may be split into
	// steps): order questions are asked on that view
	const delInDepth = 2
	callOf := func(o *types.Func) func(model.DeepInstr) bool {
		return func(d model.DeepInstr) bool {
			ci, ok := d.In.(ssa.CallInstruction)
			return ok && model.SameFunc(model.CalleeObj(ci.Common()), o)
		}
	}
	isRootReturn := func(d model.DeepInstr) bool {
		_, isRet := d.In.(*ssa.Return)
		return isRet && len(d.Chain) == 0 && d.Fn == delIn
	}
	deepPos := func(pred func(model.DeepInstr) bool) string {
		pos := p.Pos(delIn.Pos())
		found := false
		model.EachInstrDeep(delIn, delInDepth, func(d model.DeepInstr) {
			if !found && pred(d) {
				pos, found = p.InstrPos(d.In), true
			}
		})
		return pos
	}
	isRD, isSH := callOf(remuxDispose), callOf(stopHls)
	nRD, nSH := model.CountDeep(delIn, delInDepth, isRD), model.CountDeep(delIn, delInDepth, isSH)
	if nRD != 1 || nSH != 1 {
		r.Bad("C16.R3", fkey(delIn, "order", "remuxer-dispose/stop-hls"), p.Pos(delIn.Pos()), "delIn no longer disposes the TS remuxer and stops HLS exactly once each")
	} else {
		// no path from stopHls to remuxer dispose, and remuxer dispose reachable before
		after := model.DeepPathQuery{Root: delIn, Depth: delInDepth, From: isSH, Target: isRD}.Find()
		before := model.DeepPathQuery{Root: delIn, Depth: delInDepth, From: isRD, Target: isSH}.Find()
		r.Check(after == nil && before != nil, "C16.R3", fkey(delIn, "order", "flush-audio-before-stop-hls"), deepPos(isSH), "pending audio is flushed into the last HLS segment before it is closed", "HLS is stopped before the TS remuxer flushed its pending audio: the tail of the stream is lost from the last segment")
		for _, fp := range []string{"patpmt", "httptsGopCache", "rtmpGopCache", "httpflvGopCache"} {
			isReset := func(d model.DeepInstr) bool {
				for _, rs := range resetsIn(d.Fn, fp) {
					if rs == d.In {
						return true
					}
				}
				return false
			}
			// no way from the entry to a reset that does not pass stopHls
			early := model.DeepPathQuery{Root: delIn, Depth: delInDepth, Stop: isSH, Target: isReset}.Find()
			n := model.CountDeep(delIn, delInDepth, isReset)
			for k := 0; k < n; k++ {
				pos := deepPos(isReset)
				if early != nil {
					pos = p.InstrPos(early.In)
				}
				r.Check(early == nil, "C16.R3", fkey(delIn, "order", "stop-hls-before-clear-"+fp), pos, "cleared after the outputs were finalised", fp+" is cleared before the TS/HLS outputs were finalised")
			}
		}
	}
	for _, m := range []string{"stopPushIfNeeded", "stopRecordFlvIfNeeded", "stopRecordMpegtsIfNeeded"} {
		isM := callOf(p.MethodObj("pkg/logic", "Group", m))
		ok := model.CountDeep(delIn, delInDepth, isM) == 1 &&
			model.DeepPathQuery{Root: delIn, Depth: delInDepth, Stop: isM, Target: isRootReturn}.Find() == nil
		r.Check(ok, "C16.R3", fkey(delIn, "finalise", m), p.Pos(delIn.Pos()), m+" runs on every path of delIn", m+" is not called on every path of delIn")
	}
	onStop := ifaceMethod(p, "pkg/logic", "ICustomizeHookSessionContext", "OnStop")
	r.Check(model.CountDeep(delIn, delInDepth, callOf(onStop)) == 1, "C16.R3", fkey(delIn, "finalise", "hook.OnStop"), p.Pos(delIn.Pos()), "the stream hook is told to stop exactly at one site", "the stream hook is not told to stop (or at several sites)")
	spush := p.Method("pkg/logic", "Group", "stopPushIfNeeded")
	pushDispose := p.MethodObj("pkg/rtmp", "PushSession", "Dispose")
	r.Check(len(model.CallsTo(spush, pushDispose)) >= 1, "C16.R3", fkey(spush, "finalise", "PushSession.Dispose"), p.Pos(spush.Pos()), "relay push sessions are disposed", "relay push sessions are not closed when the input ends")
	for _, m := range []struct{ fn, typ, pkg, field string }{{"stopRecordFlvIfNeeded", "FlvFileWriter", "pkg/httpflv", "recordFlv"}, {"stopRecordMpegtsIfNeeded", "FileWriter", "pkg/mpegts", "recordMpegts"}, {"stopHlsIfNeeded", "Muxer", "pkg/hls", "hlsMuxer"}} {
		fn := p.Method("pkg/logic", "Group", m.fn)
		d := p.MethodObj(m.pkg, m.typ, "Dispose")
		r.Check(len(model.CallsTo(fn, d)) == 1, "C16.R3", fkey(fn, "finalise", m.typ+".Dispose"), p.Pos(fn.Pos()), m.field+" is disposed exactly at one site", m.field+" is not disposed when the input ends")
	}

	// ---------------------------------------------------------------- R5
	r.Rule("C16.R5", "in the tick callback of ServerManager.RunLoop (in RunLoop or a same-package function it calls) Group.Dispose() runs only on the true edge of IsInactive() and that path returns false (erase); the other edge calls Tick and returns true")
	rl := p.Method("pkg/logic", "ServerManager", "RunLoop")
	isInactive := p.MethodObj("pkg/logic", "Group", "IsInactive")
	gDispose := p.MethodObj("pkg/logic", "Group", "Dispose")
	nCb := 0
	var tickFns []*ssa.Function
	for _, g := range model.StaticGroup(rl, 2) {
		// RunLoop, or a method of the manager that RunLoop calls for the tick
		tickFns = append(tickFns, model.WithAnons(g)...)
	}
	for _, fn := range tickFns {
		tests := model.CallsTo(fn, isInactive)
		if len(tests) == 0 {
			continue
		}
		nCb++
		for _, d := range model.CallsTo(fn, gDispose) {
			okG := model.GuardedBy(d, func(c ssa.Value, pol bool) bool {
				call, isCall := c.(*ssa.Call)
				return isCall && pol && model.SameFunc(model.CalleeObj(call.Common()), isInactive)
			})
			// the return reached after Dispose is `false`
			okR := true
			ret := model.PathQuery{From: d, Target: func(x ssa.Instruction) bool { _, ok := x.(*ssa.Return); return ok }}.Find(fn)
			if rr, ok := ret.(*ssa.Return); ok {
				v, isc := model.ConstBool(model.ReturnValues(rr)[0])
				okR = isc && !v
			} else {
				okR = false
			}
			r.Check(okG && okR, "C16.R5", fkey(fn, "tick", "dispose-iff-inactive"), p.InstrPos(d), "an inactive group is disposed and erased", "a group is disposed without being inactive, or disposed but kept in the manager")
		}
		if len(model.CallsTo(fn, gDispose)) == 0 {
			r.Bad("C16.R5", fkey(fn, "tick", "dispose-iff-inactive"), p.Pos(fn.Pos()), "an inactive group is never disposed: streams with no sessions are never removed")
		}
	}
	if nCb != 1 {
		r.Bad("C16.R5", "floor", "", "tick callback with IsInactive() not found")
	}

	// ---------------------------------------------------------------- R4
	c16r4(p, r)
	c16r6(p, r)
	c16r78(p, r)
	c16r9(p, r)
	c16r10(p, r, "C16.R10")
	c16r11(p, r)
}
