package rules

import (
	"fmt"
	"go/ast"
	"go/token"
	"go/types"
	"sort"
	"strings"
	"unicode"

	"lalverif/internal/model"
)

// Counterpart rule ("the wrong one of a pair"): lal's code is full of paired names - read/wrote,
// audio/video, pts/dts, sps/pps, pub/sub, pull/push - handled by parallel statements. A plain
// copy `target = source` whose target name carries one word of such a pair while the source name
// carries the other word (and not the target's), although a value of the same type whose name
// carries the target's word is in scope at that point, is the slip "wrong variable of the same
// type". The rule works on the type-checked syntax; instances that are meant (pts derived from
// dts) are arithmetic, not plain copies, and are not judged; a bare `dts` set from a pts value
// (no DTS on the wire) is exempt by form.

var counterparts = [][2]string{
	{"read", "wrote"}, {"read", "write"}, {"audio", "video"}, {"pts", "dts"}, {"sps", "pps"}, {"vps", "sps"}, {"vps", "pps"},
	{"pub", "sub"}, {"pull", "push"}, {"rtp", "rtcp"}, {"in", "out"}, {"first", "last"}, {"width", "height"},
	{"src", "dst"}, {"local", "remote"}, {"min", "max"}, {"begin", "end"}, {"start", "stop"}, {"key", "value"},
}

// words splits an identifier chain (a.bCd.EfG) into lower-case words.
func words(name string) []string {
	var out []string
	cur := ""
	flush := func() {
		if cur != "" {
			out = append(out, strings.ToLower(cur))
			cur = ""
		}
	}
	rs := []rune(name)
	for i, c := range rs {
		switch {
		case c == '.' || c == '_':
			flush()
		case unicode.IsUpper(c):
			// new word at lower->Upper, or at the last upper of an acronym followed by lower
			if i > 0 && (unicode.IsLower(rs[i-1]) || unicode.IsDigit(rs[i-1]) || (i+1 < len(rs) && unicode.IsLower(rs[i+1]) && unicode.IsUpper(rs[i-1]))) {
				flush()
			}
			cur += string(c)
		default:
			cur += string(c)
		}
	}
	flush()
	return out
}

func hasWord(ws []string, w string) bool {
	for _, x := range ws {
		if x == w {
			return true
		}
	}
	return false
}

// lastName: the last selector / identifier of a plain operand (x, a.b.c, &a.b, a.b[i] excluded).
func plainOperand(e ast.Expr) (string, bool) {
	switch x := e.(type) {
	case *ast.Ident:
		return x.Name, true
	case *ast.SelectorExpr:
		if _, ok := plainOperand(x.X); ok {
			return x.Sel.Name, true
		}
	case *ast.ParenExpr:
		return plainOperand(x.X)
	case *ast.CallExpr:
		// a conversion T(x) of a plain operand
		if len(x.Args) == 1 {
			if id, isId := x.Fun.(*ast.Ident); isId {
				switch id.Name {
				case "uint8", "uint16", "uint32", "uint64", "int", "int8", "int16", "int32", "int64", "uint", "float64", "string":
					return plainOperand(x.Args[0])
				}
			}
		}
	}
	return "", false
}

type counterpartHit struct {
	Fn, Target, Source, Pair, Pos string
}

func (h counterpartHit) String() string {
	return fmt.Sprintf("%s: %s <- %s (%s) in %s", h.Pos, h.Target, h.Source, h.Pair, h.Fn)
}

// CounterpartHits lists every plain copy in lal's packages whose target and source names carry
// opposite words of a pair while a same-typed value carrying the target's word is in scope.
func CounterpartHits(p *model.Prog) []counterpartHit {
	var out []counterpartHit
	for _, pk := range p.Pkgs {
		if !strings.HasPrefix(pk.PkgPath, model.LalPath+"/pkg/") || strings.HasSuffix(pk.PkgPath, "/innertest") {
			continue
		}
		info := pk.TypesInfo
		for _, file := range pk.Syntax {
			for _, decl := range file.Decls {
				fd, ok := decl.(*ast.FuncDecl)
				if !ok || fd.Body == nil {
					continue
				}
				fname := pk.Types.Name() + "." + fd.Name.Name
				if fd.Recv != nil && len(fd.Recv.List) == 1 {
					t := fd.Recv.List[0].Type
					if st, isStar := t.(*ast.StarExpr); isStar {
						t = st.X
					}
					if id, isId := t.(*ast.Ident); isId {
						fname = pk.Types.Name() + "." + id.Name + "." + fd.Name.Name
					}
				}
				check := func(targetName string, targetType types.Type, src ast.Expr, at token.Pos, scopeAt token.Pos) {
					srcName, ok := plainOperand(src)
					if !ok || targetType == nil {
						return
					}
					tw, sw := words(targetName), words(srcName)
					// meant idiom: a bare `dts` taken from a pts value - a PES without DTS field
					// (PTS_DTS_flags == 2), or an unpacker that tracks the PTS only
					if len(tw) == 1 && tw[0] == "dts" && hasWord(sw, "pts") {
						return
					}
					for _, pr := range counterparts {
						for k := 0; k < 2; k++ {
							a, b := pr[k], pr[1-k]
							if !hasWord(tw, a) || hasWord(tw, b) || !hasWord(sw, b) || hasWord(sw, a) {
								continue
							}
							// a same-typed alternative carrying the target's word is available
							if alt := counterpartAlternative(info, pk.Types, fd, src, a, b, srcName, scopeAt); alt != "" {
								out = append(out, counterpartHit{Fn: fname, Target: targetName, Source: srcName, Pair: a + "/" + b + ", available: " + alt, Pos: p.Pos(at)})
							}
						}
					}
				}
				ast.Inspect(fd.Body, func(n ast.Node) bool {
					switch x := n.(type) {
					case *ast.IfStmt:
						// the guard tests X, the guarded block works on X's twin (same name with the
						// pair word exchanged, same type) and never mentions X
						for _, cx := range plainOperandsIn(x.Cond) {
							cw := words(cx.name)
							for _, pr := range counterparts {
								for k := 0; k < 2; k++ {
									a, b := pr[k], pr[1-k]
									if !hasWord(cw, a) || hasWord(cw, b) || a == "vps" || b == "vps" {
										continue // vps/sps/pps form a triple: "sps and pps present, then look at vps" is the normal order
									}
									twin := swapWord(cx.name, a, b)
									usesTwin, usesOwn, condUsesTwin := false, false, false
									for _, o := range plainOperandsIn(x.Cond) {
										if strings.EqualFold(strings.Join(words(o.name), ""), twin) {
											condUsesTwin = true
										}
									}
									for _, o := range plainOperandsIn(x.Body) {
										if strings.EqualFold(strings.Join(words(o.name), ""), twin) && sameTypeExpr(info, o.e, cx.e) {
											usesTwin = true
										}
										if hasWord(words(o.name), a) {
											usesOwn = true
										}
									}
									if usesTwin && !usesOwn && !condUsesTwin {
										out = append(out, counterpartHit{Fn: fname, Target: "block on " + twin, Source: "guard on " + cx.name, Pair: a + "/" + b + ", guard and block disagree", Pos: p.Pos(x.Pos())})
									}
								}
							}
						}
					case *ast.BinaryExpr:
						// a value obtained from one codec package compared with a constant of its
						// counterpart package (hevc.ParseNaluType(b) == avc.NaluTypeAud)
						if x.Op == token.EQL || x.Op == token.NEQ {
							lp, rp := pkgsUsedIn(info, x.X), pkgsUsedIn(info, x.Y)
							for _, pr := range [][2]string{{"avc", "hevc"}} {
								for k := 0; k < 2; k++ {
									a, b := pr[k], pr[1-k]
									if lp[a] && !lp[b] && rp[b] && !rp[a] {
										out = append(out, counterpartHit{Fn: fname, Target: "value of package " + a, Source: "constant of package " + b, Pair: a + "/" + b + ", compared across codecs", Pos: p.Pos(x.Pos())})
									}
								}
							}
						}
					case *ast.AssignStmt:
						if len(x.Lhs) != len(x.Rhs) || (x.Tok != token.ASSIGN && x.Tok != token.DEFINE) {
							return true
						}
						for i := range x.Lhs {
							tn, ok := plainOperand(x.Lhs[i])
							if !ok {
								continue
							}
							var tt types.Type
							if tv, have := info.Types[x.Rhs[i]]; have {
								tt = tv.Type
							}
							check(tn, tt, x.Rhs[i], x.Pos(), x.Pos())
						}
					case *ast.KeyValueExpr:
						if id, ok := x.Key.(*ast.Ident); ok {
							if tv, have := info.Types[x.Value]; have {
								check(id.Name, tv.Type, x.Value, x.Pos(), x.Pos())
							}
						}
					case *ast.CallExpr:
						// argument bound to a named parameter of a known function
						var sig *types.Signature
						if tv, have := info.Types[x.Fun]; have {
							sig, _ = tv.Type.Underlying().(*types.Signature)
						}
						if sig == nil || tvIsType(info, x.Fun) {
							return true
						}
						// swapped arguments: two same-typed parameters, each argument named like the
						// other one's parameter (equal ignoring case, or its initials: sn / streamName)
						for i := 0; i < len(x.Args) && i < sig.Params().Len(); i++ {
							for j := i + 1; j < len(x.Args) && j < sig.Params().Len(); j++ {
								if sig.Variadic() && j >= sig.Params().Len()-1 {
									continue
								}
								pi, pj := sig.Params().At(i), sig.Params().At(j)
								ai, okI := plainOperand(x.Args[i])
								aj, okJ := plainOperand(x.Args[j])
								if !okI || !okJ || !types.Identical(pi.Type(), pj.Type()) || pi.Name() == "" || pj.Name() == "" {
									continue
								}
								if namedLike(ai, pj.Name()) && namedLike(aj, pi.Name()) && !namedLike(ai, pi.Name()) && !namedLike(aj, pj.Name()) {
									out = append(out, counterpartHit{Fn: fname, Target: pi.Name() + "," + pj.Name(), Source: ai + "," + aj, Pair: "swapped arguments", Pos: p.Pos(x.Pos())})
								}
							}
						}
						for i, a := range x.Args {
							if i >= sig.Params().Len() || (sig.Variadic() && i >= sig.Params().Len()-1) {
								break
							}
							prm := sig.Params().At(i)
							if prm.Name() == "" || prm.Name() == "_" {
								continue
							}
							check(prm.Name(), prm.Type(), a, a.Pos(), x.Pos())
						}
					}
					return true
				})
			}
		}
	}
	sort.Slice(out, func(i, j int) bool { return out[i].String() < out[j].String() })
	return out
}

func tvIsType(info *types.Info, e ast.Expr) bool {
	tv, ok := info.Types[e]
	return ok && tv.IsType()
}

// counterpartAlternative: the name of a value of the same type as src, visible at pos, whose name
// carries word a and not word b: a sibling field of src's struct, or a variable / parameter in scope.
func counterpartAlternative(info *types.Info, pkg *types.Package, fd *ast.FuncDecl, src ast.Expr, a, b, srcName string, pos token.Pos) string {
	for {
		if pe, ok := src.(*ast.ParenExpr); ok {
			src = pe.X
			continue
		}
		if ce, ok := src.(*ast.CallExpr); ok && len(ce.Args) == 1 {
			src = ce.Args[0]
			continue
		}
		break
	}
	tv, ok := info.Types[src]
	if !ok {
		return ""
	}
	st := tv.Type
	fits := func(name string, t types.Type) bool {
		if name == srcName || !types.Identical(t, st) {
			return false
		}
		w := words(name)
		return hasWord(w, a) && !hasWord(w, b)
	}
	// sibling fields
	if sel, isSel := src.(*ast.SelectorExpr); isSel {
		if xt, have := info.Types[sel.X]; have {
			t := xt.Type
			if pt, isP := t.Underlying().(*types.Pointer); isP {
				t = pt.Elem()
			}
			if s, isS := t.Underlying().(*types.Struct); isS {
				for i := 0; i < s.NumFields(); i++ {
					if fits(s.Field(i).Name(), s.Field(i).Type()) {
						return "field " + s.Field(i).Name()
					}
				}
			}
		}
	}
	// variables and parameters in scope
	sc := pkg.Scope().Innermost(pos)
	for ; sc != nil && sc != pkg.Scope() && sc != types.Universe; sc = sc.Parent() {
		for _, n := range sc.Names() {
			o := sc.Lookup(n)
			v, isVar := o.(*types.Var)
			if !isVar || (v.Pos() > pos && sc.Contains(v.Pos()) && v.Parent() != nil && !isParamOf(fd, info, v)) {
				continue
			}
			if fits(n, v.Type()) {
				return "variable " + n
			}
		}
	}
	return ""
}

func isParamOf(fd *ast.FuncDecl, info *types.Info, v *types.Var) bool {
	if fd.Type.Params == nil {
		return false
	}
	for _, f := range fd.Type.Params.List {
		for _, n := range f.Names {
			if info.Defs[n] == v {
				return true
			}
		}
	}
	return false
}

// counterpartExceptions: plain copies between the two words of a pair that are meant, read and frozen
// (none at present: the one meant idiom, a bare `dts` taken from a pts value when a PES carries no
// DTS, is exempted by form in CounterpartHits).
var counterpartExceptions = map[string]string{}

// namedLike: an argument name that stands for a parameter name - the same word sequence, or the
// initials of the parameter's words (sn for streamName).
func namedLike(arg, prm string) bool {
	aw, pw := words(arg), words(prm)
	if len(pw) == 0 || len(aw) == 0 {
		return false
	}
	if strings.Join(aw, "") == strings.Join(pw, "") {
		return true
	}
	ini := ""
	for _, w := range pw {
		ini += w[:1]
	}
	return len(pw) >= 2 && strings.ToLower(arg) == ini
}

type namedOperand struct {
	name string
	e    ast.Expr
}

// plainOperandsIn: the identifiers and selector chains used inside a node (last name of each).
func plainOperandsIn(n ast.Node) []namedOperand {
	var out []namedOperand
	ast.Inspect(n, func(m ast.Node) bool {
		switch x := m.(type) {
		case *ast.SelectorExpr:
			out = append(out, namedOperand{x.Sel.Name, x})
			return true
		case *ast.Ident:
			out = append(out, namedOperand{x.Name, x})
		case *ast.KeyValueExpr:
			// the key of a struct literal is a field name, not a use
			ast.Inspect(x.Value, func(q ast.Node) bool {
				switch y := q.(type) {
				case *ast.SelectorExpr:
					out = append(out, namedOperand{y.Sel.Name, y})
				case *ast.Ident:
					out = append(out, namedOperand{y.Name, y})
				}
				return true
			})
			return false
		}
		return true
	})
	return out
}

// swapWord: the name with word a (as a camel-case word, any case) replaced by b.
func swapWord(name, a, b string) string {
	ws := words(name)
	for i, w := range ws {
		if w == a {
			ws[i] = b
		}
	}
	return strings.Join(ws, "")
}

func sameTypeExpr(info *types.Info, x, y ast.Expr) bool {
	tx, okx := info.Types[x]
	ty, oky := info.Types[y]
	if !okx || !oky {
		// identifiers used as values are in Uses/Defs
		return typeOfIdent(info, x) != nil && typeOfIdent(info, y) != nil && types.Identical(typeOfIdent(info, x), typeOfIdent(info, y))
	}
	return types.Identical(tx.Type, ty.Type)
}

func typeOfIdent(info *types.Info, e ast.Expr) types.Type {
	if id, ok := e.(*ast.Ident); ok {
		if o := info.Uses[id]; o != nil {
			return o.Type()
		}
		if o := info.Defs[id]; o != nil {
			return o.Type()
		}
	}
	if tv, ok := info.Types[e]; ok {
		return tv.Type
	}
	return nil
}

// pkgsUsedIn: the names of the packages whose members the expression refers to (pkg.Member).
func pkgsUsedIn(info *types.Info, e ast.Expr) map[string]bool {
	out := map[string]bool{}
	ast.Inspect(e, func(n ast.Node) bool {
		if sel, ok := n.(*ast.SelectorExpr); ok {
			if id, isId := sel.X.(*ast.Ident); isId {
				if pn, isPkg := info.Uses[id].(*types.PkgName); isPkg {
					out[pn.Imported().Name()] = true
				}
			}
		}
		return true
	})
	return out
}
