package rules

import (
	"fmt"
	"go/constant"
	"go/token"
	"go/types"
	"strings"

	"golang.org/x/tools/go/ssa"

	"lalverif/internal/model"
	"lalverif/internal/report"
)

// Rules added after the eighth round of seeded changes (suffix O/P).

// w8MsgLenBeforeRead: the premise of the reviewed invariants on bele reads over a message buffer.
func w8MsgLenBeforeRead(p *model.Prog, r *report.Result, rule string) {
	r.Rule(rule, "in pkg/rtmp, every bele.BeUint16/24/32 read of stream.msg.buff.Bytes() is dominated by the not-short edge of a test msg.Len() < K, and K minus the constant amounts skipped (msg.Skip / buff.Skip calls that lie between that test and the read and dominate the read) is at least the width read; no skip of unknown amount lies between: the length test speaks about the bytes that are read (premise of the reviewed invariants that take 'Len() >= n' for 'len(Bytes()) >= n')")
	need := map[string]int64{"BeUint16": 2, "BeUint24": 3, "BeUint32": 4}
	lenM := p.MethodObj("pkg/rtmp", "StreamMsg", "Len")
	buffF := p.Field("pkg/rtmp", "StreamMsg", "buff")
	isSkip := func(ci ssa.CallInstruction) (int64, bool, bool) { // amount, constant, isSkip
		o := model.CalleeObj(ci.Common())
		if o == nil || o.Name() != "Skip" || len(ci.Common().Args) < 2 {
			return 0, false, false
		}
		k, isK := model.ConstInt(ci.Common().Args[len(ci.Common().Args)-1])
		return k, isK, true
	}
	n := 0
	loopSize := map[*ssa.BasicBlock]int{}
	for _, fn := range lalFuncsIn(p, "pkg/rtmp") {
		for _, ci := range model.AllCalls(fn) {
			o := model.CalleeObj(ci.Common())
			if o == nil || o.Pkg() == nil || !strings.HasSuffix(o.Pkg().Path(), "/bele") || need[o.Name()] == 0 || len(ci.Common().Args) != 1 {
				continue
			}
			bc, ok := ci.Common().Args[0].(*ssa.Call)
			if !ok {
				continue
			}
			bo := model.CalleeObj(bc.Common())
			if bo == nil || bo.Name() != "Bytes" || len(bc.Common().Args) != 1 {
				continue
			}
			if f := model.LoadedField(bc.Common().Args[0]); f == nil || f != buffF {
				continue
			}
			// reads of a slice whose own length was tested are decided by engine B directly
			direct := false
			for _, g := range model.Guards(ci.Block()) {
				if b, isB := g.Cond.(*ssa.BinOp); isB {
					for _, side := range []ssa.Value{b.X, b.Y} {
						if lc, isC := stripIntConv(side).(*ssa.Call); isC {
							if bi, isBi := lc.Call.Value.(*ssa.Builtin); isBi && bi.Name() == "len" && lc.Call.Args[0] == ssa.Value(bc) {
								direct = true
							}
						}
					}
				}
			}
			if direct {
				continue
			}
			n++
			// nearest dominating guard Len() < K (false edge) / Len() >= K (true edge)
			var gIf *ssa.If
			var K int64
			for _, g := range model.Guards(ci.Block()) {
				b, isB := g.Cond.(*ssa.BinOp)
				if !isB {
					continue
				}
				var lv, kv ssa.Value
				switch {
				case b.Op == token.LSS && !g.Polarity, b.Op == token.GEQ && g.Polarity:
					lv, kv = b.X, b.Y
				default:
					continue
				}
				lc, isC := stripIntConv(lv).(*ssa.Call)
				if !isC || !model.SameFunc(model.CalleeObj(lc.Common()), lenM) {
					continue
				}
				if k, isK := model.ConstInt(kv); isK {
					gIf, K = g.If, k
					break
				}
			}
			if gIf == nil {
				r.Bad(rule, fkey(fn, "msg-read", o.Name()), p.InstrPos(ci), "no dominating test msg.Len() < K in front of this read of the message buffer")
				continue
			}
			skipped, unknown := int64(0), false
			// the same iteration only: back edges of the innermost loop around the test are not followed
			var hdr *ssa.BasicBlock
			for _, l := range model.Loops(fn) {
				if l.Body[gIf.Block()] && (hdr == nil || len(l.Body) < loopSize[hdr]) {
					hdr = l.Header
					loopSize[hdr] = len(l.Body)
				}
			}
			for _, sc := range model.AllCalls(fn) {
				amt, isK, isS := isSkip(sc)
				if !isS || !model.InstrDominates(gIf, sc) {
					continue
				}
				between := model.PathQuery{From: sc, LoopHeader: hdr, Target: func(x ssa.Instruction) bool { return x == ssa.Instruction(ci) }}.Find(fn) != nil
				if !between {
					continue
				}
				if model.InstrDominates(sc, ci) && isK {
					skipped += amt
				} else {
					unknown = true
				}
			}
			r.Check(!unknown && K-skipped >= need[o.Name()], rule, fkey(fn, "msg-read", o.Name()), p.InstrPos(ci), fmt.Sprintf("Len() >= %d, %d skipped, %d read", K, skipped, need[o.Name()]), fmt.Sprintf("the length test in front of this read guarantees %d bytes, %d of them are skipped before the read (or an amount the test does not cover), and the read takes %d: a message cut inside the field indexes past the buffer and the session goroutine panics", K, skipped, need[o.Name()]))
		}
	}
	if n < 4 { // the client-side control messages alone; the aggregate sub-header may be parsed another way
		r.Bad(rule, "floor", "", fmt.Sprintf("only %d bele reads of message buffers found in pkg/rtmp", n))
	}
}

var _ = types.Typ

// w8NotifySessionId: a notification about a session names that session.
func w8NotifySessionId(p *model.Prog, r *report.Result, rule string) {
	r.Rule(rule, "in pkg/logic, wherever a Group or ServerManager method that is handed a session stores the SessionId of a notification / answer struct (base.*Info, Api*Resp data), the value is UniqueKey() of that session parameter - not the group's own key or another object's: start and stop of one session are a matching pair under the id the API reported")
	n := 0
	for _, fn := range lalFuncsIn(p, "pkg/logic") {
		if fn.Parent() != nil {
			continue
		}
		// session-typed parameters: have a UniqueKey method
		var sess []*ssa.Parameter
		for i, prm := range fn.Params {
			if i == 0 && fn.Signature.Recv() != nil {
				continue
			}
			if o, _, _ := types.LookupFieldOrMethod(prm.Type(), true, nil, "UniqueKey"); o != nil {
				if _, isF := o.(*types.Func); isF {
					sess = append(sess, prm)
				}
			}
		}
		if len(sess) == 0 {
			continue
		}
		model.EachInstr(fn, func(in ssa.Instruction) {
			st, ok := in.(*ssa.Store)
			if !ok {
				return
			}
			f := model.FieldOf(st.Addr)
			if f == nil || f.Name() != "SessionId" {
				return
			}
			n++
			good := false
			if c, isC := st.Val.(*ssa.Call); isC {
				name := ""
				var recv ssa.Value
				if c.Call.IsInvoke() {
					name, recv = c.Call.Method.Name(), c.Call.Value
				} else if o := model.CalleeObj(c.Common()); o != nil && len(c.Call.Args) > 0 {
					name, recv = o.Name(), c.Call.Args[0]
				}
				if name == "UniqueKey" {
					for _, s := range sess {
						if model.Unwrap(recv) == ssa.Value(s) {
							good = true
						}
					}
				}
			}
			r.Check(good, rule, fkey(fn, "notify", "session-id-of-the-session"), p.InstrPos(st), "SessionId = session.UniqueKey()", "the SessionId of the notification is not the unique key of the session this function was called for (the group's key, another object's): the stop event does not match the start event, and the id the API returned names nothing")
		})
	}
	if n < 2 { // the pull / connect callbacks; twins that merge the four pull callbacks into two helpers still have these
		r.Bad(rule, "floor", "", fmt.Sprintf("only %d SessionId stores found in session callbacks of pkg/logic", n))
	}
}

// w8JumpOnlyWhenFull: a unit is taken out of turn only when the reorder window is exhausted.
func w8JumpOnlyWhenFull(p *model.Prog, r *report.Result, rule string) {
	r.Rule(rule, "in rtprtcp.RtpUnpackContainer.Feed every call of tryUnpackOne() - the variant that does not ask whether the head of the list follows the last delivered unit - lies behind the true edge of list.Full(): while the window has room a packet waits for its predecessors (tryUnpackOneSequential), so reordering inside the window does not change the result")
	fn := p.Method("pkg/rtprtcp", "RtpUnpackContainer", "Feed")
	try := p.MethodObj("pkg/rtprtcp", "RtpUnpackContainer", "tryUnpackOne")
	full := p.MethodObj("pkg/rtprtcp", "RtpPacketList", "Full")
	seq := p.MethodObj("pkg/rtprtcp", "RtpUnpackContainer", "tryUnpackOneSequential")
	for _, ci := range model.CallsTo(fn, try) {
		ok := model.GuardedBy(ci, func(c ssa.Value, pol bool) bool {
			call, isC := c.(*ssa.Call)
			return isC && pol && model.SameFunc(model.CalleeObj(call.Common()), full)
		})
		r.Check(ok, rule, fkey(fn, "jump", "behind-Full()"), p.InstrPos(ci), "out-of-turn unpack only when the list is full", "tryUnpackOne() is called where the list need not be full: a packet that arrives ahead of a missing predecessor is delivered at once and the late one is then dropped as stale - a frame is lost under reordering well inside the window")
	}
	nSeq := 0
	for _, g := range model.StaticGroup(fn, 1) {
		nSeq += len(model.CallsTo(g, seq))
	}
	r.Check(nSeq >= 1, rule, fkey(fn, "jump", "sequential-drain"), p.Pos(fn.Pos()), "in-order drain present", "Feed no longer drains the list through tryUnpackOneSequential()")
}

// w8BitWriterMask: a field written with n bits is not masked narrower than n.
func w8BitWriterMask(p *model.Prog, r *report.Result, rule string, pkgs ...string) {
	r.Rule(rule, "in "+strings.Join(pkgs, ", ")+": where a value is handed to nazabits.BitWriter.WriteBits8/16/32(n, v) with a constant width n and v is (a conversion of) x & mask with a constant mask, the mask has at least n significant bits: the field is not cut below the width it is written with (the low half of the Opus registration id 'Opus' written through & 0xFF)")
	n := 0
	for _, fn := range lalFuncsIn(p, pkgs...) {
		for _, ci := range model.AllCalls(fn) {
			o := model.CalleeObj(ci.Common())
			if o == nil || !strings.HasPrefix(o.Name(), "WriteBits") || len(ci.Common().Args) != 3 {
				continue
			}
			w, isK := model.ConstInt(ci.Common().Args[1])
			if !isK {
				continue
			}
			and, isA := stripIntConv(ci.Common().Args[2]).(*ssa.BinOp)
			if !isA || and.Op != token.AND {
				continue
			}
			m, isM := model.ConstInt(and.Y)
			if !isM {
				continue
			}
			bits := int64(0)
			for x := m; x > 0; x >>= 1 {
				bits++
			}
			n++
			r.Check(bits >= w, rule, fkey(fn, "bit-field", fmt.Sprintf("%d-bits", w)), p.InstrPos(ci), "mask as wide as the field", fmt.Sprintf("a %d-bit field is written from a value masked down to %d bits: its upper bits are always zero on the wire (the registration descriptor that identifies the Opus stream reads 'Op\\\\0s')", w, bits))
		}
	}
	if n < 2 {
		r.Bad(rule, "floor", "", fmt.Sprintf("only %d masked bit-field writes found", n))
	}
}

// w8CacheResetWithRefill: the parameter-set cache is emptied only where it is refilled.
func w8CacheResetWithRefill(p *model.Prog, r *report.Result, rule string) {
	r.Rule(rule, "in remux.Rtmp2MpegtsRemuxer.feedVideo every store that empties the Annex-B parameter-set cache spspps (spspps[0:0]) stands in a block that also appends at least two parameter sets to it (or calls the package helper that rebuilds it): a lone PPS or SPS in band never leaves the cache empty - an empty cache makes every audio frame a segment boundary and key frames go out without parameter sets")
	fn := p.Method("pkg/remux", "Rtmp2MpegtsRemuxer", "feedVideo")
	f := p.Field("pkg/remux", "Rtmp2MpegtsRemuxer", "spspps")
	n := 0
	for _, st := range model.FieldStores(fn, f) {
		sl, isSl := st.Val.(*ssa.Slice)
		if !isSl || !model.IsLoadOfField(sl.X, f) {
			continue
		}
		if h, isK := model.ConstInt(sl.High); !isK || h != 0 {
			continue
		}
		n++
		refills := 0
		for _, in := range st.Block().Instrs {
			s2, ok := in.(*ssa.Store)
			if !ok || model.FieldOf(s2.Addr) != f {
				continue
			}
			if c, isC := s2.Val.(*ssa.Call); isC {
				if bi, isB := c.Call.Value.(*ssa.Builtin); isB && bi.Name() == "append" && len(c.Call.Args) == 2 {
					if _, isG := loadOfGlobal(c.Call.Args[1]); !isG {
						refills++
					}
				}
			}
		}
		r.Check(refills >= 2, rule, fkey(fn, "param-set-cache", "reset-with-refill"), p.InstrPos(st), "emptied and refilled in one block", "the parameter-set cache is emptied on a path that does not refill it (the reset left the 'both sets present' test): one in-band PPS wipes the cached SPS/PPS, from then on audio frames open HLS segments mid-GOP and key frames carry no parameter sets")
	}
	if n == 0 {
		// the rebuild lives in a helper: then no reset may be left behind in feedVideo itself (nothing to check here)
		r.Check(true, rule, fkey(fn, "param-set-cache", "reset-with-refill"), p.Pos(fn.Pos()), "no reset in feedVideo itself", "")
	}
}

// w8TsNameClock: the segment name's time component has millisecond resolution.
func w8TsNameClock(p *model.Prog, r *report.Result, rule string) {
	r.Rule(rule, "in hls.Muxer.openFragment the timestamp handed to PathStrategy.GetTsFileName derives from Clock.Now().UnixNano() (or UnixMilli()), not from whole seconds: the index restarts with every muxer, so only the sub-second part keeps the names of a flapping publisher's sessions apart")
	fn := p.Method("pkg/hls", "Muxer", "openFragment")
	var site ssa.CallInstruction
	for _, ci := range model.AllCalls(fn) {
		if ci.Common().IsInvoke() && ci.Common().Method.Name() == "GetTsFileName" {
			site = ci
		}
	}
	if site == nil {
		r.Bad(rule, fkey(fn, "ts-name", "floor"), p.Pos(fn.Pos()), "GetTsFileName call not found in openFragment")
		return
	}
	args := site.Common().Args
	fine := model.DependsOn(args[len(args)-1], func(v ssa.Value) bool {
		c, ok := v.(*ssa.Call)
		if !ok {
			return false
		}
		o := model.CalleeObj(c.Common())
		return o != nil && (o.Name() == "UnixNano" || o.Name() == "UnixMilli" || o.Name() == "UnixMicro")
	})
	r.Check(fine, rule, fkey(fn, "ts-name", "sub-second-clock"), p.InstrPos(site), "UnixNano-based", "the time component of the segment file name is built from whole seconds: a re-publish within the same second reuses the names of the previous session and truncates segments its playlists still list")
}

// w8HttpHeaderOnlyOnce: media bytes take the framing path, only the response header the raw one.
func w8HttpHeaderOnlyOnce(p *model.Prog, r *report.Result, rule string) {
	r.Rule(rule, "in pkg/httpflv and pkg/httpts, base.BasicHttpSubSession.WriteHttpResponseHeader (which, for a WebSocket subscriber, sends the handshake text unframed) is called only from the sessions' own WriteHttpResponseHeader; FLV header, tags and TS packets go through BasicHttpSubSession.Write, which wraps each unit in one WebSocket frame")
	raw := p.MethodObj("pkg/base", "BasicHttpSubSession", "WriteHttpResponseHeader")
	wr := p.MethodObj("pkg/base", "BasicHttpSubSession", "Write")
	nRaw, nWr := 0, 0
	for _, fn := range lalFuncsIn(p, "pkg/httpflv", "pkg/httpts") {
		for _, ci := range model.CallsTo(fn, raw) {
			nRaw++
			r.Check(topFn(fn).Name() == "WriteHttpResponseHeader", rule, fkey(fn, "raw-write", "response-header-only"), p.InstrPos(ci), "only the response header is written raw", "media bytes (the FLV header) are sent through the raw response-header path: a WebSocket subscriber gets the handshake text a second time, unframed, and never the 13-byte FLV header")
		}
		nWr += len(model.CallsTo(fn, wr))
	}
	if nRaw < 2 || nWr < 3 {
		r.Bad(rule, "floor", "", fmt.Sprintf("%d raw header writes / %d framed writes found in httpflv+httpts", nRaw, nWr))
	}
}

// w8SeqPlusOne: RTP sequence numbers advance by one modulo 2^16.
func w8SeqPlusOne(p *model.Prog, r *report.Result, rule string) {
	r.Rule(rule, "rtprtcp.RtpPacker.genSeq stores seq + 1 computed in uint16 (the type's own wrap-around; no remainder, no mask): every value 0..65535 is produced in turn")
	fn := p.Method("pkg/rtprtcp", "RtpPacker", "genSeq")
	f := p.Field("pkg/rtprtcp", "RtpPacker", "seq")
	sts := model.FieldStores(fn, f)
	ok := len(sts) == 1
	pos := p.Pos(fn.Pos())
	if ok {
		pos = p.InstrPos(sts[0])
		add, isA := sts[0].Val.(*ssa.BinOp)
		k := int64(0)
		if isA {
			k, _ = model.ConstInt(add.Y)
		}
		ok = isA && add.Op == token.ADD && model.IsLoadOfField(add.X, f) && k == 1 && typeBits(add.Type()) == 16
	}
	r.Check(ok, rule, fkey(fn, "seq", "plus-one-uint16"), pos, "seq++ in uint16", "the next RTP sequence number is not seq+1 in uint16 (a remainder or mask is applied): one value is never produced, the receiver sees a one-packet hole at every wrap and stalls until its reorder list is full")
}

// w8KickDisablesApiPull: a kicked relay pull is not started again by the next tick.
func w8KickDisablesApiPull(p *model.Prog, r *report.Result, rule string) {
	r.Rule(rule, "logic.Group.kickPull: no path reaches stopPull() without having stored pullProxy.apiEnable = false: stopPull clears the retry counter, so with the pull still API-enabled the next tick (or subscriber) would open a fresh pull to the origin")
	fn := p.Method("pkg/logic", "Group", "kickPull")
	f := p.Field("pkg/logic", "pullProxy", "apiEnable")
	stop := p.MethodObj("pkg/logic", "Group", "stopPull")
	early := model.PathQuery{
		Stop: func(in ssa.Instruction) bool {
			st, ok := in.(*ssa.Store)
			if !ok || model.FieldOf(st.Addr) != f {
				return false
			}
			b, isB := model.ConstBool(st.Val)
			return isB && !b
		},
		Target: func(in ssa.Instruction) bool {
			ci, ok := in.(ssa.CallInstruction)
			return ok && model.SameFunc(model.CalleeObj(ci.Common()), stop)
		},
	}.Find(fn)
	pos := p.Pos(fn.Pos())
	if early != nil {
		pos = p.InstrPos(early)
	}
	r.Check(early == nil && len(model.CallsTo(fn, stop)) >= 1, rule, fkey(fn, "kick", "api-disabled-before-stop"), pos, "apiEnable = false before stopPull()", "a kick stops the pull session but leaves the pull API-enabled: with the retry counter cleared by stopPull() the next tick starts a new pull - the kicked pull comes back and a second relay-pull start is notified")
}

// w8StartPullDefaults: a start_relay_pull request that omits a field gets that field's 'never' value.
func w8StartPullDefaults(p *model.Prog, r *report.Result, rule string) {
	r.Rule(rule, "in the HTTP-API handler of start_relay_pull the constant defaults stored for absent JSON keys are each field's own constant: PullRetryNum = base.PullRetryNumNever, AutoStopPullAfterNoOutMs = base.AutoStopPullAfterNoOutMsNever (-1; 0 would mean 'stop at once')")
	want := map[string]int64{}
	for field, c := range map[string]string{"PullRetryNum": "PullRetryNumNever", "AutoStopPullAfterNoOutMs": "AutoStopPullAfterNoOutMsNever"} {
		v, _ := constInt64(p, "pkg/base", c)
		want[field] = v
	}
	n := 0
	for _, fn := range lalFuncsIn(p, "pkg/logic") {
		if !strings.Contains(p.Pos(fn.Pos()), "http_api.go") {
			continue
		}
		model.EachInstr(fn, func(in ssa.Instruction) {
			st, ok := in.(*ssa.Store)
			if !ok {
				return
			}
			f := model.FieldOf(st.Addr)
			if f == nil {
				return
			}
			w, has := want[f.Name()]
			k, isK := model.ConstInt(st.Val)
			if !has || !isK {
				return
			}
			n++
			r.Check(k == w, rule, fkey(fn, "default", f.Name()), p.InstrPos(st), fmt.Sprintf("default %d", w), fmt.Sprintf("the default stored for an absent %s is %d, the field's 'never' value is %d: a start_relay_pull without that key stops the pull at the first tick without a consumer (or never attempts it)", f.Name(), k, w))
		})
	}
	if n < 2 {
		r.Bad(rule, "floor", "", fmt.Sprintf("only %d constant defaults found in http_api.go", n))
	}
}

func constInt64(p *model.Prog, pkg, name string) (int64, bool) {
	c := p.Const(pkg, name)
	if c == nil {
		return 0, false
	}
	return constant.Int64Val(c.Val())
}

// w8GrowBeforeCopy: room is made before bytes are written.
func w8GrowBeforeCopy(p *model.Prog, r *report.Result, rule string) {
	r.Rule(rule, "rtmp.Buffer.Write (the buffer MessagePacker encodes AMF0 into): the call of grow() dominates the copy() into core: a write that does not fit the current capacity lands in the enlarged buffer, not in the too-small old one")
	fn := p.Method("pkg/rtmp", "Buffer", "Write")
	grow := p.MethodObj("pkg/rtmp", "Buffer", "grow")
	var cp *ssa.Call
	model.EachInstr(fn, func(in ssa.Instruction) {
		if c, ok := in.(*ssa.Call); ok {
			if b, isB := c.Call.Value.(*ssa.Builtin); isB && b.Name() == "copy" {
				cp = c
			}
		}
	})
	gs := model.CallsTo(fn, grow)
	ok := cp != nil && len(gs) >= 1
	if ok {
		ok = false
		for _, g := range gs {
			if model.InstrDominates(g, cp) {
				ok = true
			}
		}
	}
	r.Check(ok, rule, fkey(fn, "write", "grow-before-copy"), p.Pos(fn.Pos()), "grow() first", "the bytes are copied before the buffer is enlarged: a string that does not fit the current capacity is dropped (zero bytes of the right length are sent) - the peer decodes another value than was encoded")
}

// w8ClearAllSets: a new sequence header starts from no cached parameter set.
func w8ClearAllSets(p *model.Prog, r *report.Result, rule string) {
	r.Rule(rule, "remux.AvPacket2RtmpRemuxer.clearVideoSeqHeader empties each of the cached vps, sps and pps: after a sequence header was emitted the next one is built only from parameter sets received since - a new SPS is not paired with the previous PPS")
	fn := p.Method("pkg/remux", "AvPacket2RtmpRemuxer", "clearVideoSeqHeader")
	for _, name := range []string{"vps", "sps", "pps"} {
		f := p.Field("pkg/remux", "AvPacket2RtmpRemuxer", name)
		ok := false
		for _, st := range model.FieldStores(fn, f) {
			if model.IsNilConst(st.Val) {
				ok = true
			}
			if sl, isSl := st.Val.(*ssa.Slice); isSl {
				if h, isK := model.ConstInt(sl.High); isK && h == 0 {
					ok = true
				}
			}
		}
		r.Check(ok, rule, fkey(fn, "clear", name), p.Pos(fn.Pos()), name+" emptied", "clearVideoSeqHeader leaves the cached "+name+" in place: when the stream re-sends its parameter sets, the first new set is combined with the stale "+name+" into a sequence header at once, and the matching new one is never emitted")
	}
}

// w8RtspSubStageGate: RTP reaches an RTSP subscriber's transport only after PLAY.
func w8RtspSubStageGate(p *model.Prog, r *report.Result, rule string) {
	r.Rule(rule, "rtsp.SubSession.WriteRtpPacket hands the packet to baseOutSession.WriteRtpPacket on no path when Stage is one of the other stage constants (path enumeration with the loaded stage fixed to each SubSessionStage* value but ReadPlay), and does for ReadPlay: the atomic stage flag is what keeps the publisher's goroutine off the transport fields the subscriber's command goroutine is still writing during SETUP")
	fn := p.Method("pkg/rtsp", "SubSession", "WriteRtpPacket")
	out := p.MethodObj("pkg/rtsp", "BaseOutSession", "WriteRtpPacket")
	play, _ := constInt64(p, "pkg/rtsp", "SubSessionStageReadPlay")
	stages := []int64{}
	for v := int64(0); v <= play+1; v++ {
		stages = append(stages, v)
	}
	for _, sv := range stages {
		sv0 := sv
		used := false
		ev := &cEval{fn: fn, maxVisits: 3, maxPaths: 256}
		ev.seed = func(v ssa.Value) (int64, bool) {
			if c, ok := v.(*ssa.Call); ok {
				if o := model.CalleeObj(c.Common()); o != nil && o.Name() == "Load" {
					used = true
					return sv0, true
				}
			}
			return 0, false
		}
		ev.event = func(in ssa.Instruction) string {
			if ci, ok := in.(ssa.CallInstruction); ok && model.SameFunc(model.CalleeObj(ci.Common()), out) {
				return "write"
			}
			return ""
		}
		ev.run()
		bad := false
		nRet := 0
		for _, pa := range ev.paths {
			if pa.ret == nil {
				continue
			}
			nRet++
			if (sv == play) != (pa.counts["write"] >= 1) {
				bad = true
			}
		}
		r.Check(ev.undecided == "" && !bad && nRet > 0 && used, rule, fkey(fn, "stage-gate", fmt.Sprintf("stage-%d", sv)), p.Pos(fn.Pos()), "written exactly in stage ReadPlay", fmt.Sprintf("with Stage = %d the packet is (not) forwarded contrary to 'only after PLAY': RTP reaches the transport while SETUP is still writing its fields (a data race) and before the peer asked for it", sv))
	}
}
