package rules

import (
	"go/types"
	"sort"
	"strings"

	"golang.org/x/tools/go/ssa"

	"lalverif/internal/model"
	"lalverif/internal/report"
)

// closableType reports whether t is one of the resource types whose values must be closed.
func closableType(t types.Type) (string, bool) {
	s := t.String()
	for _, k := range []string{
		"net.Listener", "net.Conn", "*net.UDPConn", "*net.TCPConn",
		"*github.com/q191201771/naza/pkg/nazanet.UdpConnection",
		"github.com/q191201771/naza/pkg/connection.Connection",
		"github.com/q191201771/naza/pkg/filesystemlayer.IFile",
		"*os.File",
		"*github.com/q191201771/lal/pkg/base.DumpFile",
	} {
		if s == k {
			return k[strings.LastIndex(k, "/")+1:], true
		}
	}
	return "", false
}

// c16r4: every struct field of a closable type that some function assigns a non-nil value to
// must have a Close/Dispose call on a load of that field somewhere in a method of the owning
// type (or a closure of one).
func c16r4(p *model.Prog, r *report.Result) {
	r.Rule("C16.R4", "every struct field in pkg/ whose type is a listener / connection / UDP connection / file / dump file and that is assigned a non-nil value has a Close()/Dispose() call on that field in a method of the owning type")
	type fieldInfo struct {
		owner  *types.Named
		field  *types.Var
		kind   string
		stores []ssa.Instruction
		closes []ssa.Instruction
	}
	infos := map[*types.Var]*fieldInfo{}
	var order []*types.Var
	for _, pk := range p.Pkgs {
		if !strings.HasPrefix(pk.PkgPath, model.LalPath+"/pkg/") || strings.HasSuffix(pk.PkgPath, "/innertest") {
			continue
		}
		sc := pk.Types.Scope()
		for _, name := range sc.Names() {
			tn, ok := sc.Lookup(name).(*types.TypeName)
			if !ok {
				continue
			}
			named, ok := tn.Type().(*types.Named)
			if !ok {
				continue
			}
			st, ok := named.Underlying().(*types.Struct)
			if !ok {
				continue
			}
			for i := 0; i < st.NumFields(); i++ {
				f := st.Field(i)
				if k, ok := closableType(f.Type()); ok {
					infos[f] = &fieldInfo{owner: named, field: f, kind: k}
					order = append(order, f)
				}
			}
		}
	}
	fns := p.LalFuncs()
	for _, fn := range fns {
		model.EachInstr(fn, func(in ssa.Instruction) {
			switch x := in.(type) {
			case *ssa.Store:
				if fi := infos[model.FieldOf(x.Addr)]; fi != nil && !model.IsNilConst(x.Val) {
					fi.stores = append(fi.stores, in)
				}
			case ssa.CallInstruction:
				o := model.CalleeObj(x.Common())
				if o == nil || (o.Name() != "Close" && o.Name() != "Dispose") {
					return
				}
				rv := receiver(x.Common())
				if rv == nil {
					return
				}
				if fi := infos[model.LoadedField(model.Unwrap(rv))]; fi != nil {
					fi.closes = append(fi.closes, in)
				}
			}
		})
	}
	sort.Slice(order, func(i, j int) bool {
		a, b := infos[order[i]], infos[order[j]]
		return a.owner.String()+"."+a.field.Name() < b.owner.String()+"."+b.field.Name()
	})
	n := 0
	for _, f := range order {
		fi := infos[f]
		if len(fi.stores) == 0 {
			continue
		}
		// only session-like owners: types with their own Dispose/dispose/Close method. Option
		// structs and process-lifetime servers without one hand the resource over / keep it.
		hasDispose := false
		for _, m := range []string{"Dispose", "dispose", "Close"} {
			if o, _, _ := types.LookupFieldOrMethod(types.NewPointer(fi.owner), true, fi.owner.Obj().Pkg(), m); o != nil {
				if _, isF := o.(*types.Func); isF {
					hasDispose = true
				}
			}
		}
		if !hasDispose {
			continue
		}
		n++
		owner := strings.TrimPrefix(fi.owner.String(), model.LalPath+"/pkg/")
		key := owner + "|closable|" + f.Name()
		ok := false
		for _, c := range fi.closes {
			fn := c.Parent()
			for fn.Parent() != nil {
				fn = fn.Parent()
			}
			if fn.Signature.Recv() != nil {
				t := fn.Signature.Recv().Type()
				if pt, isP := t.(*types.Pointer); isP {
					t = pt.Elem()
				}
				if nn, isN := t.(*types.Named); isN && nn.Obj() == fi.owner.Obj() {
					ok = true
				}
			}
		}
		r.Check(ok, "C16.R4", key, p.InstrPos(fi.stores[0]), fi.kind+" field is closed by a method of "+owner,
			fi.kind+" field "+owner+"."+f.Name()+" is opened but never closed by its owner: the descriptor (and any goroutine blocked on it) outlives the session")
	}
	if n < 10 {
		r.Bad("C16.R4", "floor", "", "fewer than 10 closable fields with an opening store found")
	}
	r.Count("closable_fields", n)
}
