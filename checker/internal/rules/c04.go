package rules

import (
	"go/token"
	"strings"

	"golang.org/x/tools/go/ssa"

	"lalverif/internal/model"
	"lalverif/internal/report"
)

func init() { register("C04", c04) }

// rtmpServerReach: functions reachable from the RTMP accept goroutine without entering the
// group fan-out (Group.OnReadRtmpAvMsg and below belong to C05).
func rtmpServerReach(p *model.Prog) ([]*ssa.Function, func(*ssa.Function) bool) {
	root := p.Method("pkg/rtmp", "Server", "handleTcpConnect")
	stop := map[*ssa.Function]bool{}
	for _, n := range []string{"OnReadRtmpAvMsg"} {
		stop[p.Method("pkg/logic", "Group", n)] = true
	}
	return []*ssa.Function{root}, func(f *ssa.Function) bool { return !stop[f] }
}

func c04(p *model.Prog, r *report.Result) {
	r.Explanation = "Decides, for everything the RTMP accept goroutine can reach before the group fan-out, the structural clauses of 'no byte sequence terminates the server': every index, slice, allocation size, integer division, unchecked type assertion and explicit process terminator is an obligation that is proved from dominating guards / inferred preconditions, or listed (R-PO); no unbounded recursion is reachable (R-rec); the connection properties are modified only while the session's role is still undetermined (R-term); the publisher observer is invoked only for sessions whose role is publisher (R-nil); every message handler's error reaches ChunkComposer.RunLoop's caller, and ServerSession.RunLoop disposes the connection on every path (R-err)."
	r.NotDecided = []string{"liveness of other connections beyond 'no blocking under a shared lock' (C15/C20)", "resource exhaustion by many connections", "nil-pointer dereferences in general (only the observer field is covered)", "naza nazabytes.Buffer and connection internals (trusted leaf code)"}
	r.Assumptions = []string{"64-bit int", "no callee modifies a guarded struct field between the guard and the use (loads of the same field path are identified)", "Log.Assert does not terminate under the default assert_behavior"}
	roots, keep := rtmpServerReach(p)
	reachAll := p.Reachable(roots, false, func(f *ssa.Function) bool { return keep(f) && (model.IsLal(f) || model.IsNaza(f)) })
	r.Count("functions_analysed", len(reachAll))

	// ---------------------------------------------------------------- R-PO
	r.Rule("C04.PO", "engine B over the functions reachable from rtmp.Server.handleTcpConnect (pkg/rtmp, pkg/base, the logic admission callbacks and naza bele/nazabits): index<len, 0<=low<=high<=cap, divisor>=1, make size bounded, no unchecked type assertion, no process terminator")
	inScopeFile := func(fn *ssa.Function) bool {
		if !keep(fn) {
			return false
		}
		if _, ok := reachAll[fn]; !ok {
			return false
		}
		pk := model.FnPkg(fn)
		if pk == nil {
			return false
		}
		// client-side types are reached only through the object-insensitive resolution of the
		// ChunkComposer callback; they face upstream servers and are reported under C13
		tf := topFn(fn)
		if tf.Signature.Recv() != nil {
			rt := tf.Signature.Recv().Type().String()
			for _, cl := range []string{"ClientSession", "PushSession", "PullSession", "HandshakeClient"} {
				if strings.Contains(rt, "rtmp."+cl) {
					return false
				}
			}
		}
		_ = pk
		// the files the property anchors on, plus the message helpers of pkg/base they call and
		// the server-level admission callbacks
		file := p.Pos(fn.Pos())
		for _, f := range []string{"pkg/rtmp/server.go", "pkg/rtmp/server_session.go", "pkg/rtmp/chunk_composer.go", "pkg/rtmp/chunk_divider.go", "pkg/rtmp/amf0.go",
			"pkg/rtmp/handshake.go", "pkg/rtmp/stream.go", "pkg/rtmp/message_packer.go", "pkg/rtmp/metadata.go", "pkg/base/t_rtmp.go", "pkg/base/error.go"} {
			if strings.HasPrefix(file, f+":") {
				return true
			}
		}
		return false
	}
	// the prover scope excludes the fan-out: build roots for engine B as the same root but
	// filter reported obligations to functions reachable without the fan-out
	_, n := runPO(p, r, poConfig{rule: "C04.PO", roots: roots, filter: inScopeFile, cut: func(f *ssa.Function) bool { return !keep(f) }})
	if n < 150 {
		r.Bad("C04.PO", "floor", "", "fewer than 150 obligations enumerated for the RTMP server surface")
	}

	// ---------------------------------------------------------------- R-rec
	r.Rule("C04.REC", "every call-graph cycle reachable from the RTMP accept goroutine is depth-guarded (a depth parameter tested against a constant and increased round every cycle) or state-guarded (a function every cycle passes returns at once when a buffer field is empty and clears it before calling back)")
	for _, s := range recursiveSCCs(p, roots) {
		inReach := true
		for _, f := range s.Funcs {
			if _, ok := reachAll[f]; !ok {
				inReach = false
			}
		}
		if !inReach {
			continue
		}
		// cycles through rtmp.ClientSession (re-connect on an error message of the remote
		// server) are joined to the server's read loop only by the shared ChunkComposer
		// callback slot; they belong to the client side (C13)
		client := false
		for _, f := range s.Funcs {
			if strings.Contains(model.FnName(f), "ClientSession") {
				client = true
			}
		}
		if client {
			r.Note("C04.REC", "scc|"+s.Name(), p.Pos(s.Funcs[0].Pos()), "client-side re-connect cycle: decided under C13")
			continue
		}
		ok, why := s.depthGuarded()
		if !ok {
			if ok2, why2 := s.stateGuarded(p); ok2 {
				ok, why = true, why2
			} else {
				why = why + "; " + why2
			}
		}
		r.Check(ok, "C04.REC", "scc|"+s.Name(), p.Pos(s.Funcs[0].Pos()), why, "unbounded recursion reachable from peer input: "+why)
	}

	// ---------------------------------------------------------------- R-term
	r.Rule("C04.TERM", "ServerSession.modConnProps (naza ModWriteChanSize/ModReadTimeoutMs/ModWriteTimeoutMs panic when applied twice) is called only from functions that return an error before it unless BaseType() is still the undetermined PUBSUB value")
	mcp := p.MethodObj("pkg/rtmp", "ServerSession", "modConnProps")
	baseType := p.MethodObj("pkg/base", "BasicSessionStat", "BaseType")
	undetermined := p.Const("pkg/base", "SessionBaseTypePubSubStr")
	nM := 0
	for _, fn := range lalFuncsIn(p, "pkg/rtmp") {
		for _, ci := range model.CallsTo(fn, mcp) {
			nM++
			// no path from entry to the call avoiding the "BaseType()==PUBSUB" edge
			bad := model.PathQuery{
				StopEdge: func(b *ssa.BasicBlock, k int) bool {
					iff, ok := b.Instrs[len(b.Instrs)-1].(*ssa.If)
					if !ok {
						return false
					}
					c, pol := model.StripNot(iff.Cond, k == 0)
					cmp, ok := c.(*ssa.BinOp)
					if !ok || (cmp.Op != token.EQL && cmp.Op != token.NEQ) {
						return false
					}
					call, ok := cmp.X.(*ssa.Call)
					s, isS := model.ConstString(cmp.Y)
					if !ok || !isS || !model.SameFunc(model.CalleeObj(call.Common()), baseType) {
						return false
					}
					want := strings.Trim(undetermined.Val().ExactString(), `"`)
					return s == want && ((cmp.Op == token.EQL) == pol)
				},
				Target: func(x ssa.Instruction) bool { return x == ci }}.Find(fn)
			r.Check(bad == nil, "C04.TERM", fkey(fn, "once", "modConnProps"), p.InstrPos(ci), "connection properties modified only while the role is undetermined", "a second publish/play on one connection reaches modConnProps again: naza panics with ErrConnectionPanic and the process dies")
		}
	}
	if nM < 2 {
		r.Bad("C04.TERM", "floor", "", "modConnProps call sites not found")
	}

	// ---------------------------------------------------------------- R-nil
	r.Rule("C04.NIL", "every invoke through ServerSession.avObserver (set only by SetPubSessionObserver for publishers) is unreachable from function entry without crossing the BaseType()==PUB edge")
	avObs := p.Field("pkg/rtmp", "ServerSession", "avObserver")
	pubStr := strings.Trim(p.Const("pkg/base", "SessionBaseTypePubStr").Val().ExactString(), `"`)
	nN := 0
	for _, fn := range lalFuncsIn(p, "pkg/rtmp") {
		for _, ci := range model.AllCalls(fn) {
			if !ci.Common().IsInvoke() || !model.IsLoadOfField(ci.Common().Value, avObs) {
				continue
			}
			nN++
			bad := model.PathQuery{
				StopEdge: func(b *ssa.BasicBlock, k int) bool {
					iff, ok := b.Instrs[len(b.Instrs)-1].(*ssa.If)
					if !ok {
						return false
					}
					c, pol := model.StripNot(iff.Cond, k == 0)
					cmp, ok := c.(*ssa.BinOp)
					if !ok || (cmp.Op != token.EQL && cmp.Op != token.NEQ) {
						return false
					}
					call, ok := cmp.X.(*ssa.Call)
					s, isS := model.ConstString(cmp.Y)
					if !ok || !isS || !model.SameFunc(model.CalleeObj(call.Common()), baseType) {
						return false
					}
					return s == pubStr && ((cmp.Op == token.EQL) == pol)
				},
				Target: func(x ssa.Instruction) bool { return x == ci }}.Find(fn)
			r.Check(bad == nil, "C04.NIL", fkey(fn, "observer", "avObserver"), p.InstrPos(ci), "observer invoked only for publishers", "the (nil) publisher observer can be invoked for a session that never published: audio/video before publish kills the process")
		}
	}
	if nN < 2 {
		r.Bad("C04.NIL", "floor", "", "avObserver invocations not found")
	}

	// ---------------------------------------------------------------- R-err
	r.Rule("C04.ERR", "in ServerSession.doMsg every handler's error result flows to the function's return; ServerSession.RunLoop calls dispose() on every path; runReadLoop returns ChunkComposer.RunLoop's error")
	doMsg := p.Method("pkg/rtmp", "ServerSession", "doMsg")
	nH := 0
	for _, ci := range model.AllCalls(doMsg) {
		callee := ci.Common().StaticCallee()
		if callee == nil || !strings.HasPrefix(callee.Name(), "do") || callee.Signature.Results().Len() != 1 {
			continue
		}
		nH++
		call := ci.(*ssa.Call)
		flows := false
		for _, ret := range model.ReturnsOf(doMsg) {
			for _, rv := range model.ReturnValues(ret) {
				if model.DependsOn(rv, func(v ssa.Value) bool { return v == ssa.Value(call) }) {
					flows = true
				}
			}
		}
		r.Check(flows, "C04.ERR", fkey(doMsg, "propagate", callee.Name()), p.InstrPos(ci), "handler error is returned", "the error of "+callee.Name()+" is dropped: a malformed message does not close the connection")
	}
	if nH < 6 {
		r.Bad("C04.ERR", "floor", "", "fewer than 6 message handlers found in doMsg")
	}
	runLoop := p.Method("pkg/rtmp", "ServerSession", "RunLoop")
	dispose := p.MethodObj("pkg/rtmp", "ServerSession", "dispose")
	bad := model.PathQuery{Stop: func(x ssa.Instruction) bool {
		ci, ok := x.(ssa.CallInstruction)
		return ok && model.SameFunc(model.CalleeObj(ci.Common()), dispose)
	}, Target: func(x ssa.Instruction) bool { _, ok := x.(*ssa.Return); return ok }}.Find(runLoop)
	r.Check(bad == nil, "C04.ERR", fkey(runLoop, "dispose", "every-path"), p.Pos(runLoop.Pos()), "the connection is disposed on every exit of RunLoop", "RunLoop can return without disposing the connection")
	c04Writer(p, r)
	c04Buf(p, r)
	c04r13(p, r, "C04.REFUSE")
	w8MsgLenBeforeRead(p, r, "C04.MSGLEN")
	r.Rule("C04.NILF", "fields that lal itself compares with nil somewhere are, in every function of the RTMP server surface, dereferenced only behind the non-nil edge of a test of the same field expression or a dominating non-nil store; reviewed exceptions are listed per (function, field)")
	{
		var scope []*ssa.Function
		for f := range reachAll {
			if model.IsLal(f) && inScopeFile(f) {
				scope = append(scope, f)
			}
		}
		nilFieldRule(p, r, "C04.NILF", scope, c04NilExceptions, 10, 0)
	}
}

var c04NilExceptions = []nilFieldException{}
