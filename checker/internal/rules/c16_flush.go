package rules

import (
	"fmt"
	"go/types"

	"golang.org/x/tools/go/ssa"

	"lalverif/internal/model"
	"lalverif/internal/report"
)

// c16r9: every buffering stage of the RTMP->TS remuxer is emptied when the input ends.
func c16r9(p *model.Prog, r *report.Result) {
	r.Rule("C16.R9", "every slice field of remux.Rtmp2MpegtsRemuxer / rtmp2MpegtsFilter that the feed path appends to (a buffering stage: the pre-analysis queue, the audio batch) is reset by a function that Rtmp2MpegtsRemuxer.Dispose reaches through static calls (depth <= 3): what is still buffered when the input leaves is handed on, not dropped")
	dispose := p.Method("pkg/remux", "Rtmp2MpegtsRemuxer", "Dispose")
	owners := map[string]bool{"Rtmp2MpegtsRemuxer": true, "rtmp2MpegtsFilter": true}
	// buffering stages: fields stored with append(<load of the same field>, ...)
	stages := map[*types.Var]string{}
	for _, fn := range lalFuncsIn(p, "pkg/remux") {
		if !owners[recvName(topFn(fn))] {
			continue
		}
		model.EachInstr(fn, func(in ssa.Instruction) {
			st, ok := in.(*ssa.Store)
			if !ok {
				return
			}
			f := model.FieldOf(st.Addr)
			if f == nil {
				return
			}
			c, isC := st.Val.(*ssa.Call)
			if !isC {
				return
			}
			if b, isB := c.Call.Value.(*ssa.Builtin); isB && b.Name() == "append" && model.IsLoadOfField(c.Call.Args[0], f) {
				// a scratch buffer is truncated earlier in the same call (x = x[0:0] ... append): it
				// carries nothing from one call to the next and is no buffering stage
				scratch := false
				for _, st2 := range model.FieldStores(fn, f) {
					if sl, isSl := st2.Val.(*ssa.Slice); isSl && sl.High != nil && model.InstrDominates(st2, st) {
						if k, isK := model.ConstInt(sl.High); isK && k == 0 {
							scratch = true
						}
					}
				}
				if !scratch {
					stages[f] = model.FnName(fn)
				}
			}
		})
	}
	// functions Dispose reaches
	reach := map[*ssa.Function]bool{dispose: true}
	frontier := []*ssa.Function{dispose}
	for d := 0; d < 3; d++ {
		var next []*ssa.Function
		for _, fn := range frontier {
			for _, ci := range model.AllCalls(fn) {
				if ce := ci.Common().StaticCallee(); ce != nil && model.IsLal(ce) && !reach[ce] {
					reach[ce] = true
					next = append(next, ce)
				}
			}
		}
		frontier = next
	}
	// reviewed: per-frame assembly buffers that are emptied by the emit at the end of the same feed call
	scratch := map[string]string{
		"videoOut": "per-frame Annex-B assembly buffer of feedVideo: onFrame() truncates it after every emitted frame (s.videoOut = s.videoOut[0:0]); it holds no frame between two feed calls",
	}
	for f, where := range stages {
		if why, ok := scratch[f.Name()]; ok {
			r.Assume("C16.R9", "stage|"+f.Name(), p.Pos(dispose.Pos()), "reviewed exception: "+why)
			continue
		}
		reset := false
		for fn := range reach {
			for _, st := range model.FieldStores(fn, f) {
				if model.IsNilConst(st.Val) {
					reset = true
				}
				if sl, ok := st.Val.(*ssa.Slice); ok && sl.High != nil {
					if k, isK := model.ConstInt(sl.High); isK && k == 0 {
						reset = true
					}
				}
			}
		}
		r.Check(reset, "C16.R9", "stage|"+f.Name(), p.Pos(dispose.Pos()), "emptied on Dispose", fmt.Sprintf("the buffering stage %s (filled in %s) is not emptied by anything Dispose() calls: what it holds when the input leaves is dropped - for a single-track stream shorter than the analysis window that is the whole stream, the TS recording and HLS stay empty", f.Name(), where))
	}
	// order: a step of Dispose that can still put data into a stage (it drains an earlier stage
	// into it) must be followed by a step that empties that stage
	isReset := func(st *ssa.Store) bool {
		if model.IsNilConst(st.Val) {
			return true
		}
		if sl, ok := st.Val.(*ssa.Slice); ok && sl.High != nil {
			if k, isK := model.ConstInt(sl.High); isK && k == 0 {
				return true
			}
		}
		return false
	}
	closure := func(root *ssa.Function) map[*ssa.Function]bool {
		// static callees and the callbacks installed in the remuxer (dynamic calls resolved by the call graph)
		seen := map[*ssa.Function]bool{root: true}
		work := []*ssa.Function{root}
		for d := 0; d < 6 && len(work) > 0; d++ {
			var next []*ssa.Function
			for _, fn := range work {
				for _, g := range model.WithAnons(fn) {
					for _, ci := range model.AllCalls(g) {
						var ces []*ssa.Function
						if ce := ci.Common().StaticCallee(); ce != nil {
							ces = []*ssa.Function{ce}
						} else {
							ces = p.Callees(ci)
						}
						for _, ce := range ces {
							if model.IsLal(ce) && !seen[ce] && owners[recvName(topFn(ce))] {
								seen[ce] = true
								next = append(next, ce)
							}
						}
					}
				}
			}
			work = next
		}
		return seen
	}
	var steps []ssa.CallInstruction
	for _, ci := range model.AllCalls(dispose) {
		if ce := ci.Common().StaticCallee(); ce != nil && model.IsLal(ce) && ci.Block() == dispose.Blocks[0] {
			steps = append(steps, ci)
		}
	}
	for f := range stages {
		if _, isScratch := scratch[f.Name()]; isScratch {
			continue
		}
		lastFill, lastReset := -1, -1
		for i, ci := range steps {
			for fn := range closure(ci.Common().StaticCallee()) {
				for _, st := range model.FieldStores(fn, f) {
					if isReset(st) {
						if i > lastReset {
							lastReset = i
						}
					} else if c, isC := st.Val.(*ssa.Call); isC {
						if b, isB := c.Call.Value.(*ssa.Builtin); isB && b.Name() == "append" && i > lastFill {
							lastFill = i
						}
					}
				}
			}
		}
		if lastFill < 0 {
			continue
		}
		pos := p.Pos(dispose.Pos())
		if lastFill < len(steps) {
			pos = p.InstrPos(steps[lastFill])
		}
		r.Check(lastReset > lastFill || (lastReset == lastFill && lastFill >= 0 && stageSelfDrains(steps[lastFill], f)), "C16.R9", "order|"+f.Name(), pos, "emptied after the last step that can fill it", fmt.Sprintf("Dispose() empties the stage %s before a later step that can still put data into it (the earlier stage is drained into it afterwards): what arrives there is never handed on - the tail of a short single-track stream is lost from the TS outputs", f.Name()))
	}
	r.Count("remuxer_buffer_stages", len(stages))
	if len(stages) < 2 {
		r.Bad("C16.R9", "floor", "", fmt.Sprintf("only %d buffering stages found in the TS remuxer", len(stages)))
	}
}

// stageSelfDrains: the step itself both fills and empties the stage (it is that stage's own
// drain routine); accepted only for the stage whose drain routine the step is.
func stageSelfDrains(step ssa.CallInstruction, f *types.Var) bool {
	ce := step.Common().StaticCallee()
	if ce == nil {
		return false
	}
	resets := false
	model.EachInstr(ce, func(in ssa.Instruction) {
		if st, ok := in.(*ssa.Store); ok && model.FieldOf(st.Addr) == f {
			if model.IsNilConst(st.Val) {
				resets = true
			}
			if sl, isSl := st.Val.(*ssa.Slice); isSl && sl.High != nil {
				if k, isK := model.ConstInt(sl.High); isK && k == 0 {
					resets = true
				}
			}
		}
	})
	return resets
}
