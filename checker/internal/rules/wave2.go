package rules

import (
	"fmt"
	"go/token"
	"go/types"

	"golang.org/x/tools/go/ssa"

	"lalverif/internal/model"
	"lalverif/internal/report"
)

// Rules added after the second round of independent seeded changes. Each is a structural
// necessary condition of its property.

// c03r7: a group with a relay-pull attempt in flight is not inactive.
func c03r7(p *model.Prog, r *report.Result) {
	r.Rule("C03.R7", "Group.isPullModuleAlive (consulted by IsInactive) depends on pullProxy.isSessionPulling and on the attached pull sessions: a group whose pull attempt is still connecting is not disposed and erased from the name map, so the attempt cannot attach to an orphaned group while a second input is accepted under the same name")
	fn := p.Method("pkg/logic", "Group", "isPullModuleAlive")
	pulling := p.Field("pkg/logic", "pullProxy", "isSessionPulling")
	hasPull := p.MethodObj("pkg/logic", "Group", "hasPullSession")
	okFlag, okSess := false, false
	for _, ret := range model.ReturnsOf(fn) {
		rv := model.ReturnValues(ret)
		if len(rv) != 1 {
			continue
		}
		if v, isK := model.ConstBool(rv[0]); isK && v {
			// return true behind which conditions?
			for _, g := range model.Guards(ret.Block()) {
				if model.DependsOn(g.Cond, func(v ssa.Value) bool { return model.IsLoadOfField(v, pulling) }) {
					okFlag = true
				}
			}
		}
	}
	// short-circuit conditions are separate Ifs: look at every If of the function
	for _, b := range fn.Blocks {
		if iff, ok := b.Instrs[len(b.Instrs)-1].(*ssa.If); ok {
			if model.IsLoadOfField(iff.Cond, pulling) {
				// its true edge must reach a 'return true' without further conditions on other state
				if ret, isRet := b.Succs[0].Instrs[len(b.Succs[0].Instrs)-1].(*ssa.Return); isRet {
					if v, isK := model.ConstBool(model.ReturnValues(ret)[0]); isK && v {
						okFlag = true
					}
				}
			}
			if c, isC := iff.Cond.(*ssa.Call); isC && model.SameFunc(model.CalleeObj(c.Common()), hasPull) {
				okSess = true
			}
		}
	}
	r.Check(okFlag, "C03.R7", fkey(fn, "alive", "isSessionPulling"), p.Pos(fn.Pos()), "a connecting pull keeps the group alive", "isPullModuleAlive ignores pullProxy.isSessionPulling: the tick disposes and erases a group whose pull is still connecting; the pull then attaches to the orphan and a publisher is accepted into a fresh group of the same name (two accepted inputs)")
	r.Check(okSess, "C03.R7", fkey(fn, "alive", "hasPullSession"), p.Pos(fn.Pos()), "an attached pull keeps the group alive", "isPullModuleAlive ignores the attached pull sessions")
	isInactive := p.Method("pkg/logic", "Group", "IsInactive")
	uses := len(model.CallsTo(isInactive, p.MethodObj("pkg/logic", "Group", "isPullModuleAlive"))) > 0
	r.Check(uses, "C03.R7", fkey(isInactive, "alive", "consulted"), p.Pos(isInactive.Pos()), "IsInactive consults isPullModuleAlive", "IsInactive no longer consults the pull module")
}

// c07r7: fragment trains are continuous; time-stamp filter state is updated on every path.
func c07r78(p *model.Prog, r *report.Result) {
	c07r7As(p, r, "C07.R7")
	c07r8(p, r)
}

func c07r7As(p *model.Prog, r *report.Result, rule string) {
	r.Rule(rule, "in RtpUnpackerAvcHevc.TryUnpackOne a fragment is added to a FU train only behind SubSeq(p.Seq, prev.Seq) == 1 (distance exactly one; an ordering test accepts a train with a hole)")
	fn := p.Method("pkg/rtprtcp", "RtpUnpackerAvcHevc", "TryUnpackOne")
	subSeq := p.FuncObj("pkg/rtprtcp", "SubSeq")
	posF := p.Field("pkg/rtprtcp", "RtpPacket", "positionType")
	n := 0
	for _, b := range fn.Blocks {
		iff, ok := b.Instrs[len(b.Instrs)-1].(*ssa.If)
		if !ok {
			continue
		}
		// the tests of p.Packet.positionType against FuaMiddle / FuaEnd inside the train loop
		x, k, op, _, isCmp := constCmp(iff.Cond)
		if !isCmp || op != token.EQL || (k != 3 && k != 4) || model.LoadedField(x) != posF {
			continue
		}
		inLoop := false
		for _, l := range model.Loops(fn) {
			if l.Body[b] || l.Header.Dominates(b) {
				inLoop = true
			}
		}
		if !inLoop {
			continue
		}
		n++
		ok = model.GuardedBy(iff, func(c ssa.Value, pol bool) bool {
			y, kk, op2, right, isCmp2 := constCmp(c)
			if !isCmp2 || kk != 1 {
				return false
			}
			call, isCall := y.(*ssa.Call)
			if !isCall || !model.SameFunc(model.CalleeObj(call.Common()), subSeq) {
				return false
			}
			// on this edge the distance equals 1
			return cmpAt(op2, 1, kk, right) == pol && cmpAt(op2, 2, kk, right) != pol && cmpAt(op2, 0, kk, right) != pol
		})
		r.Check(ok, rule, fkey(fn, "train", "distance-one"), p.InstrPos(iff), "fragment accepted only at distance one from its predecessor", "a fragment is accepted into the train without SubSeq(...) == 1: when the end fragment overtakes a missing middle fragment the NAL unit is emitted with a hole and the late fragment is dropped as stale")
	}
	if n < 2 {
		r.Bad(rule, fkey(fn, "train", "floor"), p.Pos(fn.Pos()), "the middle/end tests of the FU train loop were not found")
	}
}

func c07r8(p *model.Prog, r *report.Result) {
	r.Rule("C07.R8", "in AvPacketQueue.adjustTsHandleRotate's per-track filter every path that rewrites the packet's time stamp from the previous one also records the packet's original time stamp (*prevOriginTs): the next interval is measured from this packet, also right after a 32-bit wrap")
	outer := p.Method("pkg/rtsp", "AvPacketQueue", "adjustTsHandleRotate")
	nF := 0
	for _, fnc := range model.WithAnons(outer) {
		if fnc == outer || len(fnc.Params) < 3 {
			continue
		}
		nF++
		origin := fnc.Params[0]
		isOriginStore := func(in ssa.Instruction) bool {
			st, ok := in.(*ssa.Store)
			return ok && st.Addr == ssa.Value(origin)
		}
		isRet := func(in ssa.Instruction) bool { _, ok := in.(*ssa.Return); return ok }
		miss := model.PathQuery{Stop: isOriginStore, Target: isRet}.Find(fnc)
		r.Check(miss == nil, "C07.R8", fkey(fnc, "filter", "origin-recorded"), p.Pos(fnc.Pos()), "every path records the original time stamp", "a path through the filter leaves *prevOriginTs at its old value: after a time-stamp wrap every later packet looks like another wrap and gets the pre-wrap interval, so the track drifts")
	}
	if nF != 1 {
		r.Bad("C07.R8", "floor", p.Pos(outer.Pos()), "the per-track filter closure of adjustTsHandleRotate was not found")
	}
}

// c08r89: extended time stamp on continuation chunks; aggregate base time stamp.
func c08r89(p *model.Prog, r *report.Result, calc, runLoop *ssa.Function) {
	r.Rule("C08.R8", "in calcHeader the 4-byte extended time stamp is written on the format-3 path as well: the BePutUint32 of the extended field is reachable from the entry across the false edge of 'fmt <= 2'")
	put32 := p.FuncObj("naza/pkg/bele", "BePutUint32")
	var fmtIf *ssa.If
	for _, b := range calc.Blocks {
		iff, ok := b.Instrs[len(b.Instrs)-1].(*ssa.If)
		if !ok {
			continue
		}
		x, k, op, right, isCmp := constCmp(iff.Cond)
		if isCmp && typeWidth(x.Type()) == 8 && cmpAt(op, 2, k, right) && !cmpAt(op, 3, k, right) {
			if _, isPhi := x.(*ssa.Phi); isPhi {
				fmtIf = iff
			}
		}
	}
	if fmtIf == nil {
		r.Bad("C08.R8", fkey(calc, "ext", "shape"), p.Pos(calc.Pos()), "the 'fmt <= 2' test of calcHeader was not found")
	} else {
		reach := model.PathQuery{FromBlock: fmtIf.Block().Succs[1], Target: func(in ssa.Instruction) bool {
			ci, ok := in.(ssa.CallInstruction)
			return ok && model.SameFunc(model.CalleeObj(ci.Common()), put32)
		}}.Find(calc)
		r.Check(reach != nil, "C08.R8", fkey(calc, "ext", "on-continuation"), p.InstrPos(fmtIf), "extended field also written for format 3", "the extended time stamp is written only for formats 0..2: the continuation chunks of a message with a time stamp >= 0xFFFFFF lack the field every reader (lal's own included) expects, 4 payload bytes per chunk are eaten and the stream loses sync")
	}

	r.Rule("C08.R9", "in the aggregate branch of ChunkComposer.RunLoop the base time stamp is taken from the first sub-message by means of a boolean 'first' flag, not by comparing the base with a sentinel value (0 is a legal time stamp)")
	tsF := p.Field("pkg/rtmp", "Stream", "timestamp")
	found := false
	model.EachInstr(runLoop, func(in ssa.Instruction) {
		ph, ok := in.(*ssa.Phi)
		if !ok || ph.Comment != "baseTimestamp" {
			return
		}
		// the loop-carried phi that merges 'keep' and 'take this sub-message's stamp'
		takes := false
		for _, e := range ph.Edges {
			if model.IsLoadOfField(model.Unwrap(e), tsF) {
				takes = true
			}
		}
		if !takes {
			return
		}
		found = true
		// the If that selects between keeping and taking
		sentinel := false
		for i := range ph.Edges {
			pred := ph.Block().Preds[i]
			for _, g := range append(model.Guards(pred), guardOfEdge(pred, ph.Block())...) {
				if model.DependsOn(g.Cond, func(v ssa.Value) bool {
					q, isPhi := v.(*ssa.Phi)
					return isPhi && q.Comment == "baseTimestamp"
				}) {
					sentinel = true
				}
			}
		}
		r.Check(!sentinel, "C08.R9", fkey(runLoop, "aggregate", "base-by-flag"), p.InstrPos(ph), "first sub-message detected by a flag", "the base time stamp is (re)taken whenever it equals a sentinel value: an aggregate whose first sub-message is stamped 0 takes its base from the first non-zero stamp and the sub-messages' absolute time stamps come out wrong")
	})
	if !found {
		r.Bad("C08.R9", fkey(runLoop, "aggregate", "floor"), p.Pos(runLoop.Pos()), "the base time stamp of the aggregate branch was not found")
	}
}

// guardOfEdge: the If condition of pred when it branches directly to succ.
func guardOfEdge(pred, succ *ssa.BasicBlock) []model.Guard {
	iff, ok := pred.Instrs[len(pred.Instrs)-1].(*ssa.If)
	if !ok || pred.Succs[0] == pred.Succs[1] {
		return nil
	}
	for k, s := range pred.Succs {
		if s == succ {
			return []model.Guard{{If: iff, Cond: iff.Cond, Polarity: k == 0}}
		}
	}
	return nil
}

// c01r8: the header handed to the chunk divider describes the payload handed with it.
func c01r8(p *model.Prog, r *report.Result) {
	r.Rule("C01.R8", "at every rtmp.Message2Chunks call of pkg/remux the header's MsgLen is the length of the payload passed in the same call: either the header is the received one together with the received payload, or MsgLen is assigned uint32(len(<that payload>)) on the way")
	m2c := p.FuncObj("pkg/rtmp", "Message2Chunks")
	msgLen := p.Field("pkg/base", "RtmpHeader", "MsgLen")
	payloadF := p.Field("pkg/base", "RtmpMsg", "Payload")
	n := 0
	for _, fn := range lalFuncsIn(p, "pkg/remux") {
		for _, ci := range model.CallsTo(fn, m2c) {
			n++
			// the payload may be a merge (original payload on one way, rewritten on another): each
			// alternative is judged at the end of the block it comes from
			type alt struct {
				v  ssa.Value
				at ssa.Instruction // the alternative must be consistent when control passes here
			}
			var alts []alt
			var expand func(v ssa.Value, at ssa.Instruction, d int)
			expand = func(v ssa.Value, at ssa.Instruction, d int) {
				if ph, ok := v.(*ssa.Phi); ok && d < 4 {
					for i, e := range ph.Edges {
						pred := ph.Block().Preds[i]
						expand(e, pred.Instrs[len(pred.Instrs)-1], d+1)
					}
					return
				}
				alts = append(alts, alt{v, at})
			}
			expand(ci.Common().Args[0], ci, 0)
			ok := true
			why := ""
			for _, al := range alts {
				o, w := c01r8Alt(fn, ci, al.v, al.at, msgLen, payloadF)
				if !o {
					ok = false
				}
				if why == "" || !o {
					why = w
				}
			}
			r.Check(ok, "C01.R8", fkey(fn, "m2c", "MsgLen"), p.InstrPos(ci), why, "the header passed to Message2Chunks keeps the MsgLen of the original message although the payload was rewritten (e.g. @setDataFrame added): the consumer gets a truncated message and loses chunk sync")
		}
	}
	if n < 2 {
		r.Bad("C01.R8", "floor", "", fmt.Sprintf("only %d Message2Chunks calls found in pkg/remux", n))
	}
}

// c01r8Alt: is the header's MsgLen the length of payload alternative v when control passes `at`
// on the way to the Message2Chunks call ci?
func c01r8Alt(fn *ssa.Function, ci ssa.CallInstruction, v ssa.Value, at ssa.Instruction, msgLen, payloadF *types.Var) (bool, string) {
	dom := func(a ssa.Instruction) bool { return a == at || model.InstrDominates(a, at) }
	fp, isField := loadPath(v)
	if isField && len(fp.Fields) >= 1 && fp.Fields[len(fp.Fields)-1] == payloadF {
		// the message object whose Payload is passed: was its Payload field assigned in this function?
		var lastAssign *ssa.Store
		for _, st := range model.FieldStores(fn, payloadF) {
			if (sameRoot(storeBase(st), fp.Base) || storeBaseMatches(st, v)) && dom(st) {
				lastAssign = st
			}
		}
		if lastAssign == nil {
			// the received payload: fine unless MsgLen was re-assigned from another value on this way
			for _, st := range model.FieldStores(fn, msgLen) {
				if !dom(st) {
					continue
				}
				if l, isLen := lenOf(model.Unwrap(st.Val)); !isLen || l != v {
					if _, sameField := loadPath(l); !sameField {
						return false, "MsgLen overwritten although the received payload is passed"
					}
				}
			}
			return true, "received header with received payload"
		}
		// MsgLen must be assigned len(Payload) after that assignment, before the call
		for _, st := range model.FieldStores(fn, msgLen) {
			l, isLen := lenOf(model.Unwrap(st.Val))
			if !isLen || !model.InstrDominates(lastAssign, st) || !dom(st) {
				continue
			}
			if lf, ok2 := loadPath(l); ok2 && len(lf.Fields) >= 1 && lf.Fields[len(lf.Fields)-1] == payloadF {
				return true, "MsgLen re-computed from the new payload"
			}
		}
		return false, ""
	}
	if c, isCall := v.(*ssa.Call); isCall && model.CalleeObj(c.Common()) != nil && model.CalleeObj(c.Common()).Name() == "Payload" && len(model.FieldStores(fn, msgLen)) == 0 {
		return true, "header and payload both derived, unmodified, from the same tag"
	}
	// a computed payload (rewritten metadata): MsgLen must be len(payload), assigned on this way
	for _, st := range model.FieldStores(fn, msgLen) {
		if l, isLen := lenOf(model.Unwrap(st.Val)); isLen && l == v && dom(st) {
			return true, "MsgLen = len(payload)"
		}
	}
	return false, ""
}

func storeBaseMatches(st *ssa.Store, payloadLoad ssa.Value) bool {
	ld, ok := payloadLoad.(*ssa.UnOp)
	if !ok {
		return false
	}
	fa, ok := ld.X.(*ssa.FieldAddr)
	if !ok {
		return false
	}
	sfa, ok := st.Addr.(*ssa.FieldAddr)
	return ok && sfa.X == fa.X
}

// c06r8: the RTP clock of the AAC packer is the rate announced in the SDP (both from the ASC).
func c06r8(p *model.Prog, r *report.Result) {
	r.Rule("C06.R8", "in Rtmp2RtspRemuxer the clock rate given to the AAC RTP packer derives from the AudioSpecificConfig (AscContext.GetSamplingFrequency), the same source doAnalyze uses for the SDP's rtpmap, not from a field that later metadata overwrites")
	fn := p.Method("pkg/remux", "Rtmp2RtspRemuxer", "getAudioPacker")
	newPacker := p.FuncObj("pkg/rtprtcp", "NewRtpPacker")
	aacPP := p.FuncObj("pkg/rtprtcp", "NewRtpPackerPayloadAac")
	getFreq := p.MethodObj("pkg/aac", "AscContext", "GetSamplingFrequency")
	n := 0
	for _, ci := range model.CallsTo(fn, newPacker) {
		pp, isCall := ci.Common().Args[0].(*ssa.Call)
		var inner *ssa.Call
		if mi, ok := ci.Common().Args[0].(*ssa.MakeInterface); ok {
			inner, _ = mi.X.(*ssa.Call)
		} else if isCall {
			inner = pp
		}
		if inner == nil || !model.SameFunc(model.CalleeObj(inner.Common()), aacPP) {
			continue
		}
		n++
		clock := ci.Common().Args[1]
		ok := model.DependsOn(clock, func(v ssa.Value) bool {
			c, isC := v.(*ssa.Call)
			return isC && model.SameFunc(model.CalleeObj(c.Common()), getFreq)
		})
		r.Check(ok, "C06.R8", fkey(fn, "aac-clock", "from-asc"), p.InstrPos(ci), "clock rate taken from the ASC", "the AAC packer's clock rate is not derived from the AudioSpecificConfig: metadata arriving after the sequence headers (audiosamplerate 44100 for an HE-AAC core rate of 22050) makes the RTP time stamps run at another rate than the SDP announces")
	}
	if n != 1 {
		r.Bad("C06.R8", "floor", p.Pos(fn.Pos()), "the AAC packer construction was not found")
	}
}

// c09r6: the CRC table is the CRC-32/MPEG-2 table.
func c09r6(p *model.Prog, r *report.Result) {
	r.Rule("C09.R6", "the 256-entry table used by mpegts.CalcCrc32 equals the table generated from the CRC-32/MPEG-2 polynomial 0x04C11DB7 (MSB first; stored byte-swapped, as lal drives hash/crc32 with it), entry by entry")
	// generate
	var want [256]uint32
	for i := 0; i < 256; i++ {
		c := uint32(i) << 24
		for k := 0; k < 8; k++ {
			if c&0x80000000 != 0 {
				c = (c << 1) ^ 0x04C11DB7
			} else {
				c <<= 1
			}
		}
		want[i] = c
	}
	pk := p.SPkg("pkg/mpegts")
	var tbl *ssa.Global
	for _, m := range pk.Members {
		g, ok := m.(*ssa.Global)
		if !ok {
			continue
		}
		if at, ok := g.Type().(*types.Pointer).Elem().Underlying().(*types.Array); ok && at.Len() == 256 {
			tbl = g
		}
		if pt, ok := g.Type().(*types.Pointer).Elem().Underlying().(*types.Pointer); ok {
			if at, ok := pt.Elem().Underlying().(*types.Array); ok && at.Len() == 256 {
				tbl = g
			}
		}
		if sl, ok := g.Type().(*types.Pointer).Elem().Underlying().(*types.Slice); ok {
			if b, isB := sl.Elem().Underlying().(*types.Basic); isB && b.Kind() == types.Uint32 {
				tbl = g
			}
		}
	}
	if tbl == nil {
		r.Bad("C09.R6", "crc|table", "", "no 256-entry table found in pkg/mpegts")
		return
	}
	got := map[int64]int64{}
	init := pk.Func("init")
	// the literal is built element by element in init: stores through IndexAddr on a fresh array
	model.EachInstr(init, func(in ssa.Instruction) {
		st, ok := in.(*ssa.Store)
		if !ok {
			return
		}
		ia, ok := st.Addr.(*ssa.IndexAddr)
		if !ok {
			return
		}
		if !flowsToGlobal(ia.X, tbl, init) {
			return
		}
		i, ok1 := model.ConstInt(ia.Index)
		v, ok2 := model.ConstInt(st.Val)
		if ok1 && ok2 {
			got[i] = v
		}
	})
	bad := ""
	for i := 0; i < 256; i++ {
		v, ok := got[int64(i)]
		if !ok && want[i] == 0 {
			continue // zero entries need no store
		}
		// lal keeps the table byte-swapped (it drives hash/crc32's little-endian update and swaps the result)
		w := want[i]
		w = w>>24 | (w>>8)&0xff00 | (w<<8)&0xff0000 | w<<24
		if !ok || uint32(v) != w {
			bad = fmt.Sprintf("entry %d is 0x%08x, the (byte-swapped) CRC-32/MPEG-2 table has 0x%08x", i, uint32(v), w)
			break
		}
	}
	r.Check(bad == "" && len(got) >= 255, "C09.R6", "crc|table", p.Pos(tbl.Pos()), "256 entries equal the generated table", "the CRC table differs from CRC-32/MPEG-2: "+bad+" — every PSI section whose bytes hit that entry carries a CRC a conforming demuxer rejects")
}

// flowsToGlobal: the array value addressed is (a slice of) the object stored into the global in init.
func flowsToGlobal(v ssa.Value, g *ssa.Global, init *ssa.Function) bool {
	if v == ssa.Value(g) {
		return true
	}
	ok := false
	model.EachInstr(init, func(in ssa.Instruction) {
		st, isSt := in.(*ssa.Store)
		if !isSt || st.Addr != ssa.Value(g) {
			return
		}
		val := st.Val
		for i := 0; i < 4; i++ {
			switch x := val.(type) {
			case *ssa.Slice:
				val = x.X
			case *ssa.UnOp:
				val = x.X
			}
		}
		if val == v {
			ok = true
		}
	})
	return ok
}

// c10r7: the deferred HLS cleanup looks its own stream up.
func c10r7(p *model.Prog, r *report.Result) {
	r.Rule("C10.R7", "the deferred task of ServerManager.CleanupHlsIfNeeded looks the group up with (appName, streamName) in that order: GetGroup's first argument is the task parameter bound to CleanupHlsIfNeeded's appName, the second the one bound to streamName (a miss skips the 'muxer still alive' guard and removes the directory of a live stream)")
	outer := p.Method("pkg/logic", "ServerManager", "CleanupHlsIfNeeded")
	getGroup := p.MethodObj("pkg/logic", "ServerManager", "GetGroup")
	// position of appName / streamName in the variadic arguments of defertaskthread.Go
	argPos := map[*ssa.Parameter]int64{}
	model.EachInstr(outer, func(in ssa.Instruction) {
		st, ok := in.(*ssa.Store)
		if !ok {
			return
		}
		ia, ok := st.Addr.(*ssa.IndexAddr)
		if !ok {
			return
		}
		mi, ok := st.Val.(*ssa.MakeInterface)
		if !ok {
			return
		}
		if prm, ok := mi.X.(*ssa.Parameter); ok {
			if k, isK := model.ConstInt(ia.Index); isK {
				argPos[prm] = k
			}
		}
	})
	n := 0
	for _, fnc := range model.WithAnons(outer) {
		for _, ci := range model.CallsTo(fnc, getGroup) {
			n++
			idxOf := func(v ssa.Value) int64 {
				ta, ok := v.(*ssa.TypeAssert)
				if !ok {
					return -1
				}
				ld, ok := ta.X.(*ssa.UnOp)
				if !ok {
					return -1
				}
				ia, ok := ld.X.(*ssa.IndexAddr)
				if !ok {
					return -1
				}
				k, isK := model.ConstInt(ia.Index)
				if !isK {
					return -1
				}
				return k
			}
			a1, a2 := idxOf(ci.Common().Args[1]), idxOf(ci.Common().Args[2])
			app, okA := argPos[outer.Params[1]]
			str, okS := argPos[outer.Params[2]]
			// the task may also capture the parameters directly (a closure variable instead of the
			// task's argument list)
			captured := func(v ssa.Value) *ssa.Parameter {
				if u, ok := v.(*ssa.UnOp); ok && u.Op == token.MUL {
					v = u.X
				}
				fv, ok := v.(*ssa.FreeVar)
				if !ok || fnc.Parent() != outer {
					return nil
				}
				for i, f := range fnc.FreeVars {
					if f != fv {
						continue
					}
					for _, ref := range *fnc.Referrers() {
						mc, isMC := ref.(*ssa.MakeClosure)
						if !isMC || i >= len(mc.Bindings) {
							continue
						}
						b := mc.Bindings[i]
						if prm, isP := b.(*ssa.Parameter); isP {
							return prm
						}
						if al, isAl := b.(*ssa.Alloc); isAl {
							return paramOfAlloc(al)
						}
					}
				}
				return nil
			}
			if c1, c2 := captured(ci.Common().Args[1]), captured(ci.Common().Args[2]); c1 != nil || c2 != nil {
				r.Check(c1 == outer.Params[1] && c2 == outer.Params[2], "C10.R7", fkey(fnc, "cleanup", "lookup-own-stream"), p.InstrPos(ci), "GetGroup(appName, streamName) of the stream that ended", "the deferred cleanup looks up another (app, stream) pair than the one it was scheduled for: the lookup misses, the 'hls muxer still alive' guard is skipped and the directory of the re-published live stream is removed")
				continue
			}
			r.Check(okA && okS && a1 == app && a2 == str, "C10.R7", fkey(fnc, "cleanup", "lookup-own-stream"), p.InstrPos(ci), "GetGroup(appName, streamName) of the stream that ended", "the deferred cleanup looks up another (app, stream) pair than the one it was scheduled for: the lookup misses, the 'hls muxer still alive' guard is skipped and the directory of the re-published live stream is removed")
		}
	}
	if n != 1 {
		r.Bad("C10.R7", "floor", p.Pos(outer.Pos()), "the GetGroup lookup of the deferred cleanup was not found")
	}
}

// paramOfAlloc: the parameter a local cell was initialised from (a captured parameter is spilled
// to a cell), nil when the cell is stored anything else.
func paramOfAlloc(al *ssa.Alloc) *ssa.Parameter {
	var prm *ssa.Parameter
	if al.Referrers() == nil {
		return nil
	}
	for _, ref := range *al.Referrers() {
		st, ok := ref.(*ssa.Store)
		if !ok || st.Addr != ssa.Value(al) {
			continue
		}
		q, isP := st.Val.(*ssa.Parameter)
		if !isP || (prm != nil && prm != q) {
			return nil
		}
		prm = q
	}
	return prm
}
