package rules

import (
	"fmt"
	"go/token"
	"go/types"
	"strings"

	"golang.org/x/tools/go/ssa"

	"lalverif/internal/model"
	"lalverif/internal/report"
)

// c14r6: path confinement of peer-chosen names. lal has no central validation of stream names
// or request paths; the property needs (a) the HLS file server to read only below its root,
// (b) the HLS muxer (one directory per stream name) to write only below its root, (c) the
// recordings (one file per stream name) to stay in their directory.
func c14r6(p *model.Prog, r *report.Result) {
	r.Rule("C14.R6", "path confinement: (read) every ReadFile of hls.ServerHandler is dominated by the 'inside' edge of a confinement test (a bool function built on filepath.Rel) applied to the same path; (write) every hls.NewMuxer call is dominated by the 'inside' edge of a confinement test whose path argument derives from the same stream name, and NewMuxer is not called from anywhere else; (record) the file a recording writer opens is filepath.Join(<configured directory>, Sprintf(F, stream name, ...)) and the open is dominated by the inside-edge of a confinement test of that same path (the RTMP publish name becomes the stream name verbatim, separators included)")
	// confinement tests: lal functions returning bool that (depth <= 2) call path/filepath.Rel
	confMemo := map[*ssa.Function]bool{}
	var isConf func(fn *ssa.Function, d int) bool
	isConf = func(fn *ssa.Function, d int) bool {
		if fn == nil || fn.Blocks == nil {
			return false
		}
		if v, ok := confMemo[fn]; ok {
			return v
		}
		res := false
		if rs := fn.Signature.Results(); rs.Len() == 1 {
			if b, ok := rs.At(0).Type().Underlying().(*types.Basic); ok && b.Kind() == types.Bool {
				model.EachInstr(fn, func(in ssa.Instruction) {
					c, ok := in.(ssa.CallInstruction)
					if !ok {
						return
					}
					if o := model.CalleeObj(c.Common()); o != nil && o.Pkg() != nil && o.Pkg().Path() == "path/filepath" && o.Name() == "Rel" {
						res = true
					}
					if d < 2 {
						if ce := c.Common().StaticCallee(); ce != nil && model.IsLal(ce) && isConf(ce, d+1) {
							res = true
						}
					}
				})
			}
		}
		confMemo[fn] = res
		return res
	}
	// wrapperOf: fn is a bool function that returns true only when a confinement test it calls
	// returned true (every return value is constant false, the test's result, or a merge of those)
	// and the tested path is fn's k-th parameter or the field f of it.
	type wrapInfo struct {
		k  int
		f  *types.Var
		ok bool
	}
	wrapMemo := map[*ssa.Function]wrapInfo{}
	wrapperOf := func(fn *ssa.Function) wrapInfo {
		if w, ok := wrapMemo[fn]; ok {
			return w
		}
		w := wrapInfo{}
		wrapMemo[fn] = w
		if fn == nil || fn.Blocks == nil || !isConf(fn, 0) {
			return w
		}
		var inner *ssa.Call
		n := 0
		model.EachInstr(fn, func(in ssa.Instruction) {
			if c, ok := in.(*ssa.Call); ok && isConf(c.Call.StaticCallee(), 1) {
				inner = c
				n++
			}
		})
		if n != 1 {
			return w
		}
		var okVal func(v ssa.Value, d int) bool
		okVal = func(v ssa.Value, d int) bool {
			if d > 6 {
				return false
			}
			if v == ssa.Value(inner) {
				return true
			}
			if b, isC := model.ConstBool(v); isC {
				return !b
			}
			if ph, isPhi := v.(*ssa.Phi); isPhi {
				for _, e := range ph.Edges {
					if !okVal(e, d+1) {
						return false
					}
				}
				return true
			}
			return false
		}
		for _, ret := range model.ReturnsOf(fn) {
			rv := model.ReturnValues(ret)
			if len(rv) != 1 || !okVal(rv[0], 0) {
				return w
			}
		}
		for _, a := range inner.Call.Args {
			a = model.Unwrap(a)
			var base ssa.Value
			var f *types.Var
			switch x := a.(type) {
			case *ssa.Parameter:
				base = x
			case *ssa.Field:
				base, f = x.X, model.FieldOf(x)
			case *ssa.UnOp:
				if fa, isFA := x.X.(*ssa.FieldAddr); isFA && x.Op == token.MUL {
					base, f = fa.X, model.FieldOf(fa)
				}
			}
			if base == nil {
				continue
			}
			prm, isP := base.(*ssa.Parameter)
			if !isP {
				if pc := paramCell(base); pc != nil {
					prm, isP = pc, true
				} else if al, isAl := base.(*ssa.Alloc); isAl {
					// a by-value struct parameter spilled to a local cell
					for _, ref := range *al.Referrers() {
						if st, isSt := ref.(*ssa.Store); isSt && st.Addr == ssa.Value(al) {
							if q, isQ := st.Val.(*ssa.Parameter); isQ {
								prm, isP = q, true
							}
						}
					}
				}
			}
			if !isP {
				continue
			}
			for k, q := range fn.Params {
				if q == prm && (f != nil || a == ssa.Value(prm)) {
					w = wrapInfo{k: k, f: f, ok: true}
				}
			}
		}
		wrapMemo[fn] = w
		return w
	}
	// fieldOfArg: path is the field f of the struct passed as arg (by value: both are loads from
	// the same cell; by pointer: path is loaded through arg)
	fieldOfArg := func(path, arg ssa.Value, f *types.Var) bool {
		ld, ok := model.Unwrap(path).(*ssa.UnOp)
		if !ok || ld.Op != token.MUL {
			return false
		}
		fa, ok := ld.X.(*ssa.FieldAddr)
		if !ok || model.FieldOf(fa) != f {
			return false
		}
		if fa.X == arg || sameLoad(fa.X, arg, 0) {
			return true
		}
		if al, ok := arg.(*ssa.UnOp); ok && al.Op == token.MUL && (al.X == fa.X || sameLoad(al.X, fa.X, 0)) {
			return true
		}
		return false
	}
	// confinedBy: in is dominated by the true edge of conf(..., x, ...) where x satisfies same(),
	// or of a wrapper of such a test given the struct whose field `path` is
	confinedBy := func(in ssa.Instruction, path ssa.Value, same func(arg ssa.Value) bool) bool {
		return model.GuardedBy(in, func(c ssa.Value, pol bool) bool {
			c, pol = model.StripNot(c, pol)
			call, ok := c.(*ssa.Call)
			if !ok || !pol {
				return false
			}
			ce := call.Call.StaticCallee()
			if !isConf(ce, 0) {
				return false
			}
			if w := wrapperOf(ce); w.ok && w.k < len(call.Call.Args) {
				a := call.Call.Args[w.k]
				if w.f == nil {
					return same(a)
				}
				return path != nil && fieldOfArg(path, a, w.f)
			}
			for _, a := range call.Call.Args {
				if same(a) {
					return true
				}
			}
			return false
		})
	}

	// ---- the confinement tests themselves reject "..", "../x" (and the root itself)
	checkConf := func(fn *ssa.Function) {
		var rel ssa.Value
		model.EachInstr(fn, func(in ssa.Instruction) {
			if c, ok := in.(*ssa.Call); ok {
				if o := model.CalleeObj(c.Common()); o != nil && o.Pkg() != nil && o.Pkg().Path() == "path/filepath" && o.Name() == "Rel" {
					for _, ref := range *c.Referrers() {
						if ex, isE := ref.(*ssa.Extract); isE && ex.Index == 0 {
							rel = ex
						}
					}
				}
			}
		})
		eqDotDot, prefDotDot := false, false
		model.EachInstr(fn, func(in ssa.Instruction) {
			switch x := in.(type) {
			case *ssa.BinOp:
				if (x.Op == token.EQL || x.Op == token.NEQ) && ((x.X == rel && model.ConstStringIs(x.Y, "..")) || (x.Y == rel && model.ConstStringIs(x.X, ".."))) {
					eqDotDot = true
				}
			case *ssa.Call:
				if o := model.CalleeObj(x.Common()); o != nil && o.Pkg() != nil && o.Pkg().Path() == "strings" && o.Name() == "HasPrefix" && x.Call.Args[0] == rel {
					if model.DependsOn(x.Call.Args[1], func(v ssa.Value) bool {
						cs, isS := model.ConstString(v)
						return isS && strings.HasPrefix(cs, "..") && len(cs) <= 3
					}) {
						prefDotDot = true
					}
				}
			}
		})
		r.Check(rel != nil && eqDotDot && prefDotDot, "C14.R6", fkey(fn, "confine", "rejects-dotdot"), p.Pos(fn.Pos()), "tests rel == \"..\" and the \"../\" prefix", "the confinement test does not reject both a relative path equal to '..' and one starting with '../': a stream named '..' (or a request resolving to the parent) passes as 'inside the root'")
	}
	// ---- read side
	nRead := 0
	for _, fn := range lalFuncsIn(p, "pkg/hls") {
		if recvName(topFn(fn)) != "ServerHandler" {
			continue
		}
		for _, ci := range model.AllCalls(fn) {
			o := model.CalleeObj(ci.Common())
			if o == nil || o.Name() != "ReadFile" {
				continue
			}
			nRead++
			args := ci.Common().Args
			path := args[len(args)-1]
			ok := confinedBy(ci, path, func(a ssa.Value) bool { return a == path || sameLoad(a, path, 0) })
			r.Check(ok, "C14.R6", fkey(fn, "read", "inside-root"), p.InstrPos(ci), "file read only behind the confinement test of the same path", "the HLS file server reads a path built from the request without testing that it lies below the configured root: a request path with '..' that the HTTP mux does not clean (CONNECT), or a segment name like '..-1-2.ts', returns files outside the root")
		}
	}
	if nRead < 1 {
		r.Bad("C14.R6", "read|floor", "", "no ReadFile call found in hls.ServerHandler")
	}

	// ---- write side: NewMuxer
	newMuxer := p.Func("pkg/hls", "NewMuxer")
	nNew := 0
	for _, ed := range p.Callers(newMuxer) {
		fn := ed.Caller.Func
		if !model.IsLal(fn) || ed.Site == nil {
			continue
		}
		if pk := model.FnPkg(fn); pk == nil || !strings.Contains(pk.Path(), "/pkg/") {
			continue // the demo programs under app/ take the stream name from their own command line
		}
		nNew++
		name := ed.Site.Common().Args[0]
		ok := confinedBy(ed.Site, nil, func(a ssa.Value) bool {
			return model.DependsOn(a, func(v ssa.Value) bool { return v == name || sameLoad(v, name, 0) })
		})
		r.Check(ok, "C14.R6", fkey(fn, "write", "muxer-dir-inside-root"), p.InstrPos(ed.Site), "muxer created only for a stream name whose directory lies below the root", "an HLS muxer is created for a peer-chosen stream name without testing that <root>/<name> lies below the root: a stream named '..' makes lal write playlists and segments into the parent of the HLS directory (and the end-of-stream cleanup removes that parent)")
	}
	if nNew < 1 {
		r.Bad("C14.R6", "write|floor", "", "no caller of hls.NewMuxer found")
	}

	nConf := 0
	for fn, is := range confMemo {
		if is && model.IsLal(fn) {
			// only the leaf that calls filepath.Rel itself
			direct := false
			model.EachInstr(fn, func(in ssa.Instruction) {
				if c, ok := in.(ssa.CallInstruction); ok {
					if o := model.CalleeObj(c.Common()); o != nil && o.Pkg() != nil && o.Pkg().Path() == "path/filepath" && o.Name() == "Rel" {
						direct = true
					}
				}
			})
			if direct {
				nConf++
				checkConf(fn)
			}
		}
	}
	if nConf < 1 {
		r.Bad("C14.R6", "confine|floor", "", "no confinement test (bool function on filepath.Rel) is used")
	}

	// ---- recordings
	type rec struct{ pkg, typ, method string }
	nRec := 0
	for _, w := range []rec{{"pkg/httpflv", "FlvFileWriter", "Open"}, {"pkg/mpegts", "FileWriter", "Create"}} {
		m := p.Method(w.pkg, w.typ, w.method)
		for _, ed := range p.Callers(m) {
			fn := ed.Caller.Func
			if !model.IsLal(fn) || ed.Site == nil || !strings.HasSuffix(model.FnPkg(fn).Path(), "/pkg/logic") {
				continue
			}
			nRec++
			args := ed.Site.Common().Args
			path := args[len(args)-1]
			// the RTMP publish name is taken verbatim as the stream name and may contain '/' and
			// '..': the shape of the file name alone does not confine it, the path itself must pass
			// a confinement test
			confined := confinedBy(ed.Site, path, func(a ssa.Value) bool { return a == path || sameLoad(a, path, 0) })
			why := recordPathShape(path)
			r.Check(confined && why == "", "C14.R6", fkey(fn, "record", w.typ), p.InstrPos(ed.Site), "Join(<configured dir>, Sprintf(..)) opened only behind the confinement test of the same path", "the recording file is opened without testing that its path lies below the configured directory ("+why+"): rtmp publish('../../x') makes the stream name '../../x' and the recording is created two levels above the recording directory")
		}
	}
	if nRec < 2 {
		r.Bad("C14.R6", "record|floor", "", fmt.Sprintf("only %d recording open sites found in pkg/logic", nRec))
	}
}

// recordPathShape returns "" when v is filepath.Join(dir, fmt.Sprintf(F, ...)) with F free of
// separators and containing literal characters besides its verbs.
func recordPathShape(v ssa.Value) string {
	join, ok := v.(*ssa.Call)
	if !ok {
		return "not a filepath.Join result"
	}
	o := model.CalleeObj(join.Common())
	// a helper of lal that builds the name: every one of its returns has the shape
	if ce := join.Call.StaticCallee(); ce != nil && model.IsLal(ce) && len(ce.Blocks) > 0 {
		if allReturnsSatisfy(ce, 0, func(rv ssa.Value) bool { return recordPathShape(rv) == "" }) {
			return ""
		}
		return "the helper " + ce.Name() + " does not return a filepath.Join(<configured dir>, Sprintf(..)) on every path"
	}
	if o == nil || o.Pkg() == nil || o.Pkg().Path() != "path/filepath" || o.Name() != "Join" {
		return "not a filepath.Join result"
	}
	elems := variadicElems(join.Call.Args[0])
	if len(elems) != 2 {
		return fmt.Sprintf("Join of %d elements", len(elems))
	}
	if model.LoadedField(elems[0]) == nil {
		return "the directory is not a configuration field"
	}
	sp, isC := elems[1].(*ssa.Call)
	if !isC {
		return "the file name is not a Sprintf result"
	}
	so := model.CalleeObj(sp.Common())
	if so == nil || so.Pkg() == nil || so.Pkg().Path() != "fmt" || so.Name() != "Sprintf" {
		return "the file name is not a Sprintf result"
	}
	f, isS := model.ConstString(sp.Call.Args[0])
	if !isS {
		return "non-constant format"
	}
	if strings.ContainsAny(f, "/\\") {
		return "the format contains a path separator"
	}
	lit := f
	for _, verb := range []string{"%s", "%d", "%v"} {
		lit = strings.ReplaceAll(lit, verb, "")
	}
	if strings.Contains(lit, "%") || strings.Trim(lit, ".") == "" {
		return "the format adds no literal characters to the name"
	}
	return ""
}

// variadicElems returns the values stored into the backing array of a variadic argument.
func variadicElems(v ssa.Value) []ssa.Value {
	sl, ok := v.(*ssa.Slice)
	if !ok {
		return nil
	}
	arr, isA := sl.X.(*ssa.Alloc)
	if !isA {
		return nil
	}
	byIdx := map[int64]ssa.Value{}
	for _, ref := range *arr.Referrers() {
		ia, isIA := ref.(*ssa.IndexAddr)
		if !isIA {
			continue
		}
		k, isK := model.ConstInt(ia.Index)
		if !isK {
			continue
		}
		for _, r2 := range *ia.Referrers() {
			if st, isSt := r2.(*ssa.Store); isSt {
				byIdx[k] = st.Val
			}
		}
	}
	out := make([]ssa.Value, len(byIdx))
	for k, v := range byIdx {
		if int(k) < len(out) {
			out[k] = v
		}
	}
	return out
}
