package rules

import (
	"lalverif/internal/model"
	"lalverif/internal/report"
)

func c14r6(p *model.Prog, r *report.Result) {
	r.NotDecided = append(r.NotDecided, "path confinement of client-chosen stream names / request paths (R6 taint rule not built yet)")
}
