package rules

import (
	"go/constant"
	"go/token"

	"golang.org/x/tools/go/ssa"

	"lalverif/internal/model"
	"lalverif/internal/report"
)

// c02r67: RTP boundary detection needs the fragment's start bit (R6); a GOP ring slot is emptied
// before it is reused (R7).
func c02r67(p *model.Prog, r *report.Result) {
	r.Rule("C02.R6", "rtprtcp.IsAvcBoundary / IsHevcBoundary report no boundary for a fragmentation unit whose start bit is clear: with the outer type fixed to FU-A 28 / FU 49, the inner type to a key NAL type and every '<byte> & 0x80' to 0, every path of the function (all other conditions branching both ways) returns false - only the first fragment of a key NAL is a place a waiting subscriber may start (path enumeration; independent of how the tests are arranged)")
	for _, c := range []struct {
		fn, k  string
		mask   int64
		keyNal int64
	}{{"IsAvcBoundary", "NaluTypeAvcFua", 0x1F, 5}, {"IsHevcBoundary", "NaluTypeHevcFua", 0x3F, 19}} {
		fn := p.Func("pkg/rtprtcp", c.fn)
		fu, _ := constant.Int64Val(p.Const("pkg/rtprtcp", c.k).Val())
		usedFu, usedStart := false, false
		fromIndex0 := func(v ssa.Value) bool {
			return model.DependsOn(v, func(x ssa.Value) bool {
				ld, ok := x.(*ssa.UnOp)
				if !ok || ld.Op != token.MUL {
					return false
				}
				ia, ok := ld.X.(*ssa.IndexAddr)
				if !ok {
					return false
				}
				k, isK := model.ConstInt(ia.Index)
				return isK && k == 0
			})
		}
		ev := &cEval{fn: fn, maxVisits: 4, maxPaths: 2048}
		var seed func(v ssa.Value) (int64, bool)
		seed = func(v ssa.Value) (int64, bool) {
			v = model.Unwrap(v)
			// the type extraction may be the codec package's ParseNaluType(byte)
			if call, isCall := v.(*ssa.Call); isCall {
				if o := model.CalleeObj(call.Common()); o != nil && o.Name() == "ParseNaluType" && len(call.Call.Args) == 1 {
					if fromIndex0(call.Call.Args[0]) {
						usedFu = true
						return fu, true
					}
					return c.keyNal, true
				}
				return 0, false
			}
			// membership of a type in a set built in this function from constant keys
			if ex, isEx := v.(*ssa.Extract); isEx && ex.Index == 1 {
				if lk, isLk := ex.Tuple.(*ssa.Lookup); isLk && lk.CommaOk {
					key, known := seed(lk.Index)
					if !known {
						return 0, false
					}
					keys, complete := constMapKeys(fn, lk.X)
					if !complete {
						return 0, false
					}
					return b2i(keys[key]), true
				}
				return 0, false
			}
			bo, ok := v.(*ssa.BinOp)
			if !ok {
				return 0, false
			}
			switch bo.Op {
			case token.AND:
				m, isK := model.ConstInt(bo.Y)
				if !isK {
					return 0, false
				}
				if m == 0x80 {
					usedStart = true
					return 0, true
				}
				if m == c.mask {
					if fromIndex0(bo.X) {
						usedFu = true
						return fu, true
					}
					return c.keyNal, true // the inner type: a key NAL unit
				}
			case token.SHR:
				if k, isK := model.ConstInt(bo.Y); isK && k == 7 {
					usedStart = true
					return 0, true
				}
			}
			return 0, false
		}
		ev.seed = seed
		ev.run()
		if ev.undecided != "" {
			r.Bad("C02.R6", fkey(fn, "boundary", "undecided"), p.Pos(fn.Pos()), "the paths of "+c.fn+" could not be enumerated: "+ev.undecided)
			continue
		}
		bad := ""
		nRet := 0
		for _, pa := range ev.paths {
			if pa.ret == nil {
				continue
			}
			nRet++
			rvs := model.ReturnValues(pa.ret)
			if len(rvs) != 1 {
				continue
			}
			if v, known := ev.val(pa.env, rvs[0]); !known || v != 0 {
				bad = p.InstrPos(pa.ret)
			}
		}
		pos := p.Pos(fn.Pos())
		if bad != "" {
			pos = bad
		}
		r.Check(bad == "" && nRet > 0 && usedFu, "C02.R6", fkey(fn, "boundary", "fragment-start"), pos, "a fragment with the start bit clear is never a boundary", "a middle or last fragment of a key NAL can be reported as a boundary (a path for outer type FU, start bit clear, reaches a return that is not false): a subscriber admitted between two fragments starts inside a key frame")
		_ = usedStart
	}

	r.Rule("C02.R7", "in GopCache.feedNewGop / GopCacheMpegts.feedNewGop the ring slot that receives the new GOP's first frame (ring[gopRingLast]) is emptied by Clear() on the same slot first, with no change of gopRingLast in between: frames left in a slot by Clear() of the cache (which only resets the indices) or by an evicted GOP are never replayed under a new sequence header")
	for _, tn := range []string{"GopCache", "GopCacheMpegts"} {
		fn := p.Method("pkg/remux", tn, "feedNewGop")
		gopT := "Gop"
		if tn == "GopCacheMpegts" {
			gopT = "GopMpegts"
		}
		feed := p.MethodObj("pkg/remux", gopT, "Feed")
		clear := p.MethodObj("pkg/remux", gopT, "Clear")
		ring := p.Field("pkg/remux", tn, "gopRing")
		slotIdx := func(ci ssa.CallInstruction) *ssa.IndexAddr {
			if len(ci.Common().Args) == 0 {
				return nil
			}
			ia, ok := ci.Common().Args[0].(*ssa.IndexAddr)
			if !ok || !model.IsLoadOfField(ia.X, ring) {
				return nil
			}
			return ia
		}
		feeds := model.CallsTo(fn, feed)
		if len(feeds) == 0 {
			r.Bad("C02.R7", fkey(fn, "slot", "floor"), p.Pos(fn.Pos()), "no Feed on a ring slot in feedNewGop")
		}
		for _, f := range feeds {
			fi := slotIdx(f)
			ok := false
			if fi != nil {
				idxF := model.LoadedField(fi.Index)
				for _, c := range model.CallsTo(fn, clear) {
					ci := slotIdx(c)
					if ci == nil || idxF == nil || model.LoadedField(ci.Index) != idxF || !model.InstrDominates(c, f) {
						continue
					}
					// no store to the index field between the Clear and the Feed
					moved := model.PathQuery{From: c, Stop: func(in ssa.Instruction) bool { return in == ssa.Instruction(f) }, Target: func(in ssa.Instruction) bool {
						st, isSt := in.(*ssa.Store)
						return isSt && model.FieldOf(st.Addr) == idxF
					}}.Find(fn)
					if moved == nil {
						ok = true
					}
				}
			}
			r.Check(ok, "C02.R7", fkey(fn, "slot", "cleared-before-reuse"), p.InstrPos(f), "slot cleared before the new GOP is written", "the slot that receives the new GOP is not emptied first: after the cache's Clear() (publisher left; only the indices are reset) the previous publisher's frames in that slot are replayed in front of the new key frame, under the new sequence header")
		}
	}
}

// constMapKeys: the constant integer keys stored into a map that is created in fn (make or
// literal) and only updated there with constant keys; complete = nothing else can add keys.
func constMapKeys(fn *ssa.Function, m ssa.Value) (map[int64]bool, bool) {
	mk, ok := m.(*ssa.MakeMap)
	if !ok || mk.Parent() != fn || mk.Referrers() == nil {
		return nil, false
	}
	keys := map[int64]bool{}
	for _, ref := range *mk.Referrers() {
		switch x := ref.(type) {
		case *ssa.MapUpdate:
			k, isK := model.ConstInt(x.Key)
			if !isK {
				return nil, false
			}
			keys[k] = true
		case *ssa.Lookup, *ssa.DebugRef:
		default:
			return nil, false // escapes
		}
	}
	return keys, true
}
