package rules

import (
	"go/constant"
	"go/token"

	"golang.org/x/tools/go/ssa"

	"lalverif/internal/model"
	"lalverif/internal/report"
)

// c02r67: RTP boundary detection needs the fragment's start bit (R6); a GOP ring slot is emptied
// before it is reused (R7).
func c02r67(p *model.Prog, r *report.Result) {
	r.Rule("C02.R6", "in rtprtcp.IsAvcBoundary / IsHevcBoundary every 'return true' that lies behind the fragmentation-unit test (outer type == FU-A 28 / FU 49) also lies behind <FU header byte> & 0x80 != 0 taken from the byte the inner type was read from: only the first fragment of a key NAL is a place a waiting subscriber may start")
	for _, c := range []struct {
		fn, k string
	}{{"IsAvcBoundary", "NaluTypeAvcFua"}, {"IsHevcBoundary", "NaluTypeHevcFua"}} {
		fn := p.Func("pkg/rtprtcp", c.fn)
		fu, _ := constant.Int64Val(p.Const("pkg/rtprtcp", c.k).Val())
		n := 0
		for _, ret := range model.ReturnsOf(fn) {
			rvs := model.ReturnValues(ret)
			if len(rvs) != 1 {
				continue
			}
			if v, isK := model.ConstBool(rvs[0]); !isK || !v {
				if !isK {
					r.Bad("C02.R6", fkey(fn, "boundary", "computed-result"), p.InstrPos(ret), "the boundary verdict is a computed value; the rule only knows constant returns behind guards")
				}
				continue
			}
			var fuIf *ssa.If
			for _, g := range model.Guards(ret.Block()) {
				cnd, pol := model.StripNot(g.Cond, g.Polarity)
				if _, k, op, _, ok := constCmp(cnd); ok && k == fu && op == token.EQL && pol {
					fuIf = g.If
				}
			}
			if fuIf == nil {
				continue
			}
			n++
			// index of the FU header byte: the byte loads in the FU region
			idxs := map[int64]bool{}
			region := fuIf.Block().Succs[0]
			for _, b := range fn.Blocks {
				if b != region && !region.Dominates(b) {
					continue
				}
				for _, in := range b.Instrs {
					if ia, ok := in.(*ssa.IndexAddr); ok {
						if k, isK := model.ConstInt(ia.Index); isK {
							idxs[k] = true
						}
					}
				}
			}
			start := model.GuardedBy(ret, func(cnd ssa.Value, pol bool) bool {
				x, k, op, right, ok := constCmp(cnd)
				if !ok || cmpAt(op, 0, k, right) == pol || cmpAt(op, 0x80, k, right) != pol {
					return false
				}
				and, ok := model.Unwrap(x).(*ssa.BinOp)
				if !ok || and.Op != token.AND {
					return false
				}
				m, isK := model.ConstInt(and.Y)
				ld, isL := and.X.(*ssa.UnOp)
				if !isK || m != 0x80 || !isL {
					return false
				}
				ia, ok := ld.X.(*ssa.IndexAddr)
				if !ok {
					return false
				}
				_, isC := model.ConstInt(ia.Index)
				return isC
			})
			r.Check(start && len(idxs) == 1, "C02.R6", fkey(fn, "boundary", "fragment-start"), p.InstrPos(ret), "fragment counted as a boundary only with its start bit set", "a middle or last fragment of a key NAL is reported as a boundary: a subscriber admitted between two fragments starts inside a key frame")
		}
		if n < 1 {
			r.Bad("C02.R6", fkey(fn, "boundary", "floor"), p.Pos(fn.Pos()), "no 'return true' behind the fragmentation-unit test found")
		}
	}

	r.Rule("C02.R7", "in GopCache.feedNewGop / GopCacheMpegts.feedNewGop the ring slot that receives the new GOP's first frame (ring[gopRingLast]) is emptied by Clear() on the same slot first, with no change of gopRingLast in between: frames left in a slot by Clear() of the cache (which only resets the indices) or by an evicted GOP are never replayed under a new sequence header")
	for _, tn := range []string{"GopCache", "GopCacheMpegts"} {
		fn := p.Method("pkg/remux", tn, "feedNewGop")
		gopT := "Gop"
		if tn == "GopCacheMpegts" {
			gopT = "GopMpegts"
		}
		feed := p.MethodObj("pkg/remux", gopT, "Feed")
		clear := p.MethodObj("pkg/remux", gopT, "Clear")
		ring := p.Field("pkg/remux", tn, "gopRing")
		slotIdx := func(ci ssa.CallInstruction) *ssa.IndexAddr {
			if len(ci.Common().Args) == 0 {
				return nil
			}
			ia, ok := ci.Common().Args[0].(*ssa.IndexAddr)
			if !ok || !model.IsLoadOfField(ia.X, ring) {
				return nil
			}
			return ia
		}
		feeds := model.CallsTo(fn, feed)
		if len(feeds) == 0 {
			r.Bad("C02.R7", fkey(fn, "slot", "floor"), p.Pos(fn.Pos()), "no Feed on a ring slot in feedNewGop")
		}
		for _, f := range feeds {
			fi := slotIdx(f)
			ok := false
			if fi != nil {
				idxF := model.LoadedField(fi.Index)
				for _, c := range model.CallsTo(fn, clear) {
					ci := slotIdx(c)
					if ci == nil || idxF == nil || model.LoadedField(ci.Index) != idxF || !model.InstrDominates(c, f) {
						continue
					}
					// no store to the index field between the Clear and the Feed
					moved := model.PathQuery{From: c, Stop: func(in ssa.Instruction) bool { return in == ssa.Instruction(f) }, Target: func(in ssa.Instruction) bool {
						st, isSt := in.(*ssa.Store)
						return isSt && model.FieldOf(st.Addr) == idxF
					}}.Find(fn)
					if moved == nil {
						ok = true
					}
				}
			}
			r.Check(ok, "C02.R7", fkey(fn, "slot", "cleared-before-reuse"), p.InstrPos(f), "slot cleared before the new GOP is written", "the slot that receives the new GOP is not emptied first: after the cache's Clear() (publisher left; only the indices are reset) the previous publisher's frames in that slot are replayed in front of the new key frame, under the new sequence header")
		}
	}
}
