package rules

import (
	"fmt"
	"go/constant"
	"go/token"
	"go/types"

	"golang.org/x/tools/go/ssa"

	"lalverif/internal/model"
	"lalverif/internal/report"
)

// c07r910: a track absent from the SDP is not taken for G.711u; the key-frame mark of an access
// unit is not overwritten by a later NAL unit of the same unit.
func c07r910(p *model.Prog, r *report.Result) {
	r.Rule("C07.R9", "sdp.ParseSdp2LogicContext stores AvPacketPtUnknown into audioPayloadTypeBase and videoPayloadTypeBase on every path to a successful return (the zero value of AvPacketPt is G.711u, a real codec): a video-only or audio-only SDP does not make the missing track 'unpackable', so BaseInSession does not create the audio/video interleaving queue that holds every frame back waiting for the other track")
	parse := p.Func("pkg/sdp", "ParseSdp2LogicContext")
	unknown, _ := constant.Int64Val(p.Const("pkg/base", "AvPacketPtUnknown").Val())
	zeroIsCodec := false
	for _, n := range []string{"AvPacketPtG711U", "AvPacketPtG711A", "AvPacketPtAac", "AvPacketPtAvc", "AvPacketPtHevc", "AvPacketPtOpus"} {
		if v, _ := constant.Int64Val(p.Const("pkg/base", n).Val()); v == 0 {
			zeroIsCodec = true
		}
	}
	for _, fname := range []string{"audioPayloadTypeBase", "videoPayloadTypeBase"} {
		f := p.Field("pkg/sdp", "LogicContext", fname)
		// does any predicate of pkg/sdp accept the zero value for this field?
		zeroAccepted := false
		for _, fn := range lalFuncsIn(p, "pkg/sdp") {
			model.EachInstr(fn, func(in ssa.Instruction) {
				bo, ok := in.(*ssa.BinOp)
				if !ok || bo.Op != token.EQL {
					return
				}
				if k, isK := model.ConstInt(bo.Y); isK && k == 0 && model.IsLoadOfField(bo.X, f) {
					zeroAccepted = true
				}
				if k, isK := model.ConstInt(bo.X); isK && k == 0 && model.IsLoadOfField(bo.Y, f) {
					zeroAccepted = true
				}
			})
		}
		if !zeroIsCodec || !zeroAccepted {
			r.Ok("C07.R9", fkey(parse, "init", fname), p.Pos(parse.Pos()), "no predicate of pkg/sdp accepts the zero value for this field")
			continue
		}
		isStore := func(in ssa.Instruction) bool {
			st, ok := in.(*ssa.Store)
			return ok && model.FieldOf(st.Addr) == f
		}
		// first store on every path is the Unknown constant; and no successful return without a store
		miss := model.PathQuery{Stop: isStore, Target: func(in ssa.Instruction) bool {
			ret, ok := in.(*ssa.Return)
			if !ok {
				return false
			}
			rvs := model.ReturnValues(ret)
			return len(rvs) == 2 && model.IsNilConst(rvs[1])
		}}.Find(parse)
		firstBad := model.PathQuery{Stop: isStore, Target: func(in ssa.Instruction) bool {
			st, ok := in.(*ssa.Store)
			if !ok || model.FieldOf(st.Addr) != f {
				return false
			}
			k, isK := model.ConstInt(st.Val)
			return !(isK && k == unknown)
		}}
		// PathQuery evaluates Target before Stop, so firstBad finds a first store that is not Unknown
		fb := firstBad.Find(parse)
		r.Check(miss == nil && fb == nil, "C07.R9", fkey(parse, "init", fname), p.Pos(parse.Pos()), "initialised to Unknown before the media descriptions are looked at", fmt.Sprintf("%s keeps its zero value (= G.711u) when the SDP has no such track: IsAudioUnpackable()/IsVideoUnpackable() is true for a track that does not exist, BaseInSession creates the interleaving queue, and a single-track stream is held back (nothing is forwarded until 128 frames are queued; the tail is never delivered)", fname))
	}

	r.Rule("C07.R10", "in AvPacket2RtmpRemuxer.FeedAvPacket the frame-type byte payload[0] of the message being assembled is set to the inter-frame value only when it does not already hold the key-frame value (or outside the per-NAL loop): a key access unit stays marked as key whatever NAL units follow the IDR/IRAP slice (filler data, end of sequence, further slices)")
	feed := p.Method("pkg/remux", "AvPacket2RtmpRemuxer", "FeedAvPacket")
	keyVals := map[int64]bool{}
	interVals := map[int64]bool{}
	for _, n := range []string{"RtmpAvcKeyFrame", "RtmpHevcKeyFrame"} {
		v, _ := constant.Int64Val(p.Const("pkg/base", n).Val())
		keyVals[v] = true
	}
	for _, n := range []string{"RtmpAvcInterFrame", "RtmpHevcInterFrame"} {
		v, _ := constant.Int64Val(p.Const("pkg/base", n).Val())
		interVals[v] = true
	}
	isByte0 := func(addr ssa.Value) (ssa.Value, bool) {
		ia, ok := addr.(*ssa.IndexAddr)
		if !ok {
			return nil, false
		}
		k, isK := model.ConstInt(ia.Index)
		if !isK || k != 0 {
			return nil, false
		}
		if _, isSl := ia.X.Type().Underlying().(*types.Slice); !isSl {
			return nil, false
		}
		return ia.X, true
	}
	inLoopOf := func(in ssa.Instruction) bool {
		for _, l := range model.Loops(in.Parent()) {
			if l.Body[in.Block()] {
				return true
			}
		}
		return false
	}
	nInter, nKey := 0, 0
	// FeedAvPacket with its same-package helpers inlined: a helper that writes the tag header
	// gets the key / inter values as parameters; they are resolved at each call
	model.EachInstrDeep(feed, 2, func(d model.DeepInstr) {
		st, ok := d.In.(*ssa.Store)
		if !ok {
			return
		}
		buf, is0 := isByte0(st.Addr)
		if !is0 {
			return
		}
		k, isK := model.ConstInt(d.Resolve(st.Val))
		if !isK {
			return
		}
		if keyVals[k] {
			nKey++
			return
		}
		if !interVals[k] {
			return
		}
		nInter++
		looped := inLoopOf(st)
		for _, ci := range d.Chain {
			if inLoopOf(ci) {
				looped = true
			}
		}
		ok2 := !looped || d.GuardedBy(func(c ssa.Value, pol bool) bool {
			bo, isB := c.(*ssa.BinOp)
			if !isB || (bo.Op != token.NEQ && bo.Op != token.EQL) {
				return false
			}
			var ld ssa.Value
			var kv int64
			if v, isKv := model.ConstInt(d.Resolve(bo.Y)); isKv && keyVals[v] {
				ld, kv = bo.X, v
			} else if v, isKv := model.ConstInt(d.Resolve(bo.X)); isKv && keyVals[v] {
				ld, kv = bo.Y, v
			}
			// the key value tested must be the one of the codec whose inter value is stored
			// (both carry the codec id in the low nibble)
			if kv&0x0f != k&0x0f {
				return false
			}
			u, isU := ld.(*ssa.UnOp)
			if !isU || u.Op != token.MUL {
				return false
			}
			b2, is02 := isByte0(u.X)
			if !is02 || b2 != buf {
				return false
			}
			return (bo.Op == token.NEQ) == pol
		})
		r.Check(ok2, "C07.R10", fkey(feed, "keyflag", "not-overwritten"), p.InstrPos(st), "inter-frame mark only when the unit is not already marked key", "the frame-type byte is set to 'inter frame' for every non-IDR NAL unit of the access unit, also after an IDR/IRAP slice set it to 'key frame' (the test in front of the store does not compare with this codec's key-frame value): an IDR followed by filler data (CBR encoders) or an end-of-sequence NAL is forwarded as an inter frame, and consumers waiting for a key frame skip it")
	})
	if nInter < 2 || nKey < 2 {
		r.Bad("C07.R10", fkey(feed, "keyflag", "floor"), p.Pos(feed.Pos()), fmt.Sprintf("expected the AVC and HEVC frame-type stores, found %d key / %d inter", nKey, nInter))
	}
}

// c07r11: a track announced only by a static RTP payload type gets that type's clock rate.
func c07r11(p *model.Prog, r *report.Result) {
	r.Rule("C07.R11", "sdp.ParseSdp2LogicContext: where the audio codec is recognised from the static payload type of the m= line (no a=rtpmap encoding name: PCMU 0, PCMA 8, MPA 14), every path from the store of the codec to the end of that media description passes a test that AudioClockRate is non-zero or stores a positive constant into it: with a clock rate of 0 rtpTimestamp2Ms hands RTP ticks on as milliseconds (audio runs eight times too fast)")
	parse := p.Func("pkg/sdp", "ParseSdp2LogicContext")
	baseF := p.Field("pkg/sdp", "LogicContext", "audioPayloadTypeBase")
	rateF := p.Field("pkg/sdp", "LogicContext", "AudioClockRate")
	unknown, _ := constant.Int64Val(p.Const("pkg/base", "AvPacketPtUnknown").Val())
	n := 0
	for _, st := range model.FieldStores(parse, baseF) {
		k, isK := model.ConstInt(st.Val)
		if !isK || k == unknown {
			continue
		}
		// recognised from md.M.PT == <const>
		byPT := model.GuardedBy(st, func(c ssa.Value, pol bool) bool {
			bo, ok := c.(*ssa.BinOp)
			if !ok || bo.Op != token.EQL || !pol {
				return false
			}
			f := model.LoadedField(bo.X)
			_, isC := model.ConstInt(bo.Y)
			return f != nil && f.Name() == "PT" && isC
		})
		if !byPT {
			continue
		}
		n++
		hdr := loopHeaderOf(parse, st.Block())
		miss := model.PathQuery{From: st,
			Stop: func(in ssa.Instruction) bool {
				s2, ok := in.(*ssa.Store)
				if !ok || model.FieldOf(s2.Addr) != rateF {
					return false
				}
				v, isC := model.ConstInt(s2.Val)
				return isC && v > 0
			},
			StopEdge: func(b *ssa.BasicBlock, kk int) bool {
				iff, ok := b.Instrs[len(b.Instrs)-1].(*ssa.If)
				if !ok {
					return false
				}
				bo, isB := iff.Cond.(*ssa.BinOp)
				if !isB || !model.IsLoadOfField(bo.X, rateF) {
					return false
				}
				z, isZ := model.ConstInt(bo.Y)
				if !isZ || z != 0 {
					return false
				}
				// the edge on which the rate is known to be non-zero
				return (bo.Op == token.EQL && kk == 1) || (bo.Op == token.NEQ && kk == 0) || (bo.Op == token.GTR && kk == 0)
			},
			Target: func(in ssa.Instruction) bool {
				if _, isR := in.(*ssa.Return); isR {
					return true
				}
				// back at the head of the loop over media descriptions: this description is done
				return hdr != nil && in == hdr.Instrs[0]
			}}.Find(parse)
		r.Check(miss == nil, "C07.R11", fkey(parse, "static-pt", fmt.Sprintf("clock-rate|%d", k)), p.InstrPos(st), "clock rate defaulted when the SDP gives none", "an audio codec recognised from its static payload type keeps AudioClockRate 0 when the SDP has no a=rtpmap line for it (what ffmpeg sends for PCMA/PCMU): RTP time stamps are forwarded as if they were milliseconds")
	}
	if n < 2 {
		r.Bad("C07.R11", fkey(parse, "static-pt", "floor"), p.Pos(parse.Pos()), fmt.Sprintf("only %d codec stores recognised from the static payload type", n))
	}
}
