package rules

import (
	"go/token"
	"go/types"

	"golang.org/x/tools/go/ssa"

	"lalverif/internal/model"
	"lalverif/internal/report"
)

func init() { register("C01", c01) }

// fanoutCtx collects the anchors shared by C01/C02/C05 rules about the RTMP fan-out.
type fanoutCtx struct {
	p *model.Prog

	rtmpIsFresh, rtmpWaitKey *types.Var
	pushIsFresh              *types.Var
	flvIsFresh, flvWaitKey   *types.Var
	tsIsFresh, tsWaitBound   *types.Var
	rtspWaitKey              *types.Var

	mergeWriterField *types.Var
	rtmpSubSet       *types.Var
	flushObj         *types.Func
	mwWriteObj       *types.Func

	payloadField *types.Var

	lcdInit, lcdWith, lcdWithout *types.Func
	lftInit, lftWith, lftWithout *types.Func
}

func newFanoutCtx(p *model.Prog) *fanoutCtx {
	c := &fanoutCtx{p: p}
	c.rtmpIsFresh = p.Field("pkg/rtmp", "ServerSession", "IsFresh")
	c.rtmpWaitKey = p.Field("pkg/rtmp", "ServerSession", "ShouldWaitVideoKeyFrame")
	c.pushIsFresh = p.Field("pkg/rtmp", "PushSession", "IsFresh")
	c.flvIsFresh = p.Field("pkg/httpflv", "SubSession", "IsFresh")
	c.flvWaitKey = p.Field("pkg/httpflv", "SubSession", "ShouldWaitVideoKeyFrame")
	c.tsIsFresh = p.Field("pkg/httpts", "SubSession", "IsFresh")
	c.tsWaitBound = p.Field("pkg/httpts", "SubSession", "ShouldWaitBoundary")
	c.rtspWaitKey = p.Field("pkg/rtsp", "SubSession", "ShouldWaitVideoKeyFrame")
	c.mergeWriterField = p.Field("pkg/logic", "Group", "rtmpMergeWriter")
	c.rtmpSubSet = p.Field("pkg/logic", "Group", "rtmpSubSessionSet")
	c.flushObj = p.MethodObj("pkg/base", "MergeWriter", "Flush")
	c.mwWriteObj = p.MethodObj("pkg/base", "MergeWriter", "Write")
	c.payloadField = p.Field("pkg/base", "RtmpMsg", "Payload")
	c.lcdInit = p.MethodObj("pkg/remux", "LazyRtmpChunkDivider", "Init")
	c.lcdWith = p.MethodObj("pkg/remux", "LazyRtmpChunkDivider", "GetEnsureWithSdf")
	c.lcdWithout = p.MethodObj("pkg/remux", "LazyRtmpChunkDivider", "GetEnsureWithoutSdf")
	c.lftInit = p.MethodObj("pkg/remux", "LazyRtmpMsg2FlvTag", "Init")
	c.lftWith = p.MethodObj("pkg/remux", "LazyRtmpMsg2FlvTag", "GetEnsureWithSdf")
	c.lftWithout = p.MethodObj("pkg/remux", "LazyRtmpMsg2FlvTag", "GetEnsureWithoutSdf")
	return c
}

// flushedOrNoWriter answers: is every same-iteration path from the start of the session
// loop (or function entry) to `target` cut by a MergeWriter.Flush on Group.rtmpMergeWriter or
// by the nil edge of a `rtmpMergeWriter != nil` test? Returns the offending reachable
// instruction (nil = rule holds).
func (c *fanoutCtx) unflushedPathTo(fn *ssa.Function, target ssa.Instruction, base ssa.Value) ssa.Instruction {
	q := model.PathQuery{
		Stop: func(in ssa.Instruction) bool {
			ci, ok := in.(ssa.CallInstruction)
			if !ok || !model.SameFunc(model.CalleeObj(ci.Common()), c.flushObj) {
				return false
			}
			return model.IsLoadOfField(receiver(ci.Common()), c.mergeWriterField)
		},
		StopEdge: func(b *ssa.BasicBlock, k int) bool {
			iff, ok := b.Instrs[len(b.Instrs)-1].(*ssa.If)
			if !ok {
				return false
			}
			cond, pol := model.StripNot(iff.Cond, k == 0)
			x, trueIsNonNil, ok := nilTest(cond)
			if !ok || !model.IsLoadOfField(x, c.mergeWriterField) {
				return false
			}
			isNonNilEdge := pol == trueIsNonNil
			return !isNonNilEdge
		},
		Target: func(in ssa.Instruction) bool { return in == target },
	}
	if n := iterOrigin(base); n != nil {
		q.FromBlock = n.Block()
		q.LoopHeader = n.Block()
	}
	return q.Find(fn)
}

// insertsIntoSet reports whether fn performs set[base] = ... on the given map field.
func insertsIntoSet(fn *ssa.Function, setField *types.Var, base ssa.Value) bool {
	found := false
	model.EachInstr(fn, func(in ssa.Instruction) {
		if mu, ok := in.(*ssa.MapUpdate); ok {
			if model.IsLoadOfField(mu.Map, setField) && sameValue(mu.Key, base) {
				found = true
			}
		}
	})
	return found
}

func c01(p *model.Prog, r *report.Result) {
	r.Explanation = "Decides structural necessary conditions of the live RTMP/FLV relay in logic.Group: flush-before-admit of the merge writer (R1), the skip rule for not-yet-admitted RTMP subscribers (R2), the zero-length gate (R3), one lazy conversion of the very message received, with the Sdf/no-Sdf variant each consumer kind must get (R4), GOP caches fed only after the fan-out (R5), header normalisation keeping length/timestamp/type (R6)."
	r.NotDecided = []string{"byte identity and timestamps of delivered data as values", "order across consumers", "behaviour under back-pressure and per merge-write size", "chunk encoding (C08) and FLV framing (C11)", "retention of payload memory beyond the callback (R7 not built)"}
	r.Assumptions = []string{"sessions are only touched under Group.mutex (C20)", "go/ssa models the control flow of the fan-out function faithfully"}
	c := newFanoutCtx(p)
	logicFns := lalFuncsIn(p, "pkg/logic")
	allFns := p.LalFuncs()
	r.Count("functions_analysed", len(allFns))

	// ---------------------------------------------------------------- R1
	r.Rule("C01.R1", "every store IsFresh=false on an rtmp.ServerSession (and every ShouldWaitVideoKeyFrame=false outside the fresh region / the inserting function) is cut off from the start of the session iteration by MergeWriter.Flush on Group.rtmpMergeWriter or by the nil edge of its nil test; IsFresh=true only on a freshly allocated session")
	nAdmit := 0
	for _, fn := range allFns {
		for _, st := range model.FieldStores(fn, c.rtmpIsFresh) {
			base := storeBase(st)
			v, isConst := model.ConstBool(st.Val)
			key := fkey(fn, "store", "IsFresh")
			switch {
			case !isConst:
				r.Bad("C01.R1", key, p.InstrPos(st), "IsFresh assigned a non-constant value; admission cannot be decided")
			case v:
				_, fresh := base.(*ssa.Alloc)
				r.Check(fresh, "C01.R1", key, p.InstrPos(st), "IsFresh=true on a freshly allocated session (constructor)", "IsFresh=true on an existing session re-opens the prologue: duplicates")
			default:
				nAdmit++
				bad := c.unflushedPathTo(fn, st, base)
				r.Check(bad == nil, "C01.R1", key, p.InstrPos(st),
					"every same-iteration path to the store passes MergeWriter.Flush or the writer==nil edge",
					"a path reaches IsFresh=false without flushing Group.rtmpMergeWriter: chunks buffered before admission are delivered again after the GOP replay")
			}
		}
		for _, st := range model.FieldStores(fn, c.rtmpWaitKey) {
			base := storeBase(st)
			v, isConst := model.ConstBool(st.Val)
			key := fkey(fn, "store", "ShouldWaitVideoKeyFrame")
			if _, fresh := base.(*ssa.Alloc); fresh {
				r.Trivial("C01.R1", key, p.InstrPos(st), "constructor initialisation")
				continue
			}
			if !isConst || v {
				r.Bad("C01.R1", key, p.InstrPos(st), "ShouldWaitVideoKeyFrame assigned something other than constant false on a live session")
				continue
			}
			nAdmit++
			switch {
			case guardedByFieldFlag(st, c.rtmpIsFresh, base, true):
				r.Ok("C01.R1", key, p.InstrPos(st), "inside the IsFresh region of the same session (still skipped by the live write)")
			case insertsIntoSet(fn, c.rtmpSubSet, base):
				r.Ok("C01.R1", key, p.InstrPos(st), "in the function that inserts the session into rtmpSubSessionSet (fresh by construction)")
			default:
				bad := c.unflushedPathTo(fn, st, base)
				r.Check(bad == nil, "C01.R1", key, p.InstrPos(st),
					"every same-iteration path to the store passes MergeWriter.Flush or the writer==nil edge",
					"a path admits the session to live data without flushing Group.rtmpMergeWriter: it receives chunks from before its key frame")
			}
		}
	}
	if nAdmit < 4 {
		r.Bad("C01.R1", "floor", "", "fewer than 4 admitting stores found; the admission mechanism this rule anchors on is gone")
	}

	// ---------------------------------------------------------------- R2
	r.Rule("C01.R2", "every ServerSession.Write/Writev in pkg/logic on a session ranged from rtmpSubSessionSet is either inside that session's IsFresh region (prologue) or dominated by IsFresh==false and ShouldWaitVideoKeyFrame==false of the same session")
	ssWrite := p.MethodObj("pkg/rtmp", "ServerSession", "Write")
	ssWritev := p.MethodObj("pkg/rtmp", "ServerSession", "Writev")
	nSkip := 0
	for _, fn := range logicFns {
		for _, ci := range model.CallsTo(fn, ssWrite, ssWritev) {
			recv := receiver(ci.Common())
			if rangedField(iterOrigin(recv)) != c.rtmpSubSet {
				r.Bad("C01.R2", fkey(fn, "call", "ServerSession.Write"), p.InstrPos(ci), "write to an RTMP session that is not taken from a range over rtmpSubSessionSet; admission state unknown")
				continue
			}
			key := fkey(fn, "call", "ServerSession.Write")
			if guardedByFieldFlag(ci, c.rtmpIsFresh, recv, true) {
				r.Ok("C01.R2", key, p.InstrPos(ci), "prologue write inside the IsFresh region")
				continue
			}
			nSkip++
			ok := guardedByFieldFlag(ci, c.rtmpIsFresh, recv, false) && guardedByFieldFlag(ci, c.rtmpWaitKey, recv, false)
			r.Check(ok, "C01.R2", key, p.InstrPos(ci), "live write dominated by !IsFresh && !ShouldWaitVideoKeyFrame",
				"live write reaches a session that is still fresh or waiting for a key frame: data before its prologue / before its key frame")
		}
	}
	if nSkip < 2 {
		r.Bad("C01.R2", "floor", "", "fewer than 2 live RTMP write sites found")
	}

	// ---------------------------------------------------------------- R3, R4, R5 on fan-out functions
	r.Rule("C01.R3", "in every function that initialises the lazy converters, every consumer write / cache feed / recording write is dominated by the false edge of len(msg.Payload)==0")
	r.Rule("C01.R4", "every live data argument is GetEnsure*() of a lazy converter initialised exactly once with the function's own message parameter; RTMP subscribers, FLV subscribers, the FLV recording and both caches get the WithoutSdf form, relay push the WithSdf form")
	r.Rule("C01.R5", "no path from GopCache.Feed/SetMetadata to a read of cached headers or GOP data in the same function")
	type sink struct {
		obj     *types.Func
		variant string // chunk-wo, chunk-w, tag-wo, any
		name    string
	}
	sinks := []sink{
		{ssWrite, "chunk-wo", "rtmp.ServerSession.Write"},
		{ssWritev, "chunk-wo", "rtmp.ServerSession.Writev"},
		{c.mwWriteObj, "chunk-wo", "base.MergeWriter.Write"},
		{p.MethodObj("pkg/logic", "Group", "write2RtmpSubSessions"), "chunk-wo", "Group.write2RtmpSubSessions"},
		{p.MethodObj("pkg/rtmp", "PushSession", "Write"), "chunk-w", "rtmp.PushSession.Write"},
		{p.MethodObj("pkg/httpflv", "SubSession", "Write"), "tag-wo", "httpflv.SubSession.Write"},
		{p.MethodObj("pkg/httpflv", "FlvFileWriter", "WriteRaw"), "tag-wo", "httpflv.FlvFileWriter.WriteRaw"},
		{p.MethodObj("pkg/remux", "GopCache", "Feed"), "cache", "remux.GopCache.Feed"},
		{p.MethodObj("pkg/remux", "GopCache", "SetMetadata"), "cache-meta", "remux.GopCache.SetMetadata"},
	}
	gopFeed := p.MethodObj("pkg/remux", "GopCache", "Feed")
	gopSetMeta := p.MethodObj("pkg/remux", "GopCache", "SetMetadata")
	gopDataAt := p.MethodObj("pkg/remux", "GopCache", "GetGopDataAt")
	gopCount := p.MethodObj("pkg/remux", "GopCache", "GetGopCount")
	cacheHdrFields := []*types.Var{
		p.Field("pkg/remux", "GopCache", "MetadataEnsureWithSetDataFrame"),
		p.Field("pkg/remux", "GopCache", "MetadataEnsureWithoutSetDataFrame"),
		p.Field("pkg/remux", "GopCache", "VideoSeqHeader"),
		p.Field("pkg/remux", "GopCache", "AacSeqHeader"),
	}
	rtmpGopField := p.Field("pkg/logic", "Group", "rtmpGopCache")
	flvGopField := p.Field("pkg/logic", "Group", "httpflvGopCache")
	nFan, nLive := 0, 0
	for _, fn := range allFns {
		inits := model.CallsTo(fn, c.lcdInit, c.lftInit)
		if len(inits) == 0 {
			continue
		}
		nFan++
		// the message: every Init argument must be a load of one RtmpMsg parameter
		var msgParam *ssa.Parameter
		initOf := map[ssa.Value][]ssa.CallInstruction{}
		for _, ci := range inits {
			args := ci.Common().Args
			initOf[args[0]] = append(initOf[args[0]], ci)
			pp := paramCell(args[1])
			if pp == nil {
				r.Bad("C01.R4", fkey(fn, "init", "lazy.Init"), p.InstrPos(ci), "lazy converter initialised with something other than the function's message parameter")
				continue
			}
			if msgParam == nil {
				msgParam = pp
			} else if msgParam != pp {
				r.Bad("C01.R4", fkey(fn, "init", "lazy.Init"), p.InstrPos(ci), "lazy converters initialised from different messages")
			}
		}
		if msgParam == nil {
			continue
		}
		for recv, cis := range initOf {
			r.Check(len(cis) == 1, "C01.R4", fkey(fn, "init-once", recv.Type().String()), p.InstrPos(cis[0]), "Init called exactly once on this converter", "converter re-initialised: consumers served before and after get different messages")
		}
		// msg must not be overwritten (stores to the spill cell other than the parameter itself)
		model.EachInstr(fn, func(in ssa.Instruction) {
			st, ok := in.(*ssa.Store)
			if !ok {
				return
			}
			root := st.Addr
			for {
				if fa, ok := root.(*ssa.FieldAddr); ok {
					root = fa.X
					continue
				}
				if ia, ok := root.(*ssa.IndexAddr); ok {
					root = ia.X
					continue
				}
				break
			}
			if a, ok := root.(*ssa.Alloc); ok && paramCell(a) == msgParam {
				if _, isParam := st.Val.(*ssa.Parameter); !(isParam && st.Addr == root) {
					r.Bad("C01.R4", fkey(fn, "mutate", "msg"), p.InstrPos(st), "the message is modified inside the fan-out function")
				}
			}
		})

		isZeroLenGuard := func(cond ssa.Value, pol bool) bool {
			b, ok := cond.(*ssa.BinOp)
			if !ok {
				return false
			}
			x, isLen := lenOf(b.X)
			k, isK := model.ConstInt(b.Y)
			if !isLen || !isK || !isLoadOfPath(x, msgParam, c.payloadField) {
				return false
			}
			switch {
			case b.Op == token.EQL && k == 0:
				return !pol
			case b.Op == token.NEQ && k == 0:
				return pol
			case b.Op == token.GTR && k == 0:
				return pol
			case b.Op == token.LEQ && k == 0:
				return !pol
			case b.Op == token.LSS && k == 1:
				return !pol
			case b.Op == token.GEQ && k == 1:
				return pol
			}
			return false
		}

		for _, s := range sinks {
			for _, ci := range model.CallsTo(fn, s.obj) {
				key := fkey(fn, "sink", s.name)
				// R3
				r.Check(model.GuardedBy(ci, isZeroLenGuard), "C01.R3", key, p.InstrPos(ci),
					"dominated by the false edge of len(msg.Payload)==0", "zero-length message can reach this consumer / cache")
				// R4: data argument
				args := ci.Common().Args
				var data []ssa.Value
				for _, a := range args[1:] {
					if sl, ok := a.Type().Underlying().(*types.Slice); ok {
						if bt, ok := sl.Elem().Underlying().(*types.Basic); ok && bt.Kind() == types.Uint8 {
							data = append(data, a)
						}
					}
				}
				for di, d := range data {
					want := s.variant
					if s.variant == "cache" {
						// cache keeps what its consumers get: rtmp cache chunks, flv cache tags
						if model.IsLoadOfField(args[0], rtmpGopField) {
							want = "chunk-wo"
						} else if model.IsLoadOfField(args[0], flvGopField) {
							want = "tag-wo"
						}
					}
					if s.variant == "cache-meta" {
						isRtmp := model.IsLoadOfField(args[0], rtmpGopField)
						switch {
						case isRtmp && di == 0:
							want = "chunk-w"
						case isRtmp:
							want = "chunk-wo"
						default:
							want = "tag-wo"
						}
					}
					call, ok := d.(*ssa.Call)
					if !ok {
						// prologue data: cached headers / GOP items, only legal inside a fresh region
						fresh := guardedByAnyFresh(ci, c)
						fromCache := model.DependsOn(d, func(v ssa.Value) bool {
							if cc, ok := v.(*ssa.Call); ok {
								return model.SameFunc(model.CalleeObj(cc.Common()), gopDataAt)
							}
							for _, f := range cacheHdrFields {
								if model.IsLoadOfField(v, f) {
									return true
								}
							}
							return false
						})
						r.Check(fresh && fromCache, "C01.R4", key+"|prologue", p.InstrPos(ci),
							"cached header/GOP data written inside an IsFresh region", "data that is neither the lazy conversion of the current message nor cached prologue data inside a fresh region")
						continue
					}
					nLive++
					o := model.CalleeObj(call.Common())
					got := ""
					switch {
					case model.SameFunc(o, c.lcdWithout):
						got = "chunk-wo"
					case model.SameFunc(o, c.lcdWith):
						got = "chunk-w"
					case model.SameFunc(o, c.lftWithout):
						got = "tag-wo"
					case model.SameFunc(o, c.lftWith):
						got = "tag-w"
					}
					recvOK := got != "" && len(initOf[call.Common().Args[0]]) == 1
					r.Check(recvOK && got == want, "C01.R4", key+"|live", p.InstrPos(ci),
						"data = "+got+" of the converter initialised with the message parameter (expected "+want+")",
						"data is '"+got+"' but this consumer kind must receive '"+want+"' of the current message")
				}
			}
		}
		// R5
		for _, ci := range model.CallsTo(fn, gopFeed, gopSetMeta) {
			bad := model.PathQuery{From: ci, Target: func(in ssa.Instruction) bool {
				if cc, ok := in.(ssa.CallInstruction); ok {
					o := model.CalleeObj(cc.Common())
					if model.SameFunc(o, gopDataAt) || model.SameFunc(o, gopCount) {
						return true
					}
				}
				if v, ok := in.(ssa.Value); ok {
					for _, f := range cacheHdrFields {
						if model.IsLoadOfField(v, f) {
							return true
						}
					}
				}
				return false
			}}.Find(fn)
			r.Check(bad == nil, "C01.R5", fkey(fn, "feed", "GopCache.Feed"), p.InstrPos(ci), "no cache read is reachable after the cache is fed",
				"a cache read is reachable after the current message was cached: it would be replayed and then sent live")
		}
	}
	if nFan < 1 || nLive < 9 {
		r.Bad("C01.R4", "floor", "", "fan-out function or its live consumer writes not found (need >=1 function, >=9 live data arguments)")
	}
	r.Count("fanout_functions", nFan)
	r.Count("live_data_arguments", nLive)

	// ---------------------------------------------------------------- R6
	r.Rule("C01.R6", "remux.MakeDefaultRtmpHeader stores in.MsgLen, in.TimestampAbs, in.MsgTypeId into the same fields of its result before every return, and nothing else is stored there")
	mk := p.Func("pkg/remux", "MakeDefaultRtmpHeader")
	for _, fname := range []string{"MsgLen", "TimestampAbs", "MsgTypeId"} {
		f := p.Field("pkg/base", "RtmpHeader", fname)
		sts := model.FieldStores(mk, f)
		good := len(sts) > 0
		for _, st := range sts {
			if !(len(mk.Params) == 1 && isLoadOfPath(st.Val, mk.Params[0], f)) {
				good = false
			}
		}
		dom := false
		for _, st := range sts {
			all := true
			for _, ret := range model.ReturnsOf(mk) {
				if !model.InstrDominates(st, ret) {
					all = false
				}
			}
			if all {
				dom = true
			}
		}
		pos := p.Pos(mk.Pos())
		r.Check(good && dom, "C01.R6", fkey(mk, "copy", fname), pos, "out."+fname+" = in."+fname+" dominates every return", "out."+fname+" is not a plain copy of in."+fname+" on every path")
	}
	r.Rule("C01.R7", "nothing that outlives Group.OnReadRtmpAvMsg keeps a reference into the publisher's message buffer: every value stored into a long-lived object (GOP caches, merge writers, remuxers, recorders) on the way is a copy (interprocedural alias propagation from the msg parameter; expected count 0)")
	retentionRule(p, r, "C01.R7", []retRoot{{p.Method("pkg/logic", "Group", "OnReadRtmpAvMsg"), 1}}, 40)
	c01r8(p, r)
	c01r10(p, r)
	w5MetaErr(p, r, "C01.R11")
	w5CacheKind(p, r, "C01.R12")
	w6MsgLenOfPayload(p, r, "C01.R13")
	w6FanoutLoops(p, r, "C01.R14")
	w9SetMetadata(p, r, "C01.R15")
	c01r9(p, r)
}

// guardedByAnyFresh: the instruction is inside some session's IsFresh==true region.
func guardedByAnyFresh(in ssa.Instruction, c *fanoutCtx) bool {
	return model.GuardedBy(in, func(cond ssa.Value, pol bool) bool {
		f, _, ok := boolFieldTest(cond)
		return ok && pol && (f == c.rtmpIsFresh || f == c.pushIsFresh || f == c.flvIsFresh || f == c.tsIsFresh)
	})
}
