package rules

import (
	"go/types"
	"strings"

	"golang.org/x/tools/go/ssa"

	"lalverif/internal/model"
	"lalverif/internal/report"
)

func init() { register("C10", c10) }

// ifaceMethod looks a method up on a named interface type.
func ifaceMethod(p *model.Prog, pkg, typ, m string) *types.Func {
	n := p.Named(pkg, typ)
	o, _, _ := types.LookupFieldOrMethod(n, true, n.Obj().Pkg(), m)
	f, ok := o.(*types.Func)
	if !ok {
		model.Undecidedf("anchor: interface method %s.%s.%s not found", pkg, typ, m)
	}
	return f
}

// okEdgeDominates: instruction `in` is dominated by `call`, and every path from call to in
// crosses an edge on which call's error result is nil (it only runs when call succeeded).
func okEdgeDominates(fn *ssa.Function, call ssa.CallInstruction, in ssa.Instruction) bool {
	if !model.InstrDominates(call, in) {
		return false
	}
	v, ok := call.(*ssa.Call)
	if !ok {
		return false
	}
	errVals := errValuesOf(v)
	if len(errVals) == 0 {
		return false
	}
	nilEdge := func(b *ssa.BasicBlock, k int) bool {
		iff, ok := b.Instrs[len(b.Instrs)-1].(*ssa.If)
		if !ok {
			return false
		}
		c, pol := model.StripNot(iff.Cond, k == 0)
		x, trueIsNonNil, ok := nilTest(c)
		if !ok {
			return false
		}
		for _, ev := range errVals {
			if x == ev {
				return pol != trueIsNonNil
			}
		}
		return false
	}
	return model.PathQuery{From: call, StopEdge: nilEdge, Target: func(x ssa.Instruction) bool { return x == in }}.Find(fn) == nil
}

func c10(p *model.Prog, r *report.Result) {
	r.Explanation = "Decides the orderings the HLS consistency property needs on every path: playlists are written only by writeM3u8File as write-temp-then-rename with the rename behind a successful write, and playlist paths reach no other writing/removing call (R1); in closeFragment the segment is closed successfully before it is listed, and listed before the record playlist / any removal (R2); every segment starts with PAT/PMT: the first write after OpenFile is the cached PAT/PMT and every other segment write requires opened==true which is set only after it (R3); the deferred directory cleanup cannot remove a directory whose muxer is alive (R4); Dispose closes with the end marker (R5)."
	r.NotDecided = []string{"ring arithmetic (which file is deleted, media-sequence monotonicity)", "target duration versus listed durations", "every TS packet exactly once across segments", "crash points between two file-system operations other than the orderings above", "atomicity of rename on the underlying file system"}
	r.Assumptions = []string{"naza filesystemlayer.Rename/WriteFile behave like os.Rename/os.WriteFile", "hls.Muxer is only driven under Group.mutex"}
	hlsFns := lalFuncsIn(p, "pkg/hls")
	r.Count("functions_analysed", len(hlsFns))
	fsl := func(m string) *types.Func { return ifaceMethod(p, "naza/pkg/filesystemlayer", "IFileSystemLayer", m) }
	fWrite, fRename, fRead, fRemove, fRemoveAll, fCreate := fsl("WriteFile"), fsl("Rename"), fsl("ReadFile"), fsl("Remove"), fsl("RemoveAll"), fsl("Create")
	_ = fRead

	// ---------------------------------------------------------------- R1
	r.Rule("C10.R1", "hls.writeM3u8File = WriteFile(bak) then Rename(bak, final) behind the nil-error edge; loads of Muxer.playlistFilename / recordPlayListFilename flow only to writeM3u8File's final-name parameter, ReadFile and notification structs; the .bak names only to its bak parameter")
	wm := p.Func("pkg/hls", "writeM3u8File")
	writes := model.CallsTo(wm, fWrite)
	renames := model.CallsTo(wm, fRename)
	if len(writes) != 1 || len(renames) != 1 {
		r.Bad("C10.R1", fkey(wm, "shape", "write+rename"), p.Pos(wm.Pos()), "writeM3u8File no longer consists of one WriteFile and one Rename")
	} else {
		w, rn := writes[0], renames[0]
		pos := p.InstrPos(rn)
		r.Check(okEdgeDominates(wm, w, rn), "C10.R1", fkey(wm, "order", "rename-after-write-ok"), pos, "Rename only on the nil-error edge of WriteFile", "Rename can run although the temporary file was not written completely: readers see a truncated playlist")
		wa, ra := w.Common().Args, rn.Common().Args
		okArgs := len(wm.Params) == 3 && wa[0] == ssa.Value(wm.Params[2]) && wa[1] == ssa.Value(wm.Params[0]) && ra[0] == ssa.Value(wm.Params[2]) && ra[1] == ssa.Value(wm.Params[1])
		r.Check(okArgs, "C10.R1", fkey(wm, "args", "bak->final"), pos, "WriteFile(bak, content); Rename(bak, final)", "the content is not written to the temporary name and renamed onto the final name")
	}
	for _, fname := range []string{"playlistFilename", "recordPlayListFilename", "playlistFilenameBak", "recordPlayListFilenameBak"} {
		f := p.Field("pkg/hls", "Muxer", fname)
		isBak := strings.HasSuffix(fname, "Bak")
		n := 0
		for _, fn := range p.LalFuncs() {
			for _, ld := range model.FieldLoads(fn, f) {
				refs := ld.Referrers()
				if refs == nil {
					continue
				}
				for _, ref := range *refs {
					n++
					key := fkey(fn, "use", fname)
					switch x := ref.(type) {
					case ssa.CallInstruction:
						o := model.CalleeObj(x.Common())
						args := x.Common().Args
						switch {
						case x.Common().StaticCallee() == wm:
							want := 1
							if isBak {
								want = 2
							}
							r.Check(args[want] == ld, "C10.R1", key, p.InstrPos(ref), "passed to writeM3u8File in the right position", "playlist name passed to writeM3u8File in the wrong position")
						case model.SameFunc(o, fRead) && !isBak:
							r.Ok("C10.R1", key, p.InstrPos(ref), "read only")
						default:
							name := "?"
							if o != nil {
								name = o.Name()
							}
							r.Bad("C10.R1", key, p.InstrPos(ref), "playlist path flows into "+name+": the playlist may be written/removed outside write-temp-then-rename")
						}
					case *ssa.Store:
						// notification struct field or local; accept stores into struct fields of base.HlsMakeTsInfo
						fld := model.FieldOf(x.Addr)
						r.Check(fld != nil && fld.Pkg().Path() == model.LalPath+"/pkg/base", "C10.R1", key, p.InstrPos(ref), "copied into a notification struct", "playlist path stored somewhere it can later be written from")
					case *ssa.DebugRef:
					default:
						r.Bad("C10.R1", key, p.InstrPos(ref), "unrecognised use of a playlist path")
					}
				}
			}
		}
		if !isBak && n < 2 {
			r.Bad("C10.R1", "floor|"+fname, "", "playlist path is no longer used by writeM3u8File")
		}
	}

	// ---------------------------------------------------------------- R2
	r.Rule("C10.R2", "in Muxer.closeFragment: writePlaylist only after fragment.CloseFile() succeeded; writePlaylist dominates writeRecordPlaylist and every fslCtx.Remove")
	cf := p.Method("pkg/hls", "Muxer", "closeFragment")
	closeFile := p.MethodObj("pkg/hls", "Fragment", "CloseFile")
	writePl := p.MethodObj("pkg/hls", "Muxer", "writePlaylist")
	writeRec := p.MethodObj("pkg/hls", "Muxer", "writeRecordPlaylist")
	// closeFragment with its same-package helpers inlined (the tail may be split into steps)
	const cfDepth = 2
	isCallOf := func(objs ...*types.Func) func(model.DeepInstr) bool {
		return func(d model.DeepInstr) bool {
			ci, ok := d.In.(ssa.CallInstruction)
			if !ok {
				return false
			}
			for _, o := range objs {
				if model.SameFunc(model.CalleeObj(ci.Common()), o) {
					return true
				}
			}
			return false
		}
	}
	var cls, wps []model.DeepInstr
	helpers := map[*ssa.Function]bool{cf: true}
	model.EachInstrDeep(cf, cfDepth, func(d model.DeepInstr) {
		helpers[d.Fn] = true
		if isCallOf(closeFile)(d) {
			cls = append(cls, d)
		}
		if isCallOf(writePl)(d) {
			wps = append(wps, d)
		}
	})
	if len(cls) != 1 || len(wps) != 1 {
		r.Bad("C10.R2", fkey(cf, "shape", "close+list"), p.Pos(cf.Pos()), "closeFragment no longer has exactly one CloseFile and one writePlaylist")
	} else {
		// the point of closeFragment itself from which the playlist write is reached
		anchor := wps[0].In
		if len(wps[0].Chain) > 0 {
			anchor = wps[0].Chain[0]
		}
		okClose := len(cls[0].Chain) == 0 && okEdgeDominates(cf, cls[0].In.(ssa.CallInstruction), anchor)
		r.Check(okClose, "C10.R2", fkey(cf, "order", "close-before-list"), p.InstrPos(wps[0].In), "segment listed only after CloseFile succeeded", "a segment can be listed in the playlist before it is completely written and closed")
		model.EachInstrDeep(cf, cfDepth, func(d model.DeepInstr) {
			if !isCallOf(writeRec, fRemove, fRemoveAll)(d) {
				return
			}
			// no way from the entry to this call that does not pass the playlist write
			early := model.DeepPathQuery{Root: cf, Depth: cfDepth, Stop: isCallOf(writePl), Target: func(x model.DeepInstr) bool { return x.In == d.In }}.Find()
			r.Check(early == nil, "C10.R2", fkey(cf, "order", "list-before-"+model.CalleeObj(d.In.(ssa.CallInstruction).Common()).Name()), p.InstrPos(d.In), "runs after the live playlist was rewritten", "a segment can be removed (or the record playlist extended) before the live playlist stopped listing it")
		})
	}
	// nobody else removes segment files (helpers that only closeFragment's own steps call are
	// part of it)
	private := func(fn *ssa.Function) bool {
		if !helpers[fn] {
			return false
		}
		for _, ed := range p.Callers(fn) {
			if model.IsLal(ed.Caller.Func) && !helpers[ed.Caller.Func] {
				return false
			}
		}
		return true
	}
	for _, fn := range hlsFns {
		if fn == cf || private(fn) {
			continue
		}
		for _, ci := range model.CallsTo(fn, fRemove) {
			r.Bad("C10.R2", fkey(fn, "remove", "fslCtx.Remove"), p.InstrPos(ci), "a segment file is removed outside closeFragment's close-list-delete order")
		}
	}

	// ---------------------------------------------------------------- R3
	r.Rule("C10.R3", "every Fragment.WriteFile in pkg/hls either writes Muxer.patpmt directly after a successful OpenFile in the same function, or is dominated by Muxer.opened==true; opened=true is stored only behind the successful PAT/PMT write")
	openFile := p.MethodObj("pkg/hls", "Fragment", "OpenFile")
	fragWrite := p.MethodObj("pkg/hls", "Fragment", "WriteFile")
	patpmt := p.Field("pkg/hls", "Muxer", "patpmt")
	opened := p.Field("pkg/hls", "Muxer", "opened")
	nW := 0
	var patWrites []ssa.CallInstruction
	for _, fn := range hlsFns {
		for _, ci := range model.CallsTo(fn, fragWrite) {
			nW++
			key := fkey(fn, "segment-write", "Fragment.WriteFile")
			data := ci.Common().Args[1]
			if model.IsLoadOfField(data, patpmt) {
				ops := model.CallsTo(fn, openFile)
				ok := len(ops) == 1 && okEdgeDominates(fn, ops[0], ci)
				if ok {
					// nothing else written between open and the PAT/PMT write
					other := model.PathQuery{From: ops[0], Stop: func(x ssa.Instruction) bool { return x == ci }, Target: func(x ssa.Instruction) bool {
						c2, isC := x.(ssa.CallInstruction)
						return isC && x != ci && model.SameFunc(model.CalleeObj(c2.Common()), fragWrite)
					}}.Find(fn)
					ok = other == nil
				}
				if ok {
					patWrites = append(patWrites, ci)
				}
				r.Check(ok, "C10.R3", key, p.InstrPos(ci), "PAT/PMT is the first write after a successful OpenFile", "PAT/PMT write is not the first write of the freshly opened segment")
				continue
			}
			// path form of the guard (the test may be repeated in both arms of an if and joined):
			// no path from entry reaches the write without crossing an edge on which opened is true
			ok := model.PathQuery{
				StopEdge: func(b *ssa.BasicBlock, k int) bool {
					iff, isIf := b.Instrs[len(b.Instrs)-1].(*ssa.If)
					if !isIf {
						return false
					}
					c, pol := model.StripNot(iff.Cond, k == 0)
					return model.IsLoadOfField(c, opened) && pol
				},
				Target: func(x ssa.Instruction) bool { return x == ci }}.Find(fn) == nil
			r.Check(ok, "C10.R3", key, p.InstrPos(ci), "media write requires opened==true", "media can be written to a segment that was not opened with PAT/PMT first")
		}
		for _, st := range model.FieldStores(fn, opened) {
			if v, isc := model.ConstBool(st.Val); isc && v {
				ok := false
				for _, pw := range model.CallsTo(fn, fragWrite) {
					if model.IsLoadOfField(pw.Common().Args[1], patpmt) && okEdgeDominates(fn, pw, st) {
						ok = true
					}
				}
				r.Check(ok, "C10.R3", fkey(fn, "opened=true", "Muxer.opened"), p.InstrPos(st), "opened=true only behind the successful PAT/PMT write", "a segment is marked open without PAT/PMT having been written into it")
			}
		}
	}
	if nW < 2 || len(patWrites) < 1 {
		r.Bad("C10.R3", "floor", "", "segment write sites not found")
	}

	// ---------------------------------------------------------------- R4
	r.Rule("C10.R4", "in the deferred task of ServerManager.CleanupHlsIfNeeded hls.RemoveAll is unreachable from the true edge of IsHlsMuxerAlive(), and reachable only through that test or the group==nil edge")
	cl := p.Method("pkg/logic", "ServerManager", "CleanupHlsIfNeeded")
	alive := p.MethodObj("pkg/logic", "Group", "IsHlsMuxerAlive")
	removeAll := p.FuncObj("pkg/hls", "RemoveAll")
	nRm := 0
	for _, fn := range model.WithAnons(cl) {
		for _, rm := range model.CallsTo(fn, removeAll) {
			nRm++
			key := fkey(fn, "cleanup", "hls.RemoveAll")
			tests := model.CallsTo(fn, alive)
			okT := len(tests) > 0
			for _, t := range tests {
				tv, _ := t.(*ssa.Call)
				if tv == nil || tv.Referrers() == nil {
					okT = false
					continue
				}
				for _, ref := range *tv.Referrers() {
					if iff, ok := ref.(*ssa.If); ok {
						if (model.PathQuery{FromBlock: iff.Block().Succs[0], Target: func(x ssa.Instruction) bool { return x == rm }}).Find(fn) != nil {
							okT = false
						}
					}
				}
			}
			// every path to RemoveAll passes the test or the nil-group edge
			bypass := model.PathQuery{
				Stop: func(x ssa.Instruction) bool {
					c2, isC := x.(ssa.CallInstruction)
					return isC && model.SameFunc(model.CalleeObj(c2.Common()), alive)
				},
				StopEdge: func(b *ssa.BasicBlock, k int) bool {
					iff, ok := b.Instrs[len(b.Instrs)-1].(*ssa.If)
					if !ok {
						return false
					}
					c, pol := model.StripNot(iff.Cond, k == 0)
					x, trueIsNonNil, ok := nilTest(c)
					if !ok {
						return false
					}
					if call, isCall := x.(*ssa.Call); isCall && call.Common().StaticCallee() != nil && call.Common().StaticCallee().Name() == "GetGroup" {
						return pol != trueIsNonNil // the nil edge
					}
					return false
				},
				Target: func(x ssa.Instruction) bool { return x == rm }}.Find(fn)
			r.Check(okT && bypass == nil, "C10.R4", key, p.InstrPos(rm), "RemoveAll cannot run while the stream's muxer is alive", "the delayed cleanup can remove the directory of a stream that has been re-published in the meantime")
		}
	}
	if nRm < 1 {
		r.Bad("C10.R4", "floor", "", "cleanup RemoveAll not found")
	}

	// ---------------------------------------------------------------- R5
	r.Rule("C10.R5", "Muxer.Dispose calls closeFragment(true); closeFragment passes its isLast parameter to writePlaylist; writePlaylist writes #EXT-X-ENDLIST on the isLast edge before writeM3u8File")
	disp := p.Method("pkg/hls", "Muxer", "Dispose")
	cfObj := p.MethodObj("pkg/hls", "Muxer", "closeFragment")
	okD := false
	for _, ci := range model.CallsTo(disp, cfObj) {
		if v, isc := model.ConstBool(ci.Common().Args[1]); isc && v {
			okD = true
		}
	}
	r.Check(okD, "C10.R5", fkey(disp, "end", "closeFragment(true)"), p.Pos(disp.Pos()), "Dispose finalises with isLast=true", "Dispose does not close the last segment with the end marker")
	if len(wps) == 1 {
		// through the helpers' parameters when the write sits in one
		fwd := wps[0].Resolve(wps[0].In.(ssa.CallInstruction).Common().Args[1])
		r.Check(len(cf.Params) == 2 && fwd == ssa.Value(cf.Params[1]), "C10.R5", fkey(cf, "end", "isLast->writePlaylist"), p.InstrPos(wps[0].In), "isLast forwarded", "closeFragment does not forward isLast to writePlaylist")
	}
	wpFn := p.Method("pkg/hls", "Muxer", "writePlaylist")
	okE := false
	model.EachInstr(wpFn, func(in ssa.Instruction) {
		ci, ok := in.(ssa.CallInstruction)
		if !ok {
			return
		}
		for _, a := range ci.Common().Args {
			if s, isS := model.ConstString(a); isS && strings.HasPrefix(s, "#EXT-X-ENDLIST") {
				guarded := model.GuardedBy(ci, func(c ssa.Value, pol bool) bool {
					return len(wpFn.Params) == 2 && c == ssa.Value(wpFn.Params[1]) && pol
				})
				before := false
				for _, w := range model.CallsTo(wpFn, p.FuncObj("pkg/hls", "writeM3u8File")) {
					if (model.PathQuery{From: ci, Target: func(x ssa.Instruction) bool { return x == w }}).Find(wpFn) != nil {
						before = true
					}
				}
				if guarded && before {
					okE = true
				}
			}
		}
	})
	r.Check(okE, "C10.R5", fkey(wpFn, "end", "#EXT-X-ENDLIST"), p.Pos(wpFn.Pos()), "end marker written on the isLast edge before the file is replaced", "the live playlist is not finalised with #EXT-X-ENDLIST when the stream ends")
	_ = fCreate
	c10r6(p, r)
	c10r7(p, r)
	c10r8(p, r)
	c10r910(p, r)
}
