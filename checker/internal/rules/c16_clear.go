package rules

import (
	"fmt"
	"go/types"
	"sort"

	"golang.org/x/tools/go/ssa"

	"lalverif/internal/model"
	"lalverif/internal/report"
)

// c16r10: Clear() of the GOP caches resets everything the feed path writes.
func c16r10(p *model.Prog, r *report.Result, rule string) {
	r.Rule(rule, "for remux.GopCache and remux.GopCacheMpegts: every field of the cache object that a method other than the constructor and Clear() stores (headers, ring indices) is stored with nil / 0 by Clear(), which Group.delIn calls when the input leaves: nothing the previous publisher fed survives into the next publication of the name")
	for _, typ := range []string{"GopCache", "GopCacheMpegts"} {
		clear := p.Method("pkg/remux", typ, "Clear")
		named := p.Named("pkg/remux", typ)
		st, _ := named.Underlying().(*types.Struct)
		own := map[*types.Var]bool{}
		for i := 0; i < st.NumFields(); i++ {
			own[st.Field(i)] = true
		}
		written := map[*types.Var]string{}
		cleared := map[*types.Var]bool{}
		for _, fn := range lalFuncsIn(p, "pkg/remux") {
			if recvName(topFn(fn)) != typ {
				continue
			}
			model.EachInstr(fn, func(in ssa.Instruction) {
				s, ok := in.(*ssa.Store)
				if !ok {
					return
				}
				f := model.FieldOf(s.Addr)
				if f == nil || !own[f] {
					return
				}
				// only stores into the receiver's own fields (not into ring elements)
				if fa, isFA := s.Addr.(*ssa.FieldAddr); !isFA || fa.X != ssa.Value(fn.Params[0]) {
					return
				}
				if fn == clear {
					zero := model.IsNilConst(s.Val)
					if k, isK := model.ConstInt(s.Val); isK && k == 0 {
						zero = true
					}
					if zero {
						cleared[f] = true
					}
					return
				}
				written[f] = model.FnName(fn)
			})
		}
		var names []string
		byName := map[string]*types.Var{}
		for f := range written {
			names = append(names, f.Name())
			byName[f.Name()] = f
		}
		sort.Strings(names)
		for _, n := range names {
			f := byName[n]
			r.Check(cleared[f], rule, "clear|"+typ+"."+n, p.Pos(clear.Pos()), "reset by Clear()", fmt.Sprintf("%s.%s is written in %s but not reset to nil/0 by Clear(): after the publisher left, the next publisher's consumers get the predecessor's %s (stale header, or stale GOPs through an un-reset ring index)", typ, n, written[f], n))
		}
		if len(names) < 2 {
			r.Bad(rule, "clear|"+typ+"|floor", p.Pos(clear.Pos()), fmt.Sprintf("only %d written fields found for %s", len(names), typ))
		}
	}
}
