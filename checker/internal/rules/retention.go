package rules

// Retention analysis: which long-lived stores can keep a reference into the byte buffer of a
// message parameter after the call returns. Interprocedural, context-insensitive value flow
// over go/ssa with alias summaries (result i may alias parameter j).

import (
	"go/token"
	"go/types"
	"sort"

	"golang.org/x/tools/go/ssa"

	"lalverif/internal/model"
)

func typeCarries(t types.Type, d int) bool {
	if d > 6 || t == nil {
		return true
	}
	switch u := t.Underlying().(type) {
	case *types.Basic:
		return u.Kind() == types.UnsafePointer
	case *types.Slice, *types.Pointer, *types.Interface, *types.Map, *types.Chan, *types.Signature:
		return true
	case *types.Array:
		return typeCarries(u.Elem(), d+1)
	case *types.Struct:
		for i := 0; i < u.NumFields(); i++ {
			if typeCarries(u.Field(i).Type(), d+1) {
				return true
			}
		}
		return false
	case *types.Tuple:
		return true
	}
	return true
}

type retainEvent struct {
	Fn    *ssa.Function
	Store ssa.Instruction
	What  string
}

type retention struct {
	p *model.Prog
	// Reached: functions analysed with a tainted parameter / object in the last run
	Reached int
	// alias[f][result][param]
	alias map[*ssa.Function]map[int]map[int]bool
}

// derived computes, for one function, the set of values that may alias any of the seed values.
// taintedAllocs are local objects that hold such a value; it is extended as stores are seen.
func (rt *retention) derived(fn *ssa.Function, seeds map[ssa.Value]bool, objT map[ssa.Value]map[*types.Var]bool) (map[ssa.Value]bool, map[ssa.Value]map[*types.Var]bool) {
	der := map[ssa.Value]bool{}
	for v := range seeds {
		der[v] = true
	}
	// obj: pointer value -> first-level fields of the pointed-to object that hold a derived reference
	obj := map[ssa.Value]map[*types.Var]bool{}
	for v, fs := range objT {
		obj[v] = map[*types.Var]bool{}
		for f := range fs {
			obj[v][f] = true
		}
	}
	// firstField: for an address reached from root through field selections, the first field selected
	firstField := func(addr ssa.Value) (ssa.Value, *types.Var) {
		var first *types.Var
		for i := 0; i < 30; i++ {
			switch a := addr.(type) {
			case *ssa.FieldAddr:
				first = model.FieldOf(a)
				addr = a.X
			case *ssa.IndexAddr:
				addr = a.X
			default:
				return addr, first
			}
		}
		return addr, first
	}
	changed := true
	var isDer func(v ssa.Value) bool
	isDer = func(v ssa.Value) bool { return v != nil && der[v] }
	for iter := 0; changed && iter < 30; iter++ {
		changed = false
		mark := func(v ssa.Value) {
			if !der[v] {
				der[v] = true
				changed = true
			}
		}
		for _, b := range fn.Blocks {
			for _, in := range b.Instrs {
				switch x := in.(type) {
				case *ssa.Slice:
					if isDer(x.X) {
						mark(x)
					}
				case *ssa.UnOp:
					if x.Op != token.MUL || !typeCarries(x.Type(), 0) {
						continue
					}
					r, ff := firstField(x.X)
					if isDer(x.X) || (isDer(r) && ff == nil) {
						mark(x)
					} else if isDer(r) {
						// a derived pointer/struct value: every field may hold the reference, unless
						// the root is a tracked object (then only its tainted fields do)
						if _, tracked := obj[r]; !tracked {
							mark(x)
						}
					}
					if ff != nil && obj[r][ff] {
						mark(x)
					}
				case *ssa.Field:
					if isDer(x.X) && typeCarries(x.Type(), 0) {
						mark(x)
					}
				case *ssa.FieldAddr:
					if isDer(x.X) {
						mark(x)
					}
				case *ssa.IndexAddr:
					if isDer(x.X) {
						mark(x)
					}
				case *ssa.Index:
					if isDer(x.X) && typeCarries(x.Type(), 0) {
						mark(x)
					}
				case *ssa.Lookup:
					if isDer(x.X) && typeCarries(x.Type(), 0) {
						mark(x)
					}
				case *ssa.Phi:
					for _, e := range x.Edges {
						if isDer(e) {
							mark(x)
						}
					}
				case *ssa.MakeInterface:
					if isDer(x.X) {
						mark(x)
					}
				case *ssa.ChangeType:
					if isDer(x.X) {
						mark(x)
					}
				case *ssa.ChangeInterface:
					if isDer(x.X) {
						mark(x)
					}
				case *ssa.TypeAssert:
					if isDer(x.X) {
						mark(x)
					}
				case *ssa.Convert:
					// []byte(string) and string([]byte) copy
					_, fromSl := x.X.Type().Underlying().(*types.Slice)
					_, toSl := x.Type().Underlying().(*types.Slice)
					if fromSl && toSl && isDer(x.X) {
						mark(x)
					}
				case *ssa.Extract:
					if call, ok := x.Tuple.(*ssa.Call); ok {
						if rt.callAliases(call, x.Index, isDer) {
							mark(x)
						}
					} else if isDer(x.Tuple) && typeCarries(x.Type(), 0) {
						mark(x)
					}
				case *ssa.Next:
					if isDer(x.Iter) {
						mark(x)
					}
				case *ssa.Range:
					if isDer(x.X) {
						mark(x)
					}
				case *ssa.Call:
					if b, ok := x.Call.Value.(*ssa.Builtin); ok {
						if b.Name() == "append" && len(x.Call.Args) >= 1 {
							if isDer(x.Call.Args[0]) {
								mark(x)
							}
							if sl, ok := x.Type().Underlying().(*types.Slice); ok && typeCarries(sl.Elem(), 0) {
								for _, a := range x.Call.Args[1:] {
									if isDer(a) {
										mark(x)
									}
								}
							}
						}
						continue
					}
					if typeCarries(x.Type(), 0) {
						if _, isTuple := x.Type().(*types.Tuple); !isTuple && rt.callAliases(x, 0, isDer) {
							mark(x)
						}
					}
				case *ssa.Store:
					if !isDer(x.Val) {
						continue
					}
					r, ff := firstField(x.Addr)
					switch rr := r.(type) {
					case *ssa.Alloc:
						if ff == nil {
							mark(rr) // whole-object store
						} else {
							if obj[rr] == nil {
								obj[rr] = map[*types.Var]bool{}
							}
							if !obj[rr][ff] {
								obj[rr][ff] = true
								changed = true
							}
						}
					case *ssa.MakeSlice:
						mark(rr)
					case *ssa.Parameter:
						if ff != nil {
							if obj[rr] == nil {
								obj[rr] = map[*types.Var]bool{}
							}
							if !obj[rr][ff] {
								obj[rr][ff] = true
								changed = true
							}
						}
					}
				case *ssa.MapUpdate:
					if isDer(x.Value) {
						if mk, ok := x.Map.(*ssa.MakeMap); ok {
							mark(mk)
						}
					}
				}
			}
		}
	}
	return der, obj
}

// callAliases: may result `idx` of the call alias one of its derived arguments?
func (rt *retention) callAliases(call *ssa.Call, idx int, isDer func(ssa.Value) bool) bool {
	args := call.Common().Args
	if call.Common().IsInvoke() {
		args = append([]ssa.Value{call.Common().Value}, args...)
	}
	anyDer := false
	for _, a := range args {
		if isDer(a) {
			anyDer = true
		}
	}
	if !anyDer {
		return false
	}
	callees := rt.p.Callees(call)
	if len(callees) == 0 {
		// unknown / external: a few library functions return sub-slices of their argument
		if f := model.CalleeObj(call.Common()); f != nil && f.Pkg() != nil {
			switch f.Pkg().Path() + "." + f.Name() {
			case "bytes.TrimPrefix", "bytes.TrimSuffix", "bytes.TrimSpace", "bytes.Trim", "bytes.TrimLeft", "bytes.TrimRight", "bytes.Split", "bytes.SplitN", "bytes.Fields":
				return true
			}
		}
		return false
	}
	for _, callee := range callees {
		if len(callee.Blocks) == 0 {
			continue
		}
		sm := rt.alias[callee]
		for j, a := range args {
			if isDer(a) && sm != nil && sm[idx][j] {
				return true
			}
		}
	}
	return false
}

// computeAlias: fixpoint of "result i may alias parameter j" over all lal/naza functions.
func (rt *retention) computeAlias() {
	rt.alias = map[*ssa.Function]map[int]map[int]bool{}
	fns := rt.p.AllFuncs()
	for round := 0; round < 8; round++ {
		changed := false
		for _, fn := range fns {
			if len(fn.Blocks) == 0 {
				continue
			}
			for j, prm := range fn.Params {
				if !typeCarries(prm.Type(), 0) {
					continue
				}
				der, _ := rt.derived(fn, map[ssa.Value]bool{prm: true}, nil)
				for _, ret := range model.ReturnsOf(fn) {
					for i, rv := range model.ReturnValues(ret) {
						if der[rv] {
							m := rt.alias[fn]
							if m == nil {
								m = map[int]map[int]bool{}
								rt.alias[fn] = m
							}
							if m[i] == nil {
								m[i] = map[int]bool{}
							}
							if !m[i][j] {
								m[i][j] = true
								changed = true
							}
						}
					}
				}
			}
		}
		if !changed {
			break
		}
	}
}

// run propagates the taint of root's parameter (index prm) through the call graph and returns
// every store of a derived value into a long-lived object. Objects reached through a pointer
// parameter belong to the caller: a store into them is re-examined at every call site, where
// the argument is a local object (then that field of the local becomes tainted) or a long-lived
// one (then the store is an event).
func (rt *retention) run(root *ssa.Function, prm int, stop func(*ssa.Function) bool) []retainEvent {
	type fieldEv struct {
		field *types.Var
		ev    retainEvent
	}
	seeds := map[*ssa.Function]map[ssa.Value]bool{root: {root.Params[prm]: true}}
	objT := map[*ssa.Function]map[ssa.Value]map[*types.Var]bool{}
	paramStores := map[*ssa.Function]map[int][]fieldEv{} // stores into the object param j points to
	work := []*ssa.Function{root}
	inWork := map[*ssa.Function]bool{root: true}
	push := func(f *ssa.Function) {
		if !inWork[f] {
			inWork[f] = true
			work = append(work, f)
		}
	}
	var events []retainEvent
	seen := map[ssa.Instruction]bool{}
	addEvent := func(e retainEvent) {
		if !seen[e.Store] {
			seen[e.Store] = true
			events = append(events, e)
		}
	}
	addSeed := func(f *ssa.Function, v ssa.Value) {
		if seeds[f] == nil {
			seeds[f] = map[ssa.Value]bool{}
		}
		if !seeds[f][v] {
			seeds[f][v] = true
			push(f)
		}
	}
	addObj := func(f *ssa.Function, v ssa.Value, fld *types.Var) {
		if objT[f] == nil {
			objT[f] = map[ssa.Value]map[*types.Var]bool{}
		}
		if objT[f][v] == nil {
			objT[f][v] = map[*types.Var]bool{}
		}
		if !objT[f][v][fld] {
			objT[f][v][fld] = true
			push(f)
		}
	}
	paramIndex := func(f *ssa.Function, v ssa.Value) int {
		for k, pp := range f.Params {
			if ssa.Value(pp) == v {
				return k
			}
		}
		return -1
	}
	addParamStore := func(f *ssa.Function, j int, fe fieldEv) {
		if paramStores[f] == nil {
			paramStores[f] = map[int][]fieldEv{}
		}
		for _, e := range paramStores[f][j] {
			if e.ev.Store == fe.ev.Store && e.field == fe.field {
				return
			}
		}
		paramStores[f][j] = append(paramStores[f][j], fe)
		for _, ed := range rt.p.Callers(f) {
			if c := ed.Caller.Func; seeds[c] != nil || objT[c] != nil {
				push(c)
			}
		}
	}
	firstField := func(addr ssa.Value) (ssa.Value, *types.Var) {
		var first *types.Var
		for i := 0; i < 30; i++ {
			switch a := addr.(type) {
			case *ssa.FieldAddr:
				first = model.FieldOf(a)
				addr = a.X
			case *ssa.IndexAddr:
				addr = a.X
			default:
				return addr, first
			}
		}
		return addr, first
	}
	steps := 0
	for len(work) > 0 && steps < 20000 {
		steps++
		fn := work[len(work)-1]
		work = work[:len(work)-1]
		inWork[fn] = false
		der, obj := rt.derived(fn, seeds[fn], objT[fn])
		// results that alias the buffer flow back to the call sites of reached callers (this covers
		// what the static summaries miss: results filled in by closures, or through tainted objects)
		retDer := map[int]bool{}
		for _, ret := range model.ReturnsOf(fn) {
			for i, rv := range model.ReturnValues(ret) {
				if der[rv] {
					retDer[i] = true
				}
			}
		}
		if len(retDer) > 0 {
			for _, ed := range rt.p.Callers(fn) {
				c := ed.Caller.Func
				if seeds[c] == nil && objT[c] == nil {
					continue
				}
				cv := ed.Site.Value()
				if cv == nil {
					continue
				}
				if _, isTuple := cv.Type().(*types.Tuple); !isTuple {
					if retDer[0] {
						addSeed(c, cv)
					}
					continue
				}
				if cv.Referrers() != nil {
					for _, ref := range *cv.Referrers() {
						if ex, ok := ref.(*ssa.Extract); ok && retDer[ex.Index] {
							addSeed(c, ex)
						}
					}
				}
			}
		}
		for _, b := range fn.Blocks {
			for _, in := range b.Instrs {
				switch x := in.(type) {
				case *ssa.Store:
					if !der[x.Val] {
						continue
					}
					lived, what := longLived(x.Addr)
					if !lived {
						continue
					}
					r, ff := firstField(x.Addr)
					switch root := addrRoot(x.Addr).(type) {
					case *ssa.Parameter:
						if ssa.Value(root) == r && ff != nil {
							addParamStore(fn, paramIndex(fn, root), fieldEv{ff, retainEvent{fn, in, what}})
						} else {
							// through a pointer loaded from the parameter's object: that object is
							// shared state of whatever the parameter points to
							addParamStore(fn, paramIndex(fn, root), fieldEv{nil, retainEvent{fn, in, what}})
						}
					case *ssa.FreeVar:
						par := fn.Parent()
						handled := false
						if par != nil {
							for k, fv := range fn.FreeVars {
								if fv != root {
									continue
								}
								for _, b2 := range par.Blocks {
									for _, in2 := range b2.Instrs {
										mc, ok := in2.(*ssa.MakeClosure)
										if !ok || mc.Fn != ssa.Value(fn) || k >= len(mc.Bindings) {
											continue
										}
										if al, isLocal := mc.Bindings[k].(*ssa.Alloc); isLocal {
											addSeed(par, al)
											handled = true
										}
									}
								}
							}
						}
						if !handled {
							addEvent(retainEvent{fn, in, what})
						}
					default:
						addEvent(retainEvent{fn, in, what})
					}
				case *ssa.MapUpdate:
					if der[x.Value] {
						if lived, what := longLived(x.Map); lived {
							addEvent(retainEvent{fn, in, what})
						}
					}
				case ssa.CallInstruction:
					args := x.Common().Args
					if x.Common().IsInvoke() {
						args = append([]ssa.Value{x.Common().Value}, args...)
					}
					if _, isGo := in.(*ssa.Go); isGo {
						for _, a := range args {
							if der[a] {
								addEvent(retainEvent{fn, in, "goroutine argument"})
							}
						}
					}
					if _, isB := x.Common().Value.(*ssa.Builtin); isB {
						continue
					}
					for _, callee := range rt.p.Callees(x) {
						if len(callee.Blocks) == 0 || !(model.IsLal(callee) || model.IsNaza(callee)) || (stop != nil && stop(callee)) {
							continue
						}
						for j, a := range args {
							if j >= len(callee.Params) {
								continue
							}
							if der[a] {
								addSeed(callee, callee.Params[j])
							}
							// tainted fields of the object the argument points to
							for f := range obj[a] {
								addObj(callee, callee.Params[j], f)
							}
						}
						// stores the callee makes into objects reached from its parameters
						for j, fes := range paramStores[callee] {
							if j < 0 || j >= len(args) {
								continue
							}
							arg := args[j]
							switch ar := arg.(type) {
							case *ssa.Alloc:
								for _, fe := range fes {
									if fe.field != nil {
										addObj(fn, ar, fe.field)
									} else {
										addSeed(fn, ar)
									}
								}
							case *ssa.Parameter:
								for _, fe := range fes {
									addParamStore(fn, paramIndex(fn, ar), fe)
								}
							default:
								rootA := addrRoot(arg)
								if al, ok := rootA.(*ssa.Alloc); ok {
									// a pointer into a local object (&local.field, or a local pointer cell)
									for range fes {
										addSeed(fn, al)
									}
								} else if lived, _ := longLived(arg); lived {
									if pr, isP := rootA.(*ssa.Parameter); isP {
										// reached from one of fn's own parameters: decided at fn's callers,
										// unless the pointer is loaded from the parameter's object (shared state)
										if _, loaded := arg.(*ssa.UnOp); !loaded {
											for _, fe := range fes {
												addParamStore(fn, paramIndex(fn, pr), fieldEv{nil, fe.ev})
											}
											continue
										}
									}
									for _, fe := range fes {
										addEvent(fe.ev)
									}
								}
							}
						}
					}
				case *ssa.MakeClosure:
					if fnc, ok := x.Fn.(*ssa.Function); ok {
						for k, bnd := range x.Bindings {
							if k >= len(fnc.FreeVars) {
								continue
							}
							if der[bnd] {
								addSeed(fnc, fnc.FreeVars[k])
							}
							for f := range obj[bnd] {
								addObj(fnc, fnc.FreeVars[k], f)
							}
						}
					}
				}
			}
		}
	}
	rt.Reached = len(seeds)
	for f := range objT {
		if seeds[f] == nil {
			rt.Reached++
		}
	}
	// stores into a parameter object of the root itself (its receiver is long-lived)
	for j, fes := range paramStores[root] {
		if j == 0 {
			for _, fe := range fes {
				addEvent(fe.ev)
			}
		}
	}
	sort.Slice(events, func(i, j int) bool {
		if model.FnName(events[i].Fn) != model.FnName(events[j].Fn) {
			return model.FnName(events[i].Fn) < model.FnName(events[j].Fn)
		}
		return events[i].Store.Pos() < events[j].Store.Pos()
	})
	return events
}

// addrRoot strips field/index selections and loads: the value the address is reached from.
func addrRoot(addr ssa.Value) ssa.Value {
	for i := 0; i < 30; i++ {
		switch a := addr.(type) {
		case *ssa.FieldAddr:
			addr = a.X
		case *ssa.IndexAddr:
			addr = a.X
		case *ssa.UnOp:
			if a.Op != token.MUL {
				return addr
			}
			addr = a.X
		default:
			return addr
		}
	}
	return addr
}

// longLived: the address is rooted at a parameter (receiver), a global, a free variable, or a
// pointer loaded from one of those.
func longLived(addr ssa.Value) (bool, string) {
	what := ""
	for i := 0; i < 30; i++ {
		switch a := addr.(type) {
		case *ssa.FieldAddr:
			if f := model.FieldOf(a); f != nil {
				if what == "" {
					what = f.Name()
				} else {
					what = f.Name() + "." + what
				}
			}
			addr = a.X
		case *ssa.IndexAddr:
			what = "[]" + what
			addr = a.X
		case *ssa.UnOp:
			if a.Op != token.MUL {
				return false, ""
			}
			addr = a.X
		case *ssa.Parameter:
			return true, a.Name() + "." + what
		case *ssa.Global:
			return true, a.Name() + "." + what
		case *ssa.FreeVar:
			return true, a.Name() + "." + what
		default:
			return false, ""
		}
	}
	return false, ""
}
