package rules

import (
	"fmt"
	"go/token"
	"go/types"
	"os"
	"sort"
	"strings"

	"golang.org/x/tools/go/ssa"

	"lalverif/internal/model"
	"lalverif/internal/report"
)

func init() { register("C20", c20) }

// guardedBy is the frozen guarded-by table: owner type -> guarding lock class, with the
// fields that are exempt (constant after construction, own synchronisation).
type guardSpec struct {
	pkg, typ         string
	lockPkg, lockT   string
	lockField        string
	exempt           map[string]string // field -> reason
	only             map[string]bool   // when set, only these fields are guarded
	constructorFuncs map[string]bool   // functions allowed to touch fields without the lock (construction before publication)
}

func guardTable() []guardSpec {
	return []guardSpec{
		{pkg: "pkg/logic", typ: "Group", lockPkg: "pkg/logic", lockT: "Group", lockField: "mutex",
			exempt: map[string]string{
				"UniqueKey": "const after init", "appName": "const after init", "streamName": "const after init", "config": "const after init",
				"option": "const after init", "observer": "const after init", "exitChan": "channel, own synchronisation", "mutex": "the lock itself",
				"hlsCalcSessionStatIntervalSec": "const after init (set in NewGroup only)",
			},
			constructorFuncs: map[string]bool{"NewGroup": true, "initRelayPushByConfig": true, "initRelayPullByConfig": true}},
		{pkg: "pkg/logic", typ: "pullProxy", lockPkg: "pkg/logic", lockT: "Group", lockField: "mutex",
			constructorFuncs: map[string]bool{"initRelayPullByConfig": true}},
		{pkg: "pkg/logic", typ: "pushProxy", lockPkg: "pkg/logic", lockT: "Group", lockField: "mutex",
			constructorFuncs: map[string]bool{"initRelayPushByConfig": true}},
		{pkg: "pkg/logic", typ: "ServerManager", lockPkg: "pkg/logic", lockT: "ServerManager", lockField: "mutex",
			only: map[string]bool{"groupManager": true}, constructorFuncs: map[string]bool{"NewServerManager": true}},
		{pkg: "pkg/logic", typ: "SimpleGroupManager", lockPkg: "pkg/logic", lockT: "ServerManager", lockField: "mutex",
			only: map[string]bool{"groups": true}, constructorFuncs: map[string]bool{"NewSimpleGroupManager": true}},
		{pkg: "pkg/hls", typ: "ServerHandler", lockPkg: "pkg/hls", lockT: "ServerHandler", lockField: "mutex",
			only: map[string]bool{"sessionMap": true}, constructorFuncs: map[string]bool{"NewServerHandler": true}},
		{pkg: "pkg/logic", typ: "IpBlacklist", lockPkg: "pkg/logic", lockT: "IpBlacklist", lockField: "mu",
			only: map[string]bool{"ips": true}},
		{pkg: "pkg/base", typ: "PeriodRecord", lockPkg: "pkg/base", lockT: "PeriodRecord", lockField: "mu",
			only: map[string]bool{"ringBuf": true}, constructorFuncs: map[string]bool{"NewPeriodRecord": true}},
	}
}

// topFn returns the outermost enclosing function of fn.
func topFn(fn *ssa.Function) *ssa.Function {
	for fn.Parent() != nil {
		fn = fn.Parent()
	}
	return fn
}

func c20(p *model.Prog, r *report.Result) {
	r.Explanation = "Decides lock-discipline clauses of 'race- and deadlock-free' over the whole program: every access to a field of the frozen guarded-by table (all mutable state of logic.Group, pullProxy, pushProxy, the group manager's map, the HLS session map, the IP black list, the fps record ring) happens with its guarding mutex class in the interprocedural must-held set (R1); the held->acquired graph over mutex classes computed from the may-held sets is acyclic and has no same-class nesting (R2); no blocking primitive (channel send/receive without select-default, time.Sleep, WaitGroup.Wait, net.Dial*, connection Flush) is executed while Group.mutex or ServerManager.mutex may be held (R3); lal never closes a channel (R4); closures handed to other goroutines touch guarded fields only under the lock (R1 applies to them with an empty entry set)."
	r.NotDecided = []string{"races on state outside the guarded-by table (session-internal fields shared between a connection goroutine and the group, e.g. ServerCommandSession.subSession, gb28181.PubSession.tcpConn)", "liveness under arbitrary schedules beyond lock-order acyclicity and no-blocking-under-lock", "instances: lock classes are per field, not per object"}
	r.Assumptions = []string{"VTA call graph is complete for lal+naza (no reflection-mediated calls on these paths)", "std library callbacks (net/http handlers) enter lal with none of lal's locks held", "naza connection.Write/Writev enqueue without blocking when a write queue is configured (C15.R1)"}
	ovs := callbackOverrides(p)
	r.Rule("C20.R0", "context refinements of the object-insensitive call graph, each verified: (sync-arg) a function value passed to a static callee that only calls that parameter; (owned) a callback installed into the object held by a guarded Group field that never escapes and whose type starts no goroutines")
	var kept []cbOverride
	checkedOwner := map[*types.Var]bool{}
	ownerOK := map[*types.Var]bool{}
	for _, ov := range ovs {
		key := fkey(ov.pos.Parent(), "callback:"+ov.kind, model.FnName(ov.target))
		if ov.kind == "owned" {
			if !checkedOwner[ov.owner] {
				checkedOwner[ov.owner] = true
				ok, why := verifyOwned(p, ov.owner)
				ownerOK[ov.owner] = ok
				if !ok {
					r.Note("C20.R0", "owner|"+ov.owner.Name(), "", "ownership refinement not applicable: "+why)
				}
			}
			if !ownerOK[ov.owner] {
				continue
			}
		}
		kept = append(kept, ov)
		r.Trivial("C20.R0", key, p.InstrPos(ov.pos), ov.why+fmt.Sprintf(" (%d entry sites)", len(ov.sites)))
	}
	must := runLockAnalysis(p, true, kept)
	may := runLockAnalysis(p, false, kept)
	r.Count("functions_analysed", len(must.fns))
	discover := os.Getenv("LALCHECK_DISCOVER") != ""

	// ---------------------------------------------------------------- R1
	r.Rule("C20.R1", "guarded-by: every FieldAddr/Field access to a guarded field outside the owner's constructor functions has the guarding mutex class in the must-held lock set (intersection over all call paths, goroutine starts reset the set)")
	nAcc := 0
	for _, gs := range guardTable() {
		owner := p.Named(gs.pkg, gs.typ)
		lock := p.Field(gs.lockPkg, gs.lockT, gs.lockField)
		stats := map[string][2]int{}
		for _, fn := range must.fns {
			if !model.IsLal(fn) {
				continue
			}
			tf := topFn(fn)
			if gs.constructorFuncs[tf.Name()] && fn == tf {
				continue
			}
			model.EachInstr(fn, func(in ssa.Instruction) {
				var fld *types.Var
				var base ssa.Value
				switch x := in.(type) {
				case *ssa.FieldAddr:
					fld, base = model.FieldOf(x), x.X
				case *ssa.Field:
					fld, base = model.FieldOf(x), x.X
				default:
					return
				}
				if fld == nil {
					return
				}
				bt := base.Type()
				if pt, ok := bt.Underlying().(*types.Pointer); ok {
					bt = pt.Elem()
				}
				n, ok := bt.(*types.Named)
				if !ok || n.Obj() != owner.Obj() {
					return
				}
				if _, isExempt := gs.exempt[fld.Name()]; isExempt {
					return
				}
				if gs.only != nil && !gs.only[fld.Name()] {
					return
				}
				if _, fresh := base.(*ssa.Alloc); fresh {
					return // object under construction
				}
				st, ok := must.at[in]
				if !ok || st.top {
					return // unreachable code
				}
				nAcc++
				held := st.has(lock)
				readOnlyHeld := false
				if !held && st.has(sharedClass(lock)) {
					if isWriteAccess(in) {
						readOnlyHeld = true
					} else {
						held = true
					}
				}
				s := stats[fld.Name()]
				if held {
					s[0]++
				} else {
					s[1]++
				}
				stats[fld.Name()] = s
				key := fkey(fn, "guarded", gs.typ+"."+fld.Name())
				if held {
					r.Trivial("C20.R1", key, p.InstrPos(in), "held "+st.String())
				} else if readOnlyHeld {
					r.Bad("C20.R1", key, p.InstrPos(in), fmt.Sprintf("%s.%s is written while %s is held only for reading (RLock): concurrent readers mutate shared state", gs.typ, fld.Name(), lockClassName(lock)))
				} else {
					r.Bad("C20.R1", key, p.InstrPos(in), fmt.Sprintf("%s.%s accessed with lock set %s; %s is not held on every call path", gs.typ, fld.Name(), st.String(), lockClassName(lock)))
				}
			})
		}
		if discover {
			var names []string
			for n := range stats {
				names = append(names, n)
			}
			sort.Strings(names)
			for _, n := range names {
				fmt.Printf("DISCOVER %s.%s locked=%d unlocked=%d\n", gs.typ, n, stats[n][0], stats[n][1])
			}
		}
	}
	if nAcc < 400 {
		r.Bad("C20.R1", "floor", "", fmt.Sprintf("only %d guarded accesses found (expected >= 400)", nAcc))
	}
	r.Count("guarded_accesses", nAcc)

	// ---------------------------------------------------------------- R2
	r.Rule("C20.R2", "lock order: for every Lock() of class a with may-held set H, edges h->a (h in H); the graph over classes is acyclic and no class is acquired while (possibly) held")
	type edge struct{ from, to *types.Var }
	edges := map[edge]ssa.Instruction{}
	var selfSites []ssa.Instruction
	for _, fn := range may.fns {
		model.EachInstr(fn, func(in ssa.Instruction) {
			ci, ok := in.(ssa.CallInstruction)
			if !ok {
				return
			}
			if _, isDefer := in.(*ssa.Defer); isDefer {
				return
			}
			class, op := lockOp(ci)
			if class == nil || op <= 0 {
				return
			}
			class = baseClass(class)
			for h0 := range may.at[in].m {
				h := baseClass(h0)
				e := edge{h, class}
				if _, seen := edges[e]; !seen {
					edges[e] = in
				}
				if h == class {
					selfSites = append(selfSites, in)
				}
			}
		})
	}
	adj := map[*types.Var][]*types.Var{}
	var es []edge
	for e := range edges {
		es = append(es, e)
	}
	sort.Slice(es, func(i, j int) bool {
		return lockClassName(es[i].from)+lockClassName(es[i].to) < lockClassName(es[j].from)+lockClassName(es[j].to)
	})
	for _, e := range es {
		key := "order|" + lockClassName(e.from) + "->" + lockClassName(e.to)
		if e.from == e.to {
			for _, in := range selfSites {
				if c2, _ := lockOp(in.(ssa.CallInstruction)); baseClass(c2) != e.from {
					continue
				}
				// blame the call sites through which the lock-holding context enters the locking function
				lockFn := in.Parent()
				via := map[string]ssa.Instruction{}
				if may.entry[lockFn].m[e.from] {
					seenF := map[*ssa.Function]bool{}
					var walk func(f *ssa.Function, depth int)
					walk = func(f *ssa.Function, depth int) {
						if seenF[f] || depth > 6 {
							return
						}
						seenF[f] = true
						n := p.CG().Nodes[f]
						if n == nil {
							return
						}
						for _, ce := range n.In {
							c := ce.Caller.Func
							if !may.inScope[c] || ce.Site == nil {
								continue
							}
							if _, isGo := ce.Site.(*ssa.Go); isGo {
								continue
							}
							if may.skipDyn[f] && ce.Site.Common().StaticCallee() != f {
								continue
							}
							if !may.at[ce.Site].m[e.from] {
								continue
							}
							if c.Synthetic != "" && c.Pkg == nil {
								walk(c, depth+1)
								continue
							}
							via[model.FnName(c)] = ce.Site
						}
					}
					walk(lockFn, 0)
				} else {
					via[model.FnName(lockFn)] = in
				}
				var names []string
				for n := range via {
					names = append(names, n)
				}
				sort.Strings(names)
				for _, n := range names {
					r.Bad("C20.R2", key+"|in "+model.FnName(lockFn)+"|via "+n, p.InstrPos(via[n]), "mutex class "+lockClassName(e.from)+" is acquired in "+model.FnName(lockFn)+" while it may already be held by the caller "+n+": self-deadlock on the same instance")
				}
			}
			continue
		}
		adj[e.from] = append(adj[e.from], e.to)
	}
	// cycle detection
	state := map[*types.Var]int{}
	var stack []*types.Var
	var cyc []string
	var dfs func(v *types.Var)
	dfs = func(v *types.Var) {
		state[v] = 1
		stack = append(stack, v)
		for _, w := range adj[v] {
			if state[w] == 1 {
				var names []string
				for i := len(stack) - 1; i >= 0; i-- {
					names = append([]string{lockClassName(stack[i])}, names...)
					if stack[i] == w {
						break
					}
				}
				cyc = append(cyc, strings.Join(names, " -> ")+" -> "+lockClassName(w))
			} else if state[w] == 0 {
				dfs(w)
			}
		}
		stack = stack[:len(stack)-1]
		state[v] = 2
	}
	var classes []*types.Var
	for v := range adj {
		classes = append(classes, v)
	}
	sort.Slice(classes, func(i, j int) bool { return lockClassName(classes[i]) < lockClassName(classes[j]) })
	for _, v := range classes {
		if state[v] == 0 {
			dfs(v)
		}
	}
	for _, e := range es {
		if e.from == e.to {
			continue
		}
		inCycle := false
		for _, c := range cyc {
			if strings.Contains(c, lockClassName(e.from)+" -> "+lockClassName(e.to)) {
				inCycle = true
			}
		}
		key := "order|" + lockClassName(e.from) + "->" + lockClassName(e.to)
		in := edges[e]
		r.Check(!inCycle, "C20.R2", key, p.InstrPos(in), "edge of an acyclic lock order (first seen in "+model.FnName(in.Parent())+")", "lock-order cycle: "+strings.Join(cyc, "; "))
	}
	r.Count("lock_order_edges", len(es))

	// ---------------------------------------------------------------- R3
	r.Rule("C20.R3", "no blocking under lock: while logic.Group.mutex or logic.ServerManager.mutex may be held no channel send/receive outside a select with default, blocking select, time.Sleep, sync.WaitGroup.Wait, net.Dial*, or connection Flush is executed in lal or naza code (naza connection write path and nazalog are exempt: see assumptions)")
	nBlk := blockingUnderLock(p, may, r, "C20.R3")
	r.Count("blocking_sites_under_lock", nBlk)

	// ---------------------------------------------------------------- R4
	r.Rule("C20.R4", "lal never closes a channel (so no send on a closed channel is possible); naza closes only channels it alone sends on")
	nClose := 0
	for _, fn := range p.LalFuncs() {
		model.EachInstr(fn, func(in ssa.Instruction) {
			if c, ok := in.(*ssa.Call); ok {
				if b, isB := c.Call.Value.(*ssa.Builtin); isB && b.Name() == "close" {
					nClose++
					r.Bad("C20.R4", fkey(fn, "close", "chan"), p.InstrPos(in), "channel closed in lal code: every sender on it must be shown to have stopped first")
				}
			}
		})
	}
	if nClose == 0 {
		r.Ok("C20.R4", "lal|close|none", "", fmt.Sprintf("0 close() calls in %d lal functions", len(p.LalFuncs())))
	}
	c20Handoff(p, r)
	c20r6(p, r)
	w6StatFresh(p, r, "C20.R8")
	w6LockPairing(p, r, "C20.R7")
	w7WaitChanBuffered(p, r, "C20.R9")
	w8RtspSubStageGate(p, r, "C20.R10")
}

// blockingUnderLock reports every blocking primitive executed while Group.mutex or
// ServerManager.mutex may be held; returns the number of such sites.
func blockingUnderLock(p *model.Prog, may *lockAnalysis, r *report.Result, rule string) int {
	gm := p.Field("pkg/logic", "Group", "mutex")
	smm := p.Field("pkg/logic", "ServerManager", "mutex")
	nBlk := 0
	for _, fn := range may.fns {
		pk := model.FnPkg(fn)
		if pk != nil && (strings.HasSuffix(pk.Path(), "naza/pkg/nazalog")) {
			continue
		}
		model.EachInstr(fn, func(in ssa.Instruction) {
			what := ""
			switch x := in.(type) {
			case *ssa.Send:
				what = "channel send"
			case *ssa.UnOp:
				if x.Op == token.ARROW {
					what = "channel receive"
				}
			case *ssa.Select:
				if x.Blocking {
					what = "blocking select"
				}
			case ssa.CallInstruction:
				if _, isGo := in.(*ssa.Go); isGo {
					return
				}
				if _, isDefer := in.(*ssa.Defer); isDefer {
					return
				}
				if f := x.Common().StaticCallee(); f != nil && f.Pkg != nil {
					full := f.Pkg.Pkg.Path() + "." + f.Name()
					if f.Signature.Recv() != nil {
						full = f.Signature.Recv().Type().String() + "." + f.Name()
					}
					switch full {
					case "time.Sleep", "*sync.WaitGroup.Wait", "net.Dial", "net.DialTimeout", "*net.Dialer.Dial", "*net.Dialer.DialContext", "*sync.Cond.Wait", "net.DialUDP", "net.DialTCP":
						what = "call " + full
					}
				}
				if o := model.CalleeObj(x.Common()); o != nil && o.Name() == "Flush" && o.Pkg() != nil && strings.HasSuffix(o.Pkg().Path(), "naza/pkg/connection") {
					what = "connection.Flush"
				}
			}
			if what == "" {
				return
			}
			st, ok := may.at[in]
			if !ok {
				return
			}
			if !(st.m[gm] || st.m[smm]) {
				return
			}
			nBlk++
			r.Bad(rule, fkey(fn, "blocking", what), p.InstrPos(in), what+" while "+st.String()+" may be held: every session and API call of the stream (or the whole server) waits behind it")
		})
	}
	return nBlk
}

// isWriteAccess: the field access instruction is (part of) a mutation of the guarded object:
// a store through the field address, a map update / delete on the loaded map, a store into an
// element of the loaded slice.
func isWriteAccess(in ssa.Instruction) bool {
	v, ok := in.(ssa.Value)
	if !ok || v.Referrers() == nil {
		return false
	}
	var mutated func(x ssa.Value, d int) bool
	mutated = func(x ssa.Value, d int) bool {
		if d > 4 || x.Referrers() == nil {
			return false
		}
		for _, ref := range *x.Referrers() {
			switch y := ref.(type) {
			case *ssa.Store:
				if y.Addr == x {
					return true
				}
			case *ssa.MapUpdate:
				if y.Map == x {
					return true
				}
			case *ssa.UnOp:
				if y.Op == token.MUL && mutated(y, d+1) {
					return true
				}
			case *ssa.IndexAddr:
				if y.X == x && mutated(y, d+1) {
					return true
				}
			case *ssa.FieldAddr:
				if y.X == x && mutated(y, d+1) {
					return true
				}
			case *ssa.Call:
				if b, isB := y.Call.Value.(*ssa.Builtin); isB && b.Name() == "delete" && len(y.Call.Args) > 0 && y.Call.Args[0] == x {
					return true
				}
			}
		}
		return false
	}
	return mutated(v, 0)
}
