package rules

// Context refinements for the lock-set analysis. The VTA call graph is object-insensitive: a
// callback installed into one object is considered callable from every object of that type.
// Two ownership idioms are recognised, verified structurally, and then used to replace the
// object-insensitive dynamic in-edges of the callback:
//
//  (sync-arg)  a function value created in F and passed directly as an argument of a static
//              call whose callee only ever *calls* that parameter (never stores or forwards
//              it): the callback runs during the call, with the locks F holds at the call.
//  (owned)     a function value / observer interface created in a Group method and installed
//              into an object that is stored in (or already is) a guarded Group field X: the
//              callback runs only while some method of that object runs, and every method
//              call on group.X is a call site we can see; the object must not escape and its
//              type's code must not start goroutines.

import (
	"go/types"
	"strings"

	"golang.org/x/tools/go/ssa"

	"lalverif/internal/model"
)

type cbOverride struct {
	target *ssa.Function         // function whose dynamic in-edges are replaced
	sites  []ssa.CallInstruction // contributing call sites
	kind   string
	why    string
	owner  *types.Var // for "owned"
	pos    ssa.Instruction
}

// paramOnlyCalled reports whether parameter index pi of fn is only used in call position
// (directly, or after being ranged/indexed out of a variadic slice).
func paramOnlyCalled(fn *ssa.Function, pi int) bool {
	if fn == nil || pi >= len(fn.Params) {
		return false
	}
	seen := map[ssa.Value]bool{}
	var ok func(v ssa.Value) bool
	ok = func(v ssa.Value) bool {
		if seen[v] {
			return true
		}
		seen[v] = true
		refs := v.Referrers()
		if refs == nil {
			return true
		}
		for _, r := range *refs {
			switch x := r.(type) {
			case *ssa.DebugRef:
			case ssa.CallInstruction:
				if x.Common().Value == v {
					if _, isGo := r.(*ssa.Go); isGo {
						return false
					}
					continue // called
				}
				if b, isB := x.Common().Value.(*ssa.Builtin); isB && b.Name() == "len" {
					continue
				}
				return false // passed on
			case *ssa.Range, *ssa.Next, *ssa.Extract, *ssa.IndexAddr, *ssa.Index, *ssa.Phi, *ssa.Lookup:
				if !ok(x.(ssa.Value)) {
					return false
				}
			case *ssa.UnOp:
				if !ok(x) {
					return false
				}
			case *ssa.BinOp: // nil comparison
			case *ssa.If:
			default:
				return false
			}
		}
		return true
	}
	return ok(fn.Params[pi])
}

// argPositions finds the call instructions (in the same function) that receive v as an
// argument, looking through variadic slice packing; returns (call, param index).
func argPositions(v ssa.Value) (out []struct {
	call ssa.CallInstruction
	idx  int
}) {
	seen := map[ssa.Value]bool{}
	var walk func(x ssa.Value)
	walk = func(x ssa.Value) {
		if seen[x] || x.Referrers() == nil {
			return
		}
		seen[x] = true
		for _, r := range *x.Referrers() {
			switch y := r.(type) {
			case ssa.CallInstruction:
				for i, a := range y.Common().Args {
					if a == x {
						out = append(out, struct {
							call ssa.CallInstruction
							idx  int
						}{y, i})
					}
				}
			case *ssa.Store:
				if y.Val == x {
					if ia, ok := y.Addr.(*ssa.IndexAddr); ok {
						if al, ok := ia.X.(*ssa.Alloc); ok && al.Referrers() != nil {
							for _, r2 := range *al.Referrers() {
								if sl, ok := r2.(*ssa.Slice); ok {
									walk(sl)
								}
							}
						}
					}
				}
			case *ssa.ChangeType:
				walk(y)
			case *ssa.MakeInterface:
				walk(y)
			}
		}
	}
	walk(v)
	return
}

// ownerFieldOfCall decides which guarded Group field owns the object a call configures:
// the receiver is a load of group.X, or the call's result (through a chain of calls taking the
// previous result as receiver) is stored into group.X.
func ownerFieldOfCall(c ssa.CallInstruction, groupT *types.Named) *types.Var {
	if rv := receiver(c.Common()); rv != nil {
		if u, ok := rv.(*ssa.UnOp); ok {
			if _, isG := groupFieldPath(u.X, groupT); isG {
				return model.FieldOf(u.X)
			}
		}
	}
	v, ok := c.(*ssa.Call)
	if !ok {
		return nil
	}
	cur := ssa.Value(v)
	for i := 0; i < 6; i++ {
		refs := cur.Referrers()
		if refs == nil {
			return nil
		}
		var next ssa.Value
		for _, r := range *refs {
			switch y := r.(type) {
			case *ssa.Store:
				if y.Val == cur {
					if _, isG := groupFieldPath(y.Addr, groupT); isG {
						return model.FieldOf(y.Addr)
					}
				}
			case *ssa.Call:
				if rv := receiver(y.Common()); rv == cur {
					next = y
				}
			case *ssa.Extract:
				next = y
			}
		}
		if next == nil {
			return nil
		}
		cur = next
	}
	return nil
}

// groupMethodsOfIface lists the concrete (*Group) methods implementing iface.
func groupMethodsOfIface(p *model.Prog, groupT *types.Named, it *types.Interface) []*ssa.Function {
	var out []*ssa.Function
	for i := 0; i < it.NumMethods(); i++ {
		m := it.Method(i)
		obj, _, _ := types.LookupFieldOrMethod(types.NewPointer(groupT), true, groupT.Obj().Pkg(), m.Name())
		if f, ok := obj.(*types.Func); ok {
			if sf := p.SSA.FuncValue(f); sf != nil {
				out = append(out, sf)
			}
		}
	}
	return out
}

// callbackOverrides scans pkg/logic for the two idioms.
func callbackOverrides(p *model.Prog) []cbOverride {
	groupT := p.Named("pkg/logic", "Group")
	var out []cbOverride
	lal := p.LalFuncs()
	// receiver-call sites per Group field
	recvSites := map[*types.Var][]ssa.CallInstruction{}
	for _, fn := range lal {
		for _, ci := range model.AllCalls(fn) {
			rv := receiver(ci.Common())
			if u, ok := rv.(*ssa.UnOp); ok {
				if _, isG := groupFieldPath(u.X, groupT); isG {
					f := model.FieldOf(u.X)
					recvSites[f] = append(recvSites[f], ci)
				}
			}
		}
	}
	for _, fn := range lal {
		model.EachInstr(fn, func(in ssa.Instruction) {
			var v ssa.Value
			var targets []*ssa.Function
			switch x := in.(type) {
			case *ssa.MakeClosure:
				f, _ := x.Fn.(*ssa.Function)
				if f == nil {
					return
				}
				v, targets = x, []*ssa.Function{f}
			case *ssa.MakeInterface:
				pt, ok := x.X.Type().(*types.Pointer)
				if !ok {
					return
				}
				n, ok := pt.Elem().(*types.Named)
				if !ok || n.Obj() != groupT.Obj() {
					return
				}
				it, ok := x.Type().Underlying().(*types.Interface)
				if !ok {
					return
				}
				v, targets = x, groupMethodsOfIface(p, groupT, it)
			default:
				return
			}
			for _, ap := range argPositions(v) {
				callee := ap.call.Common().StaticCallee()
				if _, isGo := ap.call.(*ssa.Go); isGo {
					continue
				}
				// (sync-arg)
				if callee != nil && len(callee.Blocks) > 0 {
					pi := ap.idx
					if pi < len(callee.Params) && paramOnlyCalled(callee, pi) {
						for _, t := range targets {
							out = append(out, cbOverride{target: t, sites: []ssa.CallInstruction{ap.call}, kind: "sync-arg",
								why: "passed to " + model.FnName(callee) + " which only calls it", pos: in})
						}
						continue
					}
				}
				// (owned)
				if of := ownerFieldOfCall(ap.call, groupT); of != nil {
					for _, t := range targets {
						out = append(out, cbOverride{target: t, sites: recvSites[of], kind: "owned", owner: of,
							why: "installed into the object held by Group." + of.Name(), pos: in})
					}
				}
			}
		})
	}
	return out
}

// verifyOwned checks the side conditions of an (owned) override: the object held by the owner
// field does not escape (every load of the field is a call receiver, a nil comparison or
// dead), and no code of the object's package reachable from its methods starts a goroutine.
func verifyOwned(p *model.Prog, of *types.Var) (bool, string) {
	groupT := p.Named("pkg/logic", "Group")
	for _, fn := range p.LalFuncs() {
		bad := ""
		model.EachInstr(fn, func(in ssa.Instruction) {
			u, ok := in.(*ssa.UnOp)
			if !ok || model.FieldOf(u.X) != of {
				return
			}
			if _, isG := groupFieldPath(u.X, groupT); !isG {
				return
			}
			if u.Referrers() == nil {
				return
			}
			for _, r := range *u.Referrers() {
				switch y := r.(type) {
				case *ssa.DebugRef, *ssa.BinOp, *ssa.If:
				case ssa.CallInstruction:
					if receiver(y.Common()) != ssa.Value(u) {
						bad = "passed as an argument in " + model.FnName(fn)
					}
				case *ssa.MakeInterface:
					// only as a fmt/log variadic argument (stored into a local argument array)
					if y.Referrers() != nil {
						for _, r2 := range *y.Referrers() {
							st, isSt := r2.(*ssa.Store)
							if !isSt {
								bad = "converted to an interface and handed on in " + model.FnName(fn)
								continue
							}
							if ia, isIA := st.Addr.(*ssa.IndexAddr); !isIA {
								bad = "converted to an interface and stored in " + model.FnName(fn)
							} else if _, isLocal := ia.X.(*ssa.Alloc); !isLocal {
								bad = "converted to an interface and stored in " + model.FnName(fn)
							}
						}
					}
				default:
					bad = "used other than as a call receiver in " + model.FnName(fn)
				}
			}
		})
		if bad != "" {
			return false, bad
		}
	}
	// no goroutines in the owner's type's package methods
	t := of.Type()
	if pt, ok := t.(*types.Pointer); ok {
		t = pt.Elem()
	}
	n, ok := t.(*types.Named)
	if !ok {
		return false, "owner field is not a pointer to a named type"
	}
	for _, fn := range p.AllFuncs() {
		if model.FnPkg(fn) != n.Obj().Pkg() || len(fn.Blocks) == 0 {
			continue
		}
		tf := topFn(fn)
		if tf.Signature.Recv() == nil || !strings.Contains(tf.Signature.Recv().Type().String(), n.Obj().Name()) {
			continue
		}
		hasGo := false
		model.EachInstr(fn, func(in ssa.Instruction) {
			if _, isGo := in.(*ssa.Go); isGo {
				hasGo = true
			}
		})
		if hasGo {
			return false, "methods of " + n.Obj().Name() + " start goroutines"
		}
	}
	return true, "object does not escape; " + n.Obj().Name() + " starts no goroutines"
}
